import Casket.Model.Policy
import Casket.Spec.Policy
/-
Helper lemmas for C05 (selection part).
-/
namespace Casket.Policy

theorem availAt_lt {p : Pool} {i : Nat} (h : availAt p i = true) : i < p.length := by
  unfold availAt at h
  cases hi : p[i]? with
  | none => simp [hi] at h
  | some x =>
    have := List.getElem?_eq_some_iff.mp hi
    exact this.1

theorem any_avail_iff (p : Pool) : p.any Host.avail = true ↔ ∃ i, availAt p i = true := by
  constructor
  · intro h
    rw [List.any_eq_true] at h
    obtain ⟨x, hx, hax⟩ := h
    obtain ⟨i, hi, rfl⟩ := List.getElem_of_mem hx
    refine ⟨i, ?_⟩
    simp [availAt, List.getElem?_eq_getElem hi, hax]
  · rintro ⟨i, hi⟩
    have hlt := availAt_lt hi
    rw [List.any_eq_true]
    refine ⟨p[i], List.getElem_mem hlt, ?_⟩
    simpa [availAt, List.getElem?_eq_getElem hlt] using hi

/-! ### probe -/

theorem probe_sound {p : Pool} {is : List Nat} {i : Nat} (h : probe p is = some i) :
    i ∈ is ∧ availAt p i = true := by
  induction is with
  | nil => simp [probe] at h
  | cons j js ih =>
    unfold probe at h
    split at h
    · cases h; simp_all
    · have := ih h; simp_all

theorem probe_complete {p : Pool} {is : List Nat} (h : ∃ i ∈ is, availAt p i = true) :
    (probe p is).isSome = true := by
  induction is with
  | nil => simp at h
  | cons j js ih =>
    unfold probe
    split
    · rfl
    · rename_i hj
      apply ih
      obtain ⟨i, hi, ha⟩ := h
      rcases List.mem_cons.mp hi with rfl | hi
      · simp_all
      · exact ⟨i, hi, ha⟩

/-- `probe` returns the first available index of the sequence. -/
theorem probe_first {p : Pool} {is : List Nat} {i : Nat} (h : probe p is = some i) :
    ∃ pre post, is = pre ++ i :: post ∧ ∀ j ∈ pre, availAt p j = false := by
  induction is with
  | nil => simp [probe] at h
  | cons j js ih =>
    unfold probe at h
    split at h
    · cases h; exact ⟨[], js, rfl, by simp⟩
    · rename_i hj
      obtain ⟨pre, post, rfl, hpre⟩ := ih h
      refine ⟨j :: pre, post, rfl, ?_⟩
      intro k hk
      rcases List.mem_cons.mp hk with rfl | hk
      · simpa using hj
      · exact hpre k hk

/-- `probe` only looks at availability. -/
theorem probe_congr {p q : Pool} (is : List Nat) (h : ∀ i, availAt p i = availAt q i) :
    probe p is = probe q is := by
  induction is with
  | nil => rfl
  | cons j js ih => unfold probe; rw [h j, ih]

/-! ### probe sequences cover every slot -/

theorem mem_hashSeq {h n j : Nat} (hn : n ≤ 2147483648) (hj : j < n) : j ∈ hashSeq h n := by
  unfold hashSeq
  rw [List.mem_map]
  have hpos : 0 < n := by omega
  have hb : h % n < n := Nat.mod_lt _ hpos
  -- choose the offset that lands on j
  refine ⟨(j + n - h % n) % n, List.mem_range.mpr (Nat.mod_lt _ hpos), ?_⟩
  have hoff : (j + n - h % n) % n < n := Nat.mod_lt _ hpos
  have h32 : two32 = 4294967296 := rfl
  have hsmall : h % n + (j + n - h % n) % n < two32 := by omega
  rw [Nat.mod_eq_of_lt hsmall]
  by_cases hle : h % n ≤ j
  · have e : (j + n - h % n) = (j - h % n) + n := by omega
    rw [e, Nat.add_mod_right, Nat.mod_eq_of_lt (show j - h % n < n by omega)]
    have : h % n + (j - h % n) = j := by omega
    rw [this, Nat.mod_eq_of_lt hj]
  · have hlt : j + n - h % n < n := by omega
    rw [Nat.mod_eq_of_lt hlt]
    have : h % n + (j + n - h % n) = j + n := by omega
    rw [this, Nat.add_mod_right, Nat.mod_eq_of_lt hj]

theorem hashSeq_lt {h n j : Nat} (hj : j ∈ hashSeq h n) : j < n := by
  unfold hashSeq at hj
  rw [List.mem_map] at hj
  obtain ⟨i, hi, rfl⟩ := hj
  have : 0 < n := by have := List.mem_range.mp hi; omega
  exact Nat.mod_lt _ this

theorem rrNext_lt {robin n : Nat} (hn : 0 < n) : rrNext robin n < n := Nat.mod_lt _ hn

theorem rrNext_of_lt {r n : Nat} (hr : r < n) (hn : n < two32) : rrNext r n = (r + 1) % n := by
  unfold rrNext
  have h32 : two32 = 4294967296 := rfl
  rw [Nat.mod_eq_of_lt (show r + 1 < two32 by omega)]

/-- from a reduced counter `r < n`, `k ≤ n` steps visit `r+1, …, r+k` modulo `n` -/
theorem mem_rrSeq_of_lt {n : Nat} (hn : n < two32) :
    ∀ (k r j : Nat), r < n → j < n → (j + n - r - 1) % n < k → j ∈ rrSeq n r k := by
  intro k
  induction k with
  | zero => intro r j _ _ h; omega
  | succ k ih =>
    intro r j hr hj hd
    unfold rrSeq
    rw [List.mem_cons]
    have hpos : 0 < n := by omega
    by_cases h0 : (j + n - r - 1) % n = 0
    · left
      rw [rrNext_of_lt hr hn]
      -- j ≡ r + 1 (mod n)
      by_cases hlast : r + 1 = n
      · have : j + n - r - 1 = j := by omega
        rw [this, Nat.mod_eq_of_lt hj] at h0
        rw [hlast, Nat.mod_self]; exact h0
      · have hr1 : r + 1 < n := by omega
        rw [Nat.mod_eq_of_lt hr1]
        by_cases hjr : j ≥ r + 1
        · have e : j + n - r - 1 = (j - r - 1) + n := by omega
          rw [e, Nat.add_mod_right, Nat.mod_eq_of_lt (by omega)] at h0
          omega
        · have hlt : j + n - r - 1 < n := by omega
          rw [Nat.mod_eq_of_lt hlt] at h0
          omega
    · right
      have hr' : rrNext r n < n := rrNext_lt hpos
      apply ih (rrNext r n) j hr' hj
      rw [rrNext_of_lt hr hn]
      -- distance shrinks by one
      have hdpos : 0 < (j + n - r - 1) % n := Nat.pos_of_ne_zero h0
      by_cases hlast : r + 1 = n
      · rw [hlast, Nat.mod_self]
        have e1 : j + n - r - 1 = j := by omega
        rw [e1, Nat.mod_eq_of_lt hj] at hd hdpos
        have e2 : j + n - 0 - 1 = (j - 1) + n := by omega
        rw [e2, Nat.add_mod_right, Nat.mod_eq_of_lt (by omega)]
        omega
      · have hr1 : r + 1 < n := by omega
        rw [Nat.mod_eq_of_lt hr1]
        by_cases hjr : j ≥ r + 1
        · have e : j + n - r - 1 = (j - r - 1) + n := by omega
          rw [e, Nat.add_mod_right, Nat.mod_eq_of_lt (by omega)] at hd hdpos
          have e2 : j + n - (r + 1) - 1 = (j - r - 2) + n := by omega
          rw [e2, Nat.add_mod_right, Nat.mod_eq_of_lt (by omega)]
          omega
        · have hlt : j + n - r - 1 < n := by omega
          rw [Nat.mod_eq_of_lt hlt] at hd hdpos
          have hlt2 : j + n - (r + 1) - 1 < n := by omega
          rw [Nat.mod_eq_of_lt hlt2]
          omega

/-- one full scan of `n` steps from ANY 32-bit counter value visits every slot -/
theorem mem_rrSeq {n robin j : Nat} (hn0 : 0 < n) (hn : n < two32) (hj : j < n) :
    j ∈ rrSeq n robin n := by
  obtain ⟨m, rfl⟩ : ∃ m, n = m + 1 := ⟨n - 1, by omega⟩
  unfold rrSeq
  rw [List.mem_cons]
  have hr : rrNext robin (m + 1) < m + 1 := rrNext_lt hn0
  by_cases hj0 : j = rrNext robin (m + 1)
  · left; exact hj0
  · right
    apply mem_rrSeq_of_lt hn m _ j hr hj
    -- the distance from r to j is in [0, m]; it is not m (that would be j = r)
    have hd : (j + (m + 1) - rrNext robin (m + 1) - 1) % (m + 1) < m + 1 := Nat.mod_lt _ hn0
    by_cases hm : (j + (m + 1) - rrNext robin (m + 1) - 1) % (m + 1) = m
    · exfalso
      apply hj0
      generalize rrNext robin (m + 1) = r at *
      by_cases hjr : j ≥ r + 1
      · have e : j + (m + 1) - r - 1 = (j - r - 1) + (m + 1) := by omega
        rw [e, Nat.add_mod_right, Nat.mod_eq_of_lt (by omega)] at hm
        omega
      · have hlt : j + (m + 1) - r - 1 < m + 1 := by omega
        rw [Nat.mod_eq_of_lt hlt] at hm
        omega
    · omega

theorem rrGo_eq_probe (p : Pool) (n : Nat) : ∀ k robin, (rrGo p n robin k).1 = probe p (rrSeq n robin k) := by
  intro k
  induction k with
  | zero => intro robin; simp [rrGo, rrSeq, probe]
  | succ k ih =>
    intro robin
    unfold rrGo rrSeq probe
    simp only
    split
    · rfl
    · exact ih _

theorem rrSeq_lt {n : Nat} (hn : 0 < n) : ∀ k robin j, j ∈ rrSeq n robin k → j < n := by
  intro k
  induction k with
  | zero => intro _ _ h; simp [rrSeq] at h
  | succ k ih =>
    intro robin j h
    unfold rrSeq at h
    rcases List.mem_cons.mp h with rfl | h
    · exact rrNext_lt hn
    · exact ih _ _ h

/-- the new counter is the slot that was picked (or the last slot scanned) -/
theorem rrGo_counter (p : Pool) (n : Nat) : ∀ k robin i, (rrGo p n robin k).1 = some i → (rrGo p n robin k).2 = i := by
  intro k
  induction k with
  | zero => intro robin i h; simp [rrGo] at h
  | succ k ih =>
    intro robin i h
    unfold rrGo at h ⊢
    simp only at h ⊢
    split
    · rename_i ha; simp [ha] at h; exact h
    · rename_i ha; simp [ha] at h; exact ih _ _ h

end Casket.Policy

namespace Casket.Policy

/-! ### random (reservoir sampling) -/

theorem randomGo_sound : ∀ (hs : List Host) (i : Nat) (rs : List Nat) (count : Nat) (best : Option Nat) (j : Nat),
    randomGo hs i rs count best = some j →
    best = some j ∨ ∃ k h, hs[k]? = some h ∧ h.avail = true ∧ j = i + k := by
  intro hs
  induction hs with
  | nil => intro i rs count best j h; left; simpa [randomGo] using h
  | cons x xs ih =>
    intro i rs count best j h
    unfold randomGo at h
    split at h
    · rename_i hx
      rcases ih _ _ _ _ _ h with hb | ⟨k, y, hk, hy, rfl⟩
      · split at hb
        · cases hb; right; exact ⟨0, x, by simp, hx, by simp⟩
        · left; exact hb
      · right; exact ⟨k + 1, y, by simpa using hk, hy, by omega⟩
    · rcases ih _ _ _ _ _ h with hb | ⟨k, y, hk, hy, rfl⟩
      · left; exact hb
      · right; exact ⟨k + 1, y, by simpa using hk, hy, by omega⟩

theorem randomGo_complete : ∀ (hs : List Host) (i : Nat) (rs : List Nat) (count : Nat) (best : Option Nat),
    (count = 0 ∨ best.isSome = true) → (best.isSome = true ∨ ∃ h ∈ hs, h.avail = true) →
    (randomGo hs i rs count best).isSome = true := by
  intro hs
  induction hs with
  | nil => intro i rs count best _ h; rcases h with h | ⟨_, hm, _⟩ <;> simp_all [randomGo]
  | cons x xs ih =>
    intro i rs count best hinv h
    unfold randomGo
    split
    · apply ih
      · right
        split
        · rfl
        · rename_i hne
          rcases hinv with rfl | hb
          · exfalso; apply hne; simp [Nat.mod_one]
          · exact hb
      · left
        split
        · rfl
        · rename_i hne
          rcases hinv with rfl | hb
          · exfalso; apply hne; simp [Nat.mod_one]
          · exact hb
    · rename_i hx
      apply ih _ _ _ _ hinv
      rcases h with h | ⟨y, hy, hya⟩
      · left; exact h
      · rcases List.mem_cons.mp hy with rfl | hy
        · simp_all
        · right; exact ⟨y, hy, hya⟩

theorem availAt_of_getElem? {p : Pool} {k : Nat} {h : Host} (hk : p[k]? = some h) (ha : h.avail = true) :
    availAt p k = true := by simp [availAt, hk, ha]

theorem random_sound {p : Pool} {rs : List Nat} {j : Nat} (h : random p rs = some j) : availAt p j = true := by
  rcases randomGo_sound _ _ _ _ _ _ h with hb | ⟨k, y, hk, hy, rfl⟩
  · cases hb
  · simpa using availAt_of_getElem? hk hy

theorem random_complete {p : Pool} {rs : List Nat} (h : p.any Host.avail = true) : (random p rs).isSome = true := by
  apply randomGo_complete _ _ _ _ _ (Or.inl rfl)
  right
  simpa [List.any_eq_true] using h

/-! ### least_conn -/

/-- Invariant of the `LeastConn` scan after the hosts before position `i`:
`count = 0` iff nothing was picked yet; a picked host is available, carries `least` connections,
and no available host seen so far has fewer. -/
structure LeastInv (p : Pool) (i count least : Nat) (best : Option Nat) : Prop where
  none_iff : count = 0 → best = none ∧ least = maxInt64 ∧ ∀ k < i, availAt p k = false
  some_of : 0 < count → ∃ b, best = some b ∧ b < i ∧ availAt p b = true ∧ PolicySpec.connsAt p b = least
  least_le : 0 < count → ∀ k < i, availAt p k = true → least ≤ PolicySpec.connsAt p k

theorem leastGo_spec (p : Pool) (hmax : ∀ h ∈ p, h.conns ≤ maxInt64) :
    ∀ (hs : List Host) (i : Nat) (rs : List Nat) (count least : Nat) (best : Option Nat),
    p.drop i = hs → LeastInv p i count least best →
    ∃ count' least', LeastInv p p.length count' least' (leastGo hs i rs count least best) := by
  intro hs
  induction hs with
  | nil =>
    intro i rs count least best hd inv
    have hi : p.length ≤ i := by
      have := congrArg List.length hd; simp at this; omega
    refine ⟨count, least, ?_⟩
    unfold leastGo
    constructor
    · intro h0
      obtain ⟨a, b, c⟩ := inv.none_iff h0
      exact ⟨a, b, fun k hk => c k (by omega)⟩
    · intro hc
      obtain ⟨b, hb, hbi, hba, hbc⟩ := inv.some_of hc
      exact ⟨b, hb, availAt_lt hba, hba, hbc⟩
    · intro hc k _ hka
      exact inv.least_le hc k (by have := availAt_lt hka; omega) hka
  | cons x xs ih =>
    intro i rs count least best hd inv
    have hilt : i < p.length := by
      have := congrArg List.length hd; simp at this; omega
    have hxi : p[i]? = some x := by
      have := congrArg (fun l => l[0]?) hd
      simpa [List.getElem?_drop] using this
    have hd' : p.drop (i + 1) = xs := by
      have := congrArg List.tail hd
      simpa [List.tail_drop] using this
    have hconn : PolicySpec.connsAt p i = x.conns := by simp [PolicySpec.connsAt, hxi]
    have hxmax : x.conns ≤ maxInt64 := hmax x (List.mem_of_getElem? hxi)
    unfold leastGo
    by_cases hx : x.avail = true
    · have hav : availAt p i = true := availAt_of_getElem? hxi hx
      simp only [hx, if_true]
      by_cases hlt : x.conns < least
      · -- strictly better: restart the reservoir
        simp only [hlt, if_true]
        apply ih _ _ _ _ _ hd'
        constructor
        · intro h; omega
        · intro _
          refine ⟨i, by simp [Nat.mod_one], by omega, hav, hconn⟩
        · intro _ k hk hka
          by_cases hki : k = i
          · subst hki; omega
          · by_cases hc0 : count = 0
            · have := (inv.none_iff hc0).2.2 k (by omega); simp_all
            · have := inv.least_le (by omega) k (by omega) hka; omega
      · simp only [hlt, if_false]
        by_cases heq : x.conns = least
        · simp only [heq, if_true]
          apply ih _ _ _ _ _ hd'
          constructor
          · intro h; omega
          · intro _
            by_cases hpick : rs.headD 0 % (count + 1) = 0
            · simp only [hpick, if_true]
              exact ⟨i, rfl, by omega, hav, by omega⟩
            · simp only [hpick, if_false]
              have hcpos : 0 < count := by
                rcases Nat.eq_zero_or_pos count with h0 | h0
                · subst h0; simp [Nat.mod_one] at hpick
                · exact h0
              obtain ⟨b, hb, hbi, hba, hbc⟩ := inv.some_of hcpos
              exact ⟨b, hb, by omega, hba, hbc⟩
          · intro _ k hk hka
            by_cases hki : k = i
            · subst hki; omega
            · by_cases hc0 : count = 0
              · have := (inv.none_iff hc0).2.2 k (by omega); simp_all
              · exact inv.least_le (by omega) k (by omega) hka
        · simp only [heq, if_false]
          -- more loaded than the current best: skipped. count cannot be 0 here.
          have hcpos : 0 < count := by
            rcases Nat.eq_zero_or_pos count with h0 | h0
            · have := (inv.none_iff h0).2.1; omega
            · exact h0
          apply ih _ _ _ _ _ hd'
          constructor
          · intro h; omega
          · intro _
            obtain ⟨b, hb, hbi, hba, hbc⟩ := inv.some_of hcpos
            exact ⟨b, hb, by omega, hba, hbc⟩
          · intro _ k hk hka
            by_cases hki : k = i
            · subst hki; omega
            · exact inv.least_le hcpos k (by omega) hka
    · have hav : availAt p i = false := by simp [availAt, hxi, hx]
      simp only [hx]
      apply ih _ _ _ _ _ hd'
      constructor
      · intro h0
        obtain ⟨a, b, c⟩ := inv.none_iff h0
        refine ⟨a, b, fun k hk => ?_⟩
        by_cases hki : k = i
        · subst hki; exact hav
        · exact c k (by omega)
      · intro hc
        obtain ⟨b, hb, hbi, hba, hbc⟩ := inv.some_of hc
        exact ⟨b, hb, by omega, hba, hbc⟩
      · intro hc k hk hka
        by_cases hki : k = i
        · subst hki; simp_all
        · exact inv.least_le hc k (by omega) hka

theorem leastConn_spec (p : Pool) (rs : List Nat) (hmax : ∀ h ∈ p, h.conns ≤ maxInt64) :
    ∃ count least, LeastInv p p.length count least (leastConn p rs) := by
  apply leastGo_spec p hmax p 0 rs 0 maxInt64 none (by simp)
  constructor
  · intro _; exact ⟨rfl, rfl, fun k hk => by omega⟩
  · intro h; omega
  · intro h; omega

end Casket.Policy

namespace Casket.Policy

theorem leastGo_sound : ∀ (hs : List Host) (i : Nat) (rs : List Nat) (count least : Nat) (best : Option Nat) (j : Nat),
    leastGo hs i rs count least best = some j →
    best = some j ∨ ∃ k h, hs[k]? = some h ∧ h.avail = true ∧ j = i + k := by
  intro hs
  induction hs with
  | nil => intro i rs count least best j h; left; simpa [leastGo] using h
  | cons x xs ih =>
    intro i rs count least best j h
    unfold leastGo at h
    have lift : ∀ {b' : Option Nat}, (b' = some j ∨ ∃ k h, xs[k]? = some h ∧ h.avail = true ∧ j = i + 1 + k) →
        (b' = some j → best = some j ∨ (x.avail = true ∧ j = i)) →
        best = some j ∨ ∃ k h, (x :: xs)[k]? = some h ∧ h.avail = true ∧ j = i + k := by
      intro b' h1 h2
      rcases h1 with hb | ⟨k, y, hk, hy, rfl⟩
      · rcases h2 hb with hb | ⟨hx, rfl⟩
        · left; exact hb
        · right; exact ⟨0, x, by simp, hx, by simp⟩
      · right; exact ⟨k + 1, y, by simpa using hk, hy, by omega⟩
    have pickCase : ∀ {c l : Nat}, leastGo xs (i + 1) rs.tail (c + 1) l (if rs.headD 0 % (c + 1) = 0 then some i else best) = some j →
        x.avail = true → best = some j ∨ ∃ k h, (x :: xs)[k]? = some h ∧ h.avail = true ∧ j = i + k := by
      intro c l h hx
      refine lift (ih _ _ _ _ _ _ h) ?_
      intro hb
      split at hb
      · cases hb; right; exact ⟨hx, rfl⟩
      · left; exact hb
    by_cases hx : x.avail = true
    · simp only [hx, if_true] at h
      by_cases hlt : x.conns < least
      · simp only [hlt, if_true] at h
        exact pickCase h hx
      · simp only [hlt, if_false] at h
        by_cases heq : x.conns = least
        · simp only [heq, if_true] at h
          exact pickCase h hx
        · simp only [heq, if_false] at h
          exact lift (ih _ _ _ _ _ _ h) (fun hb => Or.inl hb)
    · simp only [hx] at h
      exact lift (ih _ _ _ _ _ _ h) (fun hb => Or.inl hb)

theorem leastConn_sound {p : Pool} {rs : List Nat} {j : Nat} (h : leastConn p rs = some j) : availAt p j = true := by
  rcases leastGo_sound _ _ _ _ _ _ _ h with hb | ⟨k, y, hk, hy, rfl⟩
  · cases hb
  · simpa using availAt_of_getElem? hk hy

theorem leastConn_complete {p : Pool} {rs : List Nat} (hmax : ∀ h ∈ p, h.conns ≤ maxInt64)
    (h : p.any Host.avail = true) : (leastConn p rs).isSome = true := by
  obtain ⟨count, least, inv⟩ := leastConn_spec p rs hmax
  rcases Nat.eq_zero_or_pos count with h0 | hpos
  · obtain ⟨i, hi⟩ := (any_avail_iff p).mp h
    have := (inv.none_iff h0).2.2 i (availAt_lt hi)
    simp_all
  · obtain ⟨b, hb, _⟩ := inv.some_of hpos
    simp [hb]

theorem leastConn_minimal {p : Pool} {rs : List Nat} (hmax : ∀ h ∈ p, h.conns ≤ maxInt64) {j : Nat}
    (h : leastConn p rs = some j) : ∀ k, availAt p k = true → PolicySpec.connsAt p j ≤ PolicySpec.connsAt p k := by
  obtain ⟨count, least, inv⟩ := leastConn_spec p rs hmax
  intro k hk
  rcases Nat.eq_zero_or_pos count with h0 | hpos
  · have := (inv.none_iff h0).1; simp_all
  · obtain ⟨b, hb, _, _, hbc⟩ := inv.some_of hpos
    have hjb : j = b := by rw [h] at hb; cases hb; rfl
    subst hjb
    have := inv.least_le hpos k (availAt_lt hk) hk
    omega

end Casket.Policy
