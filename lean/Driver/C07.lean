import Casket.Model.Reload
import Casket.Model.ReloadSource
import Casket.Spec.Reload
import Driver.Proto
/-
Streams of C07.
  c07.handover  S:<kind>  op op …     op = R:<kind> (reload) | T:<kind> (reload with a request in flight on address 1)
                                         | L:<kind> (reload while a request on address 1 outlives the graceful period)
     kinds: addresses served, e.g. 1, 12, 2, 21; suffix x = the configuration fails during setup, y = it fails while
            it is parsed; 3 = an address in use; optional /<spelling> = how the configuration is WRITTEN (i I g s m o, see
            Model/ReloadSource.lean) — the model writes it, loads what is written at the call and runs the machine on that;
            the judge sees the meaning only
     out = step|step|…   step = <res>;fd=<f1>.<f2>;sk=<s1>.<s2>;p=<m1>.<m2>;ni=<instances>[;mid=<m>][;str=<m>]
  c07.storm     recorded trace of a reload storm under concurrent clients (see harness/streams/c07.go)
-/
namespace Driver.C07
open Casket.Reload Casket.ReloadSpec

def busy : List Nat := [3]

def parseSpelling : String → Option Spelling
  | "i" => some .imported
  | "I" => some .importedKeepTime
  | "g" => some .glob
  | "s" => some .snippet
  | "m" => some .shared
  | "o" => some .layout
  | _ => none

def parseAddrs (s : String) : Option Cfg :=
  let cs := s.toList
  let (cs, x) := if cs.getLast? == some 'x' || cs.getLast? == some 'y' then (cs.dropLast, true) else (cs, false)
  if cs.isEmpty then none else
  if cs.all (fun c => c == '1' || c == '2' || c == '3') then
    some { addrs := cs.map fun c => c.toNat - '0'.toNat, failSetup := x }
  else none

def parseKind (s : String) : Option (Cfg × Spelling) :=
  match s.splitOn "/" with
  | [k] => (parseAddrs k).map fun c => (c, .inline)
  | [k, sp] => do pure (← parseAddrs k, ← parseSpelling sp)
  | _ => none

def parseHOp (s : String) : Option WOp :=
  let mk (k : HKind) : Option WOp := (parseKind (s.drop 2).toString).map fun p => { kind := k, cfg := p.1, sp := p.2 }
  if s.startsWith "R:" then mk .reload
  else if s.startsWith "T:" then mk .straddle
  else if s.startsWith "L:" then mk .longflight
  else none

def showObs (o : HObs) : String :=
  let base := s!"{o.res};fd={o.fd1}.{o.fd2};sk={o.sk1}.{o.sk2};p={o.p1}.{o.p2};ni={o.ni}"
  let base := match o.mid with | some m => s!"{base};mid={m}" | none => base
  match o.str with | some s => s!"{base};str={s}" | none => base

def parseCase : List String → Option (Cfg × Spelling × List WOp)
  | [] => none
  | s :: ops =>
    if !s.startsWith "S:" then none else
    match parseKind (s.drop 2).toString, ops.mapM parseHOp with
    | some (c, sp), some ws => if c.failSetup || c.addrs.contains 3 then none else some (c, sp, ws)
    | _, _ => none

def handoverModel (f : List String) : String :=
  match parseCase f with
  | none => "bad-case"
  | some (c, sp, ws) => "|".intercalate ((handoverRunW busy c sp ws).map showObs)

def stripPrefix (p s : String) : Option String :=
  if s.startsWith p then some (s.drop p.length).toString else none

def pair (s : String) : Option (String × String) :=
  match s.splitOn "." with
  | [a, b] => some (a, b)
  | _ => none

def parseObs (s : String) : Option HObs :=
  match s.splitOn ";" with
  | r :: fd :: sk :: p :: ni :: rest => do
    let (f1, f2) ← pair (← stripPrefix "fd=" fd)
    let (s1, s2) ← pair (← stripPrefix "sk=" sk)
    let (p1, p2) ← pair (← stripPrefix "p=" p)
    let ni ← (← stripPrefix "ni=" ni).toNat?
    let base : HObs := { res := r, fd1 := ← f1.toNat?, fd2 := ← f2.toNat?, sk1 := ← s1.toNat?, sk2 := ← s2.toNat?,
                         p1 := p1, p2 := p2, ni := ni, mid := none, str := none }
    match rest with
    | [] => pure base
    | [t] => pure { base with str := some (← stripPrefix "str=" t) }
    | [m, t] => pure { base with mid := some (← stripPrefix "mid=" m), str := some (← stripPrefix "str=" t) }
    | _ => none
  | _ => none

def handoverJudge (f : List String) (out : String) : String :=
  match parseCase f with
  | none => if out = "bad-case" then "ok" else "bad:malformed-case-accepted:" ++ out
  | some (c, _, ws) =>
    match (out.splitOn "|").mapM parseObs with
    | none => "bad:unparsable:" ++ out
    | some obs => verdict busy c (ws.map WOp.meaning) obs

/-! c07.storm  kinds  reloads  requests     (recorded by the generator from a run of the real code)
      reloads  = comma list of call:ret:gen:ok        requests = comma list of start:stop:answer   (answer - = failed)
      out      = reloads=<ok>/<all>;requests=<answered>/<all>                                          -/

def parseReload (s : String) : Option SReload :=
  match s.splitOn ":" with
  | [a, b, g, k] => do pure { call := ← a.toNat?, ret := ← b.toNat?, gen := ← g.toNat?, ok := k == "1" }
  | _ => none

def parseRequest (s : String) : Option SRequest :=
  match s.splitOn ":" with
  | [a, b, g] => do
    pure { start := ← a.toNat?, stop := ← b.toNat?, answer := ← (if g == "-" then some none else g.toNat?.map some) }
  | _ => none

def parseStorm : List String → Option (List SReload × List SRequest)
  | [_, rs, qs] => do
    let rs ← if rs = "" then some [] else (rs.splitOn ",").mapM parseReload
    let qs ← if qs = "" then some [] else (qs.splitOn ",").mapM parseRequest
    pure (rs, qs)
  | _ => none

def stormModel (f : List String) : String :=
  match parseStorm f with
  | none => "bad-case"
  | some (rs, qs) =>
    s!"reloads={(rs.filter (·.ok)).length}/{rs.length};requests={(qs.filter (·.answer.isSome)).length}/{qs.length}"

def stormJudge (f : List String) (_out : String) : String :=
  match parseStorm f with
  | none => "bad:unparsable:"
  | some (rs, qs) => stormVerdict rs qs


/-! c07.mixed  S:<servers>  R:<servers> …     servers = comma list of <kind t|u|b><address 1|2|3|9>, suffix x = setup fails
      out = step|step|…   step = <res>;1t=<fds>:<answers>;1u=…;2t=…;2u=…;3t=…;3u=…    answers = <gen>:<address> or - -/

def mixedBusy : List Nat := [18, 19]
def mixedCodes : List Nat := [2, 3, 4, 5, 6, 7]

def parseMSrv (s : String) : Option MSrv :=
  match s.toList with
  | [k, a] => do
    let kind ← (match k with | 't' => some MKind.t | 'u' => some MKind.u | 'b' => some MKind.b | _ => none)
    if a == '1' || a == '2' || a == '3' || a == '9' then some { kind := kind, addr := a.toNat - '0'.toNat } else none
  | _ => none

def parseMixedCfg (s : String) : Option (List MSrv × Bool) :=
  let (s, fail) := if s.endsWith "x" then ((s.dropEnd 1).toString, true) else (s, false)
  if s = "" then none else do
    let srvs ← (s.splitOn ",").mapM parseMSrv
    -- one server per address
    if (srvs.map (·.addr)).eraseDups.length != srvs.length then none else some (srvs, fail)

def parseMixedCase : List String → Option (Cfg × List Cfg)
  | [] => none
  | s :: ops =>
    if !s.startsWith "S:" then none else
    match parseMixedCfg (s.drop 2).toString, ops.mapM (fun o => if o.startsWith "R:" then parseMixedCfg (o.drop 2).toString else none) with
    | some (s0, f0), some rs =>
      if f0 || s0.any (·.addr == 9) then none
      else some (mixedCfg s0 false, rs.map fun r => mixedCfg r.1 r.2)
    | _, _ => none

def cellName (x : Nat) : String := s!"{x / 2}{if x % 2 == 0 then "t" else "u"}"

def showCell (x : Nat) (c : Nat × String) : String :=
  s!"{cellName x}={c.1}:{if c.2 == "-" then "-" else s!"{c.2}:{x / 2}"}"

def showMObs (o : MObs) : String :=
  ";".intercalate (o.res :: (mixedCodes.zip o.cells).map fun p => showCell p.1 p.2)

def mixedModel (f : List String) : String :=
  match parseMixedCase f with
  | none => "bad-case"
  | some (c0, cs) => "|".intercalate ((mixedRun mixedBusy mixedCodes c0 cs).map showMObs)

/-- an observed cell `<name>=<fds>:<answers>`: the answers must be a single `<gen>:<address>` with the address of the cell,
or `-`; anything else (two different answers, an answer of another address's server) is a misroute (second component) -/
def parseCell (x : Nat) (s : String) : Option ((Nat × String) × Bool) :=
  match s.splitOn "=" with
  | [n, v] =>
    if n != cellName x then none else
    match v.splitOn ":" with
    | [fd, "-"] => fd.toNat?.map fun k => ((k, "-"), false)
    | [fd, g, a] => do
      let k ← fd.toNat?
      if a == toString (x / 2) && g.toNat?.isSome then pure ((k, g), false) else pure ((k, v), true)
    | fd :: _ => fd.toNat?.map fun k => ((k, v), true)
    | _ => none
  | _ => none

def parseMObs (s : String) : Option MObs :=
  match s.splitOn ";" with
  | r :: cells =>
    if cells.length != mixedCodes.length then none else do
    let cs ← (mixedCodes.zip cells).mapM fun p => parseCell p.1 p.2
    pure { res := r, cells := cs.map (·.1), mis := cs.any (·.2) }
  | _ => none

def mixedJudge (f : List String) (out : String) : String :=
  match parseMixedCase f with
  | none => if out = "bad-case" then "ok" else "bad:malformed-case-accepted:" ++ out
  | some (c0, cs) =>
    match (out.splitOn "|").mapM parseMObs with
    | none => "bad:unparsable:" ++ out
    | some obs => mixedVerdict mixedBusy mixedCodes c0 cs obs

def streams : List Driver.Stream := [
  { name := "c07.handover", model := handoverModel, judge := handoverJudge },
  { name := "c07.storm", model := stormModel, judge := stormJudge },
  { name := "c07.mixed", model := mixedModel, judge := mixedJudge }
]

end Driver.C07
