import Driver.Proto
/- Streams of C07 (stub: not built yet). -/
namespace Driver.C07
def streams : List Driver.Stream := []
end Driver.C07
