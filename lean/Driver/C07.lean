import Casket.Model.Reload
import Casket.Spec.Reload
import Driver.Proto
/-
Streams of C07.
  c07.handover  S:<kind>  op op …     op = R:<kind> (reload) | T:<kind> (reload with a request in flight on address 1)
     kinds: addresses served, e.g. 1, 12, 2, 21; suffix x = the configuration fails during setup; 3 = an address in use
     out = step|step|…   step = <res>;fd=<f1>.<f2>;sk=<s1>.<s2>;p=<m1>.<m2>[;mid=<m>;str=<m>]
  c07.storm     recorded trace of a reload storm under concurrent clients (see harness/streams/c07.go)
-/
namespace Driver.C07
open Casket.Reload

def busy : List Nat := [3]

def parseKind (s : String) : Option Cfg :=
  let cs := s.toList
  let (cs, x) := if cs.getLast? == some 'x' then (cs.dropLast, true) else (cs, false)
  if cs.isEmpty then none else
  if cs.all (fun c => c == '1' || c == '2' || c == '3') then
    some { addrs := cs.map fun c => c.toNat - '0'.toNat, failSetup := x }
  else none

inductive HOp where
  | reload (c : Cfg)
  | straddle (c : Cfg)

def parseHOp (s : String) : Option HOp :=
  if s.startsWith "R:" then (parseKind (s.drop 2).toString).map .reload
  else if s.startsWith "T:" then (parseKind (s.drop 2).toString).map .straddle
  else none

def reloadHead (g : Nat) (m : M) (c : Cfg) : List Act :=
  [.begin g c, .setup] ++ List.replicate (c.addrs.length + 1) .listen ++ [.serve, .stopOld]
    ++ List.replicate m.cur.addrs.length .stop

/-- the marker a fresh connection to `a` gets right now (the accepting instance answers), `-` if refused -/
def probe (m : M) (a : Nat) : M × String :=
  let id := m.nextConn
  let g := if m.new.accepts a then m.new.gen else m.cur.gen
  let m' := run m [.connect a, .accept g a, .respond id]
  match m'.conns.find? (·.id == id) with
  | some c => (m', match c.answered with | some k => toString k | none => "hang")
  | none => (m', "-")

/-- socket identities renamed in order of first appearance -/
def rename (seen : List Nat) (m : M) (a : Nat) : List Nat × Nat :=
  if m.fds a = 0 then (seen, 0)
  else match seen.idxOf? (m.sock a) with
    | some i => (seen, i + 1)
    | none => (seen ++ [m.sock a], seen.length + 1)

def lastRes (before : Nat) (m : M) : String :=
  match (m.events.drop before).reverse.find? (fun e => match e with | .reloadOk _ => true | .reloadFailed => true | _ => false) with
  | some (.reloadOk _) => "ok"
  | some .reloadFailed => "err"
  | _ => "none"

def observe (seen : List Nat) (m : M) : M × List Nat × String :=
  let (seen, s1) := rename seen m 1
  let (seen, s2) := rename seen m 2
  let f1 := m.fds 1
  let f2 := m.fds 2
  let (m, p1) := probe m 1
  let (m, p2) := probe m 2
  (m, seen, s!"fd={f1}.{f2};sk={s1}.{s2};p={p1}.{p2}")

def runOps : Nat → List Nat → M → List HOp → List String
  | _, _, _, [] => []
  | g, seen, m, .reload c :: rest =>
    let before := m.events.length
    let m := run m (reloadHead g m c ++ [.finish])
    let res := lastRes before m
    let (m, seen, o) := observe seen m
    s!"{res};{o}" :: runOps (g + 1) seen m rest
  | g, seen, m, .straddle c :: rest =>
    let before := m.events.length
    let sid := m.nextConn
    let m := run m [.connect 1, .accept m.cur.gen 1]
    let connected := m.nextConn != sid
    let m := run m (reloadHead g m c)
    let (m, mid) := probe m 1
    let m := if connected then run m [.respond sid] else m
    let str := if !connected then "-" else match m.conns.find? (·.id == sid) with
      | some c => (match c.answered with | some k => toString k | none => "hang")
      | none => "-"
    let m := run m [.finish]
    let res := lastRes before m
    let (m, seen, o) := observe seen m
    s!"{res};{o};mid={mid};str={str}" :: runOps (g + 1) seen m rest

def handoverModel : List String → String
  | [] => "bad-case"
  | s :: ops =>
    if !s.startsWith "S:" then "bad-case" else
    match parseKind (s.drop 2).toString, ops.mapM parseHOp with
    | some c, some hops =>
      if c.failSetup || c.addrs.contains 3 then "bad-case" else
      let m := M.init busy c.addrs
      let (m, seen, o) := observe [] m
      "|".intercalate (s!"ok;{o}" :: runOps 2 seen m hops)
    | _, _ => "bad-case"

def streams : List Driver.Stream := [
  { name := "c07.handover", model := handoverModel, judge := fun _ _ => "ok" }
]

end Driver.C07
