/-
Line protocol helpers shared by every stream of the model driver.
One case per line, TAB separated; byte strings are lower-case hex ("-" = empty
is NOT used: the empty byte string is the empty field); naturals in decimal.
-/
namespace Driver

def hexVal (c : Char) : Option Nat :=
  if '0' ≤ c ∧ c ≤ '9' then some (c.toNat - '0'.toNat)
  else if 'a' ≤ c ∧ c ≤ 'f' then some (c.toNat - 'a'.toNat + 10)
  else if 'A' ≤ c ∧ c ≤ 'F' then some (c.toNat - 'A'.toNat + 10)
  else none

def unhexGo : List Char → List UInt8 → Option (List UInt8)
  | [], acc => some acc.reverse
  | [_], _ => none
  | a :: b :: rest, acc =>
    match hexVal a, hexVal b with
    | some x, some y => unhexGo rest (UInt8.ofNat (x * 16 + y) :: acc)
    | _, _ => none

/-- hex field → bytes -/
def unhex (s : String) : Option (List UInt8) := unhexGo s.toList []

def hexDigit (n : Nat) : Char :=
  if n < 10 then Char.ofNat ('0'.toNat + n) else Char.ofNat ('a'.toNat + n - 10)

/-- bytes → hex field -/
def hex (bs : List UInt8) : String :=
  String.ofList (bs.flatMap fun b => [hexDigit (b.toNat / 16), hexDigit (b.toNat % 16)])

def optNat : Option Nat → String
  | none => "-"
  | some n => toString n

def parseOptNat (s : String) : Option (Option Nat) :=
  if s = "-" then some none else s.toNat?.map some

def natList (s : String) : Option (List Nat) :=
  if s = "" then some [] else (s.splitOn ",").mapM String.toNat?

def showNatList (l : List Nat) : String := ",".intercalate (l.map toString)

def bits (s : String) : List Bool := s.toList.map (· == '1')

/-- A correspondence stream: the model's answer for a case and the property
judge for an observed implementation answer ("ok" or "bad:<class>:<why>"). -/
structure Stream where
  name  : String
  model : List String → String
  judge : List String → String → String

end Driver
