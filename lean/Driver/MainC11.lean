import Driver.Loop
import Driver.C11
/- model driver of property C11 -/
def main (args : List String) : IO Unit := Driver.run Driver.C11.streams args
