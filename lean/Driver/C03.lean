import Driver.Proto
/- Streams of C03 (stub: not built yet). -/
namespace Driver.C03
def streams : List Driver.Stream := []
end Driver.C03
