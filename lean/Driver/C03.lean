import Casket.Model.Chain
import Casket.Spec.Chain
import Casket.Spec.Cond
import Driver.C02
/-
Streams of C03.

  c03.chain  fs root casketfile prefix browse index directives method target acceptenc creds
     first six and method/target/acceptenc as in c02.serve
     directives  hex of lines:
         tryfiles <to…> [| except <p…>] [| without <w>]
         rewrite exact|substr|base <pattern> <to…>
         ext <.e…>
         basicauth <user> <pass> <res,res…> [<excl,excl…>]
         internal <path>
         proxy <from> <backend number>
         gzip                                   (no effect on decoded content)
       a `to` token is literal text in which `{path}` is the placeholder
     creds       hex of user:password ("" = no Authorization header)
     cond        (optional twelfth field) hex of conditions as in c02.cond
     out         as c02.serve, plus  U401  and  B TAB <backend number>; HEAD and conditional answers that
                 identify a file: C304 f | C200/CH200 - f d | C206/CH206 - f d a-b | C416 f|- | X f d in-<status>
-/
namespace Driver.C03
open Casket.Path Casket.FS Casket.FileServe Casket.Chain Driver.C02

def wordsOf (l : Bytes) : List Bytes := (splitOn 32 l).filter (· ≠ [])

/-- split literal text at the occurrences of `{path}` -/
def parseTemplate (b : Bytes) : Template :=
  let rec go (fuel : Nat) (b : Bytes) (acc : Bytes) : Template :=
    match fuel with
    | 0 => if acc = [] then [] else [.lit acc.reverse]
    | fuel + 1 =>
      match b with
      | [] => if acc = [] then [] else [.lit acc.reverse]
      | c :: rest =>
        if hasPrefix b (b! "{path}") then
          (if acc = [] then [] else [.lit acc.reverse]) ++ .origPath :: go fuel (b.drop 6) []
        else go fuel rest (c :: acc)
  go (b.length + 1) b []

def splitBar (ws : List Bytes) : List (List Bytes) :=
  ws.foldr (fun w acc => if w = [124] then [] :: acc else match acc with | [] => [[w]] | a :: r => (w :: a) :: r) [[]]

def commaList (b : Bytes) : List Bytes := if b = [] ∨ b = [45] then [] else splitOn 44 b

def applyDirective (defaultWithout : Bytes) (cs : ChainSite) (line : Bytes) : Option ChainSite :=
  match wordsOf line with
  | [] => some cs
  | d :: args =>
    if d = b! "tryfiles" then
      match splitBar args with
      | tos :: opts =>
        let base : TryFiles := {
          to := if tos = [] then [.origPath] :: Casket.Generated.defaultIndexPages.map (fun p => [.lit p]) else tos.map parseTemplate,
          except := if defaultWithout = [] then [b! "/.well-known"] else [b! "/.well-known", join2 defaultWithout (b! "/.well-known")],
          without := defaultWithout }
        let tf := opts.foldl (fun (tf : TryFiles) o =>
          match o with
          | k :: vs => if k = b! "except" then { tf with except := vs } else if k = b! "without" then { tf with without := vs.headD [] } else tf
          | [] => tf) base
        some { cs with tryfiles := some tf }
      | [] => none
    else if d = b! "rewrite" then
      match args with
      | k :: pat :: tos =>
        let to := tos.map parseTemplate
        if k = b! "exact" then some { cs with rewrites := cs.rewrites ++ [.exact pat to] }
        else if k = b! "substr" then some { cs with rewrites := cs.rewrites ++ [.substr pat to] }
        else if k = b! "base" then some { cs with rewrites := cs.rewrites ++ [.base pat to] }
        else none
      | _ => none
    else if d = b! "ext" then some { cs with exts := cs.exts ++ args }
    else if d = b! "basicauth" then
      match args with
      | [u, p, res] => some { cs with auth := cs.auth ++ [{ user := u, pass := p, resources := commaList res, excludes := [] }] }
      | [u, p, res, ex] => some { cs with auth := cs.auth ++ [{ user := u, pass := p, resources := commaList res, excludes := commaList ex }] }
      | _ => none
    else if d = b! "internal" then
      match args with
      | [p] => some { cs with internal := cs.internal ++ [p], site := { cs.site with hide := cs.site.hide ++ [p] } }
      | _ => none
    else if d = b! "proxy" then
      match args with
      | [f, n] => (parseNatBytes n).map fun id => { cs with proxies := cs.proxies ++ [(f, id)] }
      | _ => none
    else if d = b! "gzip" then some cs
    else none

structure Case where
  fs : FS
  cs : ChainSite
  req : CReq

def parseCase : List String → Option Case
  | [fsH, rootH, cfH, preH, brH, ixH, dirH, method, tgtH, aeH, credH, _cond] =>
    parseCase [fsH, rootH, cfH, preH, brH, ixH, dirH, method, tgtH, aeH, credH]
  | [fsH, rootH, cfH, preH, brH, ixH, dirH, method, tgtH, aeH, credH] => do
    let c ← Driver.C02.parseCase [fsH, rootH, cfH, preH, brH, ixH, method, tgtH, aeH]
    let dirs ← Driver.unhex dirH
    let cred ← Driver.unhex credH
    let cs0 : ChainSite := { site := c.site, tryfiles := none, rewrites := [], exts := [], auth := [], internal := [], proxies := [] }
    let defaultWithout := if c.site.pathPrefix = [slash] then [] else c.site.pathPrefix
    let cs ← (if dirs = [] then [] else splitOn 10 dirs).foldlM (applyDirective defaultWithout) cs0
    let creds := if cred = [] then none else
      let c3 := cut 58 cred
      some (c3.1, c3.2.1)
    pure { fs := c.fs, cs := cs, req := { method := c.method, target := c.target, acceptEncoding := c.ae, creds := creds } }
  | _ => none

def renderC (method : Bytes) : CResp → String
  | .served r => if method = mHEAD then (match r with | .file _ _ => "H200\t-" | _ => render method r) else render method r
  | .unauthorized => "U401"
  | .backend id => if method = mHEAD then "H200\t-" else s!"B\t{id}"

/-- the `cond` field (twelfth, optional): conditions as in c02.cond -/
def condOf (f : List String) : Option Casket.Cond.Cond :=
  match f with
  | [_, _, _, _, _, _, _, _, _, _, _, c] =>
    match Driver.unhex c with
    | some [] => none
    | some t => some (Driver.C02.parseCond t)
    | none => none
  | _ => none

open Casket.Cond in
/-- answers that identify a file through headers (HEAD, conditional, range): Content-Encoding is
left out (a site with the gzip directive announces it for anything) -/
def renderMeta (method : Bytes) : CondResp → String
  | .plain r => render method r
  | .notModified f => s!"C304\t{f}"
  | .full f _ d => (if method = mHEAD then "CH200" else "C200") ++ s!"\t-\t{f}\t{d}"
  | .part f _ d a b => (if method = mHEAD then "CH206" else "C206") ++ s!"\t-\t{f}\t{d}\t{a}-{b}"
  | .unsatisfiable (some f) => s!"C416\t{f}"
  | .unsatisfiable none => "C416\t-"
  | .explored f d => s!"X\t{f}\t{d}"

def noCond : Casket.Cond.Cond := { inm := [], ims := none, range := none, explored := false }

def chainModel (f : List String) : String :=
  match parseCase f with
  | none => "bad-case"
  | some c =>
    let resp := chainServe c.fs c.cs c.req
    let cond := condOf f
    match resp, finalUrl c.fs c.cs c.req with
    | .served (.file ino enc), some u =>
      renderMeta c.req.method (Casket.Cond.applyCond (cond.getD noCond) ino enc (Casket.Cond.resolvedIno c.fs c.cs.site u))
    | _, _ => renderC c.req.method resp

def parseObsC (out : String) : Option CResp :=
  if out = "U401" then some .unauthorized
  else match out.splitOn "\t" with
    | ["B", n] => n.toNat?.map CResp.backend
    | _ => (parseObs out).map CResp.served

/-- a metadata answer (HEAD, 304, 206, 416 …) is judged like content: every file its headers or
partial body identify counts as disclosed -/
def metaObs (out : String) : Option Casket.Cond.CondResp :=
  if out.startsWith "C" ∨ out.startsWith "X\t" then
    match Driver.C02.parseCondObs out with
    | some (.plain _) => none
    | o => o
  else none

def chainJudge (f : List String) (out : String) : String :=
  match parseCase f with
  | none => "bad:unparsable:case"
  | some c =>
    match metaObs out with
    | some cobs =>
      let vs := (Casket.CondSpec.mentioned cobs).map fun ino =>
        Casket.ChainSpec.verdict c.fs c.cs c.req (.served (.file ino none))
      (vs.find? (· ≠ "ok")).getD "ok"
    | none =>
      match parseObsC out with
      | none => "bad:unparsable:" ++ out
      | some obs => Casket.ChainSpec.verdict c.fs c.cs c.req obs

def streams : List Driver.Stream := [
  { name := "c03.chain", model := chainModel, judge := chainJudge }
]

end Driver.C03
