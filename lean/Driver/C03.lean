import Casket.Model.Chain
import Casket.Model.ChainAddrs
import Casket.Spec.Chain
import Casket.Spec.Cond
import Casket.Spec.Htpasswd
import Casket.Spec.AuthConc
import Casket.Spec.TplPool
import Driver.C02
/-
Streams of C03.

  c03.chain  fs root casketfile prefix browse index directives method target acceptenc creds
     first six and method/target/acceptenc as in c02.serve
     directives  hex of lines:
         tryfiles <to…> [| except <p…>] [| without <w>]
         rewrite exact|substr|base <pattern> <to…>
         ext <.e…>
         basicauth <user> <pass> <res,res…> [<excl,excl…>]
         internal <path>
         proxy <from> <backend number>
         gzip                                   (no effect on decoded content)
       a `to` token is literal text in which `{path}` is the placeholder
     creds       hex of user:password ("" = no Authorization header)
     cond        (optional twelfth field) hex of conditions as in c02.cond
     written     (optional 13th field, with cond present) hex of  "<host,host…>|<style>": the addresses of the server
                 block (each a site configuration of its own) and a number saying HOW the block is written
                 (harness/streams/c02common.go, st* bits: order of the directive lines, one-line or block form,
                 quoting …); the style is not part of the meaning, the model does not look at it
     host        (14th field) the address the request is sent to; the model's answer is the block's for each of them
     out         as c02.serve, plus  U401  and  B TAB <backend number>; HEAD and conditional answers that
                 identify a file: C304 f | C200/CH200 - f d | C206/CH206 - f d a-b | C416 f|- | X f d in-<status>
-/
namespace Driver.C03
open Casket.Path Casket.FS Casket.FileServe Casket.Chain Driver.C02

def wordsOf (l : Bytes) : List Bytes := (splitOn 32 l).filter (· ≠ [])

/-- split literal text at the occurrences of `{path}` -/
def parseTemplate (b : Bytes) : Template :=
  let rec go (fuel : Nat) (b : Bytes) (acc : Bytes) : Template :=
    match fuel with
    | 0 => if acc = [] then [] else [.lit acc.reverse]
    | fuel + 1 =>
      match b with
      | [] => if acc = [] then [] else [.lit acc.reverse]
      | c :: rest =>
        if hasPrefix b (b! "{path}") then
          (if acc = [] then [] else [.lit acc.reverse]) ++ .origPath :: go fuel (b.drop 6) []
        else go fuel rest (c :: acc)
  go (b.length + 1) b []

def splitBar (ws : List Bytes) : List (List Bytes) :=
  ws.foldr (fun w acc => if w = [124] then [] :: acc else match acc with | [] => [[w]] | a :: r => (w :: a) :: r) [[]]

def commaList (b : Bytes) : List Bytes := if b = [] ∨ b = [45] then [] else splitOn 44 b

def applyDirective (defaultWithout : Bytes) (cs : ChainSite) (line : Bytes) : Option ChainSite :=
  match wordsOf line with
  | [] => some cs
  | d :: args =>
    if d = b! "tryfiles" then
      match splitBar args with
      | tos :: opts =>
        let base : TryFiles := {
          to := if tos = [] then [.origPath] :: Casket.Generated.defaultIndexPages.map (fun p => [.lit p]) else tos.map parseTemplate,
          except := if defaultWithout = [] then [b! "/.well-known"] else [b! "/.well-known", join2 defaultWithout (b! "/.well-known")],
          without := defaultWithout }
        let tf := opts.foldl (fun (tf : TryFiles) o =>
          match o with
          | k :: vs => if k = b! "except" then { tf with except := vs } else if k = b! "without" then { tf with without := vs.headD [] } else tf
          | [] => tf) base
        some { cs with tryfiles := some tf }
      | [] => none
    else if d = b! "rewrite" then
      match args with
      | k :: pat :: tos =>
        let to := tos.map parseTemplate
        if k = b! "exact" then some { cs with rewrites := cs.rewrites ++ [.exact pat to] }
        else if k = b! "substr" then some { cs with rewrites := cs.rewrites ++ [.substr pat to] }
        else if k = b! "base" then some { cs with rewrites := cs.rewrites ++ [.base pat to] }
        else none
      | _ => none
    else if d = b! "ext" then some { cs with exts := cs.exts ++ args }
    else if d = b! "basicauth" then
      match args with
      | [u, p, res] => some { cs with auth := cs.auth ++ [{ user := u, pass := p, resources := commaList res, excludes := [] }] }
      | [u, p, res, ex] => some { cs with auth := cs.auth ++ [{ user := u, pass := p, resources := commaList res, excludes := commaList ex }] }
      | _ => none
    else if d = b! "internal" then
      match args with
      | [p] => some { cs with internal := cs.internal ++ [p], site := { cs.site with hide := cs.site.hide ++ [p] } }
      | _ => none
    else if d = b! "proxy" then
      match args with
      | [f, n] => (parseNatBytes n).map fun id => { cs with proxies := cs.proxies ++ [(f, id)] }
      | _ => none
    else if d = b! "gzip" then some cs
    else none

structure Case where
  fs : FS
  cs : ChainSite
  req : CReq

def parseCase : List String → Option Case
  | [fsH, rootH, cfH, preH, brH, ixH, dirH, method, tgtH, aeH, credH, _cond] =>
    parseCase [fsH, rootH, cfH, preH, brH, ixH, dirH, method, tgtH, aeH, credH]
  | [fsH, rootH, cfH, preH, brH, ixH, dirH, method, tgtH, aeH, credH] => do
    let c ← Driver.C02.parseCase [fsH, rootH, cfH, preH, brH, ixH, method, tgtH, aeH]
    let dirs ← Driver.unhex dirH
    let cred ← Driver.unhex credH
    let cs0 : ChainSite := { site := c.site, tryfiles := none, rewrites := [], exts := [], auth := [], internal := [], proxies := [] }
    let defaultWithout := if c.site.pathPrefix = [slash] then [] else c.site.pathPrefix
    let cs ← (if dirs = [] then [] else splitOn 10 dirs).foldlM (applyDirective defaultWithout) cs0
    let creds := if cred = [] then none else
      let c3 := cut 58 cred
      some (c3.1, c3.2.1)
    pure { fs := c.fs, cs := cs, req := { method := c.method, target := c.target, acceptEncoding := c.ae, creds := creds } }
  | _ => none

def renderC (method : Bytes) : CResp → String
  | .served r => if method = mHEAD then (match r with | .file _ _ => "H200\t-" | _ => render method r) else render method r
  | .unauthorized => "U401"
  | .backend id => if method = mHEAD then "H200\t-" else s!"B\t{id}"

/-- the `cond` field (twelfth, optional): conditions as in c02.cond -/
def condOf (f : List String) : Option Casket.Cond.Cond :=
  match f with
  | [_, _, _, _, _, _, _, _, _, _, _, c] =>
    match Driver.unhex c with
    | some [] => none
    | some t => some (Driver.C02.parseCond t)
    | none => none
  | _ => none

open Casket.Cond in
/-- answers that identify a file through headers (HEAD, conditional, range): Content-Encoding is
left out (a site with the gzip directive announces it for anything) -/
def renderMeta (method : Bytes) : CondResp → String
  | .plain r => render method r
  | .notModified f => s!"C304\t{f}"
  | .full f _ d => (if method = mHEAD then "CH200" else "C200") ++ s!"\t-\t{f}\t{d}"
  | .part f _ d a b => (if method = mHEAD then "CH206" else "C206") ++ s!"\t-\t{f}\t{d}\t{a}-{b}"
  | .unsatisfiable (some f) => s!"C416\t{f}"
  | .unsatisfiable none => "C416\t-"
  | .explored f d => s!"X\t{f}\t{d}"

def noCond : Casket.Cond.Cond := { inm := [], ims := none, range := none, explored := false }

/-- the addresses of the block and the one the request goes to (14-field cases) -/
def addrsOf (f : List String) : Option (List Bytes × Bytes) :=
  if f.length = 14 then
    match f[12]?, f[13]? with
    | some w, some host => (Driver.unhex w).map fun wb => (splitOn 44 (cut 124 wb).1, host.toUTF8.toList)
    | _, _ => none
  else none

/-- the site fields of a case: a 14-field case is its first twelve fields at one of the block's addresses -/
def siteFields (f : List String) : List String := if f.length = 14 then f.take 12 else f

def chainModel (f0 : List String) : String :=
  let f := siteFields f0
  match parseCase f with
  | none => "bad-case"
  | some c =>
    let resp := match addrsOf f0 with
      | none => chainServe c.fs c.cs c.req
      | some (addrs, host) => Casket.ChainAddrs.chainServeAt c.fs (Casket.ChainAddrs.configsOf addrs c.cs) host c.req
    let cond := condOf f
    match resp, finalUrl c.fs c.cs c.req with
    | .served (.file ino enc), some u =>
      renderMeta c.req.method (Casket.Cond.applyCond (cond.getD noCond) ino enc (Casket.Cond.resolvedIno c.fs c.cs.site u))
    | _, _ => renderC c.req.method resp

def parseObsC (out : String) : Option CResp :=
  if out = "U401" then some .unauthorized
  else match out.splitOn "\t" with
    | ["B", n] => n.toNat?.map CResp.backend
    | _ => (parseObs out).map CResp.served

/-- a metadata answer (HEAD, 304, 206, 416 …) is judged like content: every file its headers or
partial body identify counts as disclosed -/
def metaObs (out : String) : Option Casket.Cond.CondResp :=
  if out.startsWith "C" ∨ out.startsWith "X\t" then
    match Driver.C02.parseCondObs out with
    | some (.plain _) => none
    | o => o
  else none

def chainJudge (f0 : List String) (out : String) : String :=
  let f := siteFields f0
  match parseCase f with
  | none => "bad:unparsable:case"
  | some c =>
    if (match addrsOf f0 with | some (addrs, host) => !addrs.contains host | none => f0.length = 14) then
      "bad:unparsable:case names no address of the block"
    else
    match metaObs out with
    | some cobs =>
      let vs := (Casket.CondSpec.mentioned cobs).map fun ino =>
        Casket.ChainSpec.verdict c.fs c.cs c.req (.served (.file ino none))
      (vs.find? (· ≠ "ok")).getD "ok"
    | none =>
      match parseObsC out with
      | none => "bad:unparsable:" ++ out
      | some obs => Casket.ChainSpec.verdict c.fs c.cs c.req obs

/-! ### c03.multi : several sites with htpasswd files in one process, histories of loads

  c03.multi  sites  files  history  host  path  creds
     sites    hex of  host:root:file:user;…          (one-letter host labels)
     files    hex of  /abs/path=user:s|p:password,…[|next version of the file…];…   (s = {SHA} entry, p = plain entry)
     history  hex of  loads separated by `;`: [R][version digit]labels — host labels in Casketfile order,
              `R` = loaded while the previous instance is still running (reload), the digit = which version of the files is on disk at that load (default 1)
     out      N (no such site) | U401 | C TAB hex root | S<status>
-/
open Casket.Htpasswd in
def parseMSites (t : Bytes) : List SiteCfg :=
  (splitOn 59 t).filterMap fun it =>
    match splitOn 58 it with
    | [h, r, f, u] => some { host := h, root := r, file := f, user := u }
    | _ => none

open Casket.Htpasswd in
def parseMTable (t : Bytes) : Table :=
  (splitOn 44 t).filterMap fun e =>
    let a := cut 58 e
    let b := cut 58 a.2.1
    if !a.2.2 ∨ !b.2.2 then none
    else if b.1 = [115] then some (a.1, Secret.sha b.2.1) else some (a.1, Secret.plain b.2.1)

open Casket.Htpasswd in
/-- the files as they are at version `v`: a path with fewer versions keeps its last one (and its stamp) -/
def parseMFiles (t : Bytes) (v : Nat) : Files :=
  (splitOn 59 t).filterMap fun it =>
    let kv := cut 61 it
    if !kv.2.2 then none
    else
      let versions := splitOn 124 kv.2.1
      let i := if v > versions.length then versions.length else v
      some (clean kv.1, i, parseMTable (versions.getD (i - 1) []))

open Casket.Htpasswd in
def parseMHistory (sites : List SiteCfg) (filesTxt t : Bytes) : List Load :=
  (splitOn 59 t).map fun load =>
    let l1 := match load with | 82 :: r => r | l => l
    let (v, labels) := match l1 with
      | d :: r => if 49 ≤ d ∧ d ≤ 57 then (d.toNat - 48, r) else (1, l1)
      | [] => (1, [])
    (parseMFiles filesTxt v, labels.flatMap fun l => sites.filter (fun s => s.host = [l]))

structure MCase where
  hist : List Casket.Htpasswd.Load
  host : Bytes
  path : Bytes
  creds : Option (Bytes × Bytes)

def parseMCase : List String → Option MCase
  | [sH, fH, hH, host, pH, cH] => do
    let sites := parseMSites (← Driver.unhex sH)
    let cred ← Driver.unhex cH
    let c3 := cut 58 cred
    pure { hist := parseMHistory sites (← Driver.unhex fH) (← Driver.unhex hH),
           host := host.toUTF8.toList, path := ← Driver.unhex pH,
           creds := if cred = [] then none else some (c3.1, c3.2.1) }
  | _ => none

open Casket.Htpasswd in
def multiModel (f : List String) : String :=
  match parseMCase f with
  | none => "bad-case"
  | some c =>
    match serve [] c.hist c.host c.path c.creds with
    | .noSite => "N"
    | .unauthorized => "U401"
    | .content root => "C\t" ++ Driver.hex (clean root)

open Casket.Htpasswd in
def multiJudge (f : List String) (out : String) : String :=
  match parseMCase f with
  | none => "bad:unparsable:case"
  | some c =>
    let obs : Option Answer :=
      if out = "N" then some .noSite
      else if out = "U401" then some .unauthorized
      else match out.splitOn "\t" with
        | ["C", r] => (Driver.unhex r).map Answer.content
        | _ => none
    match obs, c.hist.getLast? with
    | some o, some last =>
      -- roots are compared in cleaned form
      let served := last.2.map fun s => { s with root := clean s.root }
      Casket.HtpasswdSpec.verdict last.1 served c.host c.path c.creds o
    | _, _ => "bad:unparsable:" ++ out

/-! ### c03.conc : concurrent requests with valid and with wrong credentials on one protected path

  c03.conc  kind  user  pass  wrong  goroutines  rounds
     kind        plain | sha | htplain | tworules     how the rule's password is configured (plain argument, htpasswd {SHA} / plain entry,
                 two rules on the same resource)
     user, pass  hex: the rule's credentials
     wrong       hex of  user:password,user:password,…   credentials that are NOT valid
     goroutines  so many goroutines present the valid credentials, as many more cycle through the wrong ones
     rounds      requests per goroutine (the phase also ends after 2 s)
     out         leak=<0|1> refused=<0|1>    some wrong-credential request was served / some valid one got 401
  EXPLORATION of schedules: the Go scheduler chooses the interleavings; the model's answer is the
  tally of `AuthConc.runSched` under maximal overlap, which by C03_conc_model_verdict_ok is the same
  for every schedule.
-/
structure ConcCase where
  rule : AuthRule
  calls : List Casket.AuthConc.Call

def parseConcCase : List String → Option ConcCase
  | [_kind, uH, pH, wH, g, _rounds] => do
    let u ← Driver.unhex uH
    let p ← Driver.unhex pH
    let w ← Driver.unhex wH
    let n ← g.toNat?
    let wrong : List Casket.AuthConc.Call := (if w = [] then [] else splitOn 44 w).map fun c =>
      let c3 := cut 58 c
      { user := c3.1, pw := c3.2.1 }
    pure { rule := { user := u, pass := p, resources := [b! "/secret"], excludes := [] },
           calls := (List.replicate n { user := u, pw := p }) ++ wrong }
  | _ => none

def renderObs (o : Casket.AuthConcSpec.Obs) : String :=
  s!"leak={if o.wrongServed = 0 then 0 else 1} refused={if o.validRefused = 0 then 0 else 1}"

open Casket.AuthConc in
def concModel (f : List String) : String :=
  match parseConcCase f with
  | none => "bad-case"
  | some c =>
    renderObs (Casket.AuthConcSpec.tally c.rule c.calls
      (runSched id c.rule c.calls (idleSlots c.calls) (overlapped c.calls.length)))

def concJudge (f : List String) (out : String) : String :=
  match parseConcCase f with
  | none => "bad:unparsable:case"
  | some _ =>
    match out.splitOn " " with
    | [l, r] =>
      match l.splitOn "=", r.splitOn "=" with
      | ["leak", a], ["refused", b] =>
        match a.toNat?, b.toNat? with
        | some a, some b => Casket.AuthConcSpec.verdict { wrongServed := a, validRefused := b }
        | _, _ => "bad:unparsable:" ++ out
      | _, _ => "bad:unparsable:" ++ out
    | _ => "bad:unparsable:" ++ out

/-! ### c03.tpl : a sequence of requests to one site with `templates` behind basicauth / internal

  c03.tpl  site  files  steps
     site    hex of lines:  basicauth <user> <pass> <res,res…> [<excl,…>] | internal <path> | templates <path> <.ext,.ext…>
     files   hex of  /path=item,item,…;…     item:  t<n> literal text with token n | i/path  {{.Include "/path"}}
             | x  an action that fails when executed | p  text that does not parse
     steps   hex of  /path creds;…           creds: user:password or `-`; GET, sent one after the other to the same site
     out     one  <status>:<elements>  per step, space separated; elements `.`-separated: token numbers, `{` per raw action
  Request paths and include names are canonical rooted URLs and request paths have an extension
  (anything else is outside the model: bad-case).  The model runs the sequence against an explicit
  pool, every request drawing the buffer put back last (what sync.Pool does for sequential
  requests); by C03_tpl_pool_unobservable any other choice gives the same answer.
-/
open Casket.TplPool in
def parseItem (b : Bytes) : Option Casket.TplPool.Item :=
  match b with
  | 116 :: n => (parseNatBytes n).map Casket.TplPool.Item.lit
  | 105 :: p => if p.head? = some slash ∧ clean p = p then some (.incl p) else none
  | [120] => some .fail
  | [112] => some .malformed
  | _ => none

open Casket.TplPool in
def parseTSite (siteT filesT : Bytes) : Option TSite := do
  let s0 : TSite := { auth := [], internal := [], rules := [], files := [] }
  let s ← (splitOn 10 siteT).foldlM (fun (s : TSite) line =>
    match wordsOf line with
    | [] => some s
    | d :: args =>
      if d = b! "basicauth" then
        match args with
        | [u, p, res] => some { s with auth := s.auth ++ [{ user := u, pass := p, resources := commaList res, excludes := [] }] }
        | [u, p, res, ex] => some { s with auth := s.auth ++ [{ user := u, pass := p, resources := commaList res, excludes := commaList ex }] }
        | _ => none
      else if d = b! "internal" then
        match args with
        | [p] => some { s with internal := s.internal ++ [p] }
        | _ => none
      else if d = b! "templates" then
        match args with
        | [p, exts] => some { s with rules := s.rules ++ [{ path := p, exts := commaList exts }] }
        | _ => none
      else none) s0
  let files ← (if filesT = [] then [] else splitOn 59 filesT).mapM fun f =>
    let kv := cut 61 f
    if !kv.2.2 ∨ kv.1.head? ≠ some slash ∨ clean kv.1 ≠ kv.1 then none
    else ((if kv.2.1 = [] then [] else splitOn 44 kv.2.1).mapM parseItem).map fun items => (kv.1, items)
  pure { s with files := files }

open Casket.TplPool in
def parseTSteps (t : Bytes) : Option (List TReq) :=
  (if t = [] then [] else splitOn 59 t).mapM fun st =>
    match wordsOf st with
    | [p, c] =>
      if p.head? ≠ some slash ∨ clean p ≠ p ∨ pathExt p = [] then none
      else
        let c3 := cut 58 c
        some { path := p, creds := if c = [45] then none else some (c3.1, c3.2.1) }
    | _ => none

def parseTCase : List String → Option (Casket.TplPool.TSite × List Casket.TplPool.TReq)
  | [sH, fH, stH] => do
    let s ← parseTSite (← Driver.unhex sH) (← Driver.unhex fH)
    let steps ← parseTSteps (← Driver.unhex stH)
    pure (s, steps)
  | _ => none

def tplFuel : Nat := 400

open Casket.TplPool in
def renderT : TResp → String
  | .unauthorized => "401:"
  | .notFound => "404:"
  | .error => "500:"
  | .rendered out => "200:" ++ ".".intercalate (out.map toString)
  | .raw src => "200:" ++ ".".intercalate (src.map fun | .lit t => toString t | _ => "{")

open Casket.TplPool in
def tplModel (f : List String) : String :=
  match parseTCase f with
  | none => "bad-case"
  | some (s, steps) => " ".intercalate ((run true tplFuel s [] (lifo steps)).map renderT)

def tplJudge (f : List String) (out : String) : String :=
  match parseTCase f with
  | none => "bad:unparsable:case"
  | some (s, steps) =>
    let parts := out.splitOn " "
    let toks : List (Option (List Nat)) := parts.map fun p =>
      match p.splitOn ":" with
      | [st, els] => if st.toNat?.isSome then some ((els.splitOn ".").filterMap String.toNat?) else none
      | _ => none
    if parts.length ≠ steps.length ∨ toks.any Option.isNone then "bad:unparsable:" ++ out
    else Casket.TplPoolSpec.verdict tplFuel s (steps.zip (toks.map fun t => t.getD []))

def streams : List Driver.Stream := [
  { name := "c03.chain", model := chainModel, judge := chainJudge },
  { name := "c03.multi", model := multiModel, judge := multiJudge },
  { name := "c03.conc", model := concModel, judge := concJudge },
  { name := "c03.tpl", model := tplModel, judge := tplJudge }
]

end Driver.C03
