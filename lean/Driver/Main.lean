import Driver.Proto
import Driver.C01
import Driver.C02
import Driver.C03
import Driver.C04
import Driver.C05
import Driver.C06
import Driver.C07
import Driver.C08
import Driver.C09
import Driver.C10
import Driver.C11
import Driver.C12
import Driver.C13
import Driver.C14
import Driver.C15
import Driver.C16
import Driver.C17
import Driver.C18
import Driver.C19
import Driver.C20
/-
modeldriver model  < cases.in      → one model answer per line
modeldriver judge  < joined.in     → one verdict per line; joined line = case fields, TAB "=>" TAB impl answer
-/
open Driver

def allStreams : List Stream :=
  Driver.C01.streams ++ Driver.C02.streams ++ Driver.C03.streams ++ Driver.C04.streams ++ Driver.C05.streams ++ Driver.C06.streams ++ Driver.C07.streams ++ Driver.C08.streams ++ Driver.C09.streams ++ Driver.C10.streams ++ Driver.C11.streams ++ Driver.C12.streams ++ Driver.C13.streams ++ Driver.C14.streams ++ Driver.C15.streams ++ Driver.C16.streams ++ Driver.C17.streams ++ Driver.C18.streams ++ Driver.C19.streams ++ Driver.C20.streams

def findStream (n : String) : Option Stream := allStreams.find? (·.name == n)

def splitAtArrow : List String → List String → List String × List String
  | [], acc => (acc.reverse, [])
  | "=>" :: rest, acc => (acc.reverse, rest)
  | x :: rest, acc => splitAtArrow rest (x :: acc)

def stripNl (s : String) : String :=
  let s := if s.endsWith "\n" then (s.dropEnd 1).toString else s
  if s.endsWith "\r" then (s.dropEnd 1).toString else s

def handle (mode : String) (line : String) : String :=
  match (stripNl line).splitOn "\t" with
  | [] => "bad-line"
  | name :: fields =>
    match findStream name with
    | none => "unknown-stream"
    | some st =>
      if mode == "judge" then
        let (cf, out) := splitAtArrow fields []
        st.judge cf ("\t".intercalate out)
      else st.model fields

partial def loop (mode : String) (h : IO.FS.Stream) (out : IO.FS.Stream) : IO Unit := do
  let line ← h.getLine
  if line.isEmpty then return ()
  out.putStrLn (handle mode line)
  loop mode h out

def main (args : List String) : IO Unit := do
  let mode := args.headD "model"
  let stdin ← IO.getStdin
  let stdout ← IO.getStdout
  loop mode stdin stdout
  stdout.flush
