import Driver.Proto
import Driver.C05
/-
modeldriver model  < cases.in      → one model answer per line
modeldriver judge  < joined.in     → one verdict per line; joined line = case fields, TAB "=>" TAB impl answer
-/
open Driver

def allStreams : List Stream := Driver.C05.streams

def findStream (n : String) : Option Stream := allStreams.find? (·.name == n)

def splitAtArrow : List String → List String → List String × List String
  | [], acc => (acc.reverse, [])
  | "=>" :: rest, acc => (acc.reverse, rest)
  | x :: rest, acc => splitAtArrow rest (x :: acc)

def stripNl (s : String) : String :=
  let s := if s.endsWith "\n" then (s.dropEnd 1).toString else s
  if s.endsWith "\r" then (s.dropEnd 1).toString else s

def handle (mode : String) (line : String) : String :=
  match (stripNl line).splitOn "\t" with
  | [] => "bad-line"
  | name :: fields =>
    match findStream name with
    | none => "unknown-stream"
    | some st =>
      if mode == "judge" then
        let (cf, out) := splitAtArrow fields []
        st.judge cf ("\t".intercalate out)
      else st.model fields

partial def loop (mode : String) (h : IO.FS.Stream) (out : IO.FS.Stream) : IO Unit := do
  let line ← h.getLine
  if line.isEmpty then return ()
  out.putStrLn (handle mode line)
  loop mode h out

def main (args : List String) : IO Unit := do
  let mode := args.headD "model"
  let stdin ← IO.getStdin
  let stdout ← IO.getStdout
  loop mode stdin stdout
  stdout.flush
