import Driver.Loop
import Driver.C05
/- model driver of property C05 -/
def main (args : List String) : IO Unit := Driver.run Driver.C05.streams args
