import Driver.Loop
import Driver.C10
/- model driver of property C10 -/
def main (args : List String) : IO Unit := Driver.run Driver.C10.streams args
