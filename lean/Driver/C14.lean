import Driver.Proto
/- Streams of C14 (stub: not built yet). -/
namespace Driver.C14
def streams : List Driver.Stream := []
end Driver.C14
