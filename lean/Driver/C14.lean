import Casket.Model.Accounting
import Casket.Spec.Accounting
import Driver.Proto
/-
Streams of C14.
  c14.sched  nHosts maxConns maxFails expiry unhealthyBits nThreads events retry [layout]
     layout  how the upstream block is written (not read here)
     retry   1 = try_duration > 0: a failed request goes back to selecting
     expiry  0 failures not counted (fail_timeout 0) | 1 counted, never expiring within the run | 2 counted, expiring at once
             | 3 counted, the event `w` waits for the oldest outstanding failure to expire
     events  comma list of  t:x | w | c:t (the client of request t goes away) | hc:m (one health-check pass; bit h of m set = backend h fails its probe)   where  t:x   (thread t runs to its next blocking point; x = preferred backend / outcome code)
     out   = snapshots joined by ";" :  label|conns|fails|inflight|unhealthyBits   (lists joined by ",")
             label = sel:h none fwd:h lost:h fin:h:o noop final      o = ok err cancel big panic
-/
namespace Driver.C14
open Casket.Accounting Casket.AccountingSpec

def parseExpiry : String → Option Expiry
  | "0" => some .off
  | "1" => some .never
  | "2" => some .immediate
  | "3" => some .delayed
  | _ => none

def parseEvent (s : String) : Option (Nat × Nat) :=
  match s.splitOn ":" with
  | ["c", t] => do pure (cancelMark + (← t.toNat?), 0)
  | ["hc", m] => do pure (healthMark, ← m.toNat?)
  | [t, x] => do pure (← t.toNat?, ← x.toNat?)
  | ["w"] => some (waitMark, 0)
  | _ => none

structure Case where
  cfg : Cfg
  ex : Expiry
  nThreads : Nat
  events : List (Nat × Nat)

def parseCase8 : List String → Option Case
  | [n, mc, mf, ex, unh, nt, evs, retry] => do
    let ex ← parseExpiry ex
    let events ← if evs = "" then some [] else (evs.splitOn ",").mapM parseEvent
    pure { cfg := { nHosts := ← n.toNat?, maxConns := ← mc.toNat?, maxFails := ← mf.toNat?,
                    countFails := ex != .off, unhealthy := Driver.bits unh, retry := retry == "1" },
           ex := ex, nThreads := ← nt.toNat?, events := events }
  | _ => none

/-- a ninth field says how the upstream block is WRITTEN (backends on the directive line / on `upstream` lines, order of
the lines); the model and the judge take the block's meaning, so the field is not read -/
def parseCase (f : List String) : Option Case :=
  if f.length = 9 then parseCase8 (f.take 8) else parseCase8 f

def showOutcome : Outcome → String
  | .ok => "ok" | .err => "err" | .cancel => "cancel" | .tooLarge => "big" | .panic => "panic"

def showLabel : Label → String
  | .sel h => s!"sel:{h}"
  | .none => "none"
  | .fwd h => s!"fwd:{h}"
  | .lost h => s!"lost:{h}"
  | .fin h o => s!"fin:{h}:{showOutcome o}"
  | .noop => "noop"
  | .exp h => s!"exp:{h}"
  | .hc flags => "hc:" ++ String.ofList (flags.map fun b => if b then '1' else '0')
  | .final => "final"

def showInts (l : List Int) : String := ",".intercalate (l.map toString)

def showSnap (s : Snap) : String :=
  showLabel s.label ++ "|" ++ showInts s.conns ++ "|" ++ showInts s.fails ++ "|" ++ Driver.showNatList s.inflight
    ++ "|" ++ String.ofList (s.unhealthy.map fun b => if b then '1' else '0')

def schedModel (f : List String) : String :=
  match parseCase f with
  | none => "bad-case"
  | some c => ";".intercalate ((replay c.cfg c.ex (State.init c.cfg c.nThreads) [] [] c.events).map showSnap)

def parseIntD (s : String) : Option Int :=
  if s.startsWith "-" then (s.drop 1).toNat?.map fun n => -(n : Int) else s.toNat?.map fun n => (n : Int)

def parseInts (s : String) : Option (List Int) :=
  if s = "" then some [] else (s.splitOn ",").mapM parseIntD

def parseOutcome : String → Option Outcome
  | "ok" => some .ok | "err" => some .err | "cancel" => some .cancel | "big" => some .tooLarge | "panic" => some .panic
  | _ => none

def parseLabel (s : String) : Option Label :=
  match s.splitOn ":" with
  | ["sel", h] => h.toNat?.map .sel
  | ["none"] => some .none
  | ["fwd", h] => h.toNat?.map .fwd
  | ["lost", h] => h.toNat?.map .lost
  | ["fin", h, o] => do pure (.fin (← h.toNat?) (← parseOutcome o))
  | ["noop"] => some .noop
  | ["exp", h] => h.toNat?.map .exp
  | ["hc", bits] => some (.hc (Driver.bits bits))
  | ["final"] => some .final
  | _ => none

def parseSnap (s : String) : Option Snap :=
  match s.splitOn "|" with
  | [l, c, f, i, u] => do
    pure { label := ← parseLabel l, conns := ← parseInts c, fails := ← parseInts f, inflight := ← Driver.natList i,
           unhealthy := Driver.bits u }
  | _ => none

def schedJudge (f : List String) (out : String) : String :=
  if out.startsWith "rule-applied-" then
    "bad:rule-reapplied:a request that lost its slot and selected again was forwarded with a header_upstream + rule applied more than once (C04)" else
  let parts := out.splitOn ";"
  let stuck := parts.getLast?.map (·.startsWith "stuck") == some true
  let parts := if stuck then parts.dropLast else parts
  match parseCase f, parts.mapM parseSnap with
  | some c, some snaps =>
    -- a run that got stuck has no final snapshot; judge what was observed up to there first
    let v := verdict c.cfg c.ex snaps
    if v != "ok" then v
    else if stuck then "bad:stuck:a request neither reached its next Select nor ended (" ++ (out.drop (out.length - 30)).toString ++ ")"
    else "ok"
  | _, _ => "bad:unparsable:" ++ out

/-
  c14.expiry  scenario(single|retry) failTimeoutMs lateMs
     out = three probes "fails/d|u" joined by ","  (at recording+100ms, recording+fail_timeout-150ms, recording+fail_timeout+250ms)
-/
def showProbe (p : Int × Bool) : String := toString p.1 ++ (if p.2 then "d" else "u")

def expiryModel : List String → String
  | [sc, ft, late] =>
    match ft.toNat?, late.toNat? with
    | some ft, some late =>
      match expiryScenario (sc == "retry") ft late with
      | some ps => ",".intercalate (ps.map showProbe)
      | none => "model-stuck"
    | _, _ => "bad-case"
  | _ => "bad-case"

def parseProbe (s : String) : Option (Int × Bool) :=
  if s.endsWith "d" then (parseIntD (s.dropEnd 1).toString).map (·, true)
  else if s.endsWith "u" then (parseIntD (s.dropEnd 1).toString).map (·, false)
  else none

def expiryJudge (_f : List String) (out : String) : String :=
  match (out.splitOn ",").mapM parseProbe with
  | some ps => verdictExpiry ps
  | none => "bad:unparsable:" ++ out

def streams : List Driver.Stream := [
  { name := "c14.expiry", model := expiryModel, judge := expiryJudge },
  { name := "c14.sched", model := schedModel, judge := schedJudge }
]

end Driver.C14
