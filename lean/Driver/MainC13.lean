import Driver.Loop
import Driver.C13
/- model driver of property C13 -/
def main (args : List String) : IO Unit := Driver.run Driver.C13.streams args
