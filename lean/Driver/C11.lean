import Driver.Proto
/- Streams of C11 (stub: not built yet). -/
namespace Driver.C11
def streams : List Driver.Stream := []
end Driver.C11
