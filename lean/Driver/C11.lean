import Casket.Model.Dispenser
import Casket.Model.Parser
import Casket.Model.ExecSetup
import Casket.Spec.Dispenser
import Casket.Spec.HtCacheLock
import Casket.Model.UpstreamAddr
import Driver.Proto
/-
Streams of C11.
  c11.disp   tokens  ops     tokens = comma list file:line:texthex; ops = string over n a l b B r 2 v i f N
             out = per-op results joined by ";" then "|" Val ":" Line ":" Nesting
  c11.setup  directive confighex    out = total | PANIC:… | TIMEOUT:… | DISAGREE:…   (search; the model's answer is "total")
  c11.upstream addrhex        the real proxy.parseUpstream; out = err | h:<count>:<first hex>:<last hex> | PANIC:…
  c11.reload directive confighex ops   the same configuration loaded several times while its files change; out as c11.setup (search)
-/
namespace Driver.C11
open Casket.Lexer Casket.Dispenser

def parseTok (s : String) : Option Token :=
  match s.splitOn ":" with
  | [f, l, h] => do pure ⟨f, ← l.toNat?, ← Driver.unhex h⟩
  | _ => none

def parseToks (s : String) : Option (List Token) :=
  if s = "" then some [] else (s.splitOn ",").mapM parseTok

def b01 (b : Bool) : String := if b then "1" else "0"

def showInt (i : Int) : String := if i < 0 then "-" ++ toString i.natAbs else toString i.toNat

/-- one method call: printed result and new state -/
def step (d : Disp) (op : Char) : Option String × Disp :=
  match op with
  | 'n' => let r := d.next; (some (b01 r.1), r.2)
  | 'a' => let r := d.nextArg; (some (b01 r.1), r.2)
  | 'l' => let r := d.nextLine; (some (b01 r.1), r.2)
  | 'b' => let r := d.nextBlock; (some (b01 r.1), r.2)
  | 'B' => let r := d.nextBlockNesting 1; (some (b01 r.1), r.2)
  | 'r' => let r := d.remainingArgs; (some ("[" ++ ",".intercalate (r.1.map Driver.hex) ++ "]"), r.2)
  | '2' =>
    let r := Disp.args 2 d []
    let x := match r.2.1 with | a :: _ => Driver.hex a | [] => Driver.hex "<unset>".toUTF8.toList
    let y := match r.2.1 with | _ :: b :: _ => Driver.hex b | _ => Driver.hex "<unset>".toUTF8.toList
    (some (b01 r.1 ++ "[" ++ x ++ "," ++ y ++ "]"), r.2.2)
  | 'v' => (some (Driver.hex d.val), d)
  | 'i' => (some (toString d.line), d)
  | 'f' => (some d.file, d)
  | 'N' => (some (showInt d.nesting), d)
  | _ => (none, d)

def run (d : Disp) (ops : List Char) : List String × Disp :=
  ops.foldl (fun (acc : List String × Disp) op =>
    let r := step acc.2 op
    (match r.1 with | some s => acc.1 ++ [s] | none => acc.1, r.2)) ([], d)

def dispModel : List String → String
  | [ts, ops] =>
    match parseToks ts with
    | none => "bad-case"
    | some toks =>
      let (outs, d) := run (Disp.new "Testfile" toks) ops.toList
      ";".intercalate outs ++ "|" ++ Driver.hex d.val ++ ":" ++ toString d.line ++ ":" ++ showInt d.nesting
  | _ => "bad-case"

/-- the property on the implementation's answer: no call panicked (PANIC is what the harness prints for one) -/
def dispJudge (_ : List String) (out : String) : String :=
  if out.startsWith "PANIC" then "bad:panic:a Dispenser method panicked" else "ok"

def setupJudge (_ : List String) (out : String) : String := Casket.DispenserSpec.setupVerdict out

/-! c11.exec  confighex cbfail   out = V=<trace>/<ok|err>|S=<trace>/<ok|err> -/

open Casket.Parser Casket.ExecSetup in
def bytesStr (b : Bytes) : String := String.ofList (b.map fun x => Char.ofNat x.toNat)

open Casket.ExecSetup in
def showEv : Ev → String
  | .setup c => s!"s:{bytesStr c.dir}:{c.block}:{c.keyIdx}:{Driver.hex c.key}:" ++ ".".intercalate (c.tokens.map fun t => Driver.hex t.text)
  | .callback d => "c:" ++ bytesStr d

open Casket.Parser Casket.ExecSetup in
def execModel : List String → String
  | [cfgHex, cbfail] =>
    match Driver.unhex cfgHex with
    | none => "bad-case"
    | some input =>
      let dirs : List Bytes := [strBytes "d1", strBytes "d2", strBytes "d3"]
      match parse { valid := some dirs } 100000 "Casketfile" input with
      | .ok sbs =>
        let blocks : List Block := sbs.map fun b => ⟨b.keys, b.tokens⟩
        let fails : Call → Bool := fun c => c.tokens.any fun t => t.text == strBytes "FAIL"
        let failDir : Option Bytes := if cbfail == "-" then none else some (strBytes cbfail)
        let cb := recCallback [strBytes "d1", strBytes "d3"] failDir
        let run := fun (jv : Bool) =>
          let r := execute (recSetup fails) cb jv blocks dirs []
          ",".intercalate ((traceOf r).map showEv) ++ (match r with | .ok _ => "/ok" | .error _ => "/err")
        "V=" ++ run true ++ "|S=" ++ run false
      | _ => "V=/err|S=/err"
  | _ => "bad-case"

/-- the property on the implementation's traces -/
def execJudge (f : List String) (out : String) : String :=
  match f, out.splitOn "|" with
  | [_, cbfail], [v, s] =>
    match (v.drop 2).toString.splitOn "/", (s.drop 2).toString.splitOn "/" with
    | [vt, vr], [st, sr] =>
      let setups := fun (t : String) => (t.splitOn ",").filter fun e => e.startsWith "s:"
      let cbFailed := cbfail != "-" && (st.splitOn ",").contains ("c:" ++ cbfail)
      if Casket.DispenserSpec.startAgrees (setups vt) (setups st) (vr == "ok") (sr == "ok") cbFailed then "ok"
      else "bad:disagree:validation and start do not make the same setup calls / do not agree on the outcome"
    | _, _ => "bad:unparsable:" ++ out
  | _, _ => "bad:unparsable:" ++ out

/-! c11.htcache  basicauth ops   ops = comma list g<f><u> | A<f> B<f> M<f> R<f> D<f> T<f>;  out = outcomes of the calls, comma separated -/

open Casket.HtCacheLock in
def parseHtOp (t : String) : Option Casket.HtCacheLock.Op :=
  match t.toList with
  | [k, f] =>
    (if f == '0' then some 0 else if f == '1' then some 1 else none).bind fun (fi : Nat) =>
      match k with
      | 'A' => some (.write fi (.users [1]))
      | 'B' => some (.write fi (.users [1, 2]))
      | 'M' => some (.write fi .malformed)
      | 'R' => some (.remove fi)
      | 'D' => some (.mkdir fi)
      | 'T' => some (.touch fi)
      | _ => none
  | ['g', f, u] =>
    (if f == '0' then some 0 else if f == '1' then some 1 else none).bind fun (fi : Nat) =>
      (if u == 'b' then some 1 else if u == 'a' then some 2 else if u == 'z' then some 3 else none).map fun (ui : Nat) =>
        Casket.HtCacheLock.Op.get fi ui
  | _ => none

def parseHtOps (s : String) : Option (List Casket.HtCacheLock.Op) :=
  if s = "" then some [] else (s.splitOn ",").mapM parseHtOp

open Casket.HtCacheLock in
def showRes : Res → String
  | .ok => "ok" | .eopen => "eopen" | .eparse => "eparse" | .enouser => "enouser" | .hang => "hang"

open Casket.HtCacheLock in
def parseRes (s : String) : Option Res :=
  if s == "ok" then some .ok else if s == "eopen" then some .eopen else if s == "eparse" then some .eparse
  else if s == "enouser" then some .enouser else none

open Casket.HtCacheLock in
def htModel : List String → String
  | [_, ops] =>
    match parseHtOps ops with
    | none => "bad-case"
    | some os => ",".intercalate ((Casket.HtCacheLock.run os Casket.HtCacheLock.init).map showRes)
  | _ => "bad-case"

/-- the property on the observed outcomes: a watchdog hit is a call that hangs; otherwise `Spec.verdict` -/
def htJudge (f : List String) (out : String) : String :=
  if out == "SKIPPED" then "ok"   -- not evaluated: the directive had already hung twice in this run
  else if out.startsWith "PANIC" then "bad:panic:GetHtpasswdMatcher panicked"
  else if out.startsWith "TIMEOUT" then Casket.HtCacheLock.verdict [] [.hang]
  else match f with
    | [_, ops] =>
      match parseHtOps ops, (if out = "" then some [] else (out.splitOn ",").mapM parseRes) with
      | some os, some rs => Casket.HtCacheLock.verdict os rs
      | _, _ => "bad:unparsable:" ++ out
    | _ => "bad:unparsable:" ++ out

/-! c11.upstream  addrhex   out = err | h:<count>:<first hex>:<last hex> -/

open Casket.UpstreamAddr in
def upstreamModel : List String → String
  | [h] =>
    match Driver.unhex h with
    | none => "bad-case"
    | some u =>
      match parseUpstream u with
      | .err => "err"
      | .panic => "PANIC:slice bounds out of range"
      | .hosts hs => s!"h:{hs.length}:{Driver.hex (hs.headD [])}:{Driver.hex (hs.getLastD [])}"
  | _ => "bad-case"

/-- the property on the observed answer: the step returned -/
def upstreamJudge (_ : List String) (out : String) : String :=
  if out.startsWith "PANIC" then Casket.UpstreamAddr.verdict .panic else Casket.UpstreamAddr.verdict .err

def streams : List Driver.Stream := [
  { name := "c11.disp", model := dispModel, judge := dispJudge },
  { name := "c11.setup", model := fun _ => "total", judge := setupJudge },
  { name := "c11.exec", model := execModel, judge := execJudge },
  { name := "c11.reload", model := fun _ => "total", judge := setupJudge },
  { name := "c11.htcache", model := htModel, judge := htJudge },
  { name := "c11.upstream", model := upstreamModel, judge := upstreamJudge }
]

end Driver.C11
