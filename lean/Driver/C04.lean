import Driver.Proto
/- Streams of C04 (stub: not built yet). -/
namespace Driver.C04
def streams : List Driver.Stream := []
end Driver.C04
