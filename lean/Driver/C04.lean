import Casket.Model.ProxyMsg
import Casket.Spec.ProxyMsg
import Casket.Generated.ProxyHeaders
import Driver.Proto
/-
Streams of C04 (byte strings in hex; a header map is `name=v1,v2;name=…`, a name without `=` has no values).

  c04.req   method path rawpath opaque rawquery host remoteaddr header contentLength bodyLen bodySeed
            targetParts(scheme,host,path,rawpath,opaque,rawquery) targetString without upRules flags cred upRepls
            (cred = Authorization value made from the backend URL's credentials, or -; upRepls = field=pat/to,…;…;
             flags also says how the block is WRITTEN — `lay=` backends on the directive line / `upstream` lines and the
             order of the lines, `sib=` a second proxy directive — which the model and the judge do not read: they take
             the block's meaning, so every spelling of it must give the same answer)
     out  = method scheme urlhost path rawpath opaque rawquery reqhost header contentLength body
            (body = nobody | same | differs)
  c04.resp  status header announced trailer bodyLen bodySeed preHeader downRules flags downRepls
     out  = status header trailers body
  c04.canon name        out = canonical MIME header key
  c04.shp   hostport    out = host,port | -
-/
namespace Driver.C04
open Casket.ProxyMsg Casket.ProxyMsgSpec

def hopList : List Str := Casket.Generated.hopHeaderBytes
def skipList : List Str := Casket.Generated.skipHeaderBytes

def ltStr : Str → Str → Bool
  | [], [] => false
  | [], _ :: _ => true
  | _ :: _, [] => false
  | a :: as, b :: bs => if a < b then true else if b < a then false else ltStr as bs

def insertSorted (x : Str) : List Str → List Str
  | [] => [x]
  | y :: ys => if ltStr y x then y :: insertSorted x ys else x :: y :: ys

def sortStrs (l : List Str) : List Str := l.foldl (fun acc x => insertSorted x acc) []

def parseHexList (s : String) : Option (List Str) :=
  if s = "" then some [] else (s.splitOn ",").mapM Driver.unhex

def parseEntry (s : String) : Option (Str × List Str) :=
  match s.splitOn "=" with
  | [k] => do pure (← Driver.unhex k, [])
  | [k, vs] => do pure (← Driver.unhex k, ← (vs.splitOn ",").mapM Driver.unhex)
  | _ => none

def parseHdr (s : String) : Option Hdr :=
  if s = "" then some [] else (s.splitOn ";").mapM parseEntry

def showHdr (h : Hdr) : String :=
  let ks := sortStrs (h.keys.filter fun k => h.vals k != [])
  ";".intercalate (ks.map fun k =>
    let vs := if k == sTrailer then sortStrs (h.vals k) else h.vals k
    Driver.hex k ++ "=" ++ ",".intercalate (vs.map Driver.hex))

def parseInt (s : String) : Option Int :=
  if s.startsWith "-" then (s.drop 1).toNat?.map fun n => -(n : Int) else s.toNat?.map fun n => (n : Int)

def bytes (s : String) : Str := s.toUTF8.toList

def hasBrace (v : Str) : Bool := v.contains 123 || v.contains 125

/-- the part of `httpserver.Replacer` the streams use: literal values, and the four placeholders of
`transparent` when they are the whole value -/
def mkRepl (host remote : Str) : Str → Str := fun v =>
  if !hasBrace v then v
  else if v == bytes "{host}" then host
  else if v == bytes "{remote}" then
    match splitHostPort remote with
    | some (ip, _) => ip
    | none => remote
  else if v == bytes "{scheme}" then bytes "http"
  else if v == bytes "{server_port}" then
    match splitHostPort host with
    | some (_, p) => p
    | none => bytes "80"
  else bytes "unsupported-placeholder"

structure ReqCase where
  r : Request
  u : Upstream

def bodyToken (n : Nat) : Str := if n == 0 then [] else [1]

def parseURLParts (s : String) : Option URL :=
  match s.splitOn "," with
  | [a, b, c, d, e, f] => do
    pure { scheme := ← Driver.unhex a, host := ← Driver.unhex b, path := ← Driver.unhex c,
           rawPath := ← Driver.unhex d, opaq := ← Driver.unhex e, rawQuery := ← Driver.unhex f }
  | _ => none

def parsePair (s : String) : Option (Str × Str) :=
  match s.splitOn "/" with
  | [a, b] => do pure (← Driver.unhex a, ← Driver.unhex b)
  | _ => none

def parseReplEntry (s : String) : Option (Str × List (Str × Str)) :=
  match s.splitOn "=" with
  | [k, vs] => do pure (← Driver.unhex k, ← (vs.splitOn ",").mapM parsePair)
  | _ => none

/-- replacements: `field=pat/to,pat/to;field=…` (hex) -/
def parseRepls (s : String) : Option Repls :=
  if s = "" then some [] else (s.splitOn ";").mapM parseReplEntry

def parseCred (s : String) : Option (Option Str) :=
  if s = "-" then some none else (Driver.unhex s).map some

def parseReq : List String → Option ReqCase
  | [m, p, rp, op, q, host, ra, hdr, cl, blen, _bseed, tparts, _tstr, wo, rules, _flags, cred, repls] => do
    let cl ← parseInt cl
    let blen ← blen.toNat?
    let r : Request := {
      method := ← Driver.unhex m,
      url := { scheme := [], host := [], path := ← Driver.unhex p, rawPath := ← Driver.unhex rp,
               opaq := ← Driver.unhex op, rawQuery := ← Driver.unhex q },
      host := ← Driver.unhex host, remoteAddr := ← Driver.unhex ra, header := ← parseHdr hdr,
      contentLength := cl,
      body := if blen == 0 && cl == 0 then none else some (bodyToken blen) }
    let u : Upstream := { target := ← parseURLParts tparts, without := ← Driver.unhex wo,
                          upRules := ← parseHdr rules, downRules := [],
                          cred := ← parseCred cred, upRepls := ← parseRepls repls }
    pure { r := r, u := u }
  | _ => none

def showBody (r : Request) : Option Str → String
  | none => "nobody"
  | some b => if some b == r.body || (b == [] && r.body == none) then "same" else "differs"

def showReq (c : ReqCase) (o : Request) : String :=
  "\t".intercalate [Driver.hex o.method, Driver.hex o.url.scheme, Driver.hex o.url.host, Driver.hex o.url.path,
    Driver.hex o.url.rawPath, Driver.hex o.url.opaq, Driver.hex o.url.rawQuery, Driver.hex o.host,
    showHdr o.header, toString o.contentLength, showBody c.r o.body]

def reqModel (f : List String) : String :=
  match parseReq f with
  | none => "bad-case"
  | some c =>
    if !nonInterfering c.u.upRules || !replsDistinct c.u.upRepls then "bad-case:interfering rules"
    else showReq c (forward hopList (mkRepl c.r.host c.r.remoteAddr) c.u c.r)

def parseObservedReq (c : ReqCase) (out : String) : Option Request :=
  match out.splitOn "\t" with
  | [m, sch, uh, p, rp, op, q, host, hdr, cl, body] => do
    let b : Option Str :=
      if body == "nobody" then none
      else if body == "same" then some (match c.r.body with | some b => b | none => [])
      else some [0, 0]
    pure { method := ← Driver.unhex m,
           url := { scheme := ← Driver.unhex sch, host := ← Driver.unhex uh, path := ← Driver.unhex p,
                    rawPath := ← Driver.unhex rp, opaq := ← Driver.unhex op, rawQuery := ← Driver.unhex q },
           host := ← Driver.unhex host, remoteAddr := c.r.remoteAddr, header := ← parseHdr hdr,
           contentLength := ← parseInt cl, body := b }
  | _ => none

def reqJudge (f : List String) (out : String) : String :=
  match parseReq f with
  | none => "bad:unparsable:case"
  | some c =>
    match parseObservedReq c out with
    | none => "bad:unparsable:" ++ out
    | some o =>
      let v := verdictReq specHop (mkRepl c.r.host c.r.remoteAddr) c.u c.r o
      if v != "ok" then v else verdictRawPath c.u c.r o

/-
  c04.retry  (the 18 fields of c04.req) target2Parts target2String cred2
     two backends (policy first), the first one fails before reading the body, the second answers
     out = <attempt 1 as in c04.req> TAB | TAB <attempt 2>
-/
def parseRetryCase (f : List String) : Option (ReqCase × Upstream) :=
  if f.length == 21 then do
    let c ← parseReq (f.take 18)
    let t2 ← parseURLParts (f.getD 18 "")
    pure (c, { c.u with target := t2, cred := ← parseCred (f.getD 20 "") })
  else none

def retryModel (f : List String) : String :=
  match parseRetryCase f with
  | none => "bad-case"
  | some (c, u2) =>
    if !nonInterfering c.u.upRules || !replsDistinct c.u.upRepls then "bad-case:interfering rules"
    else
      let (o1, o2) := forwardRetry hopList (mkRepl c.r.host c.r.remoteAddr) c.u u2 c.r
      showReq c o1 ++ "\t|\t" ++ showReq c o2

def splitAtBar : List String → List String → List String × List String
  | [], acc => (acc.reverse, [])
  | "|" :: rest, acc => (acc.reverse, rest)
  | x :: rest, acc => splitAtBar rest (x :: acc)

def retryJudge (f : List String) (out : String) : String :=
  if out.endsWith "attempts-on-the-same-backend-differ" then
    "bad:retry-attempts-differ:two attempts on the same backend were handed different requests (headers, URL or body)" else
  match parseRetryCase f with
  | none => "bad:unparsable:case"
  | some (c, u2) =>
    let (a1, a2) := splitAtBar (out.splitOn "\t") []
    match parseObservedReq c ("\t".intercalate a1), parseObservedReq c ("\t".intercalate a2) with
    | some o1, some o2 =>
      let v1 := verdictReq specHop (mkRepl c.r.host c.r.remoteAddr) c.u c.r o1
      if v1 != "ok" then v1
      else
        let v2 := verdictReq specHop (mkRepl c.r.host c.r.remoteAddr) u2 c.r o2
        if v2 != "ok" then v2 ++ " (second attempt)" else "ok"
    | _, _ => "bad:unparsable:" ++ out

structure RespCase where
  res : Response
  pre : Hdr
  down : Rules
  dr : Repls

def parseResp : List String → Option RespCase
  | [st, hdr, ann, tr, _blen, _bseed, pre, rules, _flags, repls] => do
    pure { res := { status := ← st.toNat?, header := ← parseHdr hdr, announced := ← parseHexList ann,
                    trailer := ← parseHdr tr },
           pre := ← parseHdr pre, down := ← parseHdr rules, dr := ← parseRepls repls }
  | _ => none

def respModel (f : List String) : String :=
  match parseResp f with
  | none => "bad-case"
  | some c =>
    if !nonInterfering c.down || !replsDistinct c.dr then "bad-case:interfering rules"
    else
      let v := respond hopList skipList (mkRepl [] []) c.down c.dr c.pre c.res
      "\t".intercalate [toString v.status, showHdr v.header, showHdr (clientTrailers v), "same"]

def respJudge (f : List String) (out : String) : String :=
  match parseResp f, out.splitOn "\t" with
  | some c, [st, hdr, tr, body] =>
    match st.toNat?, parseHdr hdr, parseHdr tr with
    | some st, some hdr, some tr =>
      if body != "same" then "bad:body:changed"
      else verdictResp specHop specSkip (mkRepl [] []) c.down c.dr c.pre c.res st hdr tr
    | _, _, _ => "bad:unparsable:" ++ out
  | _, _ => "bad:unparsable:" ++ out

/-
  c04.wire  method path rawpath query bodyLen bodySeed chunk upstream status respLen respSeed respChunked announced unannounced
     out = method path-at-backend query-at-backend request-body request-framing status response-body trailers
  The model's part is the path (Director of upstream block A or B); everything else must arrive unchanged.
-/
def showFraming : Framing → String
  | .none => "cl=0"
  | .length n => s!"cl={n}"
  | .chunked => "chunked"

def wireExpected (f : List String) : Option String :=
  match f with
  | [m, p, _rp, q, bl, _bs, ch, ups, st, _rl, _rs, _rc, ann, unann] => do
    let path ← Driver.unhex p
    let meth ← Driver.unhex m
    let blen ← bl.toNat?
    let chunk ← ch.toNat?
    let t : URL := { scheme := sHttp, host := [], path := if ups == "B" then bytes "/base" else [], rawPath := [], opaq := [], rawQuery := [] }
    let wo : Str := if ups == "B" then bytes "/api" else []
    -- the request as net/http hands it to the proxy: chunked coding = unknown length
    let cl : Int := if chunk != 0 then -1 else (blen : Int)
    let r : Request := { method := meth, url := { scheme := [], host := [], path := path, rawPath := [], opaq := [], rawQuery := [] },
                         host := [], remoteAddr := [], header := [], contentLength := cl,
                         body := if cl == 0 then none else some (bodyToken blen) }
    let u : Upstream := { target := t, without := wo, upRules := [], downRules := [] }
    let o := forward hopList id u r
    let tr : Hdr := (← parseHdr ann) ++ (← parseHdr unann)
    pure ("\t".intercalate [m, Driver.hex o.url.path, q, "same", showFraming (wireFraming o), st, "same", showHdr tr])
  | _ => none

def wireModel (f : List String) : String := (wireExpected f).getD "bad-case"

def wireJudge (f : List String) (out : String) : String :=
  match wireExpected f with
  | none => "bad:unparsable:case"
  | some e =>
    if out == e then "ok"
    else
      match e.splitOn "\t", out.splitOn "\t" with
      | [m, p, q, b, fr, st, rb, tr], [m', p', q', b', fr', st', rb', tr'] =>
        if m != m' then "bad:method:changed on the wire"
        else if p != p' then "bad:path:not base + (path minus without) on the wire"
        else if q != q' then "bad:query:changed on the wire"
        else if b != b' then "bad:body:request body changed on the wire"
        else if fr != fr' then "bad:framing:the backend was sent a framing that is not the one the body calls for (Content-Length = length, or chunked)"
        else if st != st' then "bad:status:changed on the wire"
        else if rb != rb' then "bad:body:response body changed on the wire"
        else if tr != tr' then "bad:trailer:changed on the wire"
        else "bad:unparsable:" ++ out
      | _, _ => "bad:unparsable:" ++ out

def canonModel : List String → String
  | [h] => match Driver.unhex h with
    | some s => Driver.hex (canon s)
    | none => "bad-case"
  | _ => "bad-case"

def shpModel : List String → String
  | [h] => match Driver.unhex h with
    | some s => match splitHostPort s with
      | some (a, b) => Driver.hex a ++ "," ++ Driver.hex b
      | none => "-"
    | none => "bad-case"
  | _ => "bad-case"

def streams : List Driver.Stream := [
  { name := "c04.req", model := reqModel, judge := reqJudge },
  { name := "c04.resp", model := respModel, judge := respJudge },
  { name := "c04.retry", model := retryModel, judge := retryJudge },
  { name := "c04.wire", model := wireModel, judge := wireJudge },
  { name := "c04.canon", model := canonModel, judge := fun _ _ => "ok" },
  { name := "c04.shp", model := shpModel, judge := fun _ _ => "ok" }
]

end Driver.C04
