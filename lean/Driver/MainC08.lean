import Driver.Loop
import Driver.C08
/- model driver of property C08 -/
def main (args : List String) : IO Unit := Driver.run Driver.C08.streams args
