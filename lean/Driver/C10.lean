import Driver.Proto
/- Streams of C10 (stub: not built yet). -/
namespace Driver.C10
def streams : List Driver.Stream := []
end Driver.C10
