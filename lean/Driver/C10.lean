import Casket.Model.Parser
import Casket.Spec.Parser
import Driver.Proto
/-
Streams of C10.
  c10.lex     inputhex                          out = tokens  line:texthex,line:texthex,…
  c10.parse   valid  env  fs  mainhex           out = ok|block|block…   or  err:class:file:line  or TIMEOUT / PANIC:…
              valid = "-" (nil) or comma list of hex directive names
              env   = comma list NAME=valuehex ; fs = comma list filename=contenthex (glob order)
              block = keys(hex,comma);dirhex=file:line:texthex,…;…   (directives sorted by hex name)
  c10.envloop same fields as c10.parse; inputs whose environment refers to itself (finding F19)
  c10.rt      valid  env  fs  mainhex  asthex   round trip: `asthex` is the canonical rendering of the
              configuration that was written; the judge demands the implementation returned exactly it
-/
namespace Driver.C10
open Casket.Lexer Casket.Dispenser Casket.Parser

def showLexTok (t : Token) : String := s!"{t.line}:{Driver.hex t.text}"

def lexModel : List String → String
  | [h] => match Driver.unhex h with
    | some bs => ",".intercalate ((lex bs).map showLexTok)
    | none => "bad-case"
  | _ => "bad-case"

def splitEq (s : String) : Option (String × String) :=
  match s.splitOn "=" with
  | [a, b] => some (a, b)
  | _ => none

def parseEnv (s : String) : Option Env :=
  if s = "" then some [] else
  (s.splitOn ",").mapM fun kv => do
    let (k, v) ← splitEq kv
    pure (strBytes k, ← Driver.unhex v)

def parseFS (s : String) : Option FS :=
  if s = "" then some ⟨[]⟩ else do
  let l ← (s.splitOn ",").mapM fun kv => do
    let (k, v) ← splitEq kv
    pure (k, ← Driver.unhex v)
  pure ⟨l⟩

def parseValid (s : String) : Option (Option (List Bytes)) :=
  if s = "-" then some none
  else if s = "" then some (some [])
  else ((s.splitOn ",").mapM Driver.unhex).map some

structure Case where
  cfg : Cfg
  main : Bytes

def parseCase : List String → Option Case
  | valid :: env :: fs :: main :: _ => do
    pure { cfg := { env := ← parseEnv env, fs := ← parseFS fs, valid := ← parseValid valid, envFuel := 300 },
           main := ← Driver.unhex main }
  | _ => none

def showTok (t : Token) : String := s!"{t.file}:{t.line}:{Driver.hex t.text}"

def showBlock (b : ServerBlock) : String :=
  let ds := (b.tokens.map fun p => (Driver.hex p.1, p.2)).mergeSort fun a b => decide (a.1 ≤ b.1)
  ";".intercalate ((",".intercalate (b.keys.map Driver.hex)) :: ds.map fun p => p.1 ++ "=" ++ ",".intercalate (p.2.map showTok))

def showRes : Res (List ServerBlock) → String
  | .ok bs => "|".intercalate ("ok" :: bs.map showBlock)
  | .err c f l => s!"err:{c}:{f}:{l}"
  | .panic m => "PANIC:" ++ m
  | .timeout => "TIMEOUT"

def modelFuel : Nat := 200000

def parseModel (f : List String) : String :=
  match parseCase f with
  | none => "bad-case"
  | some c => showRes (parse c.cfg modelFuel "Casketfile" c.main)

def parseTokS (s : String) : Option Token :=
  match s.splitOn ":" with
  | [f, l, h] => do pure ⟨f, ← l.toNat?, ← Driver.unhex h⟩
  | _ => none

def parseDirS (s : String) : Option (Bytes × List Token) :=
  match s.splitOn "=" with
  | [k, ts] => do pure (← Driver.unhex k, ← (ts.splitOn ",").mapM parseTokS)
  | _ => none

def parseBlockS (s : String) : Option ServerBlock :=
  match s.splitOn ";" with
  | [] => none
  | ks :: ds => do pure ⟨← (ks.splitOn ",").mapM Driver.unhex, ← ds.mapM parseDirS⟩

open Casket.ParserSpec in
/-- the implementation's canonical answer line → `Answer` (glue; an unreadable line is `none`) -/
def parseAnswer (out : String) : Option Answer :=
  if out == "TIMEOUT" then some .timeout
  else if out.startsWith "PANIC:" then some (.panic (out.drop 6).toString)
  else match out.splitOn "|" with
    | "ok" :: bs => (bs.mapM parseBlockS).map .blocks
    | _ => match out.splitOn ":" with
      | ["err", c, f, l] => l.toNat?.map fun n => .error c f n
      | _ => none

/-- totality part of the property, on the implementation's answer -/
def parseJudge (_ : List String) (out : String) : String :=
  match parseAnswer out with
  | some a => Casket.ParserSpec.totalVerdictA a
  | none => "bad:unparsable:" ++ out

/-- totality and structure preservation: the case carries the blocks that were written -/
def rtJudge (f : List String) (out : String) : String :=
  match f, parseAnswer out with
  | [_, _, _, _, want], some a =>
    match (Driver.unhex want).bind fun bs => parseAnswer (String.ofList (bs.map fun b => Char.ofNat b.toNat)) with
    | some (.blocks exp) =>
      if Casket.ParserSpec.totalVerdictA a != "ok" then Casket.ParserSpec.totalVerdictA a
      else if Casket.ParserSpec.roundTrip exp a then "ok"
      else "bad:not-preserved:the blocks returned are not the blocks written"
    | _ => "bad:unparsable:case"
  | _, _ => "bad:unparsable:" ++ out

def lexJudge (_ : List String) (out : String) : String :=
  if out.startsWith "PANIC" then "bad:panic:" ++ out else if out == "TIMEOUT" then "bad:timeout:" else "ok"

def streams : List Driver.Stream := [
  { name := "c10.lex", model := lexModel, judge := lexJudge },
  { name := "c10.parse", model := parseModel, judge := parseJudge },
  { name := "c10.rt", model := parseModel, judge := rtJudge },
  { name := "c10.envloop", model := parseModel, judge := parseJudge }
]

end Driver.C10
