import Driver.Loop
import Driver.C07
/- model driver of property C07 -/
def main (args : List String) : IO Unit := Driver.run Driver.C07.streams args
