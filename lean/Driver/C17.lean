import Driver.Proto
/- Streams of C17 (stub: not built yet). -/
namespace Driver.C17
def streams : List Driver.Stream := []
end Driver.C17
