import Casket.Model.Limits
import Casket.Spec.Limits
import Driver.Proto
/-
Streams of C17.
  c17.reader / c17.scope   cs  table  path  data  script  errWithLast  endErr  bufs
        table = comma list of  <hexpath>=<limit>   (the `body` lines of a limits block, in file order)
        out   = comma list of  <hexbytes>:<err>    one per Read of the innermost handler; err - | eof | big | other
  c17.match     cs  path  base                     out = 0 | 1           (httpserver.Path.Matches)
  c17.listener  group                              out = read header write idle maxHeaderBytes
        group = ';' list of  r/h/w/i/hdr  (timeouts: - unset, else ns; hdr: 0 unset)
  c17.proxy     cs  table  path  data  framing  buffered   out = <status returned by the chain> TAB <ok|bad>
-/
namespace Driver.C17
open Casket.Limits Casket.LimitsSpec

def parseBool (s : String) : Option Bool :=
  if s = "1" then some true else if s = "0" then some false else none

def parseEntry (s : String) : Option (Bytes × Nat) :=
  match s.splitOn "=" with
  | [p, l] => do pure (← Driver.unhex p, ← l.toNat?)
  | _ => none

def parseTable (s : String) : Option (List (Bytes × Nat)) :=
  if s = "" then some [] else (s.splitOn ",").mapM parseEntry

def parseErr : String → Option RErr
  | "eof" => some .eof
  | "big" => some .tooLarge
  | "other" => some .other
  | _ => none

def showErr : Option RErr → String
  | none => "-"
  | some .eof => "eof"
  | some .tooLarge => "big"
  | some .other => "other"

def showTrace (t : Trace) : String :=
  ",".intercalate (t.map fun x => Driver.hex x.1 ++ ":" ++ showErr x.2)

def parseRead (s : String) : Option (Bytes × Option RErr) :=
  match s.splitOn ":" with
  | [h, e] => do
    let bs ← Driver.unhex h
    if e = "-" then pure (bs, none) else pure (bs, some (← parseErr e))
  | _ => none

def parseTrace (s : String) : Option Trace :=
  if s = "" then some [] else (s.splitOn ",").mapM parseRead

structure Case where
  cs : Bool
  raw : List (Bytes × Nat)
  path : Bytes
  under : Under
  bufs : List Nat

def parseCase : List String → Option Case
  | [cs, tb, p, d, sc, ewl, ee, bufs] => do
    pure { cs := ← parseBool cs, raw := ← parseTable tb, path := ← Driver.unhex p,
           under := { data := ← Driver.unhex d, script := ← Driver.natList sc,
                      errWithLast := ← parseBool ewl, endErr := ← parseErr ee },
           bufs := ← Driver.natList bufs }
  | _ => none

def readerModel (f : List String) : String :=
  match parseCase f with
  | none => "bad-case"
  | some c => showTrace (serveBody c.cs (buildTable c.raw) c.path c.under c.bufs)

def readerJudge (f : List String) (out : String) : String :=
  match parseCase f, parseTrace out with
  | some c, some t => handlerVerdict c.cs c.raw c.path c.under.data c.under.endErr t
  | _, _ => "bad:unparsable:" ++ out

def matchModel : List String → String
  | [cs, p, b] =>
    match parseBool cs, Driver.unhex p, Driver.unhex b with
    | some cs, some p, some b => if pathMatches cs p b then "1" else "0"
    | _, _, _ => "bad-case"
  | _ => "bad-case"

def parseSetting (s : String) : Option TSetting :=
  if s = "-" then some none else s.toNat?.map some

def parseSite (s : String) : Option (SiteTimeouts × Nat) :=
  match s.splitOn "/" with
  | [r, h, w, i, hdr] => do
    pure ({ read := ← parseSetting r, header := ← parseSetting h, write := ← parseSetting w,
            idle := ← parseSetting i }, ← hdr.toNat?)
  | _ => none

def parseGroup (s : String) : Option (List (SiteTimeouts × Nat)) :=
  if s = "" then some [] else (s.splitOn ";").mapM parseSite

def listenerModel : List String → String
  | [g] =>
    match parseGroup g with
    | none => "bad-case"
    | some g =>
      let t := makeTimeouts (g.map (·.1)) defaultTimeouts
      let h := makeHeaderLimit (g.map (·.2))
      s!"{t.read} {t.header} {t.write} {t.idle} {h}"
  | _ => "bad-case"

def listenerJudge (f : List String) (out : String) : String :=
  match f, (out.splitOn " ").mapM String.toNat? with
  | [g], some [r, h, w, i, hdr] =>
    match parseGroup g with
    | none => "bad:unparsable:case"
    | some g =>
      let v := timeoutVerdict (g.map (·.1)) defaultTimeouts { read := r, header := h, write := w, idle := i }
      if v != "ok" then v else headerVerdict (g.map (·.2)) hdr
  | _, _ => "bad:unparsable:" ++ out

structure PCase where
  cs : Bool
  raw : List (Bytes × Nat)
  path : Bytes
  data : Bytes
  chunked : Bool

def parsePCase : List String → Option PCase
  | [cs, tb, p, d, fr, _buffered] => do
    pure { cs := ← parseBool cs, raw := ← parseTable tb, path := ← Driver.unhex p,
           data := ← Driver.unhex d, chunked := fr == "chunked" }
  | _ => none

def proxyModel (f : List String) : String :=
  match parsePCase f with
  | none => "bad-case"
  | some c => s!"{proxyServe c.cs (buildTable c.raw) c.path c.data c.chunked}\tok"

def proxyJudge (f : List String) (out : String) : String :=
  match parsePCase f, out.splitOn "\t" with
  | some c, [st, b] =>
    match st.toNat? with
    | some st => proxyVerdict c.cs c.raw c.path c.data st (b == "ok")
    | none => "bad:unparsable:" ++ out
  | _, _ => "bad:unparsable:" ++ out

/-- c17.wire: only the delivered bytes and the first error are observable (net/http chooses the
chunking); by C17_error_iff_over they do not depend on it, so the model drains an unchunked body. -/
def wireCase : List String → Option (Bool × List (Bytes × Nat) × Bytes × Bytes × Nat)
  | [cs, tb, p, d, _fr, buf] => do
    pure (← parseBool cs, ← parseTable tb, ← Driver.unhex p, ← Driver.unhex d, ← buf.toNat?)
  | _ => none

def wireModel (f : List String) : String :=
  match wireCase f with
  | none => "bad-case"
  | some (cs, raw, p, d, buf) =>
    let t := serveBody cs (buildTable raw) p (wireBody d) (List.replicate (d.length + 8) buf)
    Driver.hex (delivered t) ++ "\t" ++ showErr (firstErr t)

def wireJudge (f : List String) (out : String) : String :=
  match wireCase f, out.splitOn "\t" with
  | some (cs, raw, p, d, _), [h, e] =>
    match Driver.unhex h, (if e = "-" then some none else (parseErr e).map some) with
    | some got, some err => handlerVerdict cs raw p d .eof [(got, err)]
    | _, _ => "bad:unparsable:" ++ out
  | _, _ => "bad:unparsable:" ++ out

/-- c17.target: like c17.wire, but the third field is the request target as written on the wire;
`unreached TAB status` = net/http refused the request before any handler. -/
def targetModel (f : List String) : String :=
  match wireCase f with
  | none => "bad-case"
  | some (cs, raw, tg, d, buf) =>
    match serveTarget cs (buildTable raw) tg (wireBody d) (List.replicate (d.length + 8) buf) with
    | none => "unreached\t400"
    | some t => Driver.hex (delivered t) ++ "\t" ++ showErr (firstErr t)

def targetJudge (f : List String) (out : String) : String :=
  match wireCase f, out.splitOn "\t" with
  | some (cs, raw, tg, d, _), [h, e] =>
    if h = "unreached" then targetVerdict cs raw tg d .eof none
    else match Driver.unhex h, (if e = "-" then some none else (parseErr e).map some) with
    | some got, some err => targetVerdict cs raw tg d .eof (some [(got, err)])
    | _, _ => "bad:unparsable:" ++ out
  | _, _ => "bad:unparsable:" ++ out

/-- c17.e2e: the merged values on a real listener; `bighdr` / `stall` model what net/http documents
(MaxHeaderBytes + 4096 bytes of slack; ReadHeaderTimeout, falling back to ReadTimeout): trusted. -/
def e2eModel : List String → String
  | [g, action] =>
    match parseGroup g with
    | none => "bad-case"
    | some g =>
      let t := makeTimeouts (g.map (·.1)) defaultTimeouts
      let h := makeHeaderLimit (g.map (·.2))
      if action = "fields" then s!"{t.read} {t.header} {t.write} {t.idle} {h}"
      else if action.startsWith "bighdr:" then
        match (action.drop 7).toString.toNat? with
        | some n => if h != 0 && n > h + 4096 then "431" else "200"
        | none => "bad-case"
      else if action = "stall" then
        let eff := if t.header != 0 then t.header else t.read
        if eff != 0 && eff ≤ 1000000000 then "closed" else "open"
      else "bad-case"
  | _ => "bad-case"

def e2eJudge (f : List String) (out : String) : String :=
  match f with
  | [g, action] =>
    match parseGroup g with
    | none => "bad:unparsable:case"
    | some grp =>
      if action = "fields" then listenerJudge [g] out
      else if action.startsWith "bighdr:" then
        match (action.drop 7).toString.toNat? with
        | none => "bad:unparsable:case"
        | some n =>
          let nz := (grp.map (·.2)).filter (· != 0)
          if nz.any (fun l => n > l + 4096) then
            (if out = "431" then "ok" else "bad:header-limit-not-min:a header beyond the strictest limit (plus net/http's slack) was accepted")
          else if nz.all (fun l => n ≤ l) then
            (if out = "200" then "ok" else "bad:header-limit-not-min:a header within every configured limit was refused")
          else "ok"
      else if action = "stall" then
        let hs := grp.map (·.1.header)
        let rs := grp.map (·.1.read)
        let short := fun (v : TSetting) => match v with
          | some d => d != 0 && d ≤ 500000000
          | none => false
        let lax := fun (v : TSetting) => match v with
          | some d => d = 0 || d ≥ 5000000000
          | none => true
        if hs.any short then
          (if out = "closed" then "ok" else "bad:not-strictest:a stalled request header outlived the strictest header timeout")
        else if hs.all lax && rs.all lax then
          (if out = "open" then "ok" else "bad:not-strictest:a connection was cut although no site sets a short timeout")
        else "ok"
      else "bad:unparsable:case"
  | _ => "bad:unparsable:case"

def streams : List Driver.Stream := [
  { name := "c17.e2e", model := e2eModel, judge := e2eJudge },
  { name := "c17.wire", model := wireModel, judge := wireJudge },
  { name := "c17.target", model := targetModel, judge := targetJudge },
  { name := "c17.reader", model := readerModel, judge := readerJudge },
  { name := "c17.scope", model := readerModel, judge := readerJudge },
  { name := "c17.match", model := matchModel, judge := fun _ _ => "ok" },
  { name := "c17.listener", model := listenerModel, judge := listenerJudge },
  { name := "c17.proxy", model := proxyModel, judge := proxyJudge }
]

end Driver.C17
