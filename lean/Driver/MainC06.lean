import Driver.Loop
import Driver.C06
/- model driver of property C06 -/
def main (args : List String) : IO Unit := Driver.run Driver.C06.streams args
