import Casket.Model.Middleware
import Casket.Spec.Middleware
import Driver.Proto
/-
Streams of C12.
  c12.serve   stack  path  ae  inner
      stack = comma list of tokens: the site as it is WRITTEN (the real chain is ordered by casket).
              A bare directive name is its default one-line spelling: limits request_id log rewrite gzip
              header errors:<plain|page404|visible> status mime internal templates.
              `name=<line>|<line>…` gives the lines of a directive as written, in order:
                log=<scope|->~<out>~<fmt|->[~x]   header=<scope>~<i|d|b|p>   gzip=<not-path|->~<level|->[~<min_length|->]
                errors=<-|v|logname>~<-|404>      templates=<path|->~<ext>~<form>
              addr2a addr2b decoyF decoyL: layout of the Casketfile (two addresses, a second site) — no meaning.
              The model computes the MEANING of the lines for the request path (`Site.cfg`).
      path  = html | bin | html-head | bin-head  (…-head: the request method is HEAD)
      ae    = 1 | 0 (Accept-Encoding: gzip sent)
      inner = ret:<s>:<0|1>[:<n>] | panic[:<n>]  (n informational 1xx headers first) | write:<s|->:<hex>:<0|1>:<kind>:<cl 0|1>:<mode> | file:<kind>:<hex>
              | panic | panicafter:<s|->:<hex>
              kind = plain | tok | tparse | texec  (what text/template makes of the body)
              mode = w | c | s | wf | fw | nw | i<mode> (a 103 Early Hints first) | e<mode> (Content-Encoding: x-c12 set first: gzip must leave the response alone)  (Write, io.Copy, io.WriteString, Write+Flush, Flush+Write, optional-interface
                     assertions + CloseNotify + Push then Write: all a write for the model)
              file: the request goes to the real static file server (Content-Length, ETag …), returns (200, nil)
      out   = <commits> <status> <cl> <body> <followup>
              cl   = - absent | = equals the bytes sent | ! differs
              body = - | '+' list of <r|g>:<chunk>; chunk inner:<hex> rendered:<hex of the source>
                     errtext:<s> custom:<s> debugerr debugpanic
              followup = ok | bad   (a plain request served right after by the same server)
-/
namespace Driver.C12
open Casket.Mw Casket.MwSpec

def parseMode : String → Option ErrMode
  | "plain" => some .plain
  | "page404" => some .page404
  | "visible" => some .visible
  | _ => none

def optField (s : String) : Option String := if s = "-" then none else some s

/-- `log=<scope>~<out>~<fmt>[~x]` (x: the line has a block with `except` / `ipmask`, no meaning here) -/
def parseLogLine (l : String) : Option LogLine :=
  match l.splitOn "~" with
  | [sc, out, fmt] => some ⟨optField sc, out, optField fmt⟩
  | [sc, out, fmt, "x"] => some ⟨optField sc, out, optField fmt⟩
  | _ => none

def parseHeaderLine (l : String) : Option HeaderLine :=
  match l.splitOn "~" with
  | [sc, "i"] => some ⟨sc, 1⟩
  | [sc, "d"] => some ⟨sc, 1⟩
  | [sc, "b"] => some ⟨sc, 2⟩
  | [sc, "p"] => some ⟨sc, 2⟩
  | _ => none

def parseGzipLine (l : String) : Option GzipLine :=
  match l.splitOn "~" with
  | [np, lv] => some ⟨(optField np).toList, (optField lv).bind String.toNat?, none⟩
  | [np, lv, ml] => some ⟨(optField np).toList, (optField lv).bind String.toNat?, (optField ml).bind String.toNat?⟩
  | _ => none

def parseErrLine (l : String) : Option ErrLine :=
  match l.splitOn "~" with
  | [a, pg] =>
    let arg : ErrArg := if a = "-" then .none else if a = "v" then .visible else .logFile a
    if pg = "-" then some ⟨arg, []⟩ else pg.toNat?.map fun n => ⟨arg, [n]⟩
  | _ => none

def parseTplLine (l : String) : Option TplLine :=
  match l.splitOn "~" with
  | [pa, _ext, _form] => some ⟨(optField pa).getD "/"⟩
  | _ => none

/-- directives and layout tokens that have no meaning for the response of the probe requests -/
def noMeaning : List String :=
  ["limits", "request_id", "rewrite", "status", "mime", "internal", "addr2a", "addr2b", "decoyF", "decoyL"]

def emptySite (loaded : Bool) : Site :=
  { log := [], gzip := [], header := [], errors := [], templates := [], loaded := loaded }

/-- one token of the stack field: the lines of a directive as written, or its default spelling -/
def addToken (s : Site) (tok : String) : Option Site :=
  match tok.splitOn "=" with
  | [name] =>
    if name = "log" then (if s.log.isEmpty then some { s with log := [⟨some "/", "a", none⟩] } else none)
    else if name = "gzip" then (if s.gzip.isEmpty then some { s with gzip := [⟨[], none, none⟩] } else none)
    else if name = "header" then (if s.header.isEmpty then some { s with header := [⟨"/", 2⟩] } else none)
    else if name = "templates" then (if s.templates.isEmpty then some { s with templates := [⟨"/"⟩] } else none)
    else if name.startsWith "errors:" then
      (if !s.errors.isEmpty then none
       else match parseMode (name.drop 7).toString with
        | some .plain => some { s with errors := [⟨.logFile "a", []⟩] }
        | some .page404 => some { s with errors := [⟨.logFile "a", [404]⟩] }
        | some .visible => some { s with errors := [⟨.visible, []⟩] }
        | none => none)
    else if noMeaning.contains name then some s
    else none
  | [name, lines] =>
    let ls := lines.splitOn "|"
    if name = "log" then (if s.log.isEmpty then (ls.mapM parseLogLine).map fun x => { s with log := x } else none)
    else if name = "gzip" then (if s.gzip.isEmpty then (ls.mapM parseGzipLine).map fun x => { s with gzip := x } else none)
    else if name = "header" then (if s.header.isEmpty then (ls.mapM parseHeaderLine).map fun x => { s with header := x } else none)
    else if name = "errors" then (if s.errors.isEmpty then (ls.mapM parseErrLine).map fun x => { s with errors := x } else none)
    else if name = "templates" then
      (if s.templates.isEmpty then (ls.mapM parseTplLine).map fun x => { s with templates := x } else none)
    else none
  | _ => none

def parseSite (loaded : Bool) (st : String) : Option Site :=
  let parts := if st = "" then [] else st.splitOn ","
  (parts.foldlM addToken (emptySite loaded)).bind fun s => if s.modelled then some s else none

def parseOptNat (s : String) : Option (Option Nat) :=
  if s = "-" then some none else s.toNat?.map some

def parseKind : String → Option BodyKind
  | "plain" => some .plain
  | "tok" => some .tplOK
  | "tparse" => some .tplParse
  | "texec" => some .tplExec
  | _ => none

/-- number of informational headers the probe sends first: the leading i's of the mode -/
def modeInfos (mode : String) : Nat := ((mode.toList.dropWhile (· == 'e')).takeWhile (· == 'i')).length

/-- a leading `e` of the mode: the handler sets a Content-Encoding of its own first -/
def modeCE (i : String) : Bool :=
  match i.splitOn ":" with
  | ["write", _, _, _, _, _, mode] => mode.startsWith "e"
  | _ => false

/-- the text/template output of the stream's templates: every `{{.Method}}` (11 bytes) becomes `GET` -/
def renderedLen (b : List UInt8) : Nat :=
  let pat : List UInt8 := "{{.Method}}".toUTF8.toList
  b.length - 8 * ((List.range b.length).countP fun k => pat.isPrefixOf (b.drop k))

/-- the number a Content-Length set from a chunk parses to (only the handler's and the rendered
body ever get one) -/
def chunkLen : Chunk → Nat
  | .inner b => b.length
  | .rendered b => renderedLen b
  | _ => 0

def parseInner (s : String) : Option (Nat × Inner) :=
  match s.splitOn ":" with
  | ["ret", st, e] => do pure (0, .ret (← st.toNat?) (e == "1"))
  | ["ret", st, e, n] => do pure (← n.toNat?, .ret (← st.toNat?) (e == "1"))
  | ["write", st, b, e, k, cl, mode] => do
    pure (modeInfos mode, .write (← parseOptNat st) (← Driver.unhex b) (e == "1") (← parseKind k) (cl == "1"))
  | ["file", k, b] => do pure (0, .write (some 200) (← Driver.unhex b) false (← parseKind k) true)
  | ["panic"] => some (0, .panicBefore)
  | ["panic", n] => do pure (← n.toNat?, .panicBefore)
  | ["panicafter", st, b] => do pure (0, .panicAfter (← parseOptNat st) (← Driver.unhex b))
  | _ => none

structure Case where
  site : Site        -- the configuration as written
  path : String      -- the request path
  req : Req
  infos : Nat        -- informational headers the innermost handler sends first
  ce : Bool := false -- the handler sets a Content-Encoding of its own
  headLen : Option Nat := none  -- HEAD for a file: the Content-Length the file server sets (nothing is written)
  inner : Inner      -- what the innermost handler does for this request

/-- what gzip's response filters read off the response header -/
def Case.facts (c : Case) : RespFacts :=
  { len := fun ch => match c.headLen, ch with
      | some n, .inner [] =>
        -- the model's stand-in for the file's length on HEAD; `templates` renders the empty
        -- body the file server produced and sets Content-Length: 0
        if (c.site.cfg c.path).templates && c.req.html then 0 else n
      | _, _ => chunkLen ch,
    ce := c.ce }

/-- the model's answer: the site as written, with the response filters of its gzip configs -/
def Case.resp (c : Case) : Resp := siteServeWireF c.facts c.site c.path c.req c.infos c.inner

/-- the meaning of the site for this request -/
def Case.cfg (c : Case) : Cfg := c.site.cfg c.path

/-- the request path of a case: /x.<ext> for the scripted probe, /f-<kind>.<ext> for a file -/
def casePath (p : String) (i : String) : String :=
  let ext := if p.startsWith "html" then ".html" else ".bin"
  match i.splitOn ":" with
  | ["file", k, _] => "/f-" ++ k ++ ext
  | _ => "/x" ++ ext

def parseCaseL (loaded : Bool) : List String → Option Case
  | [st, p, ae, i] => do
    let head := p.endsWith "-head"
    let (n, gi) ← parseInner i
    -- the static file server answers a HEAD request with the header only (http.ServeContent):
    -- Content-Length set, nothing written
    let mi := if head && i.startsWith "file:" then Inner.write (some 200) [] false .plain true else gi
    pure { site := ← parseSite loaded st, path := casePath p i,
           req := { html := p.startsWith "html", ae := ae == "1", head := head },
           infos := n, inner := mi, ce := modeCE i,
           headLen := if head && i.startsWith "file:" then
               (match gi with | .write _ b _ _ _ => some b.length | _ => none) else none }
  | _ => none

def parseCase : List String → Option Case := parseCaseL true

def showChunk : Chunk → String
  | .inner b => "inner:" ++ Driver.hex b
  | .rendered b => "rendered:" ++ Driver.hex b
  | .errText s => s!"errtext:{s}"
  | .custom s => s!"custom:{s}"
  | .debugErr => "debugerr"
  | .debugPanic => "debugpanic"

def showBody (b : List (Chunk × Bool)) : String :=
  if b.isEmpty then "-" else "+".intercalate (b.map fun x => (if x.2 then "g:" else "r:") ++ showChunk x.1)

def showCL (head : Bool) (r : Resp) : String :=
  match r.cl with
  | none => "-"
  | some _ => if head then "h" else if clOK r then "=" else "!"

def showResp (head : Bool) (r : Resp) : String := s!"{r.commits} {r.status} {showCL head r} {showBody r.body}"

/-- an observed response: the Content-Length state is turned back into a symbolic value that is
right (`=`) or wrong (`!`) for the observed body -/
def mkResp (commits status : Nat) (cl : String) (body : List (Chunk × Bool)) : Option Resp :=
  let mk := fun (c : Option Chunk) => some { commits := commits, status := status, body := body, cl := c, live := c }
  if cl = "-" then mk none
  else if cl = "h" then mk (some (.custom 1))  -- HEAD: present, describes the body a GET would get
  else if cl = "=" then
    (match body with
      | [(c, false)] => mk (some c)
      | [] => mk (some (.inner []))
      | _ => mk none)   -- a correct length of a multi-chunk body: nothing to object to
  else if cl = "!" then mk (some (.custom 0))  -- a value that describes no body the server sends
  else none

def parseChunk (s : String) : Option (Chunk × Bool) :=
  let enc := s.startsWith "g:"
  if !(enc || s.startsWith "r:") then none
  else
    match ((s.drop 2).toString).splitOn ":" with
    | ["inner", h] => (Driver.unhex h).map fun b => (.inner b, enc)
    | ["rendered", h] => (Driver.unhex h).map fun b => (.rendered b, enc)
    | ["errtext", n] => n.toNat?.map fun n => (.errText n, enc)
    | ["custom", n] => n.toNat?.map fun n => (.custom n, enc)
    | ["debugerr"] => some (.debugErr, enc)
    | ["debugpanic"] => some (.debugPanic, enc)
    | _ => none

def parseBody (s : String) : Option (List (Chunk × Bool)) :=
  if s = "-" then some [] else (s.splitOn "+").mapM parseChunk

def serveModel (f : List String) : String :=
  match parseCase f with
  | none => "bad-case"
  | some c => showResp c.req.head c.resp ++ " ok"

def serveJudge (f : List String) (out : String) : String :=
  if out.startsWith "PANIC:" then "bad:not-contained:a panic escaped Server.ServeHTTP"
  else if (out.splitOn "other:").length > 1 then "bad:body:the body contains bytes that are neither the handler's nor a known error page"
  else if (out.splitOn "X:").length > 1 then "bad:body:the body is not decodable under its Content-Encoding"
  else
  match parseCase f, out.splitOn " " with
  | some c, [cm, st, cl, body, fu] =>
    match cm.toNat?, st.toNat?, parseBody body with
    | some cm, some st, some body =>
      match mkResp cm st cl body with
      | none => "bad:unparsable:" ++ out
      | some r =>
        let v := verdict c.req.head (c.cfg.templates && c.req.html) (effectiveErrors c.cfg) c.inner r
        if v != "ok" then v
        else if fu != "ok" then "bad:not-contained:the follow-up requests were not answered as a fresh instance of the site answers them"
        else "ok"
    | _, _, _ => "bad:unparsable:" ++ out
  | _, _ => "bad:unparsable:" ++ out

/-- c12.live: the response as an HTTP client sees it (one response head per request by
framing; a response never committed is net/http's implicit 200) -/
def liveModel (f : List String) : String :=
  match parseCase f with
  | none => "bad-case"
  | some c =>
    let r := c.resp
    let clok := clOK r || bodiless c.req.head r.status
    s!"{if r.status = 0 then 200 else r.status} {if clok then "ok" else "!"} {showBody r.body} ok ok"

def liveJudge (f : List String) (out : String) : String :=
  if (out.splitOn "ERR:").length > 1 then "bad:malformed:the client did not get a complete response (connection cut, or fewer bytes than declared)"
  else if (out.splitOn "other:").length > 1 then "bad:body:the body contains bytes that are neither the handler's nor a known error page"
  else if (out.splitOn "X:").length > 1 then "bad:body:the body is not decodable under its Content-Encoding"
  else
  match parseCase f, out.splitOn " " with
  | some c, [st, cl, body, f1, f2] =>
    match st.toNat?, parseBody body with
    | some st, some body =>
      match mkResp 1 st (if cl = "ok" then "-" else "!") body with
      | none => "bad:unparsable:" ++ out
      | some r =>
        let v := verdict c.req.head (c.cfg.templates && c.req.html) (effectiveErrors c.cfg) c.inner r
        if v != "ok" then v
        else if f1 != "ok" then "bad:not-contained:follow-up on the same connection not answered as on a fresh instance of the site"
        else if f2 != "ok" then "bad:not-contained:follow-up on a new connection not answered as on a fresh instance of the site"
        else "ok"
    | _, _ => "bad:unparsable:" ++ out
  | _, _ => "bad:unparsable:" ++ out

/-- c12.chain: the same cases on a chain assembled through the httpserver API from the
directives' own setup functions — no Casketfile, so no `errors` is added next to `gzip` -/
def noInject (f : List String) : Option Case := parseCaseL false f

def chainModel (f : List String) : String :=
  match noInject f with
  | none => "bad-case"
  | some c => showResp c.req.head c.resp ++ " ok"

def chainJudge (f : List String) (out : String) : String :=
  if out.startsWith "PANIC:" then "bad:not-contained:a panic escaped Server.ServeHTTP"
  else if (out.splitOn "other:").length > 1 then "bad:body:the body contains bytes that are neither the handler's nor a known error page"
  else if (out.splitOn "X:").length > 1 then "bad:body:the body is not decodable under its Content-Encoding"
  else
  match noInject f, out.splitOn " " with
  | some c, [cm, st, cl, body, fu] =>
    match cm.toNat?, st.toNat?, parseBody body with
    | some cm, some st, some body =>
      match mkResp cm st cl body with
      | none => "bad:unparsable:" ++ out
      | some r =>
        let v := verdict c.req.head (c.cfg.templates && c.req.html) (effectiveErrors c.cfg) c.inner r
        if v != "ok" then v
        else if fu != "ok" then "bad:not-contained:the follow-up requests were not answered as a fresh instance of the site answers them"
        else "ok"
    | _, _, _ => "bad:unparsable:" ++ out
  | _, _ => "bad:unparsable:" ++ out

def streams : List Driver.Stream := [
  { name := "c12.chain", model := chainModel, judge := chainJudge },
  { name := "c12.serve", model := serveModel, judge := serveJudge },
  { name := "c12.live", model := liveModel, judge := liveJudge }
]

end Driver.C12
