import Driver.Proto
/- Streams of C12 (stub: not built yet). -/
namespace Driver.C12
def streams : List Driver.Stream := []
end Driver.C12
