import Casket.Model.TLSGroup
import Casket.Spec.TLSGroup
import Casket.Model.TLSSetup
import Casket.Spec.TLSSetup
import Casket.Model.VHost
import Driver.Proto
import Driver.C01
/-
Streams of C06.
  c06.select  aesni  cfgs  snihex  localip
     cfgs    = ';' list of  hosthex|enabled|min|max|ciphers|curves|prefer|clientAuth|clientCerts|alpn|disableSNI
               (ciphers, curves, clientCerts: comma list of decimals; alpn: comma list of hex)
     localip = '-' (no connection) or hex
     out     = err:<0 mix|1 build|2 incompatible> | plain | nil | any
             | cfg TAB idx TAB min TAB max TAB ciphers TAB curves TAB prefer TAB clientAuth TAB alpn
  c06.defaults aesni cfg          out = min TAB max TAB ciphers TAB curves TAB prefer   (SetDefaultTLSParams)
  c06.snihost  sites cfgs hosthex pathhex tls snihex
     sites as in c01.route, cfgs: per site clientAuth|disableSNI (';' list)
     out = site TAB idx | forbidden | notfound TAB status
-/
namespace Driver.C06
open Casket.TLSGroup
open Casket.VHost (Bytes)

def bytes := Driver.C01.bytes
def hexB := Driver.C01.hexB

def bytesList (s : String) : Option (List Bytes) :=
  if s = "" then some [] else (s.splitOn ",").mapM bytes

def parseCfg (s : String) : Option Cfg :=
  match s.splitOn "|" with
  | [h, en, mn, mx, cs, cv, pf, ca, cc, al, ds] => do
    pure { hostname := ← bytes h, enabled := en == "1", minV := ← mn.toNat?, maxV := ← mx.toNat?,
           ciphers := ← Driver.natList cs, curves := ← Driver.natList cv, preferServer := pf == "1",
           clientAuth := ← ca.toNat?, clientCerts := ← Driver.natList cc, alpn := ← bytesList al,
           disableSNIMatching := ds == "1" }
  | _ => none

def parseCfgs (s : String) : Option (List Cfg) :=
  if s = "" then some [] else (s.splitOn ";").mapM parseCfg

def parseLocal (s : String) : Option (Option Bytes) :=
  if s = "-" then some none else (bytes s).map some

def bool01 (b : Bool) : String := if b then "1" else "0"

def showBuilt (b : Built) : String :=
  "\t".intercalate [toString b.minV, toString b.maxV, Driver.showNatList b.ciphers, Driver.showNatList b.curves,
    bool01 b.preferServer, toString b.clientAuth, ",".intercalate (b.nextProtos.map hexB)]

def showObs : Obs → String
  | .error c => s!"err:{c}"
  | .plain => "plain"
  | .nothing => "nil"
  | .any => "any"
  | .cfg i b => s!"cfg\t{i}\t{showBuilt b}"

def parseObs (s : String) : Option Obs :=
  match s.splitOn "\t" with
  | ["err:0"] => some (.error 0)
  | ["err:1"] => some (.error 1)
  | ["err:2"] => some (.error 2)
  | ["plain"] => some .plain
  | ["nil"] => some .nothing
  | ["any"] => some .any
  | ["cfg", i, mn, mx, cs, cv, pf, ca, al] => do
    let i ← i.toNat?
    let mn ← mn.toNat?
    let mx ← mx.toNat?
    let cs ← Driver.natList cs
    let cv ← Driver.natList cv
    let ca ← ca.toNat?
    let al ← bytesList al
    pure (.cfg i { minV := mn, maxV := mx, ciphers := cs, curves := cv, preferServer := pf == "1",
                   clientAuth := ca, nextProtos := al })
  | _ => none

structure SelCase where
  aesni : Bool
  cfgs : List Cfg
  sni : Bytes
  localIP : Option Bytes

def parseSel : List String → Option SelCase
  | [a, cs, sni, lip] => do
    pure { aesni := a == "1", cfgs := ← parseCfgs cs, sni := ← bytes sni, localIP := ← parseLocal lip }
  | _ => none

def selectModel (f : List String) : String :=
  match parseSel f with
  | none => "bad-case"
  | some c => showObs (pipeline c.aesni c.cfgs c.sni c.localIP)

def selectJudge (f : List String) (out : String) : String :=
  match parseSel f, parseObs out with
  | some c, some o => Casket.TLSSpec.verdict c.aesni c.cfgs c.sni c.localIP o
  | _, _ => "bad:unparsable:" ++ out

def defaultsModel : List String → String
  | [a, c] =>
    match parseCfg c with
    | none => "bad-case"
    | some c =>
      let d := setDefaults (a == "1") c
      "\t".intercalate [toString d.minV, toString d.maxV, Driver.showNatList d.ciphers, Driver.showNatList d.curves, bool01 d.preferServer]
  | _ => "bad-case"

/-- per-site `clientAuth|disableSNI`, ';' separated -/
def parseSniCfgs (s : String) : Option (List Cfg) :=
  if s = "" then some [] else (s.splitOn ";").mapM fun e =>
    match e.splitOn "|" with
    | [ca, ds] => do
      pure { hostname := [], enabled := true, minV := 0, maxV := 0, ciphers := [], curves := [], preferServer := false,
             clientAuth := ← ca.toNat?, clientCerts := [], alpn := [], disableSNIMatching := ds == "1" }
    | _ => none

structure SniCase where
  sites : List Casket.VHost.Site
  cfgs : List Cfg
  req : Casket.VHost.Req
  sni : Option Bytes

def parseSni : List String → Option SniCase
  | [ss, cs, h, p, sni] => do
    pure { sites := ← Driver.C01.parseSites ss, cfgs := ← parseSniCfgs cs,
           req := { host := ← bytes h, path := ← bytes p, protoMajor := 1 }, sni := ← parseLocal sni }
  | _ => none

def showServed : Served → String
  | .site i => s!"site\t{i}"
  | .forbidden => "forbidden"
  | .notFound st => s!"notfound\t{st}"

def parseServed (s : String) : Option Served :=
  match s.splitOn "\t" with
  | ["site", i] => i.toNat?.map .site
  | ["forbidden"] => some .forbidden
  | ["notfound", st] => st.toNat?.map .notFound
  | _ => none

def sniModel (f : List String) : String :=
  match parseSni f with
  | none => "bad-case"
  | some c => showServed (serveTLS c.sites c.cfgs c.req c.sni)

def sniJudge (f : List String) (out : String) : String :=
  match parseSni f, parseServed out with
  | some c, some o => Casket.TLSSpec.sniVerdict c.cfgs c.req c.sni o
  | _, _ => "bad:unparsable:" ++ out

/-
  c06.handshake  aesni  cfgs  snihex  cmin  cmax  localaddr
     out = fail | ok TAB version TAB sanhex TAB requested(0|1)
-/
structure HsCase where
  aesni : Bool
  cfgs : List Cfg
  sni : Bytes
  cmin : Nat
  cmax : Nat
  la : Option Bytes

def parseHs : List String → Option HsCase
  | [a, cs, sni, mn, mx, la] => do
    pure { aesni := a == "1", cfgs := ← parseCfgs cs, sni := ← bytes sni, cmin := ← mn.toNat?, cmax := ← mx.toNat?,
           la := ← parseLocal la }
  | _ => none

def showHS : HS → String
  | .fail => "fail"
  | .ok v san r => s!"ok\t{v}\t{hexB san}\t{bool01 r}"

def parseHS (s : String) : Option HS :=
  match s.splitOn "\t" with
  | ["fail"] => some .fail
  | ["ok", v, san, r] => do pure (.ok (← v.toNat?) (← bytes san) (r == "1"))
  | _ => none

def hsModel (f : List String) : String :=
  match parseHs f with
  | none => "bad-case"
  | some c => showHS (handshake c.aesni c.cfgs c.sni c.cmin c.cmax c.la)

def hsJudge (f : List String) (out : String) : String :=
  match parseHs f, parseHS out with
  | some c, some o => Casket.TLSSpec.hsVerdict c.aesni c.cfgs c.sni c.la o
  | _, _ => "bad:unparsable:" ++ out

/- c06.build  aesni cfg   out = err | plain | <built fields> -/
def buildModel : List String → String
  | [a, c] =>
    match parseCfg c with
    | none => "bad-case"
    | some c =>
      if !c.enabled then "plain"
      else match build (a == "1") c with
        | none => "err"
        | some (_, b) => showBuilt b
  | _ => "bad-case"

def buildJudge (f : List String) (out : String) : String :=
  if out == "err" || out == "plain" then "ok"
  else match parseObs ("cfg\t0\t" ++ out) with
    | some (.cfg _ b) =>
      match f with
      | [_, c] => match parseCfg c with
        | some c => Casket.TLSSpec.buildVerdict (some (c, b))
        | none => "bad:unparsable:case"
      | _ => "bad:unparsable:case"
    | _ => "bad:unparsable:" ++ out

/- c06.connect  aesni  sites  cfgs  namehex  pathhex
     sites as in c01.route (addrHost = TLS.Hostname); cfgs as in c06.select (hostname field unused: taken from the site)
     out = <select out: err:n|plain|nil|any|cfg TAB idx> || <served out>    (two parts joined by TAB "||" TAB) -/
structure ConnCase where
  aesni : Bool
  sites : List Casket.VHost.Site
  cfgs : List Cfg
  name : Bytes
  path : Bytes

def parseConn : List String → Option ConnCase
  | [a, ss, cs, n, p] => do
    let sites ← Driver.C01.parseSites ss
    let cfgs ← parseCfgs cs
    if sites.length != cfgs.length then none
    else
      let cfgs := (sites.zip cfgs).map fun (s, c) => { c with hostname := s.addrHost }
      pure { aesni := a == "1", sites := sites, cfgs := cfgs, name := ← bytes n, path := ← bytes p }
  | _ => none

def showSel : Obs → String
  | .cfg i _ => s!"cfg\t{i}"
  | o => showObs o

def connModel (f : List String) : String :=
  match parseConn f with
  | none => "bad-case"
  | some c =>
    let o := connect c.aesni c.sites c.cfgs c.name c.path
    showSel o.1 ++ "\t||\t" ++ showServed o.2

def splitBars : List String → List String → List String × List String
  | [], acc => (acc.reverse, [])
  | "||" :: rest, acc => (acc.reverse, rest)
  | x :: rest, acc => splitBars rest (x :: acc)

def dummyBuilt : Built := { ciphers := [], curves := [], preferServer := false, minV := 0, maxV := 0, clientAuth := 0, nextProtos := [] }

def connJudge (f : List String) (out : String) : String :=
  match parseConn f with
  | none => "bad:unparsable:case"
  | some c =>
    let (a, b) := splitBars (out.splitOn "\t") []
    let sel : Option Obs := match a with
      | ["cfg", i] => i.toNat?.map (fun i => .cfg i dummyBuilt)
      | _ => parseObs ("\t".intercalate a)
    match sel, parseServed ("\t".intercalate b) with
    | some s, some v => Casket.TLSSpec.crossVerdict c.cfgs (s, v)
    | _, _ => "bad:unparsable:" ++ out

/- c06.cross  aesni  sites  cfgs  snihex  hosthex  pathhex
     c06.connect with SNI and Host as separate fields; out as in c06.connect -/
structure CrossCase where
  aesni : Bool
  sites : List Casket.VHost.Site
  cfgs : List Cfg
  sni : Bytes
  host : Bytes
  path : Bytes

def parseCross : List String → Option CrossCase
  | [a, ss, cs, n, h, p] => do
    let c ← parseConn [a, ss, cs, n, p]
    pure { aesni := c.aesni, sites := c.sites, cfgs := c.cfgs, sni := c.name, host := ← bytes h, path := c.path }
  | _ => none

def crossModel (f : List String) : String :=
  match parseCross f with
  | none => "bad-case"
  | some c =>
    let o := connectSH c.aesni c.sites c.cfgs c.sni c.host c.path
    showSel o.1 ++ "\t||\t" ++ showServed o.2

def crossJudge (f : List String) (out : String) : String :=
  match parseCross f with
  | none => "bad:unparsable:case"
  | some c =>
    let (a, b) := splitBars (out.splitOn "\t") []
    let sel : Option Obs := match a with
      | ["cfg", i] => i.toNat?.map (fun i => .cfg i dummyBuilt)
      | _ => parseObs ("\t".intercalate a)
    match sel, parseServed ("\t".intercalate b) with
    | some s, some v => Casket.TLSSpec.crossSHVerdict c.cfgs c.sni ⟨c.host, c.path, 1⟩ (s, v)
    | _, _ => "bad:unparsable:" ++ out

/- c06.loaded  aesni  sites  cfgs  how  snihex  hosthex  pathhex
     the listener of c06.cross built from a Casketfile by the real loader.  sites[i].key = the address AS WRITTEN,
     sites[i].addrHost = the host pattern it MEANS (becomes the config's hostname here); cfgs = what the tls blocks
     mean; `how` (the way the blocks are written) is not read: the answer is a function of the meaning.
     out = <full c06.select out> || <served out> -/
def parseLoaded : List String → Option CrossCase
  | [a, ss, cs, _how, n, h, p] => parseCross [a, ss, cs, n, h, p]
  | _ => none

def loadedModel (f : List String) : String :=
  match parseLoaded f with
  | none => "bad-case"
  | some c =>
    let o := connectSH c.aesni c.sites c.cfgs c.sni c.host c.path
    showObs o.1 ++ "\t||\t" ++ showServed o.2

def loadedJudge (f : List String) (out : String) : String :=
  match parseLoaded f with
  | none => "bad:unparsable:case"
  | some c =>
    let (a, b) := splitBars (out.splitOn "\t") []
    if a == ["err:load"] then "ok"     -- the loader refused the file: no listener (the property is silent; the model comparison reports it)
    else match parseObs ("\t".intercalate a), parseServed ("\t".intercalate b) with
    | some s, some v => Casket.TLSSpec.loadedVerdict c.aesni c.cfgs c.sni ⟨c.host, c.path, 1⟩ (s, v)
    | _, _ => "bad:unparsable:" ++ out

/- c06.setup  aesni  block
     block = ';' list of lines  <namehex>|<arghex>,<arghex>,…   (the body of `tls self_signed { … }`)
     out   = err:<argcount|badprotocol|badcipher|badcurve|mingtmax|unknown>
           | min TAB max TAB ciphers TAB curves TAB prefer TAB clientAuth TAB clientCerts(hex list) TAB alpn(hex list) TAB disableSNI -/
open Casket.TLSSetup in
def parseLine (s : String) : Option Line :=
  match s.splitOn "|" with
  | [n, as] => do pure { name := ← bytes n, args := ← bytesList as }
  | _ => none

open Casket.TLSSetup in
def parseBlock (s : String) : Option (List Line) :=
  if s = "" then some [] else (s.splitOn ";").mapM parseLine

open Casket.TLSSetup in
def showSetupErr : SetupErr → String
  | .argCount => "err:argcount"
  | .badProtocol => "err:badprotocol"
  | .badCipher => "err:badcipher"
  | .badCurve => "err:badcurve"
  | .minGtMax => "err:mingtmax"
  | .unknown => "err:unknown"

open Casket.TLSSetup in
def showFinal (f : Final) : String :=
  "\t".intercalate [toString f.cfg.minV, toString f.cfg.maxV, Driver.showNatList f.cfg.ciphers, Driver.showNatList f.cfg.curves,
    bool01 f.cfg.preferServer, toString f.cfg.clientAuth, ",".intercalate (f.clientCerts.map hexB),
    ",".intercalate (f.cfg.alpn.map hexB), bool01 f.cfg.disableSNIMatching]

open Casket.TLSSetup in
def parseFinal (s : String) : Option (Except SetupErr Final) :=
  match s.splitOn "\t" with
  | ["err:argcount"] => some (.error .argCount)
  | ["err:badprotocol"] => some (.error .badProtocol)
  | ["err:badcipher"] => some (.error .badCipher)
  | ["err:badcurve"] => some (.error .badCurve)
  | ["err:mingtmax"] => some (.error .minGtMax)
  | ["err:unknown"] => some (.error .unknown)
  | [mn, mx, cs, cv, pf, ca, cc, al, ds] => do
    let mn ← mn.toNat?
    let mx ← mx.toNat?
    let cs ← Driver.natList cs
    let cv ← Driver.natList cv
    let ca ← ca.toNat?
    let cc ← bytesList cc
    let al ← bytesList al
    pure (.ok { cfg := { hostname := [], enabled := true, minV := mn, maxV := mx, ciphers := cs, curves := cv,
                         preferServer := pf == "1", clientAuth := ca, clientCerts := [], alpn := al,
                         disableSNIMatching := ds == "1" },
                clientCerts := cc })
  | _ => none

/-- the optional third field (the site address as written) is not read: the block's meaning does not depend on it -/
def setupFields : List String → Option (String × String)
  | [a, b] => some (a, b)
  | [a, b, _addr] => some (a, b)
  | _ => none

def setupModel (f : List String) : String :=
  match setupFields f with
  | some (a, b) =>
    match parseBlock b with
    | none => "bad-case"
    | some block =>
      match Casket.TLSSetup.setupTLS (a == "1") block with
      | .error e => showSetupErr e
      | .ok f => showFinal f
  | none => "bad-case"

def setupJudge (f : List String) (out : String) : String :=
  match setupFields f with
  | some (a, b) =>
    match parseBlock b, parseFinal out with
    | some block, some o => Casket.TLSSetupSpec.verdict (a == "1") block o
    | _, _ => "bad:unparsable:" ++ out
  | none => "bad:unparsable:case"

/- c06.listener  aesni  block  block2  [w1  w2  other]    out = err | fail | ok TAB version TAB sanhex TAB requested
     block / block2: the sites a.test:8443 and a.test:8443/admin (block2 = "-": no second site); other: a site b.test:8443
     (absent or "-": none).  w1 / w2 = the first two addresses as written — not read: hostnames are what they mean. -/
def aTest : Bytes := Casket.TLSSetup.str "a.test"
def bTest : Bytes := Casket.TLSSetup.str "b.test"

open Casket.TLSSetup in
/-- the site's settings as the `tls` block states them (before defaults), for the listener model -/
def rawCfgOf (host : Bytes) (r : Raw) : Cfg :=
  { hostname := host, enabled := true, minV := r.minV, maxV := r.maxV, ciphers := r.ciphers, curves := r.curves,
    preferServer := false, clientAuth := r.clientAuth, clientCerts := [], alpn := r.alpn, disableSNIMatching := r.disableSNI }

structure ListenerCase where
  aesni : Bool
  blocks : List (Bytes × List Casket.TLSSetup.Line)     -- one per site: the host name its address means, its block

def listenerCase : List String → Option ListenerCase
  | [a, b, b2] => do
    let bl ← parseBlock b
    if b2 == "-" then pure { aesni := a == "1", blocks := [(aTest, bl)] }
    else pure { aesni := a == "1", blocks := [(aTest, bl), (aTest, ← parseBlock b2)] }
  | [a, b, b2, _w1, _w2, o] => do
    let bl ← parseBlock b
    let second ← if b2 == "-" then pure [] else do pure [(aTest, ← parseBlock b2)]
    let third ← if o == "-" then pure [] else do pure [(bTest, ← parseBlock o)]
    pure { aesni := a == "1", blocks := (aTest, bl) :: second ++ third }
  | _ => none

/-- the sites' settings as their `tls` blocks state them, or none if some block is rejected / names a CA file
(the CA files of the generator do not exist: NewServer fails) -/
def listenerCfgs (c : ListenerCase) : Option (List Cfg) :=
  c.blocks.mapM fun (host, bl) =>
    match Casket.TLSSetup.applyLines {} bl with
    | .error _ => none
    | .ok r => if !r.clientCerts.isEmpty then none else some (rawCfgOf host r)

def listenerModel (f : List String) : String :=
  match listenerCase f with
  | none => "bad-case"
  | some c =>
    match listenerCfgs c with
    | none => "err"
    | some cfgs =>
      match pipeline c.aesni cfgs aTest (some (Casket.TLSSetup.str "pipe")) with
      | .error _ => "err"
      | _ => showHS (handshake c.aesni cfgs aTest tls10 tls13 (some (Casket.TLSSetup.str "pipe")))

def listenerJudge (f : List String) (out : String) : String :=
  if out == "err" then "ok"
  else match listenerCase f, parseHS out with
    | some c, some o =>
      match listenerCfgs c with
      | none => "bad:handshake-on-rejected-block:a listener came up although a tls block must be rejected"
      | some cfgs => Casket.TLSSpec.hsVerdict c.aesni cfgs aTest (some (Casket.TLSSetup.str "pipe")) o
    | _, _ => "bad:unparsable:" ++ out

def streams : List Driver.Stream := [
  { name := "c06.setup", model := setupModel, judge := setupJudge },
  { name := "c06.listener", model := listenerModel, judge := listenerJudge },
  { name := "c06.connect", model := connModel, judge := connJudge },
  { name := "c06.cross", model := crossModel, judge := crossJudge },
  { name := "c06.loaded", model := loadedModel, judge := loadedJudge },
  { name := "c06.build", model := buildModel, judge := buildJudge },
  { name := "c06.handshake", model := hsModel, judge := hsJudge },
  { name := "c06.snihost", model := sniModel, judge := sniJudge },
  { name := "c06.select", model := selectModel, judge := selectJudge },
  { name := "c06.defaults", model := defaultsModel, judge := fun _ _ => "ok" }
]

end Driver.C06
