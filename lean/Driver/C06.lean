import Driver.Proto
/- Streams of C06 (stub: not built yet). -/
namespace Driver.C06
def streams : List Driver.Stream := []
end Driver.C06
