import Driver.Loop
import Driver.C20
/- model driver of property C20 -/
def main (args : List String) : IO Unit := Driver.run Driver.C20.streams args
