import Casket.Model.AutoHTTPSAddr
import Casket.Model.AutoHTTPSRedirect
import Casket.Spec.AutoHTTPS
import Driver.Proto
/-
Streams of C15 (formats: see harness/streams/c15.go).  Byte strings travel q-encoded:
letters, digits and . _ : * / - [ ] literally, every other byte as %XX.
-/
namespace Driver.C15
open Casket.AutoHTTPS

def safeByte (c : UInt8) : Bool :=
  isAlpha c || isDigit c || (b!"._:*/-[]").contains c

def q (bs : Bytes) : String :=
  String.ofList (bs.flatMap fun c =>
    if safeByte c then [Char.ofNat c.toNat]
    else ['%', Driver.hexDigit (c.toNat / 16) |>.toUpper, Driver.hexDigit (c.toNat % 16) |>.toUpper])

def unqGo : List UInt8 → List UInt8 → Option Bytes
  | [], acc => some acc.reverse
  | 37 :: a :: b :: t, acc =>
    if isHexDigit a && isHexDigit b then unqGo t (UInt8.ofNat (Casket.AutoHTTPS.hexVal a * 16 + Casket.AutoHTTPS.hexVal b) :: acc) else none
  | 37 :: _, _ => none
  | c :: t, acc => unqGo t (c :: acc)

def unq (s : String) : Option Bytes := unqGo s.toUTF8.toList []

def bit (b : Bool) : String := if b then "1" else "0"

/-! ### c15.host -/

def hostModel : List String → String
  | [h] => match unq h with
    | none => "bad-case"
    | some h =>
      let ip := match parseIP h with | some ip => q (ipString ip) | none => "-"
      s!"L={bit (isLoopback h)} I={bit (isInternal h)} Q={bit (subjectQualifiesForPublicCert h)} ip={ip}"
  | _ => "bad-case"

/-- the configured ports of a case: `<http>/<https>` -/
def parsePorts (s : String) : Option Ports :=
  match s.splitOn "/" with
  | [h, t] => if h.toNat?.isSome && t.toNat?.isSome then some { http := h.toUTF8.toList, https := t.toUTF8.toList } else none
  | _ => none

/-! ### c15.qualify -/

def parseQualify : List String → Option Site
  | [s, h, p, l, bits, e] => do
    let bs := bits.toList
    if bs.length != 4 then none
    pure { scheme := ← unq s, host := ← unq h, port := ← unq p, listen := ← unq l,
           manual := bs[0]! == '1', selfSigned := bs[1]! == '1', onDemand := bs[2]! == '1' && bs[3]! == '1',
           hasManager := bs[3]! == '1', email := ← unq e }
  | _ => none

def qualifyModel : List String → String
  | ps :: f => match parsePorts ps, parseQualify f with
    | some P, some c => bit (qualifiesP P c)
    | _, _ => "bad-case"
  | _ => "bad-case"

def qualifyJudge (f : List String) (out : String) : String :=
  match f with
  | ps :: f => match parsePorts ps, parseQualify f with
    | some P, some c =>
      if out == "1" then Casket.AutoHTTPSSpec.qualifyVerdict P c true
      else if out == "0" then Casket.AutoHTTPSSpec.qualifyVerdict P c false
      else "bad:unparsable:" ++ out
    | _, _ => "bad:unparsable:case"
  | _ => "bad:unparsable:case"

/-! ### c15.addr -/

def errName : AddrErr → String
  | .url => "error:url"
  | .convention => "error:convention"
  | .dupKey => "error:dupkey"
  | .dupAddr => "error:dupaddr"
  | .outOfModel => "out-of-model"

def addrModel : List String → String
  | [ps, a] => match parsePorts ps, unq a with
    | some P, some a =>
      match standardizeAddressP P a with
      | .error e => errName e
      | .ok a =>
        let a := a.normalize
        "|".intercalate [q a.scheme, q a.host, q a.port, q a.path, q a.key, q a.vhost]
    | _, _ => "bad-case"
  | _ => "bad-case"

def addrJudge (f : List String) (out : String) : String :=
  match f with
  | [ps, a] => match parsePorts ps, unq a with
    | some P, some a =>
      if out == "error:convention" then Casket.AutoHTTPSSpec.addrVerdict P a none
      else if out.startsWith "error:" || out == "out-of-model" then "ok"
      else match out.splitOn "|" with
        | [s, h, p, _, _, _] => match unq s, unq h, unq p with
          | some s, some h, some p => Casket.AutoHTTPSSpec.addrVerdict P a (some (s, h, p))
          | _, _, _ => "bad:unparsable:" ++ out
        | _ => "bad:unparsable:" ++ out
    | _, _ => "bad:unparsable:case"
  | _ => "bad:unparsable:case"

/-! ### c15.sites -/

def parseVariant (s : String) : Option TLSVariant :=
  match s.splitOn "+" with
  | [] => none
  | b :: opts => do
    let base ← match b with
      | "none" => some TLSBase.none
      | "off" => some .off
      | "email" => some .email
      | "self" => some .selfSigned
      | "manual" => some .manual
      | "load" => some .load
      | "block" => some .block
      -- options only, written differently in the Casketfile (protocols / ciphers / an imported snippet): same flags as `block`
      | "proto" => some .block
      | "ciph" => some .block
      | "snip" => some .block
      | _ => none
    if opts.any (fun o => o != "nr" && o != "od") then none
    pure { base := base, noRedirect := opts.contains "nr", onDemand := opts.contains "od" }

/-- the `tls` directives of a site block, in the order of the Casketfile: `v1&v2&…` -/
def parseVariants (s : String) : Option (List TLSVariant) := (s.splitOn "&").mapM parseVariant

/-- one declared site: address text, bind, tls directives -/
structure Decl where
  addr : Bytes
  bind : Bytes
  tls : List TLSVariant

def parseBlock (s : String) : Option (List Decl) :=
  match s.splitOn "|" with
  | [keys, bind, tls] => do
    let bind ← unq bind
    let v ← parseVariants tls
    let ks ← (keys.splitOn ",").mapM unq
    pure (ks.map fun k => { addr := k, bind := bind, tls := v })
  | _ => none

def parseBlocks (s : String) : Option (List Decl) := do
  let bs ← (s.splitOn ";").mapM parseBlock
  pure bs.flatten

def siteFlags (c : Site) : String :=
  bit c.enabled ++ bit c.manual ++ bit c.selfSigned ++ bit c.noRedirect ++ bit c.onDemand

open Casket.AutoHTTPSSpec (probeHost probeURI probeTarget)

def showSite (d : Option (Site × Bool × Site)) (f : Site) : String :=
  let fin := s!"f={q f.scheme}|{q f.host}|{q f.port}|{bit f.enabled}"
  match d, f.redir with
  | some (d, m, e), _ => s!"d={q d.scheme}|{q d.host}|{q d.port}|{q d.listen}|{q d.email}|{siteFlags d}|m={bit m}|e={q e.port}|{bit e.enabled}|{fin}|r=-"
  | none, some rp => s!"d=-|m=-|{fin}|r={q (redirLocation rp probeHost probeURI)}"
  | none, none => s!"d=-|m=-|{fin}|r=middleware-count-0"

def sitesModel : List String → String
  | [ps, blocks] => match parsePorts ps, parseBlocks blocks with
    | some P, some ds =>
      match inspectP P (ds.map (·.addr)) with
      | .error e => errName e
      | .ok addrs =>
        let decl := (addrs.zip ds).map fun (a, d) => siteOfL a d.bind d.tls
        if decl.any directiveError then "error:directive" else
        let marked := markQualifiedP P decl
        let en := enableAutoHTTPSP P marked
        let fin := pipelineP P decl
        let n := decl.length
        let lines := (List.range fin.length).map fun i =>
          let f := fin[i]!
          if i < n then showSite (some (decl[i]!, marked[i]!.managed, en[i]!)) f else showSite none f
        ";".intercalate lines
    | _, _ => "bad-case"
  | _ => "bad-case"

open Casket.AutoHTTPSSpec in
/-- the declared site as the spec reads it from the input text -/
def specDeclared (P : Ports) (d : Decl) : Site :=
  let (s, h, p) := readAddrP P d.addr
  -- the host as Address.Normalize writes an IP literal
  let h := match parseIP h with | some ip => ipString ip | none => h
  readTLS d.tls { scheme := s, host := h, port := p, listen := d.bind }

def parseBit (s : String) : Option Bool := if s == "1" then some true else if s == "0" then some false else none

/-- one site record of the implementation's answer -/
structure Rec where
  isDeclared : Bool
  managed : Option Bool
  ePort : Bytes := []
  fScheme : Bytes
  fHost : Bytes
  fPort : Bytes
  fEnabled : Bool
  loc : String

def dropPrefix (s : String) (n : Nat) : String := String.ofList (s.toList.drop n)

def parseFinal (isDecl : Bool) (m f0 fh fp fe r : String) : Option Rec := do
  pure { isDeclared := isDecl, managed := parseBit (dropPrefix m 2), fScheme := ← unq (dropPrefix f0 2), fHost := ← unq fh,
         fPort := ← unq fp, fEnabled := ← parseBit fe, loc := dropPrefix r 2 }

def parseRec (s : String) : Option Rec :=
  match s.splitOn "|" with
  | [_, _, _, _, _, _, m, e0, _, f0, fh, fp, fe, r] => do
    let r ← parseFinal true m f0 fh fp fe r
    pure { r with ePort := ← unq (dropPrefix e0 2) }
  | [_, m, f0, fh, fp, fe, r] => parseFinal false m f0 fh fp fe r
  | _ => none

open Casket.AutoHTTPSSpec in
def sitesJudge (f : List String) (out : String) : String :=
  match f with
  | [ps, blocks] =>
    match parsePorts ps, parseBlocks blocks with
    | none, _ => "bad:unparsable:case"
    | _, none => "bad:unparsable:case"
    | some P, some ds =>
      if out.startsWith "error:" || out == "out-of-model" then "ok"
      else
        match (out.splitOn ";").mapM parseRec with
        | none => "bad:unparsable:" ++ out
        | some ps =>
          let declared := ps.filter (·.isDeclared)
          let synth := ps.filter (!·.isDeclared)
          if declared.length != ds.length then "bad:unparsable:number of declared sites"
          else
            let os : Option (List Observed) := (declared.zip ds).mapM fun (p, d) => do
              let m ← p.managed
              pure { declared := specDeclared P d, managed := m, ePort := p.ePort, fScheme := p.fScheme, fHost := p.fHost, fPort := p.fPort, fEnabled := p.fEnabled }
            match os with
            | none => "bad:unparsable:managed flag"
            | some os =>
              let rs : List ObservedRedirect := synth.map fun p =>
                { fHost := p.fHost, fPort := p.fPort, fEnabled := p.fEnabled, target := (unq p.loc).bind probeTarget }
              sitesVerdict P os rs
  | _ => "bad:unparsable:case"

/-! ### c15.inspect -/

def parseSpellings (s : String) : Option (List Bytes) := (s.splitOn ",").mapM unq

def inspectModel : List String → String
  | [ks] => match parseSpellings ks with
    | none => "bad-case"
    | some ks =>
      if ks.any (fun k => !inAddrDomain k || k.isEmpty) then "out-of-model"
      else match inspect ks with
        | .error e => errName e
        | .ok as => "ok " ++ ";".intercalate (as.map fun a => q a.key ++ "|" ++ q a.siteString)
  | _ => "bad-case"

def inspectJudge (f : List String) (out : String) : String :=
  match f with
  | [ks] => match parseSpellings ks with
    | none => "bad:unparsable:case"
    | some ks =>
      if out.startsWith "ok " then Casket.AutoHTTPSSpec.inspectVerdict ks true
      else if out == "error:dupkey" || out == "error:dupaddr" then Casket.AutoHTTPSSpec.inspectVerdict ks false
      else "ok"
  | _ => "bad:unparsable:case"

/-! ### c15.redirect -/

def redirectModel : List String → String
  | [ps, p, h, t] => match parsePorts ps, unq p, unq h, unq t with
    | some P, some p, some h, some t =>
      match requestURI t with
      | .unreadable => "unreadable-request"
      | .outOfModel => "out-of-model"
      | .ok uri =>
        -- the first field is the port of the HTTPS site; redirPlaintextHost derives the handler's redirPort from it
        s!"{redirStatus} {q (redirLocation (capturedPortP P p) h uri)}"
    | _, _, _, _ => "bad-case"
  | _ => "bad-case"

def redirectJudge (f : List String) (out : String) : String :=
  match f with
  | [ps, p, h, t] => match parsePorts ps, unq p, unq h, unq t with
    | some P, some p, some h, some t =>
      if out == "unreadable-request" || out == "out-of-model" then "ok"
      else match out.splitOn " " with
        | [st, loc] => match st.toNat?, unq loc with
          | some st, some loc => Casket.AutoHTTPSSpec.redirectVerdict P p h t st loc
          | _, _ => "bad:unparsable:" ++ out
        | _ => "bad:unparsable:" ++ out
    | _, _, _, _ => "bad:unparsable:case"
  | _ => "bad:unparsable:case"

def streams : List Driver.Stream := [
  { name := "c15.host", model := hostModel, judge := fun _ _ => "ok" },
  { name := "c15.qualify", model := qualifyModel, judge := qualifyJudge },
  { name := "c15.addr", model := addrModel, judge := addrJudge },
  { name := "c15.inspect", model := inspectModel, judge := inspectJudge },
  { name := "c15.sites", model := sitesModel, judge := sitesJudge },
  -- the same site sets through the REAL activateHTTPS (reached via the parsing-callback registry): same answer, same judge
  { name := "c15.activate", model := sitesModel, judge := sitesJudge },
  { name := "c15.redirect", model := redirectModel, judge := redirectJudge }
]

end Driver.C15
