import Driver.Proto
/- Streams of C15 (stub: not built yet). -/
namespace Driver.C15
def streams : List Driver.Stream := []
end Driver.C15
