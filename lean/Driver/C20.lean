import Casket.Model.Replacer
import Casket.Spec.Replacer
import Driver.Proto
/-
Streams of C20.

  c20.replace  fmt empty RAW remote REWRITE sets tls reqid mitm recorder resphdr osenv
               reqhdr cookies query method host proto hostsplit remotesplit
               origpath origrawquery origfragment origuri curpath cururi
     RAW / REWRITE are only read by the Go side (it builds the real *http.Request from them and
     checks that the "view" fields are what net/http derives from them).
     lists: entries separated by ',', parts of an entry by ':', every part hex.
     out = hex of the replaced string | PANIC
-/
namespace Driver.C20
open Casket.Replacer

def hexParts (s : String) : Option (List (List UInt8)) := (s.splitOn ":").mapM Driver.unhex

def entries (s : String) : Option (List (List (List UInt8))) :=
  if s = "" then some [] else (s.splitOn ",").mapM hexParts

def pairs (s : String) : Option (List (Bytes × Bytes)) := do
  let es ← entries s
  es.mapM fun e => match e with
    | [k, v] => some (k, v)
    | _ => none

def multi (s : String) : Option (List (Bytes × List Bytes)) := do
  let es ← entries s
  es.mapM fun e => match e with
    | k :: vs => some (k, vs)
    | _ => none

def optPair (s : String) : Option (Option (Bytes × Bytes)) :=
  if s = "-" then some none else
  match hexParts s with
  | some [a, b] => some (some (a, b))
  | _ => none

def optHex (s : String) : Option (Option Bytes) :=
  if s = "-" then some none else (Driver.unhex s).map some

def optNatPair (s : String) : Option (Option (Nat × Nat)) :=
  if s = "-" then some none else
  match s.splitOn ":" with
  | [a, b] => do pure (some (← a.toNat?, ← b.toNat?))
  | _ => none

structure ReplaceCase where
  fmt : Bytes
  env : Env

def parseReplace : List String → Option ReplaceCase
  | [fmt, empty, _raw, remote, _rewrite, sets, tls, reqid, mitm, recorder, resphdr, osenv,
     reqhdr, cookies, query, method, host, proto, hostsplit, remotesplit,
     opath, orawq, ofrag, ouri, cpath, curi] => do
    let sets ← pairs sets
    let rec_ ← optNatPair recorder
    let rh ← multi resphdr
    let mitm ← (if mitm = "-" then some none else if mitm = "1" then some (some true)
                else if mitm = "0" then some (some false) else none)
    let env : Env := {
      empty := ← Driver.unhex empty
      -- Set() stores "{"+key+"}"; a later Set overwrites, so the last one must be found first
      custom := (sets.map fun p => (lbr :: (p.1 ++ [rbr]), p.2)).reverse
      reqHdr := ← multi reqhdr
      respHdr := if rec_.isSome then some rh else none
      cookies := ← pairs cookies
      query := ← pairs query
      osEnv := ← pairs osenv
      method := ← Driver.unhex method
      host := ← Driver.unhex host
      proto := ← Driver.unhex proto
      remoteAddr := ← Driver.unhex remote
      hostSplit := ← optPair hostsplit
      remoteSplit := ← optPair remotesplit
      tls := tls = "1"
      peerCert := false
      origPath := ← Driver.unhex opath
      origRawQuery := ← Driver.unhex orawq
      origFragment := ← Driver.unhex ofrag
      origURI := ← Driver.unhex ouri
      curPath := ← Driver.unhex cpath
      curURI := ← Driver.unhex curi
      requestID := (← optHex reqid).getD []
      mitm := mitm
      recorder := rec_
    }
    pure { fmt := ← Driver.unhex fmt, env := env }
  | _ => none

def replaceModel (f : List String) : String :=
  match parseReplace f with
  | none => "bad-case"
  | some c =>
    match replace c.env c.fmt with
    | .ok out => Driver.hex out
    | .error .panic => "PANIC"
    | .error .fuel => "FUEL"

def replaceJudge (f : List String) (out : String) : String :=
  match parseReplace f with
  | none => "bad:unparsable:case"
  | some c =>
    if out = "PANIC" then Casket.ReplacerSpec.verdict c.env c.fmt .panic
    else match Driver.unhex out with
      | none => "bad:unparsable:" ++ out
      | some b => Casket.ReplacerSpec.verdict c.env c.fmt (.out b)

def streams : List Driver.Stream := [
  { name := "c20.replace", model := replaceModel, judge := replaceJudge }
]

end Driver.C20
