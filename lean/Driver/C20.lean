import Driver.Proto
/- Streams of C20 (stub: not built yet). -/
namespace Driver.C20
def streams : List Driver.Stream := []
end Driver.C20
