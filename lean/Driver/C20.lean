import Casket.Model.Replacer
import Casket.Spec.Replacer
import Casket.Model.Log
import Casket.Spec.Log
import Driver.Proto
/-
Streams of C20.

  c20.replace  fmt empty RAW remote REWRITE sets tls reqid mitm recorder resphdr osenv
               reqhdr cookies query method host proto hostsplit remotesplit
               origpath origrawquery origfragment origuri curpath cururi
     RAW / REWRITE are only read by the Go side (it builds the real *http.Request from them and
     checks that the "view" fields are what net/http derives from them).
     lists: entries separated by ',', parts of an entry by ':', every part hex.
     out = hex of the replaced string | PANIC
-/
namespace Driver.C20
open Casket.Replacer

def hexParts (s : String) : Option (List (List UInt8)) := (s.splitOn ":").mapM Driver.unhex

def entries (s : String) : Option (List (List (List UInt8))) :=
  if s = "" then some [] else (s.splitOn ",").mapM hexParts

def pairs (s : String) : Option (List (Bytes × Bytes)) := do
  let es ← entries s
  es.mapM fun e => match e with
    | [k, v] => some (k, v)
    | _ => none

def multi (s : String) : Option (List (Bytes × List Bytes)) := do
  let es ← entries s
  es.mapM fun e => match e with
    | k :: vs => some (k, vs)
    | _ => none

def optPair (s : String) : Option (Option (Bytes × Bytes)) :=
  if s = "-" then some none else
  match hexParts s with
  | some [a, b] => some (some (a, b))
  | _ => none

def optHex (s : String) : Option (Option Bytes) :=
  if s = "-" then some none else (Driver.unhex s).map some

def optNatPair (s : String) : Option (Option (Nat × Nat)) :=
  if s = "-" then some none else
  match s.splitOn ":" with
  | [a, b] => do pure (some (← a.toNat?, ← b.toNat?))
  | _ => none

structure ReplaceCase where
  fmt : Bytes
  env : Env

def parseReplace : List String → Option ReplaceCase
  | [fmt, empty, _raw, remote, _rewrite, sets, tls, reqid, mitm, recorder, resphdr, osenv,
     reqhdr, cookies, query, method, host, proto, hostsplit, remotesplit,
     opath, orawq, ofrag, ouri, cpath, curi] => do
    let sets ← pairs sets
    let rec_ ← optNatPair recorder
    let rh ← multi resphdr
    let mitm ← (if mitm = "-" then some none else if mitm = "1" then some (some true)
                else if mitm = "0" then some (some false) else none)
    let env : Env := {
      empty := ← Driver.unhex empty
      -- Set() stores "{"+key+"}"; a later Set overwrites, so the last one must be found first
      custom := (sets.map fun p => (lbr :: (p.1 ++ [rbr]), p.2)).reverse
      reqHdr := ← multi reqhdr
      respHdr := if rec_.isSome then some rh else none
      cookies := ← pairs cookies
      query := ← pairs query
      osEnv := ← pairs osenv
      method := ← Driver.unhex method
      host := ← Driver.unhex host
      proto := ← Driver.unhex proto
      remoteAddr := ← Driver.unhex remote
      hostSplit := ← optPair hostsplit
      remoteSplit := ← optPair remotesplit
      tls := tls = "1"
      peerCert := false
      origPath := ← Driver.unhex opath
      origRawQuery := ← Driver.unhex orawq
      origFragment := ← Driver.unhex ofrag
      origURI := ← Driver.unhex ouri
      curPath := ← Driver.unhex cpath
      curURI := ← Driver.unhex curi
      requestID := (← optHex reqid).getD []
      mitm := mitm
      recorder := rec_
    }
    pure { fmt := ← Driver.unhex fmt, env := env }
  | _ => none

def replaceModel (f : List String) : String :=
  match parseReplace f with
  | none => "bad-case"
  | some c =>
    match replace c.env c.fmt with
    | .ok out => Driver.hex out
    | .error .panic => "PANIC"
    | .error .fuel => "FUEL"

def replaceJudge (f : List String) (out : String) : String :=
  match parseReplace f with
  | none => "bad:unparsable:case"
  | some c =>
    if out = "HANG" then "bad:non-terminating:Replace did not return within 5 s"
    else if out = "PANIC" then Casket.ReplacerSpec.verdict c.env c.fmt .panic
    else match Driver.unhex out with
      | none => "bad:unparsable:" ++ out
      | some b => Casket.ReplacerSpec.verdict c.env c.fmt (.out b)

/-!
  c20.log  directives conc requests errlens wrap writer   (wrap: - | errors | rewrite | gzip; writer: plain | rf | h1, Go side only)
     ops   h<code> | w<n> | c<n> io.Copy | n<n> io.CopyN | s<n> ServeContent | f Flush | p<hex> r.URL.Path = … | u<hex> r.URL = new URL
           l<n> w.Header().Set("Content-Length", n): a Write that would exceed it is REFUSED by the writer under the
                recorder (http.ErrContentLength) — only in scripts of h/w/f/p/u/l ops and not with wrap = gzip
     directives  ','-separated  D<hex scope>[:<hex except>]*        (one `log` directive each, in file order)
     requests    ','-separated  <hex path>:<ops>:<ret>:<0|1 panics>  ops '.'-separated h<code> | w<n>
     errlens     ','-separated  <status>=<length of the default error body>
     out = per directive (';') its lines ('|') as id.status.size, then '#', then per request status.size
-/
/-- `httpserver.Path.Matches` restricted to the clean paths the generator uses -/
def matchPath (p base : List UInt8) : Bool := Casket.Log.cleanPathMatches p base

open Casket.Log in
def parseDirective (s : String) : Option Directive :=
  if !s.startsWith "D" then none else
  match hexParts (s.drop 1).toString with
  | some (scope :: ex) => some { scope := scope, excepts := ex }
  | _ => none

open Casket.Log in
/-- one scripted call of the handler, as writer operations of the model.  The property is about
what the client receives, so a body sent with io.Copy / io.CopyN (`c`, `n`) IS a write of that many
bytes, `http.ServeContent` (`s`) is WriteHeader(200) + a write of the file size, and Flush (`f`)
sends the header without body bytes, i.e. a write of 0 bytes. -/
def parseOp (s : String) : Option (List Op) :=
  let arg := (s.drop 1).toString.toNat?
  if s.startsWith "h" then arg.map fun n => [Op.header n]
  else if s.startsWith "w" then arg.map fun n => [Op.write n]
  -- io.Copy of an empty source never calls Write, so it does not even send the header
  else if s.startsWith "c" || s.startsWith "n" then arg.map fun n => if n = 0 then [] else [Op.write n]
  else if s.startsWith "s" then arg.map fun n => [Op.header 200, Op.write n]
  else if s = "f" then some [Op.write 0]
  else if s.startsWith "l" then arg.map fun n => [Op.declare n]
  -- p<hex path>: r.URL.Path = …   u<hex path>: r.URL = &url.URL{Path: …}.  No writer operation;
  -- the new path is kept in the outcome (see parseRequest) and the model does not read it.
  else if s.startsWith "p" || s.startsWith "u" then (Driver.unhex (s.drop 1).toString).map fun _ => []
  else none

open Casket.Log in
/-- the path the scripted handler leaves in the request (last `p`/`u` op) -/
def lastPath (ops : List String) : Option (List UInt8) :=
  ops.foldl (fun acc s =>
    if s.startsWith "p" || s.startsWith "u" then (Driver.unhex (s.drop 1).toString).orElse fun _ => acc else acc) none

open Casket.Log in
def parseRequest (s : String) : Option (Bytes × Outcome) :=
  match s.splitOn ":" with
  | [p, ops, ret, pan] => do
    let opl := if ops = "" then [] else ops.splitOn "."
    -- a declared Content-Length only next to plain WriteHeader/Write/Flush calls: net/http's
    -- ReadFrom fast path (io.Copy, ServeContent) does not enforce the declared length
    if (opl.any fun o => o.startsWith "l") &&
       (opl.any fun o => o.startsWith "c" || o.startsWith "n" || o.startsWith "s") then none
    let ops ← (opl.mapM parseOp).map List.flatten
    pure (← Driver.unhex p, { ops := ops, ret := ← ret.toNat?, panics := pan = "1", newPath := lastPath opl })
  | _ => none

def parseErrLens (s : String) : Option (List (Nat × Nat)) :=
  if s = "" then some [] else (s.splitOn ",").mapM fun e =>
    match e.splitOn "=" with
    | [a, b] => do pure (← a.toNat?, ← b.toNat?)
    | _ => none

structure LogCase where
  /-- with gzip inside, sizes in the answer are differences to what the client received -/
  sizeDiffs : Bool := false
  ds : List Casket.Log.Directive
  reqs : List (Bytes × Casket.Log.Outcome)
  errLen : Nat → Nat

def parseLog : List String → Option LogCase
  | [ds, _conc, reqs, errlens, wrap, _writer] => do
    let ds ← (if ds = "" then some [] else (ds.splitOn ",").mapM parseDirective)
    let reqs ← (if reqs = "" then some [] else (reqs.splitOn ",").mapM parseRequest)
    let el ← parseErrLens errlens
    if wrap = "gzip" && (reqs.any fun (_, o) => o.ops.any fun op => match op with | .declare _ => true | _ => false) then none
    let errLen := fun s => ((el.find? fun p => p.1 == s).map (·.2)).getD 0
    -- an `errors` directive between log and the handler changes what log's Next does
    -- wrap = rewrite (the real rewrite directive changes r.URL.Path in place) needs nothing here:
    -- the model's decision does not depend on the path the inner handlers leave behind
    let reqs := if wrap = "errors" then reqs.map fun (p, o) => (p, Casket.Log.withErrors errLen o) else reqs
    let reqs := if wrap = "gzip" then reqs.map fun (p, o) => (p, Casket.Log.withGzip errLen o) else reqs
    pure { sizeDiffs := wrap = "gzip", ds := ds, reqs := reqs, errLen := errLen }
  | _ => none

open Casket.Log in
def showLine (diffs : Bool) (id : Nat) (l : Line) : String :=
  if diffs then s!"{id}.{l.status}.0" else s!"{id}.{l.status}.{l.size}"

open Casket.Log in
def logModel (f : List String) : String :=
  match parseLog f with
  | none => "bad-case"
  | some c =>
    let rules := logParse c.ds
    let rs := c.reqs.map fun (p, o) => serverServe matchPath c.errLen rules p o
    let ids := List.range rs.length
    let perEntry := (List.range c.ds.length).map fun e =>
      "|".intercalate ((ids.zip rs).flatMap fun (id, r) =>
        (r.lines.filter fun (l : Line) => l.entry == e).map (showLine c.sizeDiffs id))
    let clients := rs.map fun r =>
      if c.sizeDiffs then s!"{r.client.status}.0" else s!"{r.client.status}.{r.client.size}"
    ";".intercalate perEntry ++ "#" ++ ",".intercalate clients

def parseObsLine (s : String) : Option (Nat × Nat × Nat) :=
  match s.splitOn "." with
  | [a, b, c] => do pure (← a.toNat?, ← b.toNat?, ← c.toNat?)
  | _ => none

open Casket.Log in
def logJudge (f : List String) (out : String) : String :=
  match parseLog f, out.splitOn "#" with
  | some c, [ls, cl] =>
    let entries := if c.ds.isEmpty then [] else ls.splitOn ";"
    if entries.length ≠ c.ds.length then "bad:unparsable:" ++ out else
    -- all observed lines as (request id, Line)
    let obs : Option (List (Nat × Line)) :=
      ((List.range entries.length).zip entries).foldlM (init := []) fun acc (e, s) => do
        let ls ← (if s = "" then some [] else (s.splitOn "|").mapM parseObsLine)
        pure (acc ++ ls.map fun (id, st, sz) => (id, { entry := e, status := st, size := sz }))
    let clients : Option (List (Nat × Nat)) :=
      if cl = "" then some [] else (cl.splitOn ",").mapM fun s =>
        match s.splitOn "." with
        | [a, b] => do pure (← a.toNat?, ← b.toNat?)
        | _ => none
    match obs, clients with
    | some obs, some clients =>
      if clients.length ≠ c.reqs.length then "bad:unparsable:" ++ out else
      if obs.any fun (id, _) => id ≥ c.reqs.length then "bad:unwanted-line:line for a request that was never made" else
      (Casket.LogSpec.firstBad <| ((List.range c.reqs.length).zip (c.reqs.zip clients)).map fun (id, ((p, o), (cs, cz))) =>
        Casket.LogSpec.verdictClass matchPath c.ds p o.panics ((obs.filter fun x => x.1 == id).map (·.2)) cs cz).text
    | _, _ => "bad:unparsable:" ++ out
  | _, _ => "bad:unparsable:" ++ out

/-!
  c20.inject  format target user        out = lf=<n> cr=<m>: LF and CR bytes in the log after ONE request
     the model: one record is one physical line (the formats of this stream contain no line break)
-/
def injectModel (_ : List String) : String := "lf=1 cr=0"

def injectJudge (_ : List String) (out : String) : String :=
  if out = "lf=1 cr=0" then "ok"
  else if out.startsWith "lf=" then
    "bad:line-split:one request produced a log record spanning several physical lines (" ++ out ++ ")"
  else "bad:unparsable:" ++ out

def streams : List Driver.Stream := [
  { name := "c20.inject", model := injectModel, judge := injectJudge },
  { name := "c20.replace", model := replaceModel, judge := replaceJudge },
  { name := "c20.log", model := logModel, judge := logJudge }
]

end Driver.C20
