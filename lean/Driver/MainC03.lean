import Driver.Loop
import Driver.C03
/- model driver of property C03 -/
def main (args : List String) : IO Unit := Driver.run Driver.C03.streams args
