import Casket.Model.Exec
import Casket.Spec.Exec
import Casket.Generated.Directives
import Casket.Generated.Registered
import Driver.Proto
/-
Streams of C09.

  c09.pairs       scenario written-order       out = the probe's observation (status, or 1/0)
  c09.directives  (one dummy field)            out = casket.ValidDirectives("http") joined by ',' # those with a registered plugin
  c09.group       lines perm                   lines: ','-separated  <dir>:<hex token>|<hex token>|…
                                               perm : ','-separated indices into lines (the reordered block)
        out = groups of the block as written '#' groups of the reordered block;
              groups = ';'-separated <dir>=<hex token>|… sorted by directive name
  c09.perm        lines perm                   lines: ','-separated  <dir>:<hex of the line's text>
        out = handler chain of the block as written (outside in, ',') '#' chain of the reordered block
              '#' equal | differ:<request>
  c09.history     typos scenario written-order how
        out = r|a per rejected-for-a-typo load made before '#' the probe's observation on the site
              loaded afterwards '#' casket.ValidDirectives("http") afterwards
-/
namespace Driver.C09
open Casket.Exec Casket.ExecSpec

def D : List Dir := Casket.Generated.directives

def hexStr (s : String) : Option String := do
  let bs ← Driver.unhex s
  -- token texts of the generated cases are ASCII
  pure (String.ofList (bs.map fun b => Char.ofNat b.toNat))

def strHex (s : String) : String := Driver.hex (s.toList.map fun c => UInt8.ofNat c.toNat)

def parseLine (withTokens : Bool) (s : String) : Option Line :=
  match s.splitOn ":" with
  | [d, t] =>
    if withTokens then do
      let toks ← (if t = "" then some [] else (t.splitOn "|").mapM hexStr)
      pure { dir := d, tokens := toks }
    else some { dir := d, tokens := [t] }
  | _ => none

def parseCase (withTokens : Bool) : List String → Option (List Line × List Line)
  | [ls, perm] => do
    let ls ← (if ls = "" then some [] else (ls.splitOn ",").mapM (parseLine withTokens))
    let perm ← Driver.natList perm
    let ls' ← perm.mapM fun i => ls[i]?
    if perm.length = ls.length then pure (ls, ls') else none
  | _ => none

def insertSorted (p : Dir × List String) : List (Dir × List String) → List (Dir × List String)
  | [] => [p]
  | q :: rest => if p.1 < q.1 then p :: q :: rest else q :: insertSorted p rest

def showGroups (m : TokMap) : String :=
  let sorted := m.foldl (fun acc p => insertSorted p acc) []
  ";".intercalate (sorted.map fun p => p.1 ++ "=" ++ "|".intercalate (p.2.map strHex))

def groupModel (f : List String) : String :=
  match parseCase true f with
  | none => "bad-case"
  | some (ls, ls') => showGroups (parseLines ls) ++ "#" ++ showGroups (parseLines ls')

def parseGroups (s : String) : Option Groups :=
  if s = "" then some [] else (s.splitOn ";").mapM fun e =>
    match e.splitOn "=" with
    | [d, t] => do
      let toks ← (if t = "" then some [] else (t.splitOn "|").mapM hexStr)
      pure (d, toks)
    | _ => none

def groupJudge (f : List String) (out : String) : String :=
  match parseCase true f, out.splitOn "#" with
  | some (ls, ls'), [a, b] =>
    if !stablePerm ls ls' then "bad:bad-case:the reordering moves lines of one directive past each other" else
    match parseGroups a, parseGroups b with
    | some g, some g' => groupVerdict (ls.map (·.dir)) g g'
    | _, _ => "bad:unparsable:" ++ out
  | _, _ => "bad:unparsable:" ++ out

def permModel (f : List String) : String :=
  match parseCase false f with
  | none => "bad-case"
  | some (ls, ls') => ",".intercalate (chainOf D ls) ++ "#" ++ ",".intercalate (chainOf D ls') ++ "#equal"

def parseChain (s : String) : List Dir := if s = "" then [] else s.splitOn ","

def permJudge (f : List String) (out : String) : String :=
  match parseCase false f, out.splitOn "#" with
  | some (ls, ls'), [a, b, r] =>
    if !stablePerm ls ls' then "bad:bad-case:the reordering moves lines of one directive past each other"
    else verdict D (parseChain a) (parseChain b) (r == "equal")
  | _, _ => "bad:unparsable:" ++ out

/-- list entries with a registered plugin, by the regenerated tables -/
def standardDirs : List Dir := D.filter fun d => Casket.Generated.registeredPlugins.contains d

def directivesModel (_ : List String) : String :=
  ",".intercalate D ++ "#" ++ ",".intercalate standardDirs

def directivesJudge (_ : List String) (out : String) : String :=
  match out.splitOn "#" with
  | [l, r] =>
    if l ≠ ",".intercalate D then "bad:list-differs:casket.ValidDirectives(\"http\") is not the list in plugin.go"
    else if r ≠ ",".intercalate standardDirs then
      "bad:registered-differs:the directives with a registered plugin are not the RegisterPlugin calls found in the source"
    else "ok"
  | _ => "bad:unparsable:" ++ out

def findScenario (f : List String) : Option Scenario :=
  match f with
  | [name, _] => scenarios.find? fun s => s.name == name
  | _ => none

def pairsModel (f : List String) : String :=
  match findScenario f with
  | some s => pairPrediction D s
  | none => "bad-case"

def pairsJudge (f : List String) (out : String) : String :=
  match findScenario f with
  | some s => pairVerdict s out
  | none => "bad:unparsable:case"

/-! c09.callbacks  blocks perm cbs — see harness/streams/c09.go -/
def probeDirs : List Dir := ["p1", "p2", "p3", "p4"]

def parseProbeBlocks (s : String) : List (List Dir) :=
  (s.splitOn ";").map fun b => if b = "" then [] else b.splitOn ","

def mkBlock (ds : List Dir) : Block :=
  { keys := ["site", "alias"], lines := ds.map fun d => { dir := d, tokens := [d] } }

def showEvent : Event → String
  | .setup c => s!"s:{c.dir}:{c.block}:{c.key}"
  | .cb d => s!"c:{d}"

def parseEvent (s : String) : Option Event :=
  match s.splitOn ":" with
  | ["s", d, b, k] => do pure (.setup { dir := d, block := ← b.toNat?, key := ← k.toNat?, tokens := [] })
  | ["c", d] => some (.cb d)
  | _ => none

structure CbCase where
  blocks : List Block
  blocks' : List Block
  cbs : Dir → Bool

def parseCbCase : List String → Option CbCase
  | [bs, perm, cbs] => do
    let bl := parseProbeBlocks bs
    let first ← bl.head?
    let perm ← Driver.natList perm
    let re ← perm.mapM fun i => first[i]?
    if perm.length ≠ first.length then none else
    let cbl := if cbs = "" then [] else cbs.splitOn ","
    pure { blocks := bl.map mkBlock, blocks' := (re :: bl.drop 1).map mkBlock, cbs := fun d => cbl.contains d }
  | _ => none

def showEvents (evs : List Event) : String := ",".intercalate (evs.map showEvent)

def callbacksModel (f : List String) : String :=
  match parseCbCase f with
  | none => "bad-case"
  | some c => showEvents (execEvents c.cbs probeDirs c.blocks) ++ "#" ++ showEvents (execEvents c.cbs probeDirs c.blocks')

def callbacksJudge (f : List String) (out : String) : String :=
  match parseCbCase f, out.splitOn "#" with
  | some c, [a, b] =>
    let pe := fun (s : String) => if s = "" then some [] else (s.splitOn ",").mapM parseEvent
    match pe a, pe b with
    | some ea, some eb => scheduleVerdict probeDirs c.cbs ea eb
    | _, _ => "bad:unparsable:" ++ out
  | _, _ => "bad:unparsable:" ++ out

/-! c09.history  typos scenario written-order how
      typos: ','-separated words, each the misspelt directive of one rejected load
      out = r|a per earlier load '#' the probe's observation '#' ValidDirectives("http") afterwards -/
def parseHistory : List String → Option (List Dir × Scenario)
  | [typos, name, _, _] => do
    let s ← scenarios.find? fun s => s.name == name
    pure (if typos = "" then [] else typos.splitOn ",", s)
  | _ => none

def historyModel (f : List String) : String :=
  match parseHistory f with
  | none => "bad-case"
  | some (typos, s) =>
    let r := runHistory D (typos.map typoLoad)
    historyFlags r.2 ++ "#" ++ pairPrediction r.1 s ++ "#" ++ ",".intercalate r.1

def historyJudge (f : List String) (out : String) : String :=
  match parseHistory f, out.splitOn "#" with
  | some (_, s), [_, obs, l] => historyVerdict D s obs (parseChain l)
  | _, _ => "bad:unparsable:" ++ out

def streams : List Driver.Stream := [
  { name := "c09.history", model := historyModel, judge := historyJudge },
  { name := "c09.callbacks", model := callbacksModel, judge := callbacksJudge },
  { name := "c09.pairs", model := pairsModel, judge := pairsJudge },
  { name := "c09.directives", model := directivesModel, judge := directivesJudge },
  { name := "c09.group", model := groupModel, judge := groupJudge },
  { name := "c09.perm", model := permModel, judge := permJudge }
]

end Driver.C09
