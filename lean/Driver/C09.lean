import Driver.Proto
/- Streams of C09 (stub: not built yet). -/
namespace Driver.C09
def streams : List Driver.Stream := []
end Driver.C09
