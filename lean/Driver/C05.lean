import Casket.Model.Policy
import Casket.Spec.Policy
import Casket.Spec.PolicyHeader
import Casket.Model.Retry
import Casket.Spec.Retry
import Driver.Proto
/-
Streams of C05.
  c05.select  kind  pool  robin  keyhex  rands  seed  [layout]
     pool  = comma list of  d/c/m  (d: 0 up, else down; conns; maxConns)
     layout = how the upstream block is WRITTEN (backends on the directive line / on `upstream` lines, order of the
             lines; the cap as `max_conns`).  The model and the judge take the block's meaning: the field is not read.
     out   = <choice or -> TAB <new robin>
  c05.fnv     hexbytes      out = hash
-/
namespace Driver.C05
open Casket.Policy

def parseHost (s : String) : Option Host :=
  match s.splitOn "/" with
  | [d, c, m] => do
    let c ← c.toNat?
    let m ← m.toNat?
    pure { down := d != "0", conns := c, maxConns := m }
  | _ => none

def parsePool (s : String) : Option Pool :=
  if s = "" then some [] else (s.splitOn ",").mapM parseHost

def parseKind : String → Option Kind
  | "random" => some .random
  | "least_conn" => some .leastConn
  | "round_robin" => some .roundRobin
  | "first" => some .first
  | "ip_hash" => some .hash
  | "uri_hash" => some .hash
  | "header" => some .hash
  | "header_empty" => some .roundRobin
  | _ => none

structure Case where
  kind : Kind
  pool : Pool
  robin : Nat
  hash : Nat
  rands : List Nat

def parseCase6 : List String → Option Case
  | [k, p, r, key, rs, _seed] => do
    pure { kind := ← parseKind k, pool := ← parsePool p, robin := ← r.toNat?,
           hash := fnv32a (← Driver.unhex key), rands := ← Driver.natList rs }
  | _ => none

/-- a seventh field is the layout of the block: every spelling of one meaning has the same answer -/
def parseCase (f : List String) : Option Case :=
  if f.length = 7 then parseCase6 (f.take 6) else parseCase6 f

def selectModel (f : List String) : String :=
  match parseCase f with
  | none => "bad-case"
  | some c =>
    let (o, r) := upstreamSelect c.kind c.pool c.robin c.hash c.rands
    s!"{Driver.optNat o}\t{r}"

/-- The property, evaluated on what the implementation answered. -/
def selectJudge (f : List String) (out : String) : String :=
  match parseCase f, out.splitOn "\t" with
  | some c, [o, _] =>
    match Driver.parseOptNat o with
    | none => "bad:unparsable:" ++ out
    | some o => Casket.PolicySpec.verdict c.kind c.pool o
  | _, _ => "bad:unparsable:" ++ out

/-- c05.seq: several Selects on one upstream; the counter is threaded through. -/
def parseStep (kind robin : String) (st : String) : Option Case :=
  match st.splitOn "|" with
  | [p, key, rs, seed] => parseCase [kind, p, robin, key, rs, seed]
  | _ => none

def seqRun (kind : String) : List String → Nat → List (Option Nat) → Option (List (Option Nat) × Nat)
  | [], robin, acc => some (acc.reverse, robin)
  | st :: rest, robin, acc =>
    match parseStep kind "0" st with
    | none => none
    | some c =>
      let (o, r) := upstreamSelect c.kind c.pool robin c.hash c.rands
      seqRun kind rest r (o :: acc)

def seqModel : List String → String
  | [kind, robin0, steps] =>
    match robin0.toNat?, seqRun kind (steps.splitOn ";") (robin0.toNat?.getD 0) [] with
    | some _, some (os, r) => ",".intercalate (os.map Driver.optNat) ++ "\t" ++ toString r
    | _, _ => "bad-case"
  | _ => "bad-case"

def seqJudgeGo (kind : String) : List String → List String → String
  | [], [] => "ok"
  | st :: rest, o :: os =>
    match parseStep kind "0" st, Driver.parseOptNat o with
    | some c, some o =>
      let v := Casket.PolicySpec.verdict c.kind c.pool o
      if v == "ok" then seqJudgeGo kind rest os else v
    | _, _ => "bad:unparsable:" ++ o
  | _, _ => "bad:unparsable:step count"

def seqJudge (f : List String) (out : String) : String :=
  match f, out.splitOn "\t" with
  | [kind, _, steps], [os, _] => seqJudgeGo kind (steps.splitOn ";") (os.splitOn ",")
  | _, _ => "bad:unparsable:" ++ out

/-
  c05.hdr  names  pool  robin  reqs
     names = header names as written after `policy header`, space separated
     reqs  = ';' list of requests, a request = '|' list of  <name as sent>:<value hex>
     out   = comma list of choices TAB counter after the last request
-/
def parseHLine (s : String) : Option HLine :=
  match s.splitOn ":" with
  | [n, v] => do pure (n.toUTF8.toList, ← Driver.unhex v)
  | _ => none

def parseReq (s : String) : Option Req :=
  if s = "" then some [] else (s.splitOn "|").mapM parseHLine

def parseHdr : List String → Option (List Name × Pool × Nat × List Req)
  | [names, p, r, reqs] => do
    pure (((names.splitOn " ").filter (· != "")).map (·.toUTF8.toList), ← parsePool p, ← r.toNat?, ← (reqs.splitOn ";").mapM parseReq)
  | _ => none

def hdrModel (f : List String) : String :=
  match parseHdr f with
  | none => "bad-case"
  | some (names, p, robin, reqs) =>
    if !headerConfigOk names then "config-rejected" else
    let (obs, r) := headerRun names p reqs robin
    ",".intercalate (obs.map fun x => Driver.optNat x.2) ++ "\t" ++ toString r

def hdrJudge (f : List String) (out : String) : String :=
  if out == "config-rejected" then
    (match parseHdr f with
     | some (names, _, _, _) => if headerConfigOk names then "bad:rejected:a header policy with a name was refused" else "ok"
     | none => "bad:unparsable:" ++ out) else
  match parseHdr f, out.splitOn "\t" with
  | some (names, p, _, reqs), [os, _] =>
    match (os.splitOn ",").mapM Driver.parseOptNat with
    | none => "bad:unparsable:" ++ out
    | some os =>
      if os.length != reqs.length then "bad:unparsable:number of answers"
      else Casket.PolicySpec.headerVerdict names p (reqs.zip os)
  | _, _ => "bad:unparsable:" ++ out

def fnvModel : List String → String
  | [h] => match Driver.unhex h with
    | some bs => toString (fnv32a bs)
    | none => "bad-case"
  | _ => "bad-case"

/-
  c05.retry  kind robin keyhex hosts maxConns maxFails tryDuration interval failTimeout bodyLen framing events
     framing = cl (Content-Length = bodyLen; 0 = http.NoBody) | chunked (ContentLength -1, non-nil Body) | nil (Body nil)
     hosts = comma list of  u/c/script[/f]  (the state of the backend when the request arrives: u 1 = unhealthy; c = conns of
             other requests; f = failures already on record, not expiring while the request is served (default 0);
             script letters K ok, H = F followed by a passing health check of every backend before the next Select, F fail before
             reading the body, R fail after reading it, C client cancelled, T body too large)
     events = - or comma list of  a>j=u/c/f : when attempt number a of the request (0-based, over all backends) starts,
             backend j gets health flag u, c conns of other requests, f failures on record (comes back / goes away)
             (the field may be missing = -)
     layout (optional 13th field) = how the block is written: backends on the directive line / `upstream` lines, order of
             the lines; not read by the model or the judge
     durations in milliseconds = ticks
     out   = <result> TAB <attempts: host:body,...>   result = ok|502|499|413
-/
open Casket.Retry in
def parseOutcome : Char → Option Outcome
  | 'K' => some .ok
  | 'F' => some (.fail false)
  | 'H' => some (.fail false)
  | 'R' => some (.fail true)
  | 'C' => some .cancel
  | 'T' => some .tooLarge
  | _ => none

open Casket.Retry in
def parseRetryHost (s : String) : Option HostCfg :=
  match s.splitOn "/" with
  | [u, c, sc] => do
    pure { unhealthy := u != "0", conns := ← c.toNat?, script := ← sc.toList.mapM parseOutcome, fails := 0 }
  | [u, c, sc, f] => do
    pure { unhealthy := u != "0", conns := ← c.toNat?, script := ← sc.toList.mapM parseOutcome, fails := ← f.toNat? }
  | _ => none

open Casket.Retry in
def parseRetryEvent (s : String) : Option Event :=
  match s.splitOn ">" with
  | [a, rest] =>
    match rest.splitOn "=" with
    | [j, st] =>
      match st.splitOn "/" with
      | [u, c, f] => do
        pure { attempt := ← a.toNat?, host := ← j.toNat?,
               state := { unhealthy := u != "0", conns := ← c.toNat?, fails := ← f.toNat? } }
      | _ => none
    | _ => none
  | _ => none

open Casket.Retry in
def parseRetryEvents (s : String) : Option (List Event) :=
  if s = "-" || s = "" then some [] else (s.splitOn ",").mapM parseRetryEvent

open Casket.Retry in
def parseRetry12 : List String → Option (Cfg × Nat)
  | [k, robin, key, hosts, mc, mf, d, i, f, blen, framing, events] => do
    let hs ← (hosts.splitOn ",").mapM parseRetryHost
    let c : Cfg := { kind := ← parseKind k, hash := fnv32a (← Driver.unhex key), rands := fun _ => [],
                     tryDuration := ← d.toNat?, interval := ← i.toNat?, failTimeout := ← f.toNat?,
                     maxFails := ← mf.toNat?, maxConns := ← mc.toNat?, hosts := hs,
                     -- the outgoing request has a Body: unknown length (chunked upload, even when it turns out
                     -- empty) or a declared Content-Length > 0; Content-Length 0 means Body = nil
                     hasBody := framing == "chunked" || (framing == "cl" && (← blen.toNat?) != 0),
                     events := ← parseRetryEvents events }
    pure (c, ← robin.toNat?)
  | _ => none

open Casket.Retry in
def parseRetry (f : List String) : Option (Cfg × Nat) :=
  if f.length = 11 then parseRetry12 (f ++ ["-"])
  -- a 13th field is the layout of the upstream block (how it is written); the model takes its meaning
  else if f.length = 13 then parseRetry12 (f.take 12)
  else parseRetry12 f

open Casket.Retry in
def showResult : Result → String
  | .success => "ok"
  | .badGateway => "502"
  | .cancelled => "499"
  | .tooLarge => "413"
  | .fuelOut => "fuel-out"

open Casket.Retry in
def showBodyKind : Body → String
  | .none => "none"
  | .full => "full"
  | .empty => "empty"
  | .unread => "unread"

open Casket.Retry in
def retryModel (f : List String) : String :=
  match parseRetry f with
  | none => "bad-case"
  | some (c, robin) =>
    let (res, att) := serve c robin
    showResult res ++ "\t" ++ ",".intercalate (att.map fun a => s!"{a.host}:{showBodyKind a.body}")

open Casket.Retry in
def parseAttempt (s : String) : Option Attempt :=
  match s.splitOn ":" with
  | [h, b] => do
    let body ← (match b with
      | "none" => some Body.none
      | "full" => some Body.full
      | "empty" => some Body.empty
      | "partial" => some Body.empty
      | "unread" => some Body.unread
      | _ => none)
    pure { host := ← h.toNat?, body := body }
  | _ => none

open Casket.Retry in
def retryJudge (f : List String) (out : String) : String :=
  if out.startsWith "hung" then "bad:never-gives-up:the retry loop was still running 20 s after the request (try_duration long past)" else
  match parseRetry f, out.splitOn "\t" with
  | some (c, _), [r, att] =>
    let res : Option Result := match r with
      | "ok" => some .success
      | "502" => some .badGateway
      | "499" => some .cancelled
      | "413" => some .tooLarge
      | _ => none
    let atts : Option (List Attempt) := if att = "" then some [] else (att.splitOn ",").mapM parseAttempt
    match res, atts with
    | some res, some atts => Casket.RetrySpec.verdict c res atts
    | _, _ => "bad:unparsable:" ++ out
  | _, _ => "bad:unparsable:" ++ out

def streams : List Driver.Stream := [
  { name := "c05.retry", model := retryModel, judge := retryJudge },
  { name := "c05.select", model := selectModel, judge := selectJudge },
  { name := "c05.seq", model := seqModel, judge := seqJudge },
  { name := "c05.hdr", model := hdrModel, judge := hdrJudge },
  { name := "c05.fnv", model := fnvModel, judge := fun _ _ => "ok" }
]

end Driver.C05
