import Casket.Model.Policy
import Casket.Spec.Policy
import Driver.Proto
/-
Streams of C05.
  c05.select  kind  pool  robin  keyhex  rands  seed
     pool  = comma list of  d/c/m  (d: 0 up, else down; conns; maxConns)
     out   = <choice or -> TAB <new robin>
  c05.fnv     hexbytes      out = hash
-/
namespace Driver.C05
open Casket.Policy

def parseHost (s : String) : Option Host :=
  match s.splitOn "/" with
  | [d, c, m] => do
    let c ← c.toNat?
    let m ← m.toNat?
    pure { down := d != "0", conns := c, maxConns := m }
  | _ => none

def parsePool (s : String) : Option Pool :=
  if s = "" then some [] else (s.splitOn ",").mapM parseHost

def parseKind : String → Option Kind
  | "random" => some .random
  | "least_conn" => some .leastConn
  | "round_robin" => some .roundRobin
  | "first" => some .first
  | "ip_hash" => some .hash
  | "uri_hash" => some .hash
  | "header" => some .hash
  | "header_empty" => some .roundRobin
  | _ => none

structure Case where
  kind : Kind
  pool : Pool
  robin : Nat
  hash : Nat
  rands : List Nat

def parseCase : List String → Option Case
  | [k, p, r, key, rs, _seed] => do
    pure { kind := ← parseKind k, pool := ← parsePool p, robin := ← r.toNat?,
           hash := fnv32a (← Driver.unhex key), rands := ← Driver.natList rs }
  | _ => none

def selectModel (f : List String) : String :=
  match parseCase f with
  | none => "bad-case"
  | some c =>
    let (o, r) := upstreamSelect c.kind c.pool c.robin c.hash c.rands
    s!"{Driver.optNat o}\t{r}"

/-- The property, evaluated on what the implementation answered. -/
def selectJudge (f : List String) (out : String) : String :=
  match parseCase f, out.splitOn "\t" with
  | some c, [o, _] =>
    match Driver.parseOptNat o with
    | none => "bad:unparsable:" ++ out
    | some o => Casket.PolicySpec.verdict c.kind c.pool o
  | _, _ => "bad:unparsable:" ++ out

/-- c05.seq: several Selects on one upstream; the counter is threaded through. -/
def parseStep (kind robin : String) (st : String) : Option Case :=
  match st.splitOn "|" with
  | [p, key, rs, seed] => parseCase [kind, p, robin, key, rs, seed]
  | _ => none

def seqRun (kind : String) : List String → Nat → List (Option Nat) → Option (List (Option Nat) × Nat)
  | [], robin, acc => some (acc.reverse, robin)
  | st :: rest, robin, acc =>
    match parseStep kind "0" st with
    | none => none
    | some c =>
      let (o, r) := upstreamSelect c.kind c.pool robin c.hash c.rands
      seqRun kind rest r (o :: acc)

def seqModel : List String → String
  | [kind, robin0, steps] =>
    match robin0.toNat?, seqRun kind (steps.splitOn ";") (robin0.toNat?.getD 0) [] with
    | some _, some (os, r) => ",".intercalate (os.map Driver.optNat) ++ "\t" ++ toString r
    | _, _ => "bad-case"
  | _ => "bad-case"

def seqJudgeGo (kind : String) : List String → List String → String
  | [], [] => "ok"
  | st :: rest, o :: os =>
    match parseStep kind "0" st, Driver.parseOptNat o with
    | some c, some o =>
      let v := Casket.PolicySpec.verdict c.kind c.pool o
      if v == "ok" then seqJudgeGo kind rest os else v
    | _, _ => "bad:unparsable:" ++ o
  | _, _ => "bad:unparsable:step count"

def seqJudge (f : List String) (out : String) : String :=
  match f, out.splitOn "\t" with
  | [kind, _, steps], [os, _] => seqJudgeGo kind (steps.splitOn ";") (os.splitOn ",")
  | _, _ => "bad:unparsable:" ++ out

def fnvModel : List String → String
  | [h] => match Driver.unhex h with
    | some bs => toString (fnv32a bs)
    | none => "bad-case"
  | _ => "bad-case"

def streams : List Driver.Stream := [
  { name := "c05.select", model := selectModel, judge := selectJudge },
  { name := "c05.seq", model := seqModel, judge := seqJudge },
  { name := "c05.fnv", model := fnvModel, judge := fun _ _ => "ok" }
]

end Driver.C05
