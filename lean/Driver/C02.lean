import Casket.Model.FileServe
import Casket.Spec.FileServe
import Casket.Model.FileServeSeq
import Casket.Spec.FileServeSeq
import Casket.Model.FileServeSites
import Casket.Spec.Cond
import Casket.Generated.FileServe
import Driver.Proto
/-
Streams of C02.

  c02.serve  fs  root  casketfile  prefix  browse  index  method  target  acceptenc
     fs          hex of lines  "<d|f><ino> <absolute path>"   (paths relative to the fixture dir)
     root        hex, absolute path of the site root inside the fixture
     casketfile  hex, absolute path of the Casketfile the site is loaded from
     prefix      hex, path of the site address ("" = none)
     browse      hex of  "scope|type,type;scope|…"   ("" = no browse directive, "|" separates archive types)
     index       hex of comma separated index pages  ("" = default list)
     method      plain
     target      hex, raw request target
     acceptenc   hex, Accept-Encoding value ("" = header absent)
     listfmt     j | h : the listing is requested as JSON or as the default HTML page (same names)
     out         S<code> | R<code> TAB hexloc | F TAB enc TAB ino | L TAB hexnames | A TAB name=ino,… | H<code> TAB enc
  c02.cond  (the nine fields of c02.serve)  cond
     cond   hex of  inm=<*|s<ino>|w<ino>|g,…>;ims=<seconds|g>;range=<a>-<b>|<a>-|-<n>|g;x=<header outside the model>
     out    as c02.serve, or  C304 f | C200/CH200 enc f d | C206/CH206 enc f d a-b | C416 f|- | X f d
            (f: inode named by ETag/Content-Length/Content-Range/body, d: inode named by Last-Modified)
  c02.mutate  (the first six fields of c02.serve)  step  step  …      a script on ONE running site
     step   G:<method>:<hex target>:<hex acceptenc>:<j|h>   a request
            W:<hex path>:<ino>      the fixture path now names a NEW regular file with that inode/token (write beside + rename over it, or create)
            D:<hex path>            the regular file is removed
            L:<hex path>:<hex src>  ln -f src path (one more name of src's inode)
     out    the answers of the G steps, each as in c02.serve, joined by `|`
  c02.sites  fs  casketfile  config  host  method  target  acceptenc  listfmt      several sites from ONE Casketfile
     config  hex of lines, one per server block in the order of the file:
                 <host,host…> <root> <prefix|-> <browse|-> <index|-> <style>
             host: an address of the block (each address is a site configuration of its own); root: absolute
             path inside the fixture; prefix/browse/index as in c02.serve (`-` = none);
             style: a number saying HOW the block is written (harness/streams/c02sites.go) — not part of the
             meaning, the model does not look at it
     host    the address the request is sent to (Host header)
     out     as c02.serve
  c02.archerr  kind  type     kind none|symlink|dirlink|socket|procfs in the archived directory; out = alive clean | alive <defect> | CRASH
  c02.clean  hexpath        out = hex of path.Clean(path) TAB hex of path.Clean("/"+path)
  c02.match  hexpath hexbase    out = 1|0   (httpserver.Path.Matches)
  c02.escape hexpath        out = hex of (&url.URL{Path: p}).EscapedPath()
-/
namespace Driver.C02
open Casket.Path Casket.FS Casket.FileServe

def elemsOf (p : Bytes) : List Bytes := (splitOn slash p).filter (· ≠ [])

def parseNatBytes (ds : Bytes) : Option Nat :=
  if ds = [] ∨ !ds.all (fun c => 48 ≤ c ∧ c ≤ 57) then none
  else some (ds.foldl (fun acc c => acc * 10 + (c.toNat - 48)) 0)

def parseEntry (line : Bytes) : Option Entry :=
  match line with
  | k :: rest =>
    let (num, path, found) := cut 32 rest
    if !found then none
    else match parseNatBytes num with
      | none => none
      | some ino =>
        if k = 100 then some { path := elemsOf path, isDir := true, ino := ino }
        else if k = 102 then some { path := elemsOf path, isDir := false, ino := ino }
        else none
  | [] => none

def parseFS (txt : Bytes) : Option FS :=
  if txt = [] then some [] else (splitOn 10 txt).mapM parseEntry

def parseBrowse (txt : Bytes) : List BrowseCfg :=
  if txt = [] then []
  else (splitOn 59 txt).map fun item =>
    let (scope, types, _) := cut 124 item
    { scope := scope, archives := if types = [] then [] else splitOn 44 types }

structure Case where
  fs : FS
  site : Site
  method : Bytes
  target : Bytes
  ae : Bytes

def parseCase : List String → Option Case
  | [fsH, rootH, cfH, preH, brH, ixH, method, tgtH, aeH, _listfmt] =>
    parseCase [fsH, rootH, cfH, preH, brH, ixH, method, tgtH, aeH]
  | [fsH, rootH, cfH, preH, brH, ixH, method, tgtH, aeH] => do
    let fs ← parseFS (← Driver.unhex fsH)
    let root ← Driver.unhex rootH
    let cf ← Driver.unhex cfH
    let pre ← Driver.unhex preH
    let br ← Driver.unhex brH
    let ix ← Driver.unhex ixH
    let tgt ← Driver.unhex tgtH
    let ae ← Driver.unhex aeH
    let site : Site := {
      root := elemsOf (clean root)
      hide := hideCasketfile (clean root) (clean cf)
      indexPages := if ix = [] then Casket.Generated.defaultIndexPages else splitOn 44 ix
      encodings := Casket.Generated.staticEncodingPriority
      pathPrefix := if pre = [] then [slash] else pre
      browse := parseBrowse br }
    pure { fs := fs, site := site, method := method.toUTF8.toList, target := tgt, ae := ae }
  | _ => none

def hexB (b : Bytes) : String := Driver.hex b

def sortStrings (l : List String) : List String := l.mergeSort (fun a b => decide (a ≤ b))

def encStr : Option Bytes → String
  | none => "-"
  | some e => String.ofList (e.map fun c => Char.ofNat c.toNat)

def render (method : Bytes) (r : Resp) : String :=
  let head := method = mHEAD
  match r with
  | .status c => s!"S{c}"
  | .redirect c loc => s!"R{c}\t{hexB loc}"
  | .file ino enc => if head then s!"H200\t{encStr enc}" else s!"F\t{encStr enc}\t{ino}"
  | .listing names => if head then "H200\t-" else "L\t" ++ ",".intercalate (sortStrings (names.map hexB))
  | .archive items =>
    if head then "H200\t-"
    else "A\t" ++ ",".intercalate (sortStrings (items.map fun it =>
      hexB (joinSlash it.name) ++ "=" ++ (match it.content with | none => "d" | some i => toString i)))

def serveModel (f : List String) : String :=
  match parseCase f with
  | none => "bad-case"
  | some c => render c.method (serve c.fs c.site c.method c.target c.ae)

def parseItem (s : String) : Option Item :=
  match s.splitOn "=" with
  | [n, c] => do
    let nb ← Driver.unhex n
    if c = "d" then pure { name := splitOn slash nb, content := none }
    else pure { name := splitOn slash nb, content := some (← c.toNat?) }
  | _ => none

def parseObs (out : String) : Option Resp :=
  match out.splitOn "\t" with
  | [s] =>
    if s.startsWith "S" then (s.drop 1).toString.toNat?.map Resp.status else none
  | [r, loc] =>
    if r.startsWith "R" then do
      let c ← (r.drop 1).toString.toNat?
      pure (.redirect c (← Driver.unhex loc))
    else if r.startsWith "H" then (r.drop 1).toString.toNat?.map Resp.status
    else if r = "L" then
      if loc = "" then some (.listing []) else (loc.splitOn ",").mapM Driver.unhex |>.map Resp.listing
    else if r = "A" then
      if loc = "" then some (.archive []) else (loc.splitOn ",").mapM parseItem |>.map Resp.archive
    else none
  | ["F", enc, ino] => do
    let i ← ino.toNat?
    pure (.file i (if enc = "-" then none else some enc.toUTF8.toList))
  | _ => none

def serveJudge (f : List String) (out : String) : String :=
  match parseCase f with
  | none => "bad:unparsable:case"
  | some c =>
    match parseObs out with
    | none => "bad:unparsable:" ++ out
    | some obs => Casket.FileServeSpec.verdict c.fs c.site c.target c.ae obs

def cleanModel : List String → String
  | [h] => match Driver.unhex h with
    | some p => hexB (clean p) ++ "\t" ++ hexB (slash :: joinSlash (jailElems p))
    | none => "bad-case"
  | _ => "bad-case"

def matchModel : List String → String
  | [p, b] => match Driver.unhex p, Driver.unhex b with
    | some p, some b => if pathMatches p b then "1" else "0"
    | _, _ => "bad-case"
  | _ => "bad-case"

def escapeModel : List String → String
  | [h] => match Driver.unhex h with
    | some p => hexB (escapedPath { path := p, rawPath := [], rawQuery := [] })
    | none => "bad-case"
  | _ => "bad-case"

/-! ### c02.cond -/
open Casket.Cond in
def parseInm (v : Bytes) : List InmItem :=
  (splitOn 44 v).filterMap fun it =>
    match it with
    | [42] => some .star
    | 115 :: ds => (parseNatBytes ds).map InmItem.strong
    | 119 :: ds => (parseNatBytes ds).map InmItem.weak
    | [103] => some .garbage
    | _ => none

open Casket.Cond in
def parseRangeSpec (v : Bytes) : Option RangeSpec :=
  if v = [103] then some .garbage
  else
    let c := cut 45 v
    if !c.2.2 then none
    else match c.1, c.2.1 with
      | [], e => (parseNatBytes e).map RangeSpec.suffix
      | a, [] => (parseNatBytes a).map RangeSpec.fromOn
      | a, e => do pure (RangeSpec.fromTo (← parseNatBytes a) (← parseNatBytes e))

open Casket.Cond in
def parseCond (txt : Bytes) : Cond :=
  (splitOn 59 txt).foldl (fun (c : Cond) part =>
    let kv := cut 61 part
    if kv.1 = b! "inm" then { c with inm := parseInm kv.2.1 }
    else if kv.1 = b! "ims" then { c with ims := some (parseNatBytes kv.2.1) }
    else if kv.1 = b! "range" then { c with range := parseRangeSpec kv.2.1 }
    else if kv.1 = b! "x" then { c with explored := true }
    else c) { inm := [], ims := none, range := none, explored := false }

open Casket.Cond in
def renderCond (method : Bytes) : CondResp → String
  | .plain r => render method r
  | .notModified f => s!"C304\t{f}"
  | .full f enc d => (if method = mHEAD then "CH200" else "C200") ++ s!"\t{encStr enc}\t{f}\t{d}"
  | .part f enc d a b => (if method = mHEAD then "CH206" else "C206") ++ s!"\t{encStr enc}\t{f}\t{d}\t{a}-{b}"
  | .unsatisfiable (some f) => s!"C416\t{f}"
  | .unsatisfiable none => "C416\t-"
  | .explored f d => s!"X\t{f}\t{d}"

def condModel (f : List String) : String :=
  match f with
  | [a, b, c, d, e, g, m, t, ae, condH] =>
    match parseCase [a, b, c, d, e, g, m, t, ae], Driver.unhex condH with
    | some cs, some ct => renderCond cs.method (Casket.Cond.serveCond cs.fs cs.site cs.method cs.target cs.ae (parseCond ct))
    | _, _ => "bad-case"
  | _ => "bad-case"

open Casket.Cond in
def parseCondObs (out : String) : Option CondResp :=
  match out.splitOn "\t" with
  | ["C304", f] => f.toNat?.map CondResp.notModified
  | ["C416", "-"] => some (.unsatisfiable none)
  | ["C416", f] => f.toNat?.map (fun x => CondResp.unsatisfiable (some x))
  | ["X", f, d] => do pure (.explored (← f.toNat?) (← d.toNat?))
  | ["X", f, d, _] => do pure (.explored (← f.toNat?) (← d.toNat?))   -- metadata seen in an error answer
  | [k, enc, f, d] =>
    if k = "C200" ∨ k = "CH200" then do
      pure (.full (← f.toNat?) (if enc = "-" then none else some enc.toUTF8.toList) (← d.toNat?))
    else (parseObs out).map CondResp.plain
  | [k, enc, f, d, ab] =>
    if k = "C206" ∨ k = "CH206" then
      match ab.splitOn "-" with
      | [a, b] => do pure (.part (← f.toNat?) (if enc = "-" then none else some enc.toUTF8.toList) (← d.toNat?) (← a.toNat?) (← b.toNat?))
      | _ => none
    else none
  | _ => (parseObs out).map CondResp.plain

def condJudge (f : List String) (out : String) : String :=
  match f with
  | [a, b, c, d, e, g, m, t, ae, _] =>
    match parseCase [a, b, c, d, e, g, m, t, ae] with
    | none => "bad:unparsable:case"
    | some cs =>
      match parseCondObs out with
      | none => "bad:unparsable:" ++ out
      | some obs => Casket.CondSpec.verdict cs.fs cs.site cs.target cs.ae obs
  | _ => "bad:unparsable:case"

/-! ### c02.mutate : a script of requests and file-system changes on one running site -/
open Casket.FileServeSeq in
def parseStep (s : String) : Option (Step × Bytes) :=
  match s.splitOn ":" with
  | ["G", m, t, ae, _] => do pure (.get m.toUTF8.toList (← Driver.unhex t) (← Driver.unhex ae), m.toUTF8.toList)
  | ["W", p, i] => do pure (.write (elemsOf (← Driver.unhex p)) (← i.toNat?), [])
  | ["D", p] => do pure (.remove (elemsOf (← Driver.unhex p)), [])
  | ["L", p, q] => do pure (.link (elemsOf (← Driver.unhex p)) (elemsOf (← Driver.unhex q)), [])
  | _ => none

structure SeqCase where
  fs : FS
  site : Site
  steps : List Casket.FileServeSeq.Step

def parseSeqCase : List String → Option SeqCase
  | fsH :: rootH :: cfH :: preH :: brH :: ixH :: steps => do
    let c ← parseCase [fsH, rootH, cfH, preH, brH, ixH, "GET", "", ""]
    let st ← steps.mapM parseStep
    pure { fs := c.fs, site := c.site, steps := st.map (·.1) }
  | _ => none

open Casket.FileServeSeq in
def methodsOf (steps : List Step) : List Bytes :=
  steps.filterMap fun s => match s with | .get m _ _ => some m | _ => none

open Casket.FileServeSeq in
def mutateModel (f : List String) : String :=
  match parseSeqCase f with
  | none => "bad-case"
  | some c =>
    "|".intercalate (((methodsOf c.steps).zip (run c.site c.fs c.steps)).map fun mr => render mr.1 mr.2)

def mutateJudge (f : List String) (out : String) : String :=
  match parseSeqCase f with
  | none => "bad:unparsable:case"
  | some c =>
    match (if out = "" then [] else out.splitOn "|").mapM parseObs with
    | none => "bad:unparsable:" ++ out
    | some obs => Casket.FileServeSeqSpec.verdictSeq c.site 0 c.fs c.steps obs

/-! ### c02.sites : several sites loaded from one Casketfile; every site is probed -/
def undash (b : Bytes) : Bytes := if b = [45] then [] else b

def parseBlock (line : Bytes) : Option Casket.FileServeSites.Block :=
  match (splitOn 32 line).filter (· ≠ []) with
  | [hosts, root, pre, br, ix, _style] =>
    some { hosts := splitOn 44 hosts, root := clean root,
           indexPages := if undash ix = [] then Casket.Generated.defaultIndexPages else splitOn 44 ix,
           pathPrefix := if undash pre = [] then [slash] else pre,
           browse := parseBrowse (undash br) }
  | _ => none

structure SitesCase where
  fs : FS
  cf : Bytes
  blocks : List Casket.FileServeSites.Block
  host : Bytes
  method : Bytes
  target : Bytes
  ae : Bytes

def parseSitesCase : List String → Option SitesCase
  | [fsH, cfH, cfgH, host, method, tgtH, aeH, _listfmt] => do
    let fs ← parseFS (← Driver.unhex fsH)
    let cf ← Driver.unhex cfH
    let cfg ← Driver.unhex cfgH
    let blocks ← (splitOn 10 cfg).mapM parseBlock
    pure { fs := fs, cf := clean cf, blocks := blocks, host := host.toUTF8.toList,
           method := method.toUTF8.toList, target := ← Driver.unhex tgtH, ae := ← Driver.unhex aeH }
  | _ => none

def sitesModel (f : List String) : String :=
  match parseSitesCase f with
  | none => "bad-case"
  | some c => render c.method (Casket.FileServeSites.serveSites c.fs Casket.Generated.staticEncodingPriority
      c.cf c.blocks c.host c.method c.target c.ae)

def sitesJudge (f : List String) (out : String) : String :=
  match parseSitesCase f with
  | none => "bad:unparsable:case"
  | some c =>
    match Casket.FileServeSites.siteOf Casket.Generated.staticEncodingPriority c.cf c.blocks c.host, parseObs out with
    | none, _ => "bad:unparsable:case names no site"
    | _, none => "bad:unparsable:" ++ out
    | some s, some obs => Casket.FileServeSpec.verdict c.fs s c.target c.ae obs

/-- c02.archerr (explored, not modelled): the archive error paths must leave the server alive
and the client with one well-formed response. -/
def archErrJudge (_ : List String) (out : String) : String :=
  if out = "alive clean" then "ok"
  else if out = "CRASH" then "bad:crash:the server process died while or after answering an archive request"
  else "bad:two-responses:" ++ out

def streams : List Driver.Stream := [
  { name := "c02.archerr", model := fun _ => "alive clean", judge := archErrJudge },
  { name := "c02.cond", model := condModel, judge := condJudge },
  { name := "c02.serve", model := serveModel, judge := serveJudge },
  { name := "c02.mutate", model := mutateModel, judge := mutateJudge },
  { name := "c02.sites", model := sitesModel, judge := sitesJudge },
  { name := "c02.clean", model := cleanModel, judge := fun _ _ => "ok" },
  { name := "c02.match", model := matchModel, judge := fun _ _ => "ok" },
  { name := "c02.escape", model := escapeModel, judge := fun _ _ => "ok" }
]

end Driver.C02
