import Driver.Proto
/- Streams of C02 (stub: not built yet). -/
namespace Driver.C02
def streams : List Driver.Stream := []
end Driver.C02
