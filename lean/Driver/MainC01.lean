import Driver.Loop
import Driver.C01
/- model driver of property C01 -/
def main (args : List String) : IO Unit := Driver.run Driver.C01.streams args
