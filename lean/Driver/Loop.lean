import Driver.Proto
/-
Shared main loop of the per-property model drivers.
  modeldriver_cxx model  < cases.in      → one model answer per line
  modeldriver_cxx judge  < joined.in     → one verdict per line; joined line = case fields, TAB "=>" TAB impl answer
Each property has its own executable (Driver/MainCxx.lean imports only Driver.Cxx), so a table or model of one
property that stops compiling cannot take the other properties' drivers down with it.
-/
namespace Driver

def findStream (streams : List Stream) (n : String) : Option Stream := streams.find? (·.name == n)

def splitAtArrow : List String → List String → List String × List String
  | [], acc => (acc.reverse, [])
  | "=>" :: rest, acc => (acc.reverse, rest)
  | x :: rest, acc => splitAtArrow rest (x :: acc)

def stripNl (s : String) : String :=
  let s := if s.endsWith "\n" then (s.dropEnd 1).toString else s
  if s.endsWith "\r" then (s.dropEnd 1).toString else s

def handle (streams : List Stream) (mode : String) (line : String) : String :=
  match (stripNl line).splitOn "\t" with
  | [] => "bad-line"
  | name :: fields =>
    match findStream streams name with
    | none => "unknown-stream"
    | some st =>
      if mode == "judge" then
        let (cf, out) := splitAtArrow fields []
        st.judge cf ("\t".intercalate out)
      else st.model fields

partial def loop (streams : List Stream) (mode : String) (h : IO.FS.Stream) (out : IO.FS.Stream) : IO Unit := do
  let line ← h.getLine
  if line.isEmpty then return ()
  out.putStrLn (handle streams mode line)
  loop streams mode h out

def run (streams : List Stream) (args : List String) : IO Unit := do
  let mode := args.headD "model"
  let stdin ← IO.getStdin
  let stdout ← IO.getStdout
  loop streams mode stdin stdout
  stdout.flush

end Driver
