import Driver.Loop
import Driver.C12
/- model driver of property C12 -/
def main (args : List String) : IO Unit := Driver.run Driver.C12.streams args
