import Driver.Loop
import Driver.C15
/- model driver of property C15 -/
def main (args : List String) : IO Unit := Driver.run Driver.C15.streams args
