import Driver.Loop
import Driver.C04
/- model driver of property C04 -/
def main (args : List String) : IO Unit := Driver.run Driver.C04.streams args
