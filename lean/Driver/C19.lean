import Casket.Model.Hello
import Casket.Model.Mitm
import Casket.Model.Link
import Casket.Model.FCGI
import Casket.Model.FCGIStatus
import Casket.Model.AuthCfg
import Casket.Spec.PeerBytes
import Casket.Spec.Hello
import Driver.Proto
import Driver.C20
import Casket.Model.Limits
/-
Streams of C19 (hex = hex-encoded bytes).
  c19.hello   hex                      out = info | PANIC:<class>
  c19.looks   hex                      out = f=? c=? e=? s=? t=? h=?  (each 0/1/P)
  c19.seg     hex cuts                 out = <recorded, split> TAB <recorded, unsplit>
  c19.mitm    hex cuts uahex flags     out = unchecked | checked:0 | checked:1 | PANIC:<class>
  c19.ua      uahex namehex            out = -1 | canonical decimal
  c19.uafuzz  uahex namehex            out = ok | PANIC:<class>
  c19.link    hex                      out = resources
  c19.record  hex                      out = out=<hex>;err=<hex>;fin=<eof|ueof|badver>
  c19.pairs   klen vlen                out = ok:<wire length> | PANIC:<class>
  c19.status  hex                      out = req=<err | code>;serve=<ret>,<code written | ->  | PANIC:<class>
              hex = the value of the responder's Status header as textproto delivers it; through the real
              FCGIClient.Request and the real fastcgi Handler.ServeHTTP (loopback responder)
  c19.explore …                        out = ok | PANIC  (no model: exploration of handler entry points)
  c19.replacer  (fields of c20.replace)  out = hex of the expansion | PANIC | HANG  (model: slice C20's Replacer model)
  c19.conns   step …                   out = <recorded, connection 0> " | " <recorded, connection 1> …   | PANIC:<class>
              one field per step at ONE tlsHelloListener / bufpool:  a<i> accept connection i,
              r<i>=<hex> one Read of connection i delivers the bytes, c<i> close connection i,
              h<i>=<hex>,<hex>… the deliveries of a whole (failing) crypto/tls handshake on connection i
  c19.handshake cuts uahex             out = same | differs:… | PANIC (no model: real crypto/tls handshakes, split vs unsplit)
  info  = v=<n>;cs=<list>;cm=<hex>;ex=<list>;cu=<list>;pt=<hex>     "-" = nothing recorded
-/
namespace Driver.C19
open Casket.Fault Casket.Hello Casket.Mitm Casket.PeerSpec

def panicStr (f : Fault) : String := "PANIC:" ++ f.name

def showInfo (i : Info) : String :=
  s!"v={i.version};cs={Driver.showNatList i.ciphers};cm={Driver.hex i.compression};ex={Driver.showNatList i.extensions};cu={Driver.showNatList i.curves};pt={Driver.hex i.points}"

def showRec : R (Option Info) → String
  | .error f => panicStr f
  | .ok none => "-"
  | .ok (some i) => showInfo i

/-- an observed answer as an outcome: a PANIC answer is a fault, anything else a value -/
def observed (out : String) : R String :=
  if out.startsWith "PANIC:index" then .error .index
  else if out.startsWith "PANIC" then .error .slice
  else .ok out

def judgeTotal (_ : List String) (out : String) : String := totalVerdict (observed out)

/-- the canonical rendering read back -/
def parseInfo (s : String) : Option Info :=
  match s.splitOn ";" with
  | [v, cs, cm, ex, cu, pt] =>
    let fld (pre : String) (x : String) : Option String :=
      if x.startsWith pre then some (x.drop pre.length).toString else none
    do
      let v ← (← fld "v=" v).toNat?
      let cs ← Driver.natList (← fld "cs=" cs)
      let cm ← Driver.unhex (← fld "cm=" cm)
      let ex ← Driver.natList (← fld "ex=" ex)
      let cu ← Driver.natList (← fld "cu=" cu)
      let pt ← Driver.unhex (← fld "pt=" pt)
      pure { version := v, ciphers := cs, compression := cm, extensions := ex, curves := cu, points := pt }
  | _ => none

/-- no panic, and for a well-formed ClientHello exactly its reference reading -/
def helloJudge (f : List String) (out : String) : String :=
  if out.startsWith "PANIC" then totalVerdict (observed out) else
  match f with
  | [h] => match Driver.unhex h with
    | some bs => Casket.HelloSpec.skewVerdict bs (parseInfo out)
    | none => "bad:unparsable:case"
  | _ => "bad:unparsable:case"

def helloModel : List String → String
  | [h] => match Driver.unhex h with
    | some bs => match parseRawClientHello bs with
      | .ok i => showInfo i
      | .error f => panicStr f
    | none => "bad-case"
  | _ => "bad-case"

def flag : R Bool → String
  | .ok true => "1"
  | .ok false => "0"
  | .error _ => "P"

def looksModel : List String → String
  | [h] => match Driver.unhex h with
    | some bs => match parseRawClientHello bs with
      | .ok i => s!"f={flag (looksLikeFirefox i)} c={flag (looksLikeChrome i)} e={flag (looksLikeEdge i)} s={flag (looksLikeSafari i)} t={flag (looksLikeTor i)} h={flag (.ok (advertisesHeartbeat i))}"
      | .error f => panicStr f
    | none => "bad-case"
  | _ => "bad-case"

def looksJudge (_ : List String) (out : String) : String :=
  if out.startsWith "PANIC" then totalVerdict (observed out)
  else if out.contains 'P' then "bad:panic:a looksLike heuristic panicked"
  else "ok"

/-- cut `bs` at the (ascending) positions `cuts` -/
def cutAt (bs : Bytes) (cuts : List Nat) : List Bytes :=
  let rec go (bs : Bytes) (pos : Nat) : List Nat → List Bytes
    | [] => [bs]
    | c :: cs => bs.take (c - pos) :: go (bs.drop (c - pos)) (max c pos) cs
  go bs 0 cuts

def segModel : List String → String
  | [h, cs] => match Driver.unhex h, Driver.natList cs with
    | some bs, some cuts => showRec (recorded (cutAt bs cuts)) ++ "\t" ++ showRec (recorded [bs])
    | _, _ => "bad-case"
  | _ => "bad-case"

def segJudge (f : List String) (out : String) : String :=
  match out.splitOn "\t" with
  | [a, b] =>
    let v := segVerdict (observed a) (observed b)
    if v != "ok" then v else
    match f with
    | stream :: _ => match Driver.unhex stream with
      | some bs => Casket.HelloSpec.recordedVerdict bs (if b == "-" then none else parseInfo b)
      | none => "bad:unparsable:case"
    | _ => "bad:unparsable:case"
  | _ => totalVerdict (observed out)

/-! c19.conns -/

def parseStep (s : String) : Option (List Step) :=
  let arg (r : List Char) : Option (Nat × String) :=
    match (String.ofList r).splitOn "=" with
    | [i, h] => i.toNat?.map fun i => (i, h)
    | _ => none
  match s.toList with
  | 'a' :: r => (String.ofList r).toNat?.map fun i => [.accept i 0]
  | 'c' :: r => (String.ofList r).toNat?.map fun i => [.close i]
  | 'r' :: r => do
    let (i, h) ← arg r
    let b ← Driver.unhex h
    pure [.read i b]
  | 'h' :: r => do
    let (i, h) ← arg r
    let segs ← (h.splitOn ",").mapM Driver.unhex
    pure (segs.map (.read i))
  | _ => none

def parseSteps (f : List String) : Option (List Step) := (f.mapM parseStep).map List.flatten

/-- connections are numbered 0 … n-1 -/
def connCount (steps : List Step) : Nat :=
  steps.foldl (fun m s => match s with | .accept i _ => max m (i + 1) | _ => m) 0

def connsModel (f : List String) : String :=
  match parseSteps f with
  | none => "bad-case"
  | some steps =>
    match recordedSeq {} steps (connCount steps) with
    | .error e => panicStr e
    | .ok recs => " | ".intercalate (recs.map fun r => showRec (.ok r))

def connsJudge (f : List String) (out : String) : String :=
  if out.startsWith "PANIC" then totalVerdict (observed out) else
  match parseSteps f with
  | none => "bad:unparsable:case"
  | some steps =>
    let recs := (out.splitOn " | ").mapM fun a =>
      if a == "-" then some none else (parseInfo a).map some
    match recs with
    | none => "bad:unparsable:answer"
    | some recs =>
      if recs.length != connCount steps then "bad:unparsable:answer (number of connections)"
      else Casket.HelloSpec.connsVerdict steps recs

def showVerdict : R Verdict → String
  | .error f => panicStr f
  | .ok .unchecked => "unchecked"
  | .ok (.checked m) => if m then "checked:1" else "checked:0"
  | .ok .unmodelled => "unmodelled"

def mitmModel : List String → String
  | [h, cs, ua, flags] => match Driver.unhex h, Driver.natList cs, Driver.unhex ua with
    | some bs, some cuts, some ua =>
      match recorded (cutAt bs cuts) with
      | .error f => panicStr f
      | .ok r =>
        let fl := Driver.bits flags
        showVerdict (serveDecision ua (fl.getD 0 false) (fl.getD 1 false) (r.getD {}))
    | _, _, _ => "bad-case"
  | _ => "bad-case"

def stripZerosR (s : List Char) : List Char := (s.reverse.dropWhile (· == '0')).reverse

/-- Go's `FormatFloat(v, 'f', -1, 64)` for the decimal `m / 10^k` with at most 15 significant digits -/
def showDecimal (m k : Nat) : String :=
  let ds := (toString m).toList
  let ds := List.replicate (k + 1 - ds.length) '0' ++ ds
  let ip := ds.take (ds.length - k)
  let fp := stripZerosR (ds.drop (ds.length - k))
  String.ofList (if fp.isEmpty then ip else ip ++ ['.'] ++ fp)

def uaModel : List String → String
  | [ua, name] => match Driver.unhex ua, Driver.unhex name with
    | some ua, some name =>
      match getVersionStr ua name with
      | .error f => panicStr f
      | .ok none => "-1"
      | .ok (some s) =>
        match classifyFloat s with
        | .num m k => if (toString m).length ≤ 15 && k ≤ 15 then showDecimal m k else "unmodelled"
        | .notNumber => "-1"
        | .unmodelled => "unmodelled"
    | _, _ => "bad-case"
  | _ => "bad-case"

def uaFuzzModel : List String → String
  | [ua, name] => match Driver.unhex ua, Driver.unhex name with
    | some ua, some name =>
      match getVersionStr ua name with
      | .error f => panicStr f
      | .ok _ => "ok"
    | _, _ => "bad-case"
  | _ => "bad-case"

def showLink (r : Casket.Link.Resource) : String :=
  "uri=" ++ Driver.hex r.uri ++ "{" ++ ",".intercalate (r.params.map fun (k, v) => Driver.hex k ++ ":" ++ Driver.hex v) ++ "}"

def linkModel : List String → String
  | [h] => match Driver.unhex h with
    | some bs => match Casket.Link.parseLinkHeader bs with
      | .ok rs => "|".intercalate (rs.map showLink)
      | .error f => panicStr f
    | none => "bad-case"
  | _ => "bad-case"

open Casket.FCGI in
def recordModel : List String → String
  | [h] => match Driver.unhex h with
    | some bs => match demux bs with
      | .ok d =>
        let fin := match d.fin with
          | .eof => "eof"
          | .unexpectedEOF => "ueof"
          | .badVersion => "badver"
        s!"out={Driver.hex d.out.flatten};err={Driver.hex d.err};fin={fin}"
      | .error f => panicStr f
    | none => "bad-case"
  | _ => "bad-case"

/-- the deterministic filler the harness uses for long names and values -/
def filler (seed n : Nat) : Bytes := (List.range n).map fun i => UInt8.ofNat (97 + (seed + i) % 26)

open Casket.FCGI in
def pairsModel : List String → String
  | [kl, vl] => match kl.toNat?, vl.toNat? with
    | some kl, some vl =>
      match writePairs typeParams 1 [(filler 0 kl, filler 7 vl)] with
      | .ok w => s!"ok:{w.length}"
      | .error f => panicStr f
    | _, _ => "bad-case"
  | _ => "bad-case"

/-- c19.matches  cs pathhex basehex : `httpserver.Path(path).Matches(base)` on hostile request paths;
model = slice C17's `Limits.pathMatches` (ASCII case folding: non-ASCII bytes only with cs = 1) -/
def matchesModel : List String → String
  | [cs, p, b] => match Driver.unhex p, Driver.unhex b with
    | some p, some b => if Casket.Limits.pathMatches (cs == "1") p b then "1" else "0"
    | _, _ => "bad-case"
  | _ => "bad-case"

/-- c19.status: the responder's Status header through `FCGIClient.Request` and `Handler.ServeHTTP` -/
def statusModel : List String → String
  | [h] => match Driver.unhex h with
    | some v =>
      match Casket.FCGIStatus.parseStatus v, Casket.FCGIStatus.serve v with
      | .error f, _ => panicStr f
      | _, .error f => panicStr f
      | .ok r, .ok s =>
        let req := match r with
          | none => "err"
          | some r => s!"{r.code}"
        let srv := match s with
          | .badGateway => "502,-"
          | .wrote c => s!"0,{c}"
        s!"req={req};serve={srv}"
    | none => "bad-case"
  | _ => "bad-case"

/-- only what the property states: request handling did not panic on the backend's bytes -/
def statusJudge (_ : List String) (out : String) : String :=
  if out.startsWith "PANIC:index" || out.startsWith "PANIC:slice" then totalVerdict (observed out)
  else if out.startsWith "PANIC" then
    "bad:panic:request handling panicked on the Status header a FastCGI responder sent (" ++ (out.drop 12).toString ++ ")"
  else "ok"

/-- c19.authcfg: basicauth rules through the real setup over a history of loads (Model/AuthCfg.lean) -/
def authPairs (s : String) : Option (List (Nat × Nat)) :=
  if s = "" then some [] else
  (s.splitOn ",").mapM fun e => match e.splitOn "." with
    | [u, p] => do pure ((← u.toNat?), (← p.toNat?))
    | _ => none

def authLoad (s : String) : Option Casket.AuthCfg.Load :=
  match s.splitOn "|" with
  | [d, us] => do
    let users ← Driver.natList us
    if d = "-" then pure (none, users) else
    match d.splitOn ":" with
    | [st, t] => do
      let stamp ← st.toNat?
      let table ← authPairs t
      if stamp % 100 ≠ table.length then none else
      pure (some ⟨stamp, table⟩, users)
    | _ => none
  | _ => none

def authAuth (s : String) : Option (Option (Nat × Nat)) :=
  if s = "-" then some none else
  match authPairs s with
  | some [a] => some (some a)
  | _ => none

def authCfgModel : List String → String
  | [ls, a] =>
    match (ls.splitOn ";").mapM authLoad, authAuth a with
    | some loads, some auth =>
      ";".intercalate ((Casket.AuthCfg.run auth loads none).map Casket.AuthCfg.showOutcome)
    | _, _ => "bad-case"
  | _ => "bad-case"

/-- the implementation's answer read back into outcomes and judged by `Casket.AuthCfg.verdict`
(the predicate of C19_authcfg_model_verdict_ok) -/
def authCfgJudge (_ : List String) (out : String) : String :=
  let os : List (Option Casket.AuthCfg.Outcome) :=
    if out.startsWith "PANIC" then [some .panic] else
    (out.splitOn ";").map fun o =>
      if o = "refused" then none
      else if o.startsWith "PANIC" then some .panic
      else some (.code ((o.drop 5).toString.toNat?.getD 0))
  Casket.AuthCfg.verdict os

def streams : List Driver.Stream := [
  { name := "c19.authcfg", model := authCfgModel, judge := authCfgJudge },
  { name := "c19.status", model := statusModel, judge := statusJudge },
  { name := "c19.hello", model := helloModel, judge := helloJudge },
  { name := "c19.looks", model := looksModel, judge := looksJudge },
  { name := "c19.seg", model := segModel, judge := segJudge },
  { name := "c19.conns", model := connsModel, judge := connsJudge },
  { name := "c19.mitm", model := mitmModel, judge := judgeTotal },
  { name := "c19.ua", model := uaModel, judge := judgeTotal },
  { name := "c19.uafuzz", model := uaFuzzModel, judge := judgeTotal },
  { name := "c19.link", model := linkModel, judge := judgeTotal },
  { name := "c19.record", model := recordModel, judge := judgeTotal },
  { name := "c19.pairs", model := pairsModel, judge := judgeTotal },
  { name := "c19.explore", model := fun _ => "ok", judge := judgeTotal },
  { name := "c19.matches", model := matchesModel, judge := judgeTotal },
  -- the Replacer over hostile request text: slice C20's model and evaluator, judged for panics / hangs
  { name := "c19.replacer", model := Driver.C20.replaceModel,
    judge := fun _ out => if out == "PANIC" || out.startsWith "PANIC" then "bad:panic:Replace panicked"
      else if out == "HANG" then "bad:panic:Replace did not return" else "ok" },
  { name := "c19.handshake", model := fun _ => "same",
    judge := fun _ out => if out == "same" then "ok"
      else if out.startsWith "PANIC" then totalVerdict (observed out)
      else if out.startsWith "differs" then segVerdict (α := String) (.ok "split") (.ok "whole")
      else "bad:handshake:" ++ (out.take 80).toString }
]

end Driver.C19
