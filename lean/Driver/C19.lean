import Driver.Proto
/- Streams of C19 (stub: not built yet). -/
namespace Driver.C19
def streams : List Driver.Stream := []
end Driver.C19
