import Driver.Loop
import Driver.C02
/- model driver of property C02 -/
def main (args : List String) : IO Unit := Driver.run Driver.C02.streams args
