import Driver.Loop
import Driver.C09
/- model driver of property C09 -/
def main (args : List String) : IO Unit := Driver.run Driver.C09.streams args
