import Casket.Model.Load
import Casket.Spec.Load
import Driver.Proto
/-
Streams of C08.
  c08.seq  op1 op2 …     L:<kind> | R:<kind> | V:<kind> | X      (kinds: harness/streams/c08.go; <kind>.h<N> = the kind
                         with N `on` directives — the number of hooks a configuration registers is a free dimension)
     out = step|step|…   step = <res>;ls=<l1>.<l2>;hk=<hooks>;dv=<0|1>;s1=<probe>;s2=<probe>
  Port 3 is held by a foreign listener in every case.
-/
namespace Driver.C08
open Casket.Load

def busy : List Nat := [3]

/-- what the probe battery returns for a plain static site / for the order-sensitive site, in a fresh process -/
def plain (m : String) : String := m ++ "/404.404.404.404.404.id"
def ordered : String := "O/401.401.401.401.418.gz/-.-"
/-- the site protected by an htpasswd file in version `v` (a | b): alice's rule on /secret, bob's on /api -/
def htSite (v : String) : String := s!"O/401.404.401.401.404.id/{v}.{v}"
/-- only bob's rule -/
def htSiteBob (v : String) : String := s!"O/200.404.401.404.404.id/abm.{v}"

/-- a mistyped directive: the parser rejects the file; nothing has run -/
def typos : List String := ["proxi", "basicaut", "rewrit", "gzi", "loggg", "tlss", "redri", "zzz"]

def baseCfg (k : String) : Option Cfg :=
  if k.startsWith "ty-" then
    if typos.contains (k.drop 3).toString then some ⟨[⟨1, plain "A"⟩], 0, .parse⟩ else none
  else match k with
  | "A1" => some ⟨[⟨1, plain "A"⟩], 0, .none⟩
  | "B12" => some ⟨[⟨1, plain "B"⟩, ⟨2, plain "B"⟩], 0, .none⟩
  | "C2" => some ⟨[⟨2, plain "C"⟩], 0, .none⟩
  | "H1" => some ⟨[⟨1, plain "H"⟩], 1, .none⟩
  | "HH12" => some ⟨[⟨1, plain "H"⟩, ⟨2, plain "H"⟩], 2, .none⟩
  | "Pa1" => some ⟨[⟨1, htSite "a"⟩], 0, .none⟩
  | "Pb1" => some ⟨[⟨1, htSite "b"⟩], 0, .none⟩
  | "Qa1" => some ⟨[⟨1, htSiteBob "a"⟩], 0, .none⟩
  -- a malformed htpasswd file: basicauth (a directive that runs after `on`) rejects it
  | "Pm1" => some ⟨[⟨1, htSite "m"⟩], 0, .setupLate⟩
  | "Pm2" => some ⟨[⟨1, htSite "m"⟩], 0, .setupLate⟩
  | "Pm3" => some ⟨[⟨1, htSite "m"⟩], 0, .setupLate⟩
  | "Pn1" => some ⟨[⟨1, htSite "m"⟩], 0, .setupLate⟩
  | "O1" => some ⟨[⟨1, ordered⟩], 0, .none⟩
  | "OB12" => some ⟨[⟨1, ordered⟩, ⟨2, plain "B"⟩], 0, .none⟩
  | "syn" => some ⟨[⟨1, plain "A"⟩], 0, .parse⟩
  | "unk" => some ⟨[⟨1, plain "A"⟩], 0, .parse⟩
  | "imp" => some ⟨[⟨1, plain "A"⟩], 0, .parse⟩
  | "argE" => some ⟨[⟨1, plain "H"⟩], 1, .setupEarly⟩
  | "tlsM" => some ⟨[⟨1, plain "A"⟩], 1, .setupEarly⟩
  | "argL" => some ⟨[⟨1, plain "H"⟩], 1, .setupLate⟩
  | "logE" => some ⟨[⟨1, plain "H"⟩], 1, .startup⟩
  -- MakeServers refuses (TLS and plain HTTP on one listener): after the directives, not reached by a validation
  | "mux" => some ⟨[⟨1, plain "A"⟩], 1, .startup⟩
  | "busy3" => some ⟨[⟨3, plain "A"⟩], 0, .none⟩
  -- the site of A1 with QUIC enabled while the UDP half of its address is held by another process: `Listen` succeeds,
  -- `ListenPacket` of the same server fails.  In the model one step of the listen loop stands for both calls of one
  -- server and an address either half of which is taken is a `busy` address (port 3 stands for it)
  | "udp1" => some ⟨[⟨3, plain "A"⟩], 0, .none⟩
  | "leak13" => some ⟨[⟨1, plain "A"⟩, ⟨3, plain "A"⟩], 1, .none⟩
  | "leak123" => some ⟨[⟨1, plain "B"⟩, ⟨2, plain "B"⟩, ⟨3, plain "B"⟩], 0, .none⟩
  | _ => none

/-- kinds whose number of `on` directives can be chosen with the suffix `.h<N>`, N one decimal digit -/
def hookable : List String := ["H1", "argE", "argL", "tlsM", "logE", "mux", "busy3", "leak13", "leak123", "udp1"]

def kindCfg (k : String) : Option Cfg :=
  match k.splitOn ".h" with
  | [b] => baseCfg b
  | [b, n] =>
    match n.toList with
    | [d] =>
      if hookable.contains b && d.isDigit then (baseCfg b).map fun c => { c with hooks := d.toNat - 48 } else none
    | _ => none
  | _ => none

def parseOp (s : String) : Option Op :=
  if s.startsWith "L:" then (kindCfg (s.drop 2).toString).map .load
  else if s.startsWith "R:" then (kindCfg (s.drop 2).toString).map .restart
  else if s.startsWith "V:" then (kindCfg (s.drop 2).toString).map .validate
  else if s = "X" then some .stop
  else none

def showRes : Res → String
  | .ok => "ok" | .err => "err"

def showStep (x : Res × Obs) : String :=
  s!"{showRes x.1};ls={x.2.l1}.{x.2.l2};hk={x.2.hooks};dv={x.2.dv};s1={x.2.s1};s2={x.2.s2}"

def seqModel (f : List String) : String :=
  match f.mapM parseOp with
  | none => "bad-case"
  | some ops => "|".intercalate ((run busy ops).map showStep)

def parseRes : String → Option (Option Res)
  | "ok" => some (some .ok) | "err" => some (some .err) | "timeout" => some none
  | _ => none

def stripPrefix (p s : String) : Option String :=
  if s.startsWith p then some (s.drop p.length).toString else none

def parseStep (s : String) : Option (Option Res × Obs) :=
  match s.splitOn ";" with
  | [r, ls, hk, dv, s1, s2] => do
    let r ← parseRes r
    let ls ← stripPrefix "ls=" ls
    let hk ← (← stripPrefix "hk=" hk).toNat?
    let dv ← (← stripPrefix "dv=" dv).toNat?
    let s1 ← stripPrefix "s1=" s1
    let s2 ← stripPrefix "s2=" s2
    match ls.splitOn "." with
    | [a, b] => pure (r, { l1 := ← a.toNat?, l2 := ← b.toNat?, hooks := hk, dv := dv, s1 := s1, s2 := s2 })
    | _ => none
  | _ => none

def seqJudge (f : List String) (out : String) : String :=
  match f.mapM parseOp with
  | none => if out = "bad-case" then "ok" else "bad:malformed-case-accepted:" ++ out
  | some ops =>
    match (out.splitOn "|").mapM parseStep with
    | none => "bad:unparsable:" ++ out
    | some steps => Casket.LoadSpec.verdict busy ops steps

def streams : List Driver.Stream := [
  { name := "c08.seq", model := seqModel, judge := seqJudge }
]

end Driver.C08
