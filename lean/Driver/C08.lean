import Driver.Proto
/- Streams of C08 (stub: not built yet). -/
namespace Driver.C08
def streams : List Driver.Stream := []
end Driver.C08
