import Driver.Loop
import Driver.C19
/- model driver of property C19 -/
def main (args : List String) : IO Unit := Driver.run Driver.C19.streams args
