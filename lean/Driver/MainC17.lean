import Driver.Loop
import Driver.C17
/- model driver of property C17 -/
def main (args : List String) : IO Unit := Driver.run Driver.C17.streams args
