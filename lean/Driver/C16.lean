import Casket.Model.Lifecycle
import Casket.Spec.Lifecycle
import Driver.Proto
/-
Streams of C16.
  c16.trace  op1 op2 …     one field per operation (see harness/streams/c16.go for the syntax)
     out = segment|segment|…   segment = <res>;<events>;<wait bits>
-/
namespace Driver.C16
open Casket.Lifecycle

def parseSrv (s : String) : Option Srv := do
  let cs := s.toList
  let (cs, se) := if cs.getLast? == some '~' then (cs.dropLast, true) else (cs, false)
  let (cs, lf) := if cs.getLast? == some '!' then (cs.dropLast, true) else (cs, false)
  match cs with
  | k :: ds =>
    let kind ← (match k with
      | 'f' => some SrvKind.file
      | 'n' => some SrvKind.nofile
      | 'p' => some SrvKind.plain
      | _ => none)
    if ds.isEmpty then none else
    let a ← (String.ofList ds).toNat?
    pure { kind := kind, addr := a, listenFail := lf, stopErr := se }
  | [] => none

def parseStage : String → Option Stage
  | "-" => some .none
  | "parse" => some .parse
  | "setup" => some .setup
  | "make" => some .make
  | "first" => some .first
  | "startup" => some .startup
  | _ => none

def parseCfg (s : String) : Option Cfg :=
  match s.splitOn "/" with
  | [sv, st, fl] => do
    let servers ← if sv = "" then some [] else (sv.splitOn ",").mapM parseSrv
    let stage ← parseStage st
    if fl.toList.all (fun c => c == 'r' || c == 's' || c == 'w') then
      pure { servers := servers, fail := stage, restartErr := fl.toList.contains 'r', shutdownErr := fl.toList.contains 's' }
    else none
  | _ => none

def parseOp (s : String) : Option Op :=
  if s.startsWith "S:" then (parseCfg (s.drop 2).toString).map .start
  else if s.startsWith "R:" then (parseCfg (s.drop 2).toString).map .restart
  else if s = "X" then some .stopAll
  else if s.startsWith "G" then
    match (s.drop 1).toString.toNat? with
    | some n => if 1 ≤ n ∧ n ≤ 64 then some (.signal n) else none
    | none => none
  else none

def cbCode : CB → String
  | .fs => "fs" | .su => "su" | .rs => "rs" | .rf => "rf" | .sd => "sd" | .fd => "fd"

def showEvent : Event → String
  | .cb k g i => s!"{cbCode k}{g}.{i}"
  | .listen g k => s!"li{g}.{k}"
  | .inherit g k => s!"in{g}.{k}"
  | .serve g k => s!"sv{g}.{k}"
  | .stop g k => s!"st{g}.{k}"

def showRes : Res → String
  | .ok => "ok" | .err => "err" | .noinst => "noinst"

def showBits (b : List Bool) : String :=
  if b.isEmpty then "-" else String.ofList (b.map fun x => if x then '1' else '0')

def showSeg (x : Seg × List Bool) : String :=
  s!"{showRes x.1.res};{",".intercalate (x.1.events.map showEvent)};{showBits x.2}"

/-- `GR:<cfg>` — a reload attempted while the shutdown pass runs — is the shutdown pass (atomic: nothing can change the instance
list while it runs) followed by the reload -/
def parseOps (s : String) : Option (List Op) :=
  if s.startsWith "GR:" then (parseCfg (s.drop 3).toString).map fun c => [.signal 1, .restart c]
  else (parseOp s).map fun o => [o]

def parseHistory (f : List String) : Option (List Op) := (f.mapM parseOps).map List.flatten

def traceModel (f : List String) : String :=
  match parseHistory f with
  | none => "bad-case"
  | some ops => "|".intercalate ((run ops).map showSeg)

-- parsing of an observed answer

def parseCb : String → Option CB
  | "fs" => some .fs | "su" => some .su | "rs" => some .rs | "rf" => some .rf | "sd" => some .sd | "fd" => some .fd
  | _ => none

def parseEvent (s : String) : Option Event :=
  let code := (s.take 2).toString
  match ((s.drop 2).toString).splitOn "." with
  | [g, i] => do
    let g ← g.toNat?
    let i ← i.toNat?
    match code with
    | "li" => some (.listen g i)
    | "in" => some (.inherit g i)
    | "sv" => some (.serve g i)
    | "st" => some (.stop g i)
    | c => (parseCb c).map fun k => .cb k g i
  | _ => none

def parseRes : String → Option Res
  | "ok" => some .ok | "err" => some .err | "noinst" => some .noinst
  | _ => none

def parseBits (s : String) : Option (List Bool) :=
  if s = "-" then some []
  else if s.toList.all (fun c => c == '0' || c == '1') then some (s.toList.map (· == '1')) else none

def parseSeg (s : String) : Option (Seg × List Bool) :=
  match s.splitOn ";" with
  | [r, e, b] => do
    let r ← parseRes r
    let e ← if e = "" then some [] else (e.splitOn ",").mapM parseEvent
    let b ← parseBits b
    pure (⟨r, e⟩, b)
  | _ => none

def traceJudge (f : List String) (out : String) : String :=
  match parseHistory f with
  | none => if out = "bad-case" then "ok" else "bad:malformed-case-accepted:" ++ out
  | some ops =>
    if (out.splitOn "|").any (fun seg => seg.startsWith "hang;") then "bad:stop-never-returns:casket.Stop() did not return" else
    match (out.splitOn "|").mapM parseSeg with
    | none => "bad:unparsable:" ++ out
    | some segs => Casket.LifecycleSpec.verdict ops segs


/-! c16.signal  op op …  !<signals>      (real signals to a child process)
      out = <result of every op>;<events after READY>;exit=<code> -/

def parseSig : String → Option Sig
  | "TERM" => some .term | "INT" => some .int | "QUIT" => some .quit | "HUP" => some .hup
  | _ => none

def parseSignalCase (f : List String) : Option (List Op × List Sig) :=
  match f.reverse with
  | last :: revOps =>
    if !last.startsWith "!" then none else do
    let sigs ← ((last.drop 1).toString.splitOn ",").mapM parseSig
    let ops ← revOps.reverse.mapM parseOp
    if ops.isEmpty || (deciding sigs).isNone then none else
    if ops.all (fun o => match o with | .start _ => true | .restart _ => true | _ => false) then some (ops, sigs) else none
  | [] => none

/-- a burst with both SIGINT and SIGTERM: the two handlers race for the exit once the callbacks are done, so the harness does
not report the Stop events of such a burst; what remains to be judged is what SIGINT alone requires: the callbacks, once -/
def overlapping (sigs : List Sig) : Bool := sigs.contains .int && sigs.contains .term

def signalModel (f : List String) : String :=
  match parseSignalCase f with
  | none => "bad-case"
  | some (ops, sigs) =>
    let s := stateAfter State.init ops
    let r := if overlapping sigs then sigRun s [.int] else sigRun s sigs
    let res := ",".intercalate ((run ops).map fun x => showRes x.1.res)
    let ex := match r.2 with | some n => toString n | none => "timeout"
    s!"{res};{",".intercalate (r.1.map showEvent)};exit={ex}"

/-- the instances alive after the setup operations, from the OBSERVED results -/
def liveAfter (led : Casket.LifecycleSpec.Ledger) : List Op → List Res → Casket.LifecycleSpec.Ledger
  | op :: ops, r :: rs => liveAfter (Casket.LifecycleSpec.advance led op ⟨r, []⟩) ops rs
  | _, _ => led

def signalJudge (f : List String) (out : String) : String :=
  match parseSignalCase f with
  | none => if out = "bad-case" then "ok" else "bad:malformed-case-accepted:" ++ out
  | some (ops, sigs) =>
    match out.splitOn ";" with
    | [rs, es, ex] =>
      match (if rs = "" then some [] else (rs.splitOn ",").mapM parseRes),
            (if es = "" then some [] else (es.splitOn ",").mapM parseEvent) with
      | some results, some events =>
        if results.length != ops.length then "bad:length:results" else
        let led := liveAfter Casket.LifecycleSpec.Ledger.init ops results
        match Casket.LifecycleSpec.signalPathLaw led.live (if overlapping sigs then [.int] else sigs) events (ex != "exit=timeout") with
        | none => "ok"
        | some c => s!"bad:{c}:signal path"
      | _, _ => "bad:unparsable:" ++ out
    | _ => "bad:unparsable:" ++ out

def streams : List Driver.Stream := [
  { name := "c16.trace", model := traceModel, judge := traceJudge },
  { name := "c16.signal", model := signalModel, judge := signalJudge }
]

end Driver.C16
