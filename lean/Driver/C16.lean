import Driver.Proto
/- Streams of C16 (stub: not built yet). -/
namespace Driver.C16
def streams : List Driver.Stream := []
end Driver.C16
