import Casket.Model.VHost
import Casket.Spec.VHost
import Casket.Model.VHostStack
import Casket.Spec.VHostStack
import Casket.Model.VHostAuto
import Casket.Spec.VHostAuto
import Casket.Model.VHostWire
import Casket.Spec.VHostWire
import Driver.Proto
/-
Streams of C01.
  c01.route     sites  hosthex  pathhex  protoMajor
     sites = comma list of  <keyhex>:<fallback 0|1>:<addrhosthex>   (declaration order; may be empty)
     out   = site TAB <index> TAB <path_prefix hex>   |   notfound TAB <status>
  c01.hostport  hex            out = ok:<hosthex> | err      (net.SplitHostPort, host part)
  c01.match     keys  queryhex   (vhostTrie.Insert / Match directly, keys = comma list of hex)
     out   = <index> TAB <prefix hex> | -
-/
namespace Driver.C01
open Casket.VHost

def bytes (s : String) : Option Bytes := (Driver.unhex s).map (·.map UInt8.toNat)
def hexB (b : Bytes) : String := Driver.hex (b.map UInt8.ofNat)

def parseSite (s : String) : Option Site :=
  match s.splitOn ":" with
  | [k, f, a] => do pure { key := ← bytes k, fallback := f == "1", addrHost := ← bytes a }
  | _ => none

def parseSites (s : String) : Option (List Site) :=
  if s = "" then some [] else (s.splitOn ",").mapM parseSite

def parseCase : List String → Option (List Site × Req)
  | [ss, h, p, pm] => do
    pure (← parseSites ss, { host := ← bytes h, path := ← bytes p, protoMajor := ← pm.toNat? })
  | _ => none

def showOutcome : Outcome → String
  | .site i p => s!"site\t{i}\t{hexB p}"
  | .notFound st => s!"notfound\t{st}"

def parseOutcome (s : String) : Option Outcome :=
  match s.splitOn "\t" with
  | ["site", i, p] => do pure (.site (← i.toNat?) (← bytes p))
  | ["notfound", st] => do pure (.notFound (← st.toNat?))
  | _ => none

def routeModel (f : List String) : String :=
  match parseCase f with
  | none => "bad-case"
  | some (sites, r) => showOutcome (route sites r)

def routeJudge (f : List String) (out : String) : String :=
  match parseCase f, parseOutcome out with
  | some (sites, r), some o => Casket.VHostSpec.verdict sites r o
  | _, _ => "bad:unparsable:" ++ out

def hostportModel : List String → String
  | [h] => match bytes h with
    | some b => match splitHostPort b with
      | some x => "ok:" ++ hexB x
      | none => "err"
    | none => "bad-case"
  | _ => "bad-case"

def matchModel : List String → String
  | [ks, q] =>
    match (if ks = "" then some [] else (ks.splitOn ",").mapM bytes), bytes q with
    | some keys, some q =>
      let t := (keys.zipIdx.foldl (fun (t : Trie) (ki : Bytes × Nat) => t.insert ki.1 ki.2)
                 { fallbacks := defaultFallbacks, root := [] })
      match t.match_ q with
      | none => "-"
      | some (i, p) => s!"{i}\t{hexB p}"
    | _, _ => "bad-case"
  | _ => "bad-case"

/-
  c01.stack  addrs  port  hosthex  pathhex  protoMajor
     addrs = comma list of hex site addresses, each its own server block of a Casketfile, in order
     out   = load:<url|convention|dupkey|dupaddr|outofmodel> | nolistener
           | site TAB <position> TAB <path_prefix hex> | notfound TAB <status>
-/
def bytes8 (s : String) : Option (List UInt8) := Driver.unhex s

def parseAddrs (s : String) : Option (List (List UInt8)) :=
  if s = "" then some [] else (s.splitOn ",").mapM bytes8

def showErr : Casket.AutoHTTPS.AddrErr → String
  | .url => "load:url"
  | .convention => "load:convention"
  | .dupKey => "load:dupkey"
  | .dupAddr => "load:dupaddr"
  | .outOfModel => "load:outofmodel"

open Casket.VHostStack in
def showStack : StackOutcome → String
  | .loadError e => showErr e
  | .noListener => "nolistener"
  | .site i p => s!"site\t{i}\t{hexB p}"
  | .notFound st => s!"notfound\t{st}"

open Casket.VHostStack in
def parseStack (s : String) : Option StackOutcome :=
  match s.splitOn "\t" with
  | ["load:url"] => some (.loadError .url)
  | ["load:convention"] => some (.loadError .convention)
  | ["load:dupkey"] => some (.loadError .dupKey)
  | ["load:dupaddr"] => some (.loadError .dupAddr)
  | ["load:outofmodel"] => some (.loadError .outOfModel)
  | ["nolistener"] => some .noListener
  | ["site", i, p] => do pure (.site (← i.toNat?) (← bytes p))
  | ["notfound", st] => do pure (.notFound (← st.toNat?))
  | _ => none

def parseStackCase : List String → Option (List (List UInt8) × List UInt8 × Req)
  | [as, port, h, p, pm] => do
    pure (← parseAddrs as, port.toUTF8.toList, { host := ← bytes h, path := ← bytes p, protoMajor := ← pm.toNat? })
  | _ => none

def stackModel (f : List String) : String :=
  match parseStackCase f with
  | none => "bad-case"
  | some (as, port, r) => showStack (Casket.VHostStack.stackRoute as port r)

def stackJudge (f : List String) (out : String) : String :=
  match parseStackCase f, parseStack out with
  | some (as, port, r), some o => Casket.VHostStackSpec.verdict as port r o
  | _, _ => "bad:unparsable:" ++ out

/-
  c01.auto  blocks  lbind  lport  hosthex  pathhex  protoMajor
     blocks = comma list of <addrhex>:<bindhex>:<tls>, each its own server block (address, `bind`, `tls`), in order;
              tls = none | off | email | self, then optional +nr (no_redirect)
     lbind/lport = the listener the request is sent to (bind value in hex, port as text)
     out   = load:<class> | directive-error | makeservers-error | nolistener
           | served TAB <declared> TAB <members> TAB (site TAB <position in members> TAB <path_prefix hex> | notfound TAB <status>)
             members = comma list of <idx>:<Addr.Original hex>:<Addr.Host hex>, idx = position in the final config list
-/
open Casket.VHostAuto in
def parseAutoBlock (s : String) : Option Block :=
  match s.splitOn ":" with
  | [a, b, t] => do
    let (base, nr) ← match t with
      | "none" => some (Casket.AutoHTTPS.TLSBase.none, false)
      | "off" => some (.off, false)
      | "email" => some (.email, false)
      | "email+nr" => some (.email, true)
      | "self" => some (.selfSigned, false)
      | "self+nr" => some (.selfSigned, true)
      | _ => none
    pure { addr := ← bytes8 a, bind := ← bytes8 b, tls := { base := base, noRedirect := nr } }
  | _ => none

open Casket.VHostAuto in
def parseAutoCase : List String → Option (List Block × List UInt8 × List UInt8 × Req)
  | [bs, lb, lp, h, p, pm] => do
    let blocks ← if bs = "" then some [] else (bs.splitOn ",").mapM parseAutoBlock
    pure (blocks, ← bytes8 lb, lp.toUTF8.toList, { host := ← bytes h, path := ← bytes p, protoMajor := ← pm.toNat? })
  | _ => none

open Casket.VHostAuto in
def showMember (m : Member) : String := s!"{m.idx}:{hexB m.key}:{hexB m.addrHost}"

open Casket.VHostAuto in
def parseMember (s : String) : Option Member :=
  match s.splitOn ":" with
  | [i, k, h] => do pure { idx := ← i.toNat?, key := ← bytes k, addrHost := ← bytes h }
  | _ => none

open Casket.VHostAuto in
def showAuto : AutoOutcome → String
  | .loadError e => showErr e
  | .directiveError => "directive-error"
  | .makeServersError => "makeservers-error"
  | .noListener => "nolistener"
  | .served n ms o => s!"served\t{n}\t{",".intercalate (ms.map showMember)}\t{showOutcome o}"

open Casket.VHostAuto in
def parseAuto (s : String) : Option AutoOutcome :=
  match s.splitOn "\t" with
  | ["directive-error"] => some .directiveError
  | ["makeservers-error"] => some .makeServersError
  | ["nolistener"] => some .noListener
  | "served" :: n :: ms :: rest => do
    let members ← if ms = "" then some [] else (ms.splitOn ",").mapM parseMember
    pure (.served (← n.toNat?) members (← parseOutcome ("\t".intercalate rest)))
  | [e] => match parseStack e with
    | some (.loadError x) => some (.loadError x)
    | _ => none
  | _ => none

def autoModel (f : List String) : String :=
  match parseAutoCase f with
  | none => "bad-case"
  | some (bs, lb, lp, r) => showAuto (Casket.VHostAuto.autoRoute bs lb lp r)

def autoJudge (f : List String) (out : String) : String :=
  match parseAutoCase f, parseAuto out with
  | some (bs, _, _, r), some o => Casket.VHostAutoSpec.verdict bs r o
  | _, _ => "bad:unparsable:" ++ out

/-
  c01.wire  sites  hosthex  targethex  protoMajor
     the request goes through http.ReadRequest: `GET <target> HTTP/1.1`, `Host: <host>`; target raw or percent-encoded
     out   = badrequest | routed TAB <URL.Path hex> TAB (site TAB <index> TAB <path_prefix hex> | notfound TAB <status>)
-/
def parseWireCase : List String → Option (List Site × Bytes × Bytes × Nat)
  | [ss, h, t, pm] => do pure (← parseSites ss, ← bytes h, ← bytes t, ← pm.toNat?)
  | _ => none

open Casket.VHostWire in
def showWire : WireOutcome → String
  | .badRequest => "badrequest"
  | .routed p o => s!"routed\t{hexB p}\t{showOutcome o}"

open Casket.VHostWire in
def parseWire (s : String) : Option WireOutcome :=
  match s.splitOn "\t" with
  | ["badrequest"] => some .badRequest
  | "routed" :: p :: rest => do pure (.routed (← bytes p) (← parseOutcome ("\t".intercalate rest)))
  | _ => none

def wireModel (f : List String) : String :=
  match parseWireCase f with
  | none => "bad-case"
  | some (sites, h, t, pm) => showWire (Casket.VHostWire.wireRoute sites h t pm)

def wireJudge (f : List String) (out : String) : String :=
  match parseWireCase f, parseWire out with
  | some (sites, h, _, pm), some o => Casket.VHostWireSpec.verdict sites h pm o
  | _, _ => "bad:unparsable:" ++ out

/-
  c01.seq   keys  queries   (several lookups through ONE trie and each on a fresh trie)
     out   = seq=<a;a;...>|fresh=<a;a;...>     a = <index>:<prefix hex> | -
-/
def seqModel : List String → String
  | [ks, qs] =>
    match (if ks = "" then some [] else (ks.splitOn ",").mapM bytes), (qs.splitOn ",").mapM bytes with
    | some keys, some qs =>
      let t := (keys.zipIdx.foldl (fun (t : Trie) (ki : Bytes × Nat) => t.insert ki.1 ki.2)
                 { fallbacks := defaultFallbacks, root := [] })
      let ans := ";".intercalate ((lookups t qs).map fun
        | none => "-"
        | some (i, p) => s!"{i}:{hexB p}")
      s!"seq={ans}|fresh={ans}"
    | _, _ => "bad-case"
  | _ => "bad-case"

/-- the property clause judged on the implementation's own two answers: the site that answers a
request does not depend on the requests before it (`seqVerdict`, proved of the model by
C01_lookups_history_independent) -/
def seqJudge (_ : List String) (out : String) : String :=
  match out.splitOn "|" with
  | [a, b] => seqVerdict ((a.drop 4).toString.splitOn ";") ((b.drop 6).toString.splitOn ";")
  | _ => "bad:malformed:" ++ (out.take 60).toString

def streams : List Driver.Stream := [
  { name := "c01.wire", model := wireModel, judge := wireJudge },
  { name := "c01.auto", model := autoModel, judge := autoJudge },
  { name := "c01.stack", model := stackModel, judge := stackJudge },
  { name := "c01.route", model := routeModel, judge := routeJudge },
  { name := "c01.hostport", model := hostportModel, judge := fun _ _ => "ok" },
  { name := "c01.match", model := matchModel, judge := fun _ _ => "ok" },
  { name := "c01.seq", model := seqModel, judge := seqJudge }
]

end Driver.C01
