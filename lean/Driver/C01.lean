import Driver.Proto
/- Streams of C01 (stub: not built yet). -/
namespace Driver.C01
def streams : List Driver.Stream := []
end Driver.C01
