import Driver.Loop
import Driver.C16
/- model driver of property C16 -/
def main (args : List String) : IO Unit := Driver.run Driver.C16.streams args
