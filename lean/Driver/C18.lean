import Driver.Proto
/- Streams of C18 (stub: not built yet). -/
namespace Driver.C18
def streams : List Driver.Stream := []
end Driver.C18
