import Casket.Model.Gzip
import Casket.Spec.Gzip
import Driver.Proto
/-
Streams of C18.
  c18.wrap    blocks  path  ae  innerhdr  body  plen  ops  ret
      blocks   = ';' list of  exts|nots|minlen|level   (exts, nots: comma lists of hex strings)
      innerhdr = ce|cl|vary|etag   ce hex; cl - or a number; vary 0/1; etag -|s|w
      body     = term: r<hex> | E<status> | gzip(<term>) | zstd(<term>) | br(<term>)
      ops      = comma list of  h<code> | w | f
      ret      = <status> (the handler returns status, nil) | <status>e (status and a non-nil error)
      out      = <resp with gzip> TAB <resp without>;  resp = status ce cl vary etag term
                 (ce hex or -, cl - absent / = correct / ! wrong)
  c18.static  blocks  path  ae  siblings  content  plens
      siblings = subset string of z,b,g ; plens = sizes of the .zst,.br,.gz files (0 if absent)
-/
namespace Driver.C18
open Casket.Gzip Casket.GzipSpec
open Casket.Limits (Bytes)

def hexList (s : String) : Option (List Bytes) :=
  if s = "" then some [] else (s.splitOn ",").mapM Driver.unhex

def parseBlock (s : String) : Option Block :=
  match s.splitOn "|" with
  | [e, n, m, _level] => do
    pure { exts := ← hexList e, nots := ← hexList n, minLen := ← m.toNat? }
  | _ => none

def parseBlocks (s : String) : Option (List Block) :=
  if s = "" then some [] else (s.splitOn ";").mapM parseBlock

def parseCoding : String → Option Coding
  | "gzip" => some .gzip
  | "zstd" => some .zstd
  | "br" => some .br
  | _ => none

def codingStr : Coding → String
  | .gzip => "gzip"
  | .zstd => "zstd"
  | .br => "br"

def showTerm : Term → String
  | .raw b => "r" ++ Driver.hex b
  | .errPage s => "E" ++ toString s
  | .layer c t => codingStr c ++ "(" ++ showTerm t ++ ")"
  | .cut c _ => "X-truncated-" ++ codingStr c ++ "-"

def parseTermFuel : Nat → String → Option Term
  | 0, _ => none
  | fuel + 1, s =>
    if s.startsWith "r" then (Driver.unhex (s.drop 1).toString).map Term.raw
    else if s.startsWith "E" then ((s.drop 1).toString.toNat?).map Term.errPage
    else if s.endsWith ")" then
      match s.splitOn "(" with
      | name :: rest@(_ :: _) => do
        let c ← parseCoding name
        let inner := ((("(".intercalate rest).dropEnd 1).toString)
        let t ← parseTermFuel fuel inner
        pure (Term.layer c t)
      | _ => none
    else none

def parseTerm (s : String) : Option Term := parseTermFuel 8 s

def parseETag : String → Option ETag
  | "-" => some .none
  | "s" => some .strong
  | "w" => some .weak
  | _ => none

def showETag : ETag → String
  | .none => "-"
  | .strong => "s"
  | .weak => "w"

def parseHdr (s : String) : Option Hdr :=
  match s.splitOn "|" with
  | [ce, cl, v, e] => do
    let cl ← if cl = "-" then pure none else (cl.toNat?).map some
    pure { ce := ← Driver.unhex ce, cl := cl, varyAE := v == "1", etag := ← parseETag e }
  | _ => none

/-- `c` (io.Copy into w) and `s` (io.WriteString) output the next piece of the body exactly
like `w` (Write): that is what the property demands of any wrapper fast path, so the model has
one op for the three and the theorems quantify over all of them. -/
def parseOp (s : String) : Option Op :=
  if s = "w" || s = "c" || s = "s" then some .write
  else if s = "f" then some .flush
  else if s.startsWith "h" then ((s.drop 1).toString.toNat?).map Op.hdr
  else none

def parseOps (s : String) : Option (List Op) :=
  if s = "" then some [] else (s.splitOn ",").mapM parseOp

def showCL : CLState → String
  | .absent => "-"
  | .ok => "="
  | .wrong => "!"

def parseCL : String → Option CLState
  | "-" => some .absent
  | "=" => some .ok
  | "!" => some .wrong
  | _ => none

def showObs (o : Obs) : String :=
  let ce := if o.ce.isEmpty then "-" else Driver.hex o.ce
  s!"{o.status} {ce} {showCL o.cl} {if o.varyAE then "1" else "0"} {showETag o.etag} {showTerm o.body}"

def parseObs (s : String) : Option Obs :=
  match s.splitOn " " with
  | [st, ce, cl, v, e, t] => do
    let ce ← if ce = "-" then pure [] else Driver.unhex ce
    pure { status := ← st.toNat?, ce := ce, cl := ← parseCL cl, varyAE := v == "1", etag := ← parseETag e,
           body := ← parseTerm t }
  | _ => none

structure WCase where
  blocks : List Block
  path : Bytes
  ae : Bytes
  inner : Inner

/-- the ret field: `<status>` = the handler returns (status, nil); `<status>e` = it returns
(status, a non-nil error) -/
def parseRet (s : String) : Option (Nat × Bool) :=
  if s.endsWith "e" then ((s.dropEnd 1).toString.toNat?).map fun n => (n, true)
  else (s.toNat?).map fun n => (n, false)

def parseWrap : List String → Option WCase
  | [bl, p, ae, h, body, plen, ops, ret] => do
    let (ret, err) ← parseRet ret
    pure { blocks := ← parseBlocks bl, path := ← Driver.unhex p, ae := ← Driver.unhex ae,
           inner := { hdr := ← parseHdr h, body := ← parseTerm body, plen := ← plen.toNat?,
                      ops := ← parseOps ops, ret := ret, err := err } }
  | _ => none

def wrapModel (f : List String) : String :=
  match parseWrap f with
  | none => "bad-case"
  | some c => showObs (observe (gzipRun c.blocks c.path c.ae c.inner)) ++ "\t" ++ showObs (observe (plainRun c.inner))

def wrapJudge (f : List String) (out : String) : String :=
  match parseWrap f, out.splitOn "\t" with
  | some c, [g, p] =>
    match parseObs g, parseObs p with
    | some g, some p => verdict c.ae g p
    | _, _ => if (out.splitOn "X-").length > 1 then "bad:undecodable:the body is not a complete stream of the coding it starts with"
              else "bad:unparsable:" ++ out
  | _, _ => "bad:unparsable:" ++ out

def parseSiblings (s : String) : List Coding :=
  (if s.contains 'z' then [Coding.zstd] else []) ++ (if s.contains 'b' then [Coding.br] else []) ++
    (if s.contains 'g' then [Coding.gzip] else [])

structure SCase where
  blocks : List Block
  path : Bytes
  ae : Bytes
  siblings : List Coding
  content : Bytes
  plens : List Nat

def parseStatic : List String → Option SCase
  | [bl, p, ae, sib, content, plens] => do
    pure { blocks := ← parseBlocks bl, path := ← Driver.unhex p, ae := ← Driver.unhex ae,
           siblings := parseSiblings sib, content := ← Driver.unhex content, plens := ← Driver.natList plens }
  | _ => none

def sibLen (c : SCase) : Coding → Nat
  | .zstd => c.plens.getD 0 0
  | .br => c.plens.getD 1 0
  | .gzip => c.plens.getD 2 0

def staticInnerOf (c : SCase) : Inner :=
  let plen := match pickSibling c.siblings c.ae with
    | some cd => sibLen c cd
    | none => c.content.length
  staticInner c.siblings c.ae c.content plen

def staticModel (f : List String) : String :=
  match parseStatic f with
  | none => "bad-case"
  | some c =>
    let i := staticInnerOf c
    showObs (observe (gzipRun c.blocks c.path c.ae i)) ++ "\t" ++ showObs (observe (plainRun i))

def staticJudge (f : List String) (out : String) : String :=
  match parseStatic f, out.splitOn "\t" with
  | some c, [g, p] =>
    match parseObs g, parseObs p with
    | some g, some p => staticVerdict c.ae c.content g p
    | _, _ => if (out.splitOn "X-").length > 1 then "bad:undecodable:the body is not a complete stream of the coding it starts with"
              else "bad:unparsable:" ++ out
  | _, _ => "bad:unparsable:" ++ out

/-- "a-b" | "a-" | "-n" against a representation of `size` bytes (the generator only sends
satisfiable ranges) -/
def parseRange (s : String) (size : Nat) : Option (Nat × Nat) :=
  match s.splitOn "-" with
  | ["", n] => n.toNat?.map fun n => (size - n, size - 1)
  | [a, ""] => a.toNat?.map fun a => (a, size - 1)
  | [a, b] => do pure (← a.toNat?, min (← b.toNat?) (size - 1))
  | _ => none

def showRangeObs (o : Obs) (lo hi size : Nat) : String :=
  let ce := if o.ce.isEmpty then "-" else Driver.hex o.ce
  s!"{o.status} {ce} {showCL o.cl} {lo}-{hi}/{size} slice-ok"

def rangeModel (f : List String) : String :=
  match f with
  | [bl, p, ae, sib, content, plens, rng] =>
    match parseStatic [bl, p, ae, sib, content, plens] with
    | none => "bad-case"
    | some c =>
      let size := match pickSibling c.siblings c.ae with
        | some cd => sibLen c cd
        | none => c.content.length
      match parseRange rng size with
      | none => "bad-case"
      | some (lo, hi) =>
        let i := rangeInner c.siblings c.ae (hi + 1 - lo)
        showRangeObs (observe (gzipRun c.blocks c.path c.ae i)) lo hi size ++ "\t" ++
          showRangeObs (observe (plainRun i)) lo hi size
  | _ => "bad-case"

def parseRangeObs (s : String) : Option (Obs × String × Bool) :=
  match s.splitOn " " with
  | [st, ce, cl, cr, sl] => do
    let ce ← if ce = "-" then pure [] else Driver.unhex ce
    pure ({ status := ← st.toNat?, ce := ce, cl := ← parseCL cl, varyAE := false, etag := .none, body := .raw [] },
          cr, sl == "slice-ok")
  | _ => none

def rangeJudge (f : List String) (out : String) : String :=
  match f, out.splitOn "\t" with
  | [_, _, ae, _, _, _, _], [g, p] =>
    match Driver.unhex ae, parseRangeObs g, parseRangeObs p with
    | some ae, some (g, gr, gs), some (p, pr, ps) => rangeVerdict ae g p gr pr gs ps
    | _, _, _ => "bad:unparsable:" ++ out
  | _, _ => "bad:unparsable:" ++ out

/-- c18.live: status, Content-Encoding and body term of both executions over a real connection -/
def showLive (o : Obs) : String :=
  let ce := if o.ce.isEmpty then "-" else Driver.hex o.ce
  s!"{o.status} {ce} {showTerm o.body}"

def liveModel (f : List String) : String :=
  match parseWrap f with
  | none => "bad-case"
  | some c => showLive (observe (gzipRun c.blocks c.path c.ae c.inner)) ++ "\t" ++ showLive (observe (plainRun c.inner))

def parseLive (s : String) : Option Obs :=
  match s.splitOn " " with
  | [st, ce, t] => do
    let ce ← if ce = "-" then pure [] else Driver.unhex ce
    pure { status := ← st.toNat?, ce := ce, cl := .absent, varyAE := false, etag := .none, body := ← parseTerm t }
  | _ => none

def liveJudge (f : List String) (out : String) : String :=
  match parseWrap f, out.splitOn "\t" with
  | some c, [g, p] =>
    match parseLive g, parseLive p with
    | some g, some p => verdict c.ae g p
    | _, _ => if (out.splitOn "X-").length > 1 then "bad:undecodable:the body is not a complete stream of the coding it starts with, or the connection broke"
              else "bad:unparsable:" ++ out
  | _, _ => "bad:unparsable:" ++ out

/-- c18.bodiless: case = the c18.wrap fields + method; out = <gzip> TAB <plain> TAB <head> -/
def showWire (head : Bool) (o : Obs) : String :=
  let ce := if o.ce.isEmpty then "-" else Driver.hex o.ce
  let cl := if head then "*" else (match o.cl with | .absent => "-" | _ => "+")
  let bl := match o.body with
    | .raw [] => "0"
    | _ => "body"
  s!"{o.status} {ce} {if o.varyAE then "1" else "0"} {showETag o.etag} {cl} {bl}"

def bodilessModel (f : List String) : String :=
  match f with
  | [bl, p, ae, h, body, plen, ops, ret, method] =>
    match parseWrap [bl, p, ae, h, body, plen, ops, ret] with
    | none => "bad-case"
    | some c =>
      let head := method == "HEAD"
      showWire head (observe (wire head (gzipRun c.blocks c.path c.ae c.inner))) ++ "\t" ++
        showWire head (observe (wire head (plainRun c.inner))) ++ "\t" ++ (if head then "same" else "-")
  | _ => "bad-case"

def parseWire (s : String) : Option Obs :=
  match s.splitOn " " with
  | [st, ce, v, e, cl, bl] => do
    let ce ← if ce = "-" then pure [] else Driver.unhex ce
    let n ← bl.toNat?
    pure { status := ← st.toNat?, ce := ce, cl := if cl = "+" then .ok else .absent, varyAE := v == "1",
           etag := ← parseETag e, body := if n = 0 then .raw [] else .raw [0] }
  | _ => none

def bodilessJudge (f : List String) (out : String) : String :=
  match f, out.splitOn "\t" with
  | [_, _, ae, _, _, _, _, _, method], [g, p, hs] =>
    match Driver.unhex ae, parseWire g, parseWire p with
    | some ae, some g, some p => bodilessVerdict ae (method == "HEAD") g p (hs == "same" || hs == "-")
    | _, _, _ => "bad:unparsable:" ++ out
  | _, _ => "bad:unparsable:" ++ out

/-- c18.pool: every one of the k overlapping responses decodes to its own body -/
def poolModel : List String → String
  | [_, _, k] => match k.toNat? with
    | some k => ",".intercalate (List.replicate k "ok")
    | none => "bad-case"
  | _ => "bad-case"

def poolJudge (_ : List String) (out : String) : String :=
  match (out.splitOn ",").find? (· != "ok") with
  | none => "ok"
  | some bad =>
    if bad.startsWith "bad:decoded-differs" then "bad:decoded-differs:a response served while others were in flight does not decode to its own body"
    else "bad:undecodable:a response served while others were in flight is not a complete gzip stream (" ++ bad ++ ")"

def streams : List Driver.Stream := [
  { name := "c18.pool", model := poolModel, judge := poolJudge },
  { name := "c18.bodiless", model := bodilessModel, judge := bodilessJudge },
  { name := "c18.live", model := liveModel, judge := liveJudge },
  { name := "c18.range", model := rangeModel, judge := rangeJudge },
  { name := "c18.wrap", model := wrapModel, judge := wrapJudge },
  { name := "c18.static", model := staticModel, judge := staticJudge }
]

end Driver.C18
