import Casket.Model.FCGI
import Casket.Spec.FCGI
import Casket.Model.FCGIRoute
import Casket.Spec.FCGIRoute
import Casket.Model.FCGIShared
import Casket.Spec.FCGIShared
import Driver.Proto
/-
Streams of C13.
  c13.wire   id pairs body rk      out = hex of everything FCGIClient.Do wrote | PANIC:<class>
     pairs = comma list of  klen:vlen:seed  (name = index digit ++ filler, value = filler)
             or  x<hexname>=<hexvalue> ;  body = len:seed | x<hex> ;  rk = how the body reader behaves
-/
namespace Driver.C13
open Casket.Fault Casket.FCGI Casket.FCGISpec

/-- the deterministic filler the harness uses for long names and values -/
def filler (seed n : Nat) : Bytes := (List.range n).map fun i => UInt8.ofNat (97 + (seed + i) % 26)

def parsePair (i : Nat) (s : String) : Option Pair :=
  if s.startsWith "x" then
    match (s.drop 1).toString.splitOn "=" with
    | [k, v] => do pure (← Driver.unhex k, ← Driver.unhex v)
    | _ => none
  else
    match s.splitOn ":" with
    | [kl, vl, sd] => do
      let kl ← kl.toNat?
      let vl ← vl.toNat?
      let sd ← sd.toNat?
      pure (if kl = 0 then [] else UInt8.ofNat (48 + i) :: filler sd (kl - 1), filler (sd + 7) vl)
    | _ => none

def parsePairs (s : String) : Option (List Pair) :=
  if s = "" then some [] else
  let items := s.splitOn ","
  (items.zip (List.range items.length)).mapM fun (it, i) => parsePair i it

def parseBody (s : String) : Option Bytes :=
  if s.startsWith "x" then Driver.unhex (s.drop 1).toString
  else match s.splitOn ":" with
    | [l, sd] => do pure (filler (← sd.toNat?) (← l.toNat?))
    | _ => none

/-- `n` no reader, `w` a reader with WriteTo, `r<c>` a plain reader handing out c bytes per Read -/
def parseReader (rk : String) (bodyLen : Nat) : Option BodyReader :=
  if rk == "n" then some .none
  else if rk == "w" then some .writerTo
  else if rk.startsWith "r" then
    (rk.drop 1).toString.toNat?.map fun c => .plain (List.replicate (bodyLen + 1) c) false
  else none

def wireModel : List String → String
  | [id, ps, body, rk] =>
    match id.toNat?, parsePairs ps, parseBody body with
    | some id, some ps, some body =>
      match parseReader rk body.length with
      | none => "bad-case"
      | some rk =>
      match clientWireVia id ps body rk with
      | .ok w => Driver.hex w
      | .error f => "PANIC:" ++ f.name
    | _, _, _ => "bad-case"
  | _ => "bad-case"

def wireJudge (f : List String) (out : String) : String :=
  match f with
  | [id, ps, body, _rk] =>
    match id.toNat?, parsePairs ps, parseBody body with
    | some id, some ps, some body =>
      if out.startsWith "PANIC" then "bad:panic:" ++ out
      else match Driver.unhex out with
        | some w => wireVerdict id ps body w
        | none => "bad:unparsable:" ++ (out.take 40).toString
    | _, _, _ => "bad:unparsable:case"
  | _ => "bad:unparsable:case"

def finName : ReadErr → String
  | .eof => "eof"
  | .unexpectedEOF => "ueof"
  | .badVersion => "badver"

def showView : R ViewResult → String
  | .error f => "PANIC:" ++ f.name
  | .ok .unmodelled => "unmodelled"
  | .ok .statusError => "err:status"
  | .ok (.view v) =>
    let hs := ",".intercalate (v.headers.map fun (k, x) => Driver.hex k ++ ":" ++ Driver.hex x)
    s!"st={v.status};tx={Driver.hex v.statusText};h={hs};body={Driver.hex v.body};fin={finName v.fin};stderr={Driver.hex v.stderr}"

/-- c13.demux  outhex errhex rawhex : the responder's intended stdout and stderr, and its framing -/
def demuxModel : List String → String
  | [_, _, raw] => match Driver.unhex raw with
    | some raw => showView (clientView raw)
    | none => "bad-case"
  | _ => "bad-case"

def parseField (pre : String) (s : String) : Option String :=
  if s.startsWith pre then some (s.drop pre.length).toString else none

def parseHeaderList (s : String) : Option (List (Bytes × Bytes)) :=
  if s = "" then some [] else
  (s.splitOn ",").mapM fun kv =>
    match kv.splitOn ":" with
    | [k, v] => do pure (← Driver.unhex k, ← Driver.unhex v)
    | _ => none

def parseView (out : String) : Option ViewResult :=
  if out = "err:status" then some .statusError
  else if out = "unmodelled" then some .unmodelled
  else match out.splitOn ";" with
    | [st, tx, h, body, fin, se] => do
      let st ← (← parseField "st=" st).toNat?
      let tx ← Driver.unhex (← parseField "tx=" tx)
      let hs ← parseHeaderList (← parseField "h=" h)
      let body ← Driver.unhex (← parseField "body=" body)
      let fin ← match (← parseField "fin=" fin) with
        | "eof" => some ReadErr.eof
        | "ueof" => some ReadErr.unexpectedEOF
        | "badver" => some ReadErr.badVersion
        | _ => none
      let se ← Driver.unhex (← parseField "stderr=" se)
      pure (.view { status := st, statusText := tx, headers := hs, body := body, stderr := se, fin := fin })
    | _ => none

def demuxJudge (f : List String) (out : String) : String :=
  match f with
  | [o, e, _] =>
    match Driver.unhex o, Driver.unhex e with
    | some o, some e =>
      if out.startsWith "PANIC" then "bad:panic:" ++ out
      else match parseView out with
        | some v => respVerdict o e v
        | none => "bad:response:" ++ (out.take 60).toString
    | _, _ => "bad:unparsable:case"
  | _ => "bad:unparsable:case"

/-! c13.route  cs rules files method pathhex queryhex headershex bodyhex remote te
     rules = `;;`-list of  path|ext|split|index,…|except,…|K=V,…      files = comma list
     out   = next | err500 | sent:<rule>;env=<sorted hexk:hexv,…>;stdin=<hex> | unmodelled -/
section route
open Casket.FCGIRoute Casket.FCGIRouteSpec

def b (s : String) : Bytes := Casket.Fault.bytes s

def splitList (sep : String) (s : String) : List String := if s = "" then [] else s.splitOn sep

def parseRule (s : String) : Option Rule :=
  match s.splitOn "|" with
  | [p, e, sp, ix, ex, env] => do
    let envs ← (splitList "," env).mapM fun kv =>
      match kv.splitOn "=" with
      | [k, v] => some (b k, b v)
      | _ => none
    pure { path := b p, ext := b e, split := b sp, index := (splitList "," ix).map b,
           except := (splitList "," ex).map b, env := envs, root := b "/ROOT" }
  | _ => none

/-- header lines `Name: value` (LF separated) → canonical name, values in order -/
def parseReqHeaders (raw : Bytes) : List (Bytes × List Bytes) :=
  let lines := (Casket.Fault.splitByte 0x0a raw).filter (!·.isEmpty)
  lines.foldl (fun acc line =>
    match Casket.Fault.indexOf line [0x3a] with
    | none => acc
    | some i =>
      let k := Casket.FCGI.canonicalKey (line.take i) true
      let v := Casket.FCGI.trimSpTab (line.drop (i + 1))
      if acc.any (·.1 == k) then acc.map (fun h => if h.1 == k then (h.1, h.2 ++ [v]) else h)
      else acc ++ [(k, [v])]) []

structure RouteCase where
  cs : Bool
  rules : List Rule
  fs : FS
  req : Req

def parseRouteCase : List String → Option RouteCase
  | [cs, rules, files, method, path, query, hdrs, body, remote, te] => do
    let rules ← (splitList ";;" rules).mapM parseRule
    let path ← Driver.unhex path
    let query ← Driver.unhex query
    let hdrs ← Driver.unhex hdrs
    let body ← Driver.unhex body
    let hs := parseReqHeaders hdrs
    -- the harness adds Content-Length for a body sent with a length
    let hs := if te == "cl" then hs ++ [(b "Content-Length", [b (toString body.length)])] else hs
    pure { cs := cs == "1", rules := rules, fs := (splitList "," files).map b,
           req := { method := b method, host := b "example.test:8080", path := path, rawQuery := query,
                    remoteAddr := b remote, headers := hs,
                    contentLength := if te == "cl" then body.length else 0, body := body } }
  | _ => none

def srv : Server := { name := b "example.test", port := b "8080", software := b "Casket/verif" }

def showEnv (env : List (Bytes × Bytes)) : String :=
  ",".intercalate ((Casket.FCGI.sortHeaders env).map fun (k, v) => Driver.hex k ++ ":" ++ Driver.hex v)

def routeModel (f : List String) : String :=
  match parseRouteCase f with
  | none => "bad-case"
  | some c =>
    match route c.cs c.fs c.req.path c.rules with
    | .next => "next"
    | .err500 => "err500"
    | .unmodelled => "unmodelled"
    | .sent i fpath =>
      match c.rules[i]? with
      | none => "bad-case"
      | some rule =>
        match buildEnv c.cs srv c.req rule fpath with
        | none => "unmodelled"
        | some env => s!"sent:{i};env={showEnv env};stdin={Driver.hex (stdinOf c.req)}"

def routeJudge (f : List String) (out : String) : String :=
  match parseRouteCase f with
  | none => "bad:unparsable:case"
  | some c =>
    if out.startsWith "PANIC" then "bad:panic:" ++ out
    else if out == "next" then routeVerdict c.cs c.fs c.req.path c.rules .next
    else if out == "err500" then routeVerdict c.cs c.fs c.req.path c.rules .err500
    else if out == "unmodelled" then "ok"
    else match out.splitOn ";" with
      | [sent, env, stdin] =>
        match (parseField "sent:" sent).bind String.toNat?, (parseField "env=" env).bind parseHeaderList,
              (parseField "stdin=" stdin).bind Driver.unhex with
        | some i, some env, some stdin =>
          match c.rules[i]? with
          | some rule => envVerdict c.cs c.req rule env stdin
          | none => "bad:unparsable:rule index"
        | _, _, _ => "bad:unparsable:" ++ (out.take 60).toString
      | _ => "bad:unparsable:" ++ (out.take 60).toString

/-! c13.routeseq  cs rules files (method pathhex queryhex headershex bodyhex remote te)+
   The requests are served one after the other by ONE fastcgi middleware; the handler keeps nothing
   between requests, so each answer is that of c13.route for the request alone.  out = the answers, TAB separated. -/
def seqCases : List String → Option (List (List String))
  | cs :: rules :: files :: rest =>
    let rec go : Nat → List String → Option (List (List String))
      | 0, _ => none
      | _ + 1, [] => some []
      | n + 1, m :: p :: q :: h :: b :: rm :: te :: more => do
        pure ([cs, rules, files, m, p, q, h, b, rm, te] :: (← go n more))
      | _ + 1, _ => none
    go (rest.length + 1) rest
  | _ => none

def routeseqModel (f : List String) : String :=
  match seqCases f with
  | some cases => "\t".intercalate (cases.map routeModel)
  | none => "bad-case"

def routeseqJudge (f : List String) (out : String) : String :=
  match seqCases f with
  | none => "bad:unparsable:case"
  | some cases =>
    let outs := out.splitOn "\t"
    if outs.length ≠ cases.length then "bad:unparsable:not one answer per request"
    else
      match ((cases.zip outs).map fun (c, o) => routeJudge c o).find? (· ≠ "ok") with
      | some v => v
      | none => "ok"
end route

/-! c13.child  vars hdrs body status respbody
   The real FCGIClient talks to Go's net/http/fcgi child (a standard-conforming responder written
   independently of casket).  vars = `;`-list NAME=hexvalue of extra CGI variables, hdrs = `;`-list
   HTTP_NAME=hexvalue, body = len:seed | x<hex>.  The answer is what the child's handler saw (variables
   via fcgi.ProcessEnv, headers via the request, body) and what the client got back; the property is
   that it is the input, so model and judge both render the input. -/
def parseKVs (s : String) : Option (List (Bytes × Bytes)) :=
  (splitList ";" s).mapM fun kv =>
    match kv.splitOn "=" with
    | [k, v] => do pure (b k, ← Driver.unhex v)
    | _ => none

/-- `HTTP_X_FOO` → `X-Foo` (net/http/cgi: drop `HTTP_`, `_` → `-`, canonical MIME key) -/
def headerOfVar (k : Bytes) : Bytes :=
  Casket.FCGI.canonicalKey ((k.drop 5).map fun c => if c == 0x5f then 0x2d else c) true

def showKVs (l : List (Bytes × Bytes)) : String :=
  ",".intercalate ((Casket.FCGI.sortHeaders l).map fun (k, v) => Driver.hex k ++ ":" ++ Driver.hex v)

def childExpected : List String → Option String
  | [vars, hdrs, body, status, rb] => do
    let vars ← parseKVs vars
    let hdrs ← parseKVs hdrs
    let body ← parseBody body
    let _ ← status.toNat?
    let rb ← Driver.unhex rb
    pure s!"vars={showKVs vars};hdrs={showKVs (hdrs.map fun (k, v) => (headerOfVar k, v))};body={Driver.hex body};st={status};resp={Driver.hex rb}"
  | _ => none

def childModel (f : List String) : String := (childExpected f).getD "bad-case"

def childJudge (f : List String) (out : String) : String :=
  match childExpected f with
  | none => "bad:unparsable:case"
  | some e =>
    if out == e then "ok"
    else if out.startsWith "PANIC" then "bad:panic:" ++ out
    else "bad:child:a standard responder did not receive what was sent, or the client not what it answered"

/-! c13.reads  rawhex plen chunk zeroEvery
   The real streamReader read call by call with a buffer of `plen` bytes, over a connection that
   delivers `chunk` bytes per Read (0 = all at once) and returns (0, nil) on every `zeroEvery`-th
   call (0 = never).   out = <split> TAB <whole>,  each  zero=<calls that returned (0,nil)>;out=<hex>;err=<hex>;fin=<…> -/
def showTrace : R Trace → String
  | .error f => "PANIC:" ++ f.name
  | .ok t => s!"zero={t.zero};out={Driver.hex t.out};err={Driver.hex t.stderr};fin={finName t.fin}"

def readsModel : List String → String
  | [raw, plen, _, _] => match Driver.unhex raw, plen.toNat? with
    | some raw, some plen => let t := showTrace (readTrace raw plen); t ++ "\t" ++ t
    | _, _ => "bad-case"
  | _ => "bad-case"

def zeroOf (half : String) : Option Nat :=
  match half.splitOn ";" with
  | z :: _ => (parseField "zero=" z).bind String.toNat?
  | _ => none

def dropZero (half : String) : String := ";".intercalate ((half.splitOn ";").drop 1)

def readsJudge (f : List String) (out : String) : String :=
  match f with
  | [raw, _, _, _] =>
    match Driver.unhex raw, out.splitOn "\t" with
    | some raw, [a, b] =>
      if out.startsWith "PANIC" || b.startsWith "PANIC" then "bad:panic:" ++ out
      else match zeroOf a, zeroOf b with
        | some za, some zb => readsVerdict raw za zb (dropZero a == dropZero b)
        | _, _ => "bad:no-progress:" ++ (out.take 80).toString
    | _, _ => "bad:unparsable:" ++ (out.take 60).toString
  | _ => "bad:unparsable:case"

/-! c13.wfail  id pairs body rk failAt : `Do` over a connection whose `failAt`-th Write and every later
   one fail.  out = hex of what the connection accepted. -/
def wfailParts : List String → Option (Bytes × Nat)
  | [id, ps, body, rk, failAt] => do
    let id ← id.toNat?
    let ps ← parsePairs ps
    let body ← parseBody body
    let rk ← parseReader rk body.length
    let k ← failAt.toNat?
    match clientWireVia id ps body rk with
    | .ok w => some (w, k)
    | .error _ => none
  | _ => none

def wfailModel (f : List String) : String :=
  match wfailParts f with
  | none => "bad-case"
  | some (w, k) =>
    match splitRecords (w.length + 1) w with
    | none => "bad-case"
    | some rs => Driver.hex (rs.take (k - 1)).flatten

def wfailJudge (f : List String) (out : String) : String :=
  match wfailParts f, Driver.unhex out with
  | some (w, k), some acc => brokenConnVerdict w acc k
  | _, _ => if out.startsWith "PANIC" then "bad:panic:" ++ out else "bad:unparsable:" ++ (out.take 60).toString

/-! c13.overlap  level sched drain (outhex errhex rawhex)+
   Several responses in flight, read in lock-step on one goroutine.  level r: the demultiplexing reader
   itself, sched = comma list of  i.n  (one Read of client i with an n-byte buffer); level q:
   FCGIClient.Request (first step of a client) and resp.Body.Read.  Afterwards every client is read to
   its end with `drain`-byte buffers.  out = one answer per client, TAB separated:
     level r  out=<hex>;err=<hex>;fin=<eof|ueof|badver|none>      level q  as c13.demux -/
def parseSched (s : String) : Option Sched :=
  (splitList "," s).mapM fun it =>
    match it.splitOn "." with
    | [i, n] => do pure (← i.toNat?, ← n.toNat?)
    | [i] => do pure (← i.toNat?, 0)
    | _ => none

/-- (stdout, stderr, raw) per client -/
def parseClients : List String → Option (List (Bytes × Bytes × Bytes))
  | [] => some []
  | o :: e :: raw :: rest => do
    let o ← Driver.unhex o
    let e ← Driver.unhex e
    let raw ← Driver.unhex raw
    pure ((o, e, raw) :: (← parseClients rest))
  | _ => none

def finOptName : Option ReadErr → String
  | none => "none"
  | some e => finName e

def showEnding (e : Ending) : String :=
  s!"out={Driver.hex e.out};err={Driver.hex e.stderr};fin={finOptName e.fin}"

def parseEnding (s : String) : Option Ending :=
  match s.splitOn ";" with
  | [o, e, fin] => do
    let o ← Driver.unhex (← parseField "out=" o)
    let e ← Driver.unhex (← parseField "err=" e)
    let fin ← match (← parseField "fin=" fin) with
      | "eof" => some (some ReadErr.eof)
      | "ueof" => some (some ReadErr.unexpectedEOF)
      | "badver" => some (some ReadErr.badVersion)
      | "none" => some none
      | _ => none
    pure { out := o, fin := fin, stderr := e }
  | _ => none

def overlapModel : List String → String
  | level :: sched :: drain :: cs =>
    match parseSched sched, drain.toNat?, parseClients cs with
    | some sched, some drain, some cs =>
      if level == "r" then
        match overlapRun allocFresh (cs.map (·.2.2)) sched drain with
        | .error f => "PANIC:" ++ f.name
        | .ok es => "\t".intercalate (es.map showEnding)
      else "\t".intercalate (cs.map fun c => showView (clientView c.2.2))
    | _, _, _ => "bad-case"
  | _ => "bad-case"

def overlapJudge (f : List String) (out : String) : String :=
  match f with
  | level :: _ :: _ :: cs =>
    match parseClients cs with
    | none => "bad:unparsable:case"
    | some cs =>
      let intended := cs.map fun c => (c.1, c.2.1)
      if out.startsWith "PANIC" then "bad:panic:" ++ out
      else if level == "r" then
        match (out.splitOn "\t").mapM parseEnding with
        | some es => overlapVerdict intended es
        | none => "bad:cross-talk:unreadable answer " ++ (out.take 60).toString
      else
        match (out.splitOn "\t").mapM parseView with
        | some vs => overlapViewVerdict intended vs
        | none => "bad:cross-talk:a client got no response: " ++ (out.take 60).toString
  | _ => "bad:unparsable:case"

/-! c13.woverlap  prelude sched (id pairs body rk)+
   Do calls whose write phases overlap (turn by turn, see the harness), after the requests of `prelude`
   failed on broken connections.  Nothing in the client is shared between requests, so the model's answer
   does not depend on prelude or schedule.  out = hex of what each connection received, TAB separated. -/
def parseAsked : List String → Option (List (Asked × BodyReader))
  | [] => some []
  | id :: ps :: body :: rk :: rest => do
    let id ← id.toNat?
    let ps ← parsePairs ps
    let body ← parseBody body
    let rk ← parseReader rk body.length
    pure (({ id := id, pairs := ps, body := body }, rk) :: (← parseAsked rest))
  | _ => none

def woverlapModel : List String → String
  | _ :: _ :: cs =>
    match parseAsked cs with
    | none => "bad-case"
    | some qs => "\t".intercalate (qs.map fun (q, rk) =>
        match clientWireVia q.id q.pairs q.body rk with
        | .ok w => Driver.hex w
        | .error f => "PANIC:" ++ f.name)
  | _ => "bad-case"

def woverlapJudge (f : List String) (out : String) : String :=
  match f with
  | _ :: _ :: cs =>
    match parseAsked cs with
    | none => "bad:unparsable:case"
    | some qs =>
      if (out.splitOn "PANIC").length > 1 then "bad:panic:" ++ (out.take 200).toString
      else match (out.splitOn "\t").mapM Driver.unhex with
        | some ws => overlapWireVerdict (qs.map (·.1)) ws
        | none => "bad:cross-talk:a request was not written: " ++ (out.take 80).toString
  | _ => "bad:unparsable:case"

def streams : List Driver.Stream := [
  { name := "c13.overlap", model := overlapModel, judge := overlapJudge },
  { name := "c13.woverlap", model := woverlapModel, judge := woverlapJudge },
  { name := "c13.wire", model := wireModel, judge := wireJudge },
  { name := "c13.demux", model := demuxModel, judge := demuxJudge },
  { name := "c13.route", model := routeModel, judge := routeJudge },
  { name := "c13.routeseq", model := routeseqModel, judge := routeseqJudge },
  { name := "c13.child", model := childModel, judge := childJudge },
  { name := "c13.reads", model := readsModel, judge := readsJudge },
  { name := "c13.wfail", model := wfailModel, judge := wfailJudge }
]

end Driver.C13
