import Driver.Proto
/- Streams of C13 (stub: not built yet). -/
namespace Driver.C13
def streams : List Driver.Stream := []
end Driver.C13
