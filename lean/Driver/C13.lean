import Casket.Model.FCGI
import Casket.Spec.FCGI
import Driver.Proto
/-
Streams of C13.
  c13.wire   id pairs body rk      out = hex of everything FCGIClient.Do wrote | PANIC:<class>
     pairs = comma list of  klen:vlen:seed  (name = index digit ++ filler, value = filler)
             or  x<hexname>=<hexvalue> ;  body = len:seed | x<hex> ;  rk = how the body reader behaves
-/
namespace Driver.C13
open Casket.Fault Casket.FCGI Casket.FCGISpec

/-- the deterministic filler the harness uses for long names and values -/
def filler (seed n : Nat) : Bytes := (List.range n).map fun i => UInt8.ofNat (97 + (seed + i) % 26)

def parsePair (i : Nat) (s : String) : Option Pair :=
  if s.startsWith "x" then
    match (s.drop 1).toString.splitOn "=" with
    | [k, v] => do pure (← Driver.unhex k, ← Driver.unhex v)
    | _ => none
  else
    match s.splitOn ":" with
    | [kl, vl, sd] => do
      let kl ← kl.toNat?
      let vl ← vl.toNat?
      let sd ← sd.toNat?
      pure (if kl = 0 then [] else UInt8.ofNat (48 + i) :: filler sd (kl - 1), filler (sd + 7) vl)
    | _ => none

def parsePairs (s : String) : Option (List Pair) :=
  if s = "" then some [] else
  let items := s.splitOn ","
  (items.zip (List.range items.length)).mapM fun (it, i) => parsePair i it

def parseBody (s : String) : Option Bytes :=
  if s.startsWith "x" then Driver.unhex (s.drop 1).toString
  else match s.splitOn ":" with
    | [l, sd] => do pure (filler (← sd.toNat?) (← l.toNat?))
    | _ => none

def wireModel : List String → String
  | [id, ps, body, _rk] =>
    match id.toNat?, parsePairs ps, parseBody body with
    | some id, some ps, some body =>
      match clientWire id ps body with
      | .ok w => Driver.hex w
      | .error f => "PANIC:" ++ f.name
    | _, _, _ => "bad-case"
  | _ => "bad-case"

def wireJudge (f : List String) (out : String) : String :=
  match f with
  | [id, ps, body, _rk] =>
    match id.toNat?, parsePairs ps, parseBody body with
    | some id, some ps, some body =>
      if out.startsWith "PANIC" then "bad:panic:" ++ out
      else match Driver.unhex out with
        | some w => wireVerdict id ps body w
        | none => "bad:unparsable:" ++ (out.take 40).toString
    | _, _, _ => "bad:unparsable:case"
  | _ => "bad:unparsable:case"

def streams : List Driver.Stream := [
  { name := "c13.wire", model := wireModel, judge := wireJudge }
]

end Driver.C13
