import Driver.Loop
import Driver.C18
/- model driver of property C18 -/
def main (args : List String) : IO Unit := Driver.run Driver.C18.streams args
