import Driver.Loop
import Driver.C14
/- model driver of property C14 -/
def main (args : List String) : IO Unit := Driver.run Driver.C14.streams args
