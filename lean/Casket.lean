import Casket.Model.Policy
