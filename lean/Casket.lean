-- Root of the library: every property file (statements + proofs) is built by `lake build`.
import Casket.Props.C05
import Casket.Props.C16
import Casket.Props.C08
import Casket.Props.C07
