-- Root of the library: every property file (statements + proofs) is built by `lake build`.
import Casket.Props.C01
import Casket.Props.C02
import Casket.Props.C03
import Casket.Props.C04
import Casket.Props.C05
import Casket.Props.C06
import Casket.Props.C09
import Casket.Props.C10
import Casket.Props.C11
import Casket.Props.C12
import Casket.Props.C13
import Casket.Props.C14
import Casket.Props.C15
import Casket.Props.C17
import Casket.Props.C18
import Casket.Props.C19
import Casket.Props.C20
