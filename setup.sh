#!/bin/sh
# Build everything the checks need, offline, from files on disk only.
set -e
cd "$(dirname "$0")"
export GOFLAGS=-mod=mod GOPROXY=off GOSUMDB=off GOTOOLCHAIN=local CGO_ENABLED=0
mkdir -p .build evidence
# fact extractor (no casket import with no stream tag) -> Generated/*.lean -> theorems + driver
cp /repo/go.sum .build/go_facts.sum && sed 's#=> /repo#=> /repo#' harness/go.mod > .build/go_facts.mod
(cd harness && go build -modfile ../.build/go_facts.mod -o ../.build/vharness-facts ./cmd/vharness)
.build/vharness-facts facts -repo /repo -out lean/Casket/Generated
(cd lean && lake build)
# warm the Go build cache for every property's harness
for id in $(ls checks | sed 's/\.json$//'); do
  python3 - "$id" <<'PY'
import sys, importlib.machinery, importlib.util, os
loader = importlib.machinery.SourceFileLoader("check", os.path.join(os.getcwd(), "check"))
spec = importlib.util.spec_from_loader("check", loader); m = importlib.util.module_from_spec(spec); loader.exec_module(m)
ok, log, _ = m.build_harness(sys.argv[1], m.load_conf())
if not ok:
    print(log); sys.exit(1)
PY
done
echo setup ok
