module verifharness

go 1.22

require github.com/tmpim/casket v0.0.0

require (
	github.com/caddyserver/certmagic v0.20.0 // indirect
	github.com/flynn/go-shlex v0.0.0-20150515145356-3f9db97f8568 // indirect
	github.com/hashicorp/go-syslog v1.0.0 // indirect
	github.com/klauspost/cpuid v1.3.1 // indirect
	github.com/klauspost/cpuid/v2 v2.2.7 // indirect
	github.com/libdns/libdns v0.2.2 // indirect
	github.com/mholt/acmez v1.2.0 // indirect
	github.com/miekg/dns v1.1.59 // indirect
	github.com/quic-go/qpack v0.4.0 // indirect
	github.com/quic-go/quic-go v0.43.0 // indirect
	github.com/russross/blackfriday v1.6.0 // indirect
	github.com/zeebo/blake3 v0.2.3 // indirect
	go.uber.org/multierr v1.11.0 // indirect
	go.uber.org/zap v1.27.0 // indirect
	golang.org/x/crypto v0.22.0 // indirect
	golang.org/x/exp v0.0.0-20240416160154-fe59bbe5cc7f // indirect
	golang.org/x/net v0.24.0 // indirect
	golang.org/x/sys v0.19.0 // indirect
	golang.org/x/text v0.14.0 // indirect
	gopkg.in/natefinch/lumberjack.v2 v2.2.1 // indirect
)

replace github.com/tmpim/casket => /repo
