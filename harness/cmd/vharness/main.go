// vharness: correspondence harness and fact extractor for the casket Lean models.
//
//	vharness corr <ID> -tier quick -seed 1 -out DIR [-corpus DIR]
//	vharness eval           (reads full case lines on stdin, prints impl answers)
//	vharness facts -repo /repo -out DIR
//	vharness list
package main

import (
	"bufio"
	"flag"
	"fmt"
	"os"
	"path/filepath"
	"runtime"
	"sort"
	"strings"

	"verifharness/facts"
	"verifharness/hx"
	_ "verifharness/streams"
)

func main() {
	if len(os.Args) < 2 {
		fmt.Fprintln(os.Stderr, "usage: vharness corr|eval|facts|list ...")
		os.Exit(2)
	}
	switch os.Args[1] {
	case "list":
		for _, id := range hx.AllIDs() {
			var names []string
			for _, s := range hx.Streams(id) {
				names = append(names, s.Name)
			}
			fmt.Println(id, strings.Join(names, " "))
		}
	case "corr":
		fs := flag.NewFlagSet("corr", flag.ExitOnError)
		tier := fs.String("tier", "quick", "")
		seed := fs.Uint64("seed", 1, "")
		out := fs.String("out", "", "")
		corpus := fs.String("corpus", "", "")
		par := fs.Int("p", runtime.NumCPU(), "")
		id := os.Args[2]
		fs.Parse(os.Args[3:])
		streams := hx.Streams(id)
		if len(streams) == 0 {
			fmt.Fprintln(os.Stderr, "no streams for", id)
			os.Exit(2)
		}
		var lines []string
		if *corpus != "" {
			files, _ := filepath.Glob(filepath.Join(*corpus, "*.case"))
			sort.Strings(files)
			for _, f := range files {
				b, err := os.ReadFile(f)
				if err != nil {
					continue
				}
				for _, l := range strings.Split(string(b), "\n") {
					l = strings.TrimRight(l, "\r")
					if l != "" && !strings.HasPrefix(l, "#") {
						lines = append(lines, l)
					}
				}
			}
		}
		if err := hx.Run(streams, *tier, *seed, *out, lines, *par); err != nil {
			fmt.Fprintln(os.Stderr, "corr:", err)
			os.Exit(3)
		}
	case "eval":
		sc := bufio.NewScanner(os.Stdin)
		sc.Buffer(make([]byte, 1<<20), 1<<28)
		for sc.Scan() {
			parts := strings.Split(sc.Text(), "\t")
			ss := hx.Streams(parts[0])
			if len(ss) != 1 {
				fmt.Println("unknown-stream")
				continue
			}
			s := ss[0]
			if s.Setup != nil {
				if err := s.Setup(); err != nil {
					fmt.Println("setup-error:", err)
					continue
				}
			}
			out, _ := hx.SafeEval(s, parts[1:])
			if s.Teardown != nil {
				s.Teardown()
			}
			fmt.Println(out)
		}
	case "facts":
		fs := flag.NewFlagSet("facts", flag.ExitOnError)
		repo := fs.String("repo", "/repo", "")
		out := fs.String("out", "", "")
		id := fs.String("id", "", "")
		fs.Parse(os.Args[2:])
		if err := facts.Generate(*repo, *out, *id); err != nil {
			fmt.Fprintln(os.Stderr, "facts:", err)
			os.Exit(3)
		}
	default:
		fmt.Fprintln(os.Stderr, "unknown subcommand")
		os.Exit(2)
	}
}
