package facts

import (
	"crypto/tls"
	"fmt"
	"go/ast"
	"go/token"
	"path/filepath"
	"sort"
	"strings"
)

// C06: default cipher / curve lists, the protocol name table and the default protocol
// range of caskettls/config.go.  Identifiers of package crypto/tls are resolved to their
// wire numbers with the crypto/tls this extractor is compiled with.

var tlsIdents = func() map[string]uint16 {
	m := map[string]uint16{
		"TLS_FALLBACK_SCSV": tls.TLS_FALLBACK_SCSV,
		"VersionTLS10":      tls.VersionTLS10, "VersionTLS11": tls.VersionTLS11,
		"VersionTLS12": tls.VersionTLS12, "VersionTLS13": tls.VersionTLS13,
		"X25519": uint16(tls.X25519), "CurveP256": uint16(tls.CurveP256),
		"CurveP384": uint16(tls.CurveP384), "CurveP521": uint16(tls.CurveP521),
		// names that differ from CipherSuite.Name
		"TLS_ECDHE_ECDSA_WITH_CHACHA20_POLY1305": tls.TLS_ECDHE_ECDSA_WITH_CHACHA20_POLY1305,
		"TLS_ECDHE_RSA_WITH_CHACHA20_POLY1305":   tls.TLS_ECDHE_RSA_WITH_CHACHA20_POLY1305,
	}
	for _, cs := range append(tls.CipherSuites(), tls.InsecureCipherSuites()...) {
		m[cs.Name] = cs.ID
	}
	return m
}()

func tlsIdent(e ast.Expr) (uint16, error) {
	se, ok := e.(*ast.SelectorExpr)
	if !ok {
		return 0, fmt.Errorf("not a tls.<Ident> expression")
	}
	if x, ok := se.X.(*ast.Ident); !ok || x.Name != "tls" {
		return 0, fmt.Errorf("not a tls.<Ident> expression")
	}
	v, ok := tlsIdents[se.Sel.Name]
	if !ok {
		return 0, fmt.Errorf("unknown crypto/tls identifier %s", se.Sel.Name)
	}
	return v, nil
}

func tlsIdentList(e ast.Expr) ([]uint16, error) {
	cl, ok := e.(*ast.CompositeLit)
	if !ok {
		return nil, fmt.Errorf("not a composite literal")
	}
	var out []uint16
	for _, el := range cl.Elts {
		v, err := tlsIdent(el)
		if err != nil {
			return nil, err
		}
		out = append(out, v)
	}
	return out, nil
}

func leanNatList(xs []uint16) string {
	s := make([]string, len(xs))
	for i, x := range xs {
		s[i] = fmt.Sprint(x)
	}
	return "[" + strings.Join(s, ", ") + "]"
}

type kv struct {
	k string
	v uint16
}

func init() {
	register("C06", func(repo string, o *Out) error {
		f, err := Parse(filepath.Join(repo, "caskettls/config.go"))
		if err != nil {
			return err
		}
		b := o.File("TLSDefaults")
		for _, name := range []string{"defaultCiphers", "defaultCiphersNonAESNI", "defaultCurves"} {
			e, err := f.VarValue(name)
			if err != nil {
				return err
			}
			xs, err := tlsIdentList(e)
			if err != nil {
				return fmt.Errorf("%s: %v", name, err)
			}
			fmt.Fprintf(b, "/-- `%s` in caskettls/config.go (wire numbers) -/\ndef %s : List Nat := %s\n\n", name, name, leanNatList(xs))
		}
		// SupportedProtocols: name -> version
		e, err := f.VarValue("SupportedProtocols")
		if err != nil {
			return err
		}
		cl, ok := e.(*ast.CompositeLit)
		if !ok {
			return fmt.Errorf("SupportedProtocols: not a composite literal")
		}
		var kvs []kv
		for _, el := range cl.Elts {
			p, ok := el.(*ast.KeyValueExpr)
			if !ok {
				return fmt.Errorf("SupportedProtocols: unexpected element")
			}
			k, ok := StringLit(p.Key)
			if !ok {
				return fmt.Errorf("SupportedProtocols: non-literal key")
			}
			v, err := tlsIdent(p.Value)
			if err != nil {
				return fmt.Errorf("SupportedProtocols: %v", err)
			}
			kvs = append(kvs, kv{k, v})
		}
		sort.Slice(kvs, func(i, j int) bool { return kvs[i].k < kvs[j].k })
		parts := make([]string, len(kvs))
		for i, p := range kvs {
			parts[i] = fmt.Sprintf("(%s, %d)", LeanString(p.k), p.v)
		}
		fmt.Fprintf(b, "/-- `SupportedProtocols` in caskettls/config.go, sorted by name -/\ndef supportedProtocols : List (String × Nat) := [%s]\n\n", strings.Join(parts, ", "))
		// SupportedCiphersMap and supportedCurvesMap: name -> wire number, sorted by name
		for _, tbl := range [][2]string{{"SupportedCiphersMap", "supportedCiphers"}, {"supportedCurvesMap", "supportedCurves"}} {
			e, err := f.VarValue(tbl[0])
			if err != nil {
				return err
			}
			cl, ok := e.(*ast.CompositeLit)
			if !ok {
				return fmt.Errorf("%s: not a composite literal", tbl[0])
			}
			var kvs []kv
			for _, el := range cl.Elts {
				p, ok := el.(*ast.KeyValueExpr)
				if !ok {
					return fmt.Errorf("%s: unexpected element", tbl[0])
				}
				k, ok := StringLit(p.Key)
				if !ok {
					return fmt.Errorf("%s: non-literal key", tbl[0])
				}
				v, err := tlsIdent(p.Value)
				if err != nil {
					return fmt.Errorf("%s: %v", tbl[0], err)
				}
				kvs = append(kvs, kv{k, v})
			}
			sort.Slice(kvs, func(i, j int) bool { return kvs[i].k < kvs[j].k })
			parts := make([]string, len(kvs))
			for i, p := range kvs {
				parts[i] = fmt.Sprintf("(%s, %d)", LeanString(p.k), p.v)
			}
			fmt.Fprintf(b, "/-- `%s` in caskettls/config.go, sorted by name -/\ndef %s : List (String × Nat) := [%s]\n\n", tbl[0], tbl[1], strings.Join(parts, ", "))
		}
		// the ClientAuth modes the `clients` subdirective assigns, in source order (caskettls/setup.go)
		sf, err := Parse(filepath.Join(repo, "caskettls/setup.go"))
		if err != nil {
			return err
		}
		st, err := sf.Func("", "setupTLS")
		if err != nil {
			return err
		}
		var modes []string
		ast.Inspect(st, func(n ast.Node) bool {
			as, ok := n.(*ast.AssignStmt)
			if !ok || len(as.Lhs) != 1 || len(as.Rhs) != 1 {
				return true
			}
			if se, ok := as.Lhs[0].(*ast.SelectorExpr); ok && se.Sel.Name == "ClientAuth" {
				if r, ok := as.Rhs[0].(*ast.SelectorExpr); ok {
					modes = append(modes, r.Sel.Name)
				}
			}
			return true
		})
		authNum := map[string]int{"NoClientCert": int(tls.NoClientCert), "RequestClientCert": int(tls.RequestClientCert),
			"RequireAnyClientCert": int(tls.RequireAnyClientCert), "VerifyClientCertIfGiven": int(tls.VerifyClientCertIfGiven),
			"RequireAndVerifyClientCert": int(tls.RequireAndVerifyClientCert)}
		nums := make([]string, len(modes))
		for i, m := range modes {
			v, ok := authNum[m]
			if !ok {
				return fmt.Errorf("setupTLS: unknown ClientAuth mode %s", m)
			}
			nums[i] = fmt.Sprint(v)
		}
		fmt.Fprintf(b, "/-- the tls.ClientAuthType values `setupTLS` assigns for `clients request | require | verify_if_given | <files>`, in source order -/\ndef clientAuthModes : List Nat := [%s]\n\n", strings.Join(nums, ", "))
		// SetDefaultTLSParams: the values assigned to ProtocolMinVersion / ProtocolMaxVersion, and the prepended cipher
		fn, err := f.Func("", "SetDefaultTLSParams")
		if err != nil {
			return err
		}
		found := map[string]uint16{}
		var ferr error
		ast.Inspect(fn, func(n ast.Node) bool {
			as, ok := n.(*ast.AssignStmt)
			if !ok || as.Tok != token.ASSIGN || len(as.Lhs) != 1 || len(as.Rhs) != 1 {
				return true
			}
			se, ok := as.Lhs[0].(*ast.SelectorExpr)
			if !ok {
				return true
			}
			if se.Sel.Name == "ProtocolMinVersion" || se.Sel.Name == "ProtocolMaxVersion" {
				v, err := tlsIdent(as.Rhs[0])
				if err != nil {
					ferr = err
					return false
				}
				if _, dup := found[se.Sel.Name]; dup {
					ferr = fmt.Errorf("SetDefaultTLSParams: %s assigned twice", se.Sel.Name)
				}
				found[se.Sel.Name] = v
			}
			return true
		})
		if ferr != nil {
			return ferr
		}
		if len(found) != 2 {
			return fmt.Errorf("SetDefaultTLSParams: default protocol range not found")
		}
		fmt.Fprintf(b, "/-- defaults assigned by `SetDefaultTLSParams` -/\ndef defaultMinVersion : Nat := %d\ndef defaultMaxVersion : Nat := %d\n\n", found["ProtocolMinVersion"], found["ProtocolMaxVersion"])
		fmt.Fprintf(b, "/-- `tls.TLS_FALLBACK_SCSV` -/\ndef fallbackSCSV : Nat := %d\n", tls.TLS_FALLBACK_SCSV)
		// catch-all host names that MakeTLSConfig stores under the empty key
		mk, err := f.Func("", "MakeTLSConfig")
		if err != nil {
			return err
		}
		var aliases []string
		ast.Inspect(mk, func(n ast.Node) bool {
			be, ok := n.(*ast.BinaryExpr)
			if !ok || be.Op != token.EQL {
				return true
			}
			if s, ok := StringLit(be.Y); ok {
				aliases = append(aliases, s)
			}
			return true
		})
		sort.Strings(aliases)
		var uniq []string
		for i, a := range aliases {
			if i == 0 || a != aliases[i-1] {
				uniq = append(uniq, a)
			}
		}
		fmt.Fprintf(b, "\n/-- string literals `MakeTLSConfig` compares a host name with: the names stored under the empty key -/\ndef catchAllAliases : List String := %s\n", LeanStringList(uniq))
		return nil
	})
}
