package facts

import (
	"fmt"
	"go/ast"
	"go/token"
	"net"
	"os"
	"os/exec"
	"path/filepath"
	"strings"
)

// Facts of C15 (automatic HTTPS qualification), regenerated on every run from
//
//	<repo>/casket.go                          IsLoopback (literals), IsInternal (privateNetworks, privateTLDs)
//	<repo>/caskettls/tls.go                   QualifiesForManagedTLS (the port and e-mail that switch managed TLS off)
//	<repo>/caskethttp/httpserver/plugin.go    DefaultPort, DefaultHTTPPort, DefaultHTTPSPort
//	certmagic as resolved by <repo>/go.mod    SubjectQualifiesForCert (forbidden characters),
//	                                          SubjectIsInternal (names and suffixes), HTTPPort, HTTPSPort
//
// Strings are printed as explicit byte lists (`List UInt8`) so that the Lean kernel can
// evaluate the model on them; the text is kept in the doc comment.  CIDR blocks are parsed
// here with Go's own net.ParseCIDR and printed as (address bytes, prefix length).

func leanBytes(s string) string {
	if s == "" {
		return "[]"
	}
	parts := make([]string, len(s))
	for i := 0; i < len(s); i++ {
		parts[i] = fmt.Sprint(s[i])
	}
	return "[" + strings.Join(parts, ", ") + "]"
}

func leanBytesList(xs []string) string {
	parts := make([]string, len(xs))
	for i, x := range xs {
		parts[i] = leanBytes(x)
	}
	return "[" + strings.Join(parts, ", ") + "]"
}

// localStrings returns the []string{...} literal assigned (:=) to the local variable name inside fn.
func localStrings(fn *ast.FuncDecl, name string) ([]string, error) {
	var out []string
	var err error
	found := false
	ast.Inspect(fn, func(n ast.Node) bool {
		as, ok := n.(*ast.AssignStmt)
		if !ok || len(as.Lhs) != 1 || len(as.Rhs) != 1 {
			return true
		}
		id, ok := as.Lhs[0].(*ast.Ident)
		if !ok || id.Name != name {
			return true
		}
		found = true
		out, err = Strings(as.Rhs[0])
		return false
	})
	if !found {
		return nil, fmt.Errorf("no local %s := []string{…} in %s", name, fn.Name.Name)
	}
	return out, err
}

// comparedStrings returns the string literals that appear as an operand of op (== or !=) inside node, in source order.
func comparedStrings(node ast.Node, op token.Token) []string {
	var out []string
	ast.Inspect(node, func(n ast.Node) bool {
		be, ok := n.(*ast.BinaryExpr)
		if !ok || be.Op != op {
			return true
		}
		if s, ok := StringLit(be.Y); ok {
			out = append(out, s)
		} else if s, ok := StringLit(be.X); ok {
			out = append(out, s)
		}
		return true
	})
	return out
}

func one(xs []string, what string) (string, error) {
	if len(xs) != 1 {
		return "", fmt.Errorf("%s: expected exactly one literal, found %q", what, xs)
	}
	return xs[0], nil
}

func certmagicDir(repo string) (string, error) {
	cmd := exec.Command("go", "list", "-m", "-f", "{{.Dir}}", "github.com/caddyserver/certmagic")
	cmd.Dir = repo
	cmd.Env = append(os.Environ(), "GOFLAGS=-mod=mod", "GOPROXY=off", "GOSUMDB=off", "GOTOOLCHAIN=local", "CGO_ENABLED=0")
	b, err := cmd.Output()
	if err != nil {
		return "", fmt.Errorf("locating certmagic in the module cache: %v", err)
	}
	d := strings.TrimSpace(string(b))
	if d == "" {
		return "", fmt.Errorf("certmagic is not in the module cache")
	}
	return d, nil
}

func init() {
	register("C15", func(repo string, o *Out) error {
		b := o.File("AutoHTTPS")

		// ---- casket.go ----
		cf, err := Parse(filepath.Join(repo, "casket.go"))
		if err != nil {
			return err
		}
		lb, err := cf.Func("", "IsLoopback")
		if err != nil {
			return err
		}
		lbEq, err := one(comparedStrings(lb, token.EQL), "IsLoopback ==")
		if err != nil {
			return err
		}
		lbSuf, err := one(CallStringArgs(lb, "HasSuffix", 1), "IsLoopback HasSuffix")
		if err != nil {
			return err
		}
		lbTrim, err := one(CallStringArgs(lb, "Trim", 1), "IsLoopback Trim")
		if err != nil {
			return err
		}
		if n := len(CallStringArgs(lb, "HasPrefix", 1)); n != 0 {
			return fmt.Errorf("IsLoopback: %d HasPrefix tests the model does not know about", n)
		}
		fmt.Fprintf(b, "/-- casket.go:IsLoopback: `host == %q` -/\ndef loopbackName : List UInt8 := %s\n", lbEq, leanBytes(lbEq))
		fmt.Fprintf(b, "/-- casket.go:IsLoopback: `strings.Trim(host, %q)` -/\ndef loopbackTrimCutset : List UInt8 := %s\n", lbTrim, leanBytes(lbTrim))
		fmt.Fprintf(b, "/-- casket.go:IsLoopback: `strings.HasSuffix(host, %q)` -/\ndef loopbackSuffix : List UInt8 := %s\n\n", lbSuf, leanBytes(lbSuf))

		in, err := cf.Func("", "IsInternal")
		if err != nil {
			return err
		}
		nets, err := localStrings(in, "privateNetworks")
		if err != nil {
			return err
		}
		tlds, err := localStrings(in, "privateTLDs")
		if err != nil {
			return err
		}
		inTrim, err := one(CallStringArgs(in, "Trim", 1), "IsInternal Trim")
		if err != nil {
			return err
		}
		var netLits []string
		for _, n := range nets {
			_, ipn, err := net.ParseCIDR(n)
			if err != nil {
				return fmt.Errorf("IsInternal: privateNetworks entry %q: %v", n, err)
			}
			ones, _ := ipn.Mask.Size()
			netLits = append(netLits, fmt.Sprintf("(%s, %d)", leanBytes(string(ipn.IP)), ones))
		}
		fmt.Fprintf(b, "/-- casket.go:IsInternal privateNetworks = %q, as (network address bytes, prefix length) -/\ndef privateNetworks : List (List UInt8 × Nat) := [%s]\n", nets, strings.Join(netLits, ", "))
		fmt.Fprintf(b, "/-- casket.go:IsInternal privateTLDs = %q -/\ndef privateTLDs : List (List UInt8) := %s\n", tlds, leanBytesList(tlds))
		fmt.Fprintf(b, "/-- casket.go:IsInternal: `strings.Trim(host, %q)` -/\ndef internalTrimCutset : List UInt8 := %s\n\n", inTrim, leanBytes(inTrim))

		// ---- caskettls/tls.go ----
		tf, err := Parse(filepath.Join(repo, "caskettls/tls.go"))
		if err != nil {
			return err
		}
		q, err := tf.Func("", "QualifiesForManagedTLS")
		if err != nil {
			return err
		}
		ne, err := one(comparedStrings(q, token.NEQ), "QualifiesForManagedTLS != literals")
		if err != nil {
			return err
		}
		// the port test must be against the configured HTTP port: c.Port() != strconv.Itoa(certmagic.HTTPPort)
		usesHTTPPort := false
		ast.Inspect(q, func(n ast.Node) bool {
			be, ok := n.(*ast.BinaryExpr)
			if !ok || be.Op != token.NEQ {
				return true
			}
			isPortCall := func(e ast.Expr) bool {
				ce, ok := e.(*ast.CallExpr)
				if !ok {
					return false
				}
				sel, ok := ce.Fun.(*ast.SelectorExpr)
				return ok && sel.Sel.Name == "Port"
			}
			mentionsHTTPPort := func(e ast.Expr) bool {
				found := false
				ast.Inspect(e, func(m ast.Node) bool {
					if sel, ok := m.(*ast.SelectorExpr); ok && sel.Sel.Name == "HTTPPort" {
						found = true
					}
					return true
				})
				return found
			}
			if (isPortCall(be.X) && mentionsHTTPPort(be.Y)) || (isPortCall(be.Y) && mentionsHTTPPort(be.X)) {
				usesHTTPPort = true
			}
			return true
		})
		fmt.Fprintf(b, "/-- caskettls/tls.go:QualifiesForManagedTLS: `tlsConfig.ACMEEmail != %q` -/\ndef unmanagedEmail : List UInt8 := %s\n", ne, leanBytes(ne))
		fmt.Fprintf(b, "/-- caskettls/tls.go:QualifiesForManagedTLS compares c.Port() with the configured certmagic.HTTPPort -/\ndef qualifiesComparesConfiguredHTTPPort : Bool := %v\n\n", usesHTTPPort)

		// ---- plugin.go ----
		pf, err := Parse(filepath.Join(repo, "caskethttp/httpserver/plugin.go"))
		if err != nil {
			return err
		}
		for _, c := range []struct{ goName, leanName string }{{"DefaultPort", "defaultPort"}, {"DefaultHTTPPort", "defaultHTTPPort"}, {"DefaultHTTPSPort", "defaultHTTPSPort"}} {
			e, err := pf.VarValue(c.goName)
			if err != nil {
				return err
			}
			s, ok := StringLit(e)
			if !ok {
				return fmt.Errorf("plugin.go: %s is not a string literal", c.goName)
			}
			fmt.Fprintf(b, "/-- caskethttp/httpserver/plugin.go: %s = %q -/\ndef %s : List UInt8 := %s\n", c.goName, s, c.leanName, leanBytes(s))
		}
		b.WriteString("\n")

		// ---- https.go: the order in which activateHTTPS runs the stages (it cannot be run by the harness: it obtains certificates) ----
		hf, err := Parse(filepath.Join(repo, "caskethttp/httpserver/https.go"))
		if err != nil {
			return err
		}
		act, err := hf.Func("", "activateHTTPS")
		if err != nil {
			return err
		}
		interesting := map[string]bool{"markQualifiedForAutoHTTPS": true, "ObtainCertAsync": true, "enableAutoHTTPS": true,
			"makePlaintextRedirects": true, "RenewManagedCertificates": true, "redirPlaintextHost": true, "MakeServers": true}
		var order []string
		ast.Inspect(act, func(n ast.Node) bool {
			ce, ok := n.(*ast.CallExpr)
			if !ok {
				return true
			}
			name := ""
			switch f := ce.Fun.(type) {
			case *ast.Ident:
				name = f.Name
			case *ast.SelectorExpr:
				name = f.Sel.Name
			}
			if interesting[name] {
				order = append(order, name)
			}
			return true
		})
		fmt.Fprintf(b, "/-- caskethttp/httpserver/https.go:activateHTTPS: the stage calls in source order -/\ndef activateStages : List String := %s\n", LeanStringList(order))
		// the result of makePlaintextRedirects must be stored back into ctx.siteConfigs
		stored := false
		ast.Inspect(act, func(n ast.Node) bool {
			as, ok := n.(*ast.AssignStmt)
			if !ok || len(as.Lhs) != 1 || len(as.Rhs) != 1 {
				return true
			}
			sel, ok := as.Lhs[0].(*ast.SelectorExpr)
			ce, ok2 := as.Rhs[0].(*ast.CallExpr)
			if ok && ok2 && sel.Sel.Name == "siteConfigs" {
				if id, ok := ce.Fun.(*ast.Ident); ok && id.Name == "makePlaintextRedirects" {
					stored = true
				}
			}
			return true
		})
		fmt.Fprintf(b, "/-- activateHTTPS stores the result of makePlaintextRedirects into ctx.siteConfigs -/\ndef activateStoresRedirects : Bool := %v\n", stored)
		// plugin.go: activateHTTPS is the parsing callback that runs after the tls directive
		ini, err := pf.Func("", "init")
		if err != nil {
			return err
		}
		var cbs []string
		ast.Inspect(ini, func(n ast.Node) bool {
			ce, ok := n.(*ast.CallExpr)
			if !ok {
				return true
			}
			if sel, ok := ce.Fun.(*ast.SelectorExpr); ok && sel.Sel.Name == "RegisterParsingCallback" && len(ce.Args) == 3 {
				dir, _ := StringLit(ce.Args[1])
				if id, ok := ce.Args[2].(*ast.Ident); ok {
					cbs = append(cbs, dir+":"+id.Name)
				}
			}
			return true
		})
		fmt.Fprintf(b, "/-- caskethttp/httpserver/plugin.go:init: parsing callbacks as directive:function -/\ndef parsingCallbacks : List String := %s\n\n", LeanStringList(cbs))

		// ---- certmagic ----
		cd, err := certmagicDir(repo)
		if err != nil {
			return err
		}
		fmt.Fprintf(b, "/-- certmagic source used: %s -/\ndef certmagicVersion : String := %s\n", filepath.Base(cd), LeanString(filepath.Base(cd)))
		cm, err := Parse(filepath.Join(cd, "certificates.go"))
		if err != nil {
			return err
		}
		sq, err := cm.Func("", "SubjectQualifiesForCert")
		if err != nil {
			return err
		}
		forb, err := one(CallStringArgs(sq, "ContainsAny", 1), "SubjectQualifiesForCert ContainsAny")
		if err != nil {
			return err
		}
		fmt.Fprintf(b, "/-- certmagic SubjectQualifiesForCert: `strings.ContainsAny(subj, %q)` -/\ndef certForbiddenChars : List UInt8 := %s\n", forb, leanBytes(forb))
		si, err := cm.Func("", "SubjectIsInternal")
		if err != nil {
			return err
		}
		siEq := comparedStrings(si, token.EQL)
		siSuf := CallStringArgs(si, "HasSuffix", 1)
		if len(siEq) == 0 || len(siSuf) == 0 {
			return fmt.Errorf("certmagic SubjectIsInternal: no literals found")
		}
		fmt.Fprintf(b, "/-- certmagic SubjectIsInternal: names compared with == : %q -/\ndef certInternalNames : List (List UInt8) := %s\n", siEq, leanBytesList(siEq))
		fmt.Fprintf(b, "/-- certmagic SubjectIsInternal: suffixes: %q -/\ndef certInternalSuffixes : List (List UInt8) := %s\n", siSuf, leanBytesList(siSuf))
		mf, err := Parse(filepath.Join(cd, "certmagic.go"))
		if err != nil {
			return err
		}
		for _, c := range []struct{ goName, leanName string }{{"HTTPPort", "httpPort"}, {"HTTPSPort", "httpsPort"}} {
			e, err := mf.VarValue(c.goName)
			if err != nil {
				return err
			}
			v, err := IntConst(e, nil)
			if err != nil {
				return fmt.Errorf("certmagic %s: %v", c.goName, err)
			}
			s := fmt.Sprint(v)
			fmt.Fprintf(b, "/-- certmagic.%s = %d, as the decimal text strconv.Itoa gives -/\ndef %s : List UInt8 := %s\n", c.goName, v, c.leanName, leanBytes(s))
		}
		return nil
	})
}
