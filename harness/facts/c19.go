package facts

import (
	"crypto/tls"
	"fmt"
	"go/ast"
	"go/token"
	"path/filepath"
	"strings"
)

// Tables of caskethttp/httpserver/mitm.go used by the interception heuristics (C19).
// Local lists are found by function and variable name; elements are integer literals,
// constants declared in mitm.go, or crypto/tls cipher-suite constants (resolved through
// the crypto/tls of the toolchain that builds casket).

func tlsConstNames() map[string]int64 {
	m := map[string]int64{}
	for _, cs := range append(tls.CipherSuites(), tls.InsecureCipherSuites()...) {
		m[cs.Name] = int64(cs.ID)
		if strings.HasSuffix(cs.Name, "_CHACHA20_POLY1305_SHA256") {
			m[strings.TrimSuffix(cs.Name, "_SHA256")] = int64(cs.ID) // legacy alias
		}
	}
	return m
}

// fileConsts evaluates the integer constants of every const block of f (no iota).
func fileConsts(f *File) map[string]int64 {
	env := map[string]int64{}
	for _, d := range f.f.Decls {
		gd, ok := d.(*ast.GenDecl)
		if !ok || gd.Tok != token.CONST {
			continue
		}
		for _, sp := range gd.Specs {
			vs := sp.(*ast.ValueSpec)
			for i, n := range vs.Names {
				if i < len(vs.Values) {
					if v, err := IntConst(vs.Values[i], env); err == nil {
						env[n.Name] = v
					}
				}
			}
		}
	}
	return env
}

func evalElem(e ast.Expr, env, tlsNames map[string]int64) (int64, error) {
	if se, ok := e.(*ast.SelectorExpr); ok {
		if id, ok := se.X.(*ast.Ident); ok && id.Name == "tls" {
			if v, ok := tlsNames[se.Sel.Name]; ok {
				return v, nil
			}
			return 0, fmt.Errorf("unknown crypto/tls constant %s", se.Sel.Name)
		}
	}
	return IntConst(e, env)
}

// intElems returns the elements of a slice literal, or the keys of a map literal.
func intElems(e ast.Expr, env, tlsNames map[string]int64) ([]int64, error) {
	cl, ok := e.(*ast.CompositeLit)
	if !ok {
		return nil, fmt.Errorf("not a composite literal")
	}
	var out []int64
	for _, el := range cl.Elts {
		if kv, ok := el.(*ast.KeyValueExpr); ok {
			el = kv.Key
		}
		v, err := evalElem(el, env, tlsNames)
		if err != nil {
			return nil, err
		}
		out = append(out, v)
	}
	return out, nil
}

// localLit finds `name := <composite literal>` inside fn.
func localLit(fn *ast.FuncDecl, name string) ast.Expr {
	var found ast.Expr
	ast.Inspect(fn, func(n ast.Node) bool {
		as, ok := n.(*ast.AssignStmt)
		if !ok || len(as.Lhs) != 1 || len(as.Rhs) != 1 {
			return true
		}
		if id, ok := as.Lhs[0].(*ast.Ident); ok && id.Name == name && found == nil {
			found = as.Rhs[0]
		}
		return true
	})
	return found
}

func leanInt64List(xs []int64) string {
	s := make([]string, len(xs))
	for i, x := range xs {
		s[i] = fmt.Sprint(x)
	}
	return "[" + strings.Join(s, ", ") + "]"
}

func init() {
	register("C19", func(repo string, o *Out) error {
		f, err := Parse(filepath.Join(repo, "caskethttp/httpserver/mitm.go"))
		if err != nil {
			return err
		}
		env, tlsNames := fileConsts(f), tlsConstNames()
		b := o.File("Mitm")
		b.WriteString("/-! tables of caskethttp/httpserver/mitm.go -/\n")
		for _, t := range []struct{ recv, fn, v, lean string }{
			{"rawHelloInfo", "looksLikeFirefox", "requiredExtensionsOrder", "firefoxExtensions"},
			{"rawHelloInfo", "looksLikeFirefox", "requiredCurves", "firefoxRequiredCurves"},
			{"rawHelloInfo", "looksLikeFirefox", "allowedCurves", "firefoxAllowedCurves"},
			{"rawHelloInfo", "looksLikeFirefox", "expectedCipherSuiteOrder", "firefoxCiphers"},
			{"rawHelloInfo", "looksLikeChrome", "chromeCipherExclusions", "chromeCipherExclusions"},
			{"rawHelloInfo", "looksLikeSafari", "requiredExtensionsOrder", "safariExtensions"},
			{"rawHelloInfo", "looksLikeSafari", "requiredExtensionsOrderiOS11", "safariExtensionsIOS11"},
			{"rawHelloInfo", "looksLikeSafari", "expectedCipherSuiteOrder", "safariCiphers"},
			{"rawHelloInfo", "looksLikeTor", "requiredExtensionsOrder", "torExtensions"},
			{"rawHelloInfo", "looksLikeTor", "requiredCurves", "torRequiredCurves"},
			{"rawHelloInfo", "looksLikeTor", "expectedCipherSuiteOrder", "torCiphers"},
		} {
			fn, err := f.Func(t.recv, t.fn)
			if err != nil {
				return err
			}
			lit := localLit(fn, t.v)
			if lit == nil {
				return fmt.Errorf("mitm.go: %s has no local %s", t.fn, t.v)
			}
			xs, err := intElems(lit, env, tlsNames)
			if err != nil {
				return fmt.Errorf("mitm.go: %s.%s: %v", t.fn, t.v, err)
			}
			fmt.Fprintf(b, "/-- `%s` in %s -/\ndef %s : List Nat := %s\n", t.v, t.fn, t.lean, leanInt64List(xs))
		}
		g, err := f.VarValue("greaseCiphers")
		if err != nil {
			return err
		}
		gs, err := intElems(g, env, tlsNames)
		if err != nil {
			return fmt.Errorf("mitm.go: greaseCiphers: %v", err)
		}
		fmt.Fprintf(b, "/-- keys of `greaseCiphers` -/\ndef greaseCiphers : List Nat := %s\n", leanInt64List(gs))
		for _, c := range []string{"extensionOCSPStatusRequest", "extensionSupportedCurves", "extensionSupportedPoints", "extensionHeartbeat", "scsvRenegotiation", "TLS_RSA_WITH_RC4_128_MD5"} {
			v, ok := env[c]
			if !ok {
				return fmt.Errorf("mitm.go: no constant %s", c)
			}
			fmt.Fprintf(b, "def %s : Nat := %d\n", strings.ToLower(c[:1])+c[1:], v)
		}
		fmt.Fprintf(b, "/-- `tls.TLS_RSA_WITH_RC4_128_SHA` -/\ndef tLS_RSA_WITH_RC4_128_SHA : Nat := %d\n", tlsNames["TLS_RSA_WITH_RC4_128_SHA"])
		return nil
	})
}
