package facts

import (
	"fmt"
	"go/ast"
	"path/filepath"
	"strings"
)

// LeanByteLists prints strings as a Lean `List (List UInt8)` literal (one line per string, with the text in a comment).
func LeanByteLists(xs []string) string {
	var b strings.Builder
	b.WriteString("[")
	for i, x := range xs {
		if i > 0 {
			b.WriteString(",")
		}
		fmt.Fprintf(&b, "\n  /- %s -/ [", strings.ReplaceAll(x, "-/", "- /"))
		for j := 0; j < len(x); j++ {
			if j > 0 {
				b.WriteString(", ")
			}
			fmt.Fprintf(&b, "%d", x[j])
		}
		b.WriteString("]")
	}
	b.WriteString("]")
	return b.String()
}

// MapKeyStrings returns the string-literal keys of a map composite literal, in source order.
func MapKeyStrings(e ast.Expr) ([]string, error) {
	cl, ok := e.(*ast.CompositeLit)
	if !ok {
		return nil, fmt.Errorf("not a composite literal")
	}
	var out []string
	for _, el := range cl.Elts {
		kv, ok := el.(*ast.KeyValueExpr)
		if !ok {
			return nil, fmt.Errorf("element without a key")
		}
		s, ok := StringLit(kv.Key)
		if !ok {
			return nil, fmt.Errorf("non-literal key")
		}
		out = append(out, s)
	}
	return out, nil
}

func init() {
	register("C04", func(repo string, o *Out) error {
		f, err := Parse(filepath.Join(repo, "caskethttp/proxy/reverseproxy.go"))
		if err != nil {
			return err
		}
		e, err := f.VarValue("hopHeaders")
		if err != nil {
			return err
		}
		hs, err := Strings(e)
		if err != nil {
			return fmt.Errorf("hopHeaders: %v", err)
		}
		e, err = f.VarValue("skipHeaders")
		if err != nil {
			return err
		}
		ss, err := MapKeyStrings(e)
		if err != nil {
			return fmt.Errorf("skipHeaders: %v", err)
		}
		b := o.File("ProxyHeaders")
		fmt.Fprintf(b, "/-- `hopHeaders` in caskethttp/proxy/reverseproxy.go, as bytes -/\ndef hopHeaderBytes : List (List UInt8) := %s\n\n", LeanByteLists(hs))
		fmt.Fprintf(b, "/-- keys of `skipHeaders` in caskethttp/proxy/reverseproxy.go, as bytes -/\ndef skipHeaderBytes : List (List UInt8) := %s\n", LeanByteLists(ss))
		return nil
	})
}
