package facts

import (
	"fmt"
	"go/ast"
	"path/filepath"
)

// C01: the catch-all hosts `newVHostTrie` puts into fallbackHosts, in order.
func init() {
	register("C01", func(repo string, o *Out) error {
		f, err := Parse(filepath.Join(repo, "caskethttp/httpserver/vhosttrie.go"))
		if err != nil {
			return err
		}
		fn, err := f.Func("", "newVHostTrie")
		if err != nil {
			return err
		}
		var hosts []string
		found := 0
		ast.Inspect(fn, func(n ast.Node) bool {
			kv, ok := n.(*ast.KeyValueExpr)
			if !ok {
				return true
			}
			if id, ok := kv.Key.(*ast.Ident); ok && id.Name == "fallbackHosts" {
				if hs, err := Strings(kv.Value); err == nil {
					hosts = hs
					found++
				}
			}
			return true
		})
		if found != 1 {
			return fmt.Errorf("vhosttrie.go: expected exactly one fallbackHosts literal in newVHostTrie, found %d", found)
		}
		b := o.File("VHost")
		fmt.Fprintf(b, "/-- `fallbackHosts` literal in caskethttp/httpserver/vhosttrie.go:newVHostTrie, in order -/\ndef vhostFallbackHosts : List String := %s\n", LeanStringList(hosts))
		return nil
	})
}
