package facts

import (
	"fmt"
	"go/ast"
	"path/filepath"
	"strings"
)

// C01: the catch-all hosts `newVHostTrie` puts into fallbackHosts, in order.
func init() {
	register("C01", func(repo string, o *Out) error {
		f, err := Parse(filepath.Join(repo, "caskethttp/httpserver/vhosttrie.go"))
		if err != nil {
			return err
		}
		fn, err := f.Func("", "newVHostTrie")
		if err != nil {
			return err
		}
		var hosts []string
		found := 0
		ast.Inspect(fn, func(n ast.Node) bool {
			kv, ok := n.(*ast.KeyValueExpr)
			if !ok {
				return true
			}
			if id, ok := kv.Key.(*ast.Ident); ok && id.Name == "fallbackHosts" {
				if hs, err := Strings(kv.Value); err == nil {
					hosts = hs
					found++
				}
			}
			return true
		})
		if found != 1 {
			return fmt.Errorf("vhosttrie.go: expected exactly one fallbackHosts literal in newVHostTrie, found %d", found)
		}
		b := o.File("VHost")
		fmt.Fprintf(b, "/-- `fallbackHosts` literal in caskethttp/httpserver/vhosttrie.go:newVHostTrie, in order -/\ndef vhostFallbackHosts : List String := %s\n", LeanStringList(hosts))
		return nil
	})
}

// The full-stack stream of C01 reuses the address model of C15 (lean/Casket/Model/AutoHTTPSAddr.lean),
// which imports Casket.Generated.AutoHTTPS: regenerate that file with C15's own extractor when only C01
// is checked.  It is flushed separately so that a run over all ids does not write the file twice.
func init() {
	register("C01", func(repo string, o *Out) error {
		for _, e := range extractors {
			if e.ids == "C15" {
				tmp := &Out{dir: o.dir, files: map[string]*strings.Builder{}}
				if err := e.fn(repo, tmp); err != nil {
					return err
				}
				return tmp.Flush()
			}
		}
		return fmt.Errorf("the C15 fact extractor (Generated/AutoHTTPS.lean) is not registered")
	})
}
