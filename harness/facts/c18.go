package facts

import (
	"fmt"
	"go/ast"
	"path/filepath"
)

// C18: the tables the compression decision depends on.
//   staticEncodingPriority (staticfiles/fileserver.go)  name/extension pairs, in order
//   SkipCompressedFilter.ShouldCompress (gzip/responsefilter.go)  the Content-Encoding values for
//       which it answers true (compress) and its default answer
//   defaultExtensions (gzip/requestfilter.go)

func c18ReturnsBool(body []ast.Stmt) (val bool, ok bool) {
	if len(body) != 1 {
		return false, false
	}
	rs, isRet := body[0].(*ast.ReturnStmt)
	if !isRet || len(rs.Results) != 1 {
		return false, false
	}
	id, isID := rs.Results[0].(*ast.Ident)
	if !isID || (id.Name != "true" && id.Name != "false") {
		return false, false
	}
	return id.Name == "true", true
}

func init() {
	register("C18", func(repo string, o *Out) error {
		b := o.File("Gzip")

		f, err := Parse(filepath.Join(repo, "caskethttp/staticfiles/fileserver.go"))
		if err != nil {
			return err
		}
		e, err := f.VarValue("staticEncodingPriority")
		if err != nil {
			return err
		}
		cl, ok := e.(*ast.CompositeLit)
		if !ok {
			return fmt.Errorf("staticEncodingPriority: not a composite literal")
		}
		var names, exts []string
		for _, el := range cl.Elts {
			inner, ok := el.(*ast.CompositeLit)
			if !ok || len(inner.Elts) != 2 {
				return fmt.Errorf("staticEncodingPriority: element is not a {name, ext} pair")
			}
			n, ok1 := StringLit(inner.Elts[0])
			x, ok2 := StringLit(inner.Elts[1])
			if !ok1 || !ok2 {
				return fmt.Errorf("staticEncodingPriority: non-literal element")
			}
			names = append(names, n)
			exts = append(exts, x)
		}
		fmt.Fprintf(b, "/-- names of `staticEncodingPriority` in caskethttp/staticfiles/fileserver.go, in order -/\ndef staticEncodingNames : List String := %s\n\n", LeanStringList(names))
		fmt.Fprintf(b, "/-- their file extensions -/\ndef staticEncodingExts : List String := %s\n\n", LeanStringList(exts))

		rf, err := Parse(filepath.Join(repo, "caskethttp/gzip/responsefilter.go"))
		if err != nil {
			return err
		}
		fd, err := rf.Func("SkipCompressedFilter", "ShouldCompress")
		if err != nil {
			return err
		}
		var sw *ast.SwitchStmt
		for _, st := range fd.Body.List {
			if s, ok := st.(*ast.SwitchStmt); ok {
				sw = s
			}
		}
		if sw == nil || len(fd.Body.List) != 1 {
			return fmt.Errorf("SkipCompressedFilter.ShouldCompress is no longer a single switch")
		}
		if call, ok := sw.Tag.(*ast.CallExpr); !ok || len(call.Args) != 1 {
			return fmt.Errorf("SkipCompressedFilter.ShouldCompress: switch tag is not Header().Get(...)")
		} else if s, ok := StringLit(call.Args[0]); !ok || s != "Content-Encoding" {
			return fmt.Errorf("SkipCompressedFilter.ShouldCompress does not switch on Content-Encoding")
		}
		var compress, skip []string
		deflt := ""
		for _, st := range sw.Body.List {
			cc := st.(*ast.CaseClause)
			val, ok := c18ReturnsBool(cc.Body)
			if !ok {
				return fmt.Errorf("SkipCompressedFilter.ShouldCompress: a case does not simply return a constant")
			}
			if cc.List == nil {
				deflt = fmt.Sprint(val)
				continue
			}
			for _, x := range cc.List {
				s, ok := StringLit(x)
				if !ok {
					return fmt.Errorf("SkipCompressedFilter.ShouldCompress: non-literal case")
				}
				if val {
					compress = append(compress, s)
				} else {
					skip = append(skip, s)
				}
			}
		}
		if deflt == "" {
			return fmt.Errorf("SkipCompressedFilter.ShouldCompress: no default case")
		}
		fmt.Fprintf(b, "/-- Content-Encoding values for which SkipCompressedFilter.ShouldCompress returns true -/\ndef skipFilterCompress : List String := %s\n\n", LeanStringList(compress))
		fmt.Fprintf(b, "/-- … returns false explicitly -/\ndef skipFilterSkip : List String := %s\n\n", LeanStringList(skip))
		fmt.Fprintf(b, "/-- its default answer -/\ndef skipFilterDefault : Bool := %s\n\n", deflt)

		qf, err := Parse(filepath.Join(repo, "caskethttp/gzip/requestfilter.go"))
		if err != nil {
			return err
		}
		de, err := qf.VarValue("defaultExtensions")
		if err != nil {
			return err
		}
		ds, err := Strings(de)
		if err != nil {
			return fmt.Errorf("defaultExtensions: %v", err)
		}
		fmt.Fprintf(b, "/-- `defaultExtensions` in caskethttp/gzip/requestfilter.go -/\ndef gzipDefaultExtensions : List String := %s\n", LeanStringList(ds))
		return nil
	})
}
