package facts

import (
	"fmt"
	"go/ast"
	"go/parser"
	"go/token"
	"os"
	"path/filepath"
	"sort"
	"strings"
)

// registeredPlugins returns the first argument of every casket.RegisterPlugin(...) call in the
// non-test Go files below the given directories (a string literal, or a constant of the same
// package), i.e. the directives that have an implementation in this distribution.
func registeredPlugins(repo string, dirs ...string) ([]string, error) {
	seen := map[string]bool{}
	for _, d := range dirs {
		root := filepath.Join(repo, d)
		err := filepath.Walk(root, func(p string, info os.FileInfo, err error) error {
			if err != nil || !info.IsDir() {
				return err
			}
			fset := token.NewFileSet()
			pkgs, err := parser.ParseDir(fset, p, func(fi os.FileInfo) bool { return !strings.HasSuffix(fi.Name(), "_test.go") }, 0)
			if err != nil {
				return nil // directories without Go files
			}
			for _, pkg := range pkgs {
				consts := map[string]string{}
				for _, f := range pkg.Files {
					for _, decl := range f.Decls {
						gd, ok := decl.(*ast.GenDecl)
						if !ok || gd.Tok != token.CONST {
							continue
						}
						for _, sp := range gd.Specs {
							vs := sp.(*ast.ValueSpec)
							for i, n := range vs.Names {
								if i < len(vs.Values) {
									if s, ok := StringLit(vs.Values[i]); ok {
										consts[n.Name] = s
									}
								}
							}
						}
					}
				}
				for _, f := range pkg.Files {
					ast.Inspect(f, func(n ast.Node) bool {
						ce, ok := n.(*ast.CallExpr)
						if !ok || len(ce.Args) == 0 {
							return true
						}
						sel, ok := ce.Fun.(*ast.SelectorExpr)
						if !ok || sel.Sel.Name != "RegisterPlugin" {
							return true
						}
						if s, ok := StringLit(ce.Args[0]); ok {
							seen[s] = true
						} else if id, ok := ce.Args[0].(*ast.Ident); ok {
							if s, ok := consts[id.Name]; ok {
								seen[s] = true
							}
						}
						return true
					})
				}
			}
			return nil
		})
		if err != nil {
			return nil, err
		}
	}
	var out []string
	for s := range seen {
		out = append(out, s)
	}
	sort.Strings(out)
	return out, nil
}

// registeredParsingCallbacks returns (directive, function name) of every
// casket.RegisterParsingCallback(serverType, "<directive>", <func>) call below the directories.
func registeredParsingCallbacks(repo string, dirs ...string) ([][2]string, error) {
	var out [][2]string
	for _, d := range dirs {
		root := filepath.Join(repo, d)
		err := filepath.Walk(root, func(p string, info os.FileInfo, err error) error {
			if err != nil || !info.IsDir() {
				return err
			}
			fset := token.NewFileSet()
			pkgs, err := parser.ParseDir(fset, p, func(fi os.FileInfo) bool { return !strings.HasSuffix(fi.Name(), "_test.go") }, 0)
			if err != nil {
				return nil
			}
			for _, pkg := range pkgs {
				var names []string
				for n := range pkg.Files {
					names = append(names, n)
				}
				sort.Strings(names)
				for _, n := range names {
					ast.Inspect(pkg.Files[n], func(nd ast.Node) bool {
						ce, ok := nd.(*ast.CallExpr)
						if !ok || len(ce.Args) != 3 {
							return true
						}
						sel, ok := ce.Fun.(*ast.SelectorExpr)
						if !ok || sel.Sel.Name != "RegisterParsingCallback" {
							return true
						}
						dir, ok := StringLit(ce.Args[1])
						if !ok {
							dir = "?"
						}
						fn := "?"
						if id, ok := ce.Args[2].(*ast.Ident); ok {
							fn = id.Name
						}
						out = append(out, [2]string{dir, fn})
						return true
					})
				}
			}
			return nil
		})
		if err != nil {
			return nil, err
		}
	}
	return out, nil
}

func init() {
	register("C09", func(repo string, o *Out) error {
		cbs, err := registeredParsingCallbacks(repo, "caskethttp", "caskettls", "onevent")
		if err != nil {
			return err
		}
		cb := o.File("Registered")
		var ps []string
		for _, c := range cbs {
			ps = append(ps, "("+LeanString(c[0])+", "+LeanString(c[1])+")")
		}
		fmt.Fprintf(cb, "/-- `casket.RegisterParsingCallback(serverType, directive, function)` call sites: the function runs\nright after the setups of that directive -/\ndef registeredParsingCallbacks : List (String × String) := [%s]\n\n", strings.Join(ps, ", "))
		return nil
	})
	register("C09", func(repo string, o *Out) error {
		names, err := registeredPlugins(repo, "caskethttp", "caskettls", "onevent")
		if err != nil {
			return err
		}
		if len(names) == 0 {
			return fmt.Errorf("no RegisterPlugin calls found")
		}
		b := o.File("Registered")
		fmt.Fprintf(b, "/-- first arguments of the `casket.RegisterPlugin` calls under caskethttp/, caskettls/ and onevent/:\nthe directives this distribution implements -/\ndef registeredPlugins : List String := %s\n", LeanStringList(names))
		return nil
	})
}
