package facts

// C11: one bounds obligation per constant index site `x[k]` (x an identifier, k an integer literal or
// len(x)-1) in the directive setup files.  For every site the extractor collects what the enclosing code
// has established about len(x) on the way to the site — `switch len(x)`, `if len(x) …`, early exits,
// `x == ""`, `A && x[k]…` short circuits, `x := strings.Split(…)`, `[]T{…}` literals — and prints
//
//	theorem site_<file>_<line>_<col> : ∀ n_x …, <path condition> → k < n_x := by omega
//
// A site whose guards do not imply the bound makes Casket/Generated/SetupBounds.lean fail to build.
// The analysis is deliberately simple and conservative: facts about a variable are dropped whenever it is
// assigned (anywhere in a loop body before the loop is entered), closures start without facts, and a
// condition it can not read contributes nothing.

import (
	"fmt"
	"go/ast"
	"go/printer"
	"go/token"
	"path/filepath"
	"regexp"
	"sort"
	"strconv"
	"strings"
)

var c11Files = []string{
	"casket.go", "controller.go", "casketfile/dispenser.go", "caskettls/setup.go", "onevent/on.go",
	"caskethttp/basicauth/setup.go", "caskethttp/browse/setup.go", "caskethttp/errors/setup.go", "caskethttp/expvar/setup.go",
	"caskethttp/extensions/setup.go", "caskethttp/fastcgi/setup.go", "caskethttp/gzip/setup.go", "caskethttp/header/setup.go",
	"caskethttp/internalsrv/setup.go", "caskethttp/limits/setup.go", "caskethttp/log/setup.go", "caskethttp/markdown/setup.go",
	"caskethttp/mime/setup.go", "caskethttp/pprof/setup.go", "caskethttp/proxy/setup.go", "caskethttp/push/setup.go",
	"caskethttp/redirect/setup.go", "caskethttp/requestid/setup.go", "caskethttp/rewrite/setup.go", "caskethttp/status/setup.go",
	"caskethttp/templates/setup.go", "caskethttp/websocket/setup.go", "caskethttp/proxy/upstream.go", "caskethttp/tryfiles/tryfiles.go",
	"caskethttp/timeouts/timeouts.go", "caskethttp/index/index.go", "caskethttp/root/root.go", "caskethttp/bind/bind.go",
}

type c11Site struct {
	file      string
	line, col int
	v         string
	k         string // Lean term that must be < n_v
	src       string
	facts     []string
}

type c11An struct {
	fset   *token.FileSet
	file   string
	sites  []c11Site
	skip   int                  // constant index sites whose base is not an identifier (arrays in structs etc.)
	arrays map[string]bool      // identifiers declared with a fixed-size array or map type (their index needs no bound)
	fresh  int                  // counter for the names of "previous value" variables
	counts map[string][2]string // c := strings.Count(s, "sep")  ->  c : {s, sep}
}

var c11Counts map[string][2]string // the analyzer's count variables, visible to c11Term

// rename gives the current length of v a fresh name in every fact (used when v changes in a known way)
func (a *c11An) rename(c []string, v string) ([]string, string) {
	a.fresh++
	old := fmt.Sprintf("n_%s_p%d", v, a.fresh)
	re := regexp.MustCompile(`\bn_` + regexp.QuoteMeta(v) + `\b`)
	out := make([]string, len(c))
	for i, f := range c {
		out[i] = re.ReplaceAllString(f, old)
	}
	return out, old
}

// selfUpdate recognises  x = append(x, …)  and  x = x[k:]  and returns the fact relating new and old length
func c11SelfUpdate(lhs, rhs ast.Expr) (v string, rel func(old string) string, ok bool) {
	id, isId := lhs.(*ast.Ident)
	if !isId {
		return "", nil, false
	}
	switch r := rhs.(type) {
	case *ast.CallExpr:
		if f, isF := r.Fun.(*ast.Ident); isF && f.Name == "append" && len(r.Args) >= 1 {
			if x, isX := r.Args[0].(*ast.Ident); isX && x.Name == id.Name {
				k := len(r.Args) - 1
				if r.Ellipsis != token.NoPos {
					return id.Name, func(old string) string { return "n_" + id.Name + " ≥ " + old }, true
				}
				return id.Name, func(old string) string { return fmt.Sprintf("n_%s = %s + %d", id.Name, old, k) }, true
			}
		}
	case *ast.SliceExpr:
		if x, isX := r.X.(*ast.Ident); isX && x.Name == id.Name && r.High == nil && r.Max == nil && r.Low != nil {
			if k, isK := c11IntLit(r.Low); isK {
				return id.Name, func(old string) string { return fmt.Sprintf("n_%s + %s = %s", id.Name, k, old) }, true
			}
		}
	}
	return "", nil, false
}

// appendOnly: variables that are only ever grown by  x = append(x, …)  under n (loops keep their lower bounds)
func c11AppendOnly(n ast.Node) map[string]bool {
	grown, other := map[string]bool{}, map[string]bool{}
	ast.Inspect(n, func(x ast.Node) bool {
		switch s := x.(type) {
		case *ast.FuncLit:
			return false
		case *ast.AssignStmt:
			for i, l := range s.Lhs {
				id, ok := l.(*ast.Ident)
				if !ok {
					continue
				}
				isAppend := false
				if len(s.Lhs) == len(s.Rhs) && s.Tok == token.ASSIGN {
					if ce, ok := s.Rhs[i].(*ast.CallExpr); ok {
						if f, ok := ce.Fun.(*ast.Ident); ok && f.Name == "append" && len(ce.Args) >= 1 {
							if a0, ok := ce.Args[0].(*ast.Ident); ok && a0.Name == id.Name {
								isAppend = true
							}
						}
					}
				}
				if isAppend {
					grown[id.Name] = true
				} else {
					other[id.Name] = true
				}
			}
		}
		return true
	})
	for v := range c11Assigned(n) {
		if !grown[v] {
			other[v] = true
		}
	}
	out := map[string]bool{}
	for v := range grown {
		if !other[v] {
			out[v] = true
		}
	}
	return out
}

// loopEntry: what survives of c at the head (and after the end) of a loop whose body is n
func (a *c11An) loopEntry(c []string, n ast.Node) []string {
	ao := c11AppendOnly(n)
	kill := map[string]bool{}
	for v := range c11Assigned(n) {
		if !ao[v] {
			kill[v] = true
		}
	}
	c = c11Kill(c, kill)
	for v := range ao {
		var old string
		c, old = a.rename(c, v)
		c = append(c, "n_"+v+" ≥ "+old)
	}
	return c
}

// declared: names introduced with := or var anywhere under n (their facts must not leave the block)
func c11Declared(n ast.Node) map[string]bool {
	out := map[string]bool{}
	ast.Inspect(n, func(x ast.Node) bool {
		switch s := x.(type) {
		case *ast.FuncLit:
			return false
		case *ast.AssignStmt:
			if s.Tok == token.DEFINE {
				for _, l := range s.Lhs {
					if id, ok := l.(*ast.Ident); ok {
						out[id.Name] = true
					}
				}
			}
		case *ast.ValueSpec:
			for _, id := range s.Names {
				out[id.Name] = true
			}
		case *ast.RangeStmt:
			if s.Tok == token.DEFINE {
				for _, l := range []ast.Expr{s.Key, s.Value} {
					if id, ok := l.(*ast.Ident); ok {
						out[id.Name] = true
					}
				}
			}
		}
		return true
	})
	return out
}

// join: what is known where two paths meet
func c11Join(x, y []string) []string {
	in := func(l []string, f string) bool {
		for _, g := range l {
			if g == f {
				return true
			}
		}
		return false
	}
	var common, rx, ry []string
	for _, f := range x {
		if in(y, f) {
			common = append(common, f)
		} else {
			rx = append(rx, f)
		}
	}
	for _, f := range y {
		if !in(x, f) {
			ry = append(ry, f)
		}
	}
	if len(rx) == 0 || len(ry) == 0 {
		return common
	}
	return append(common, "(("+strings.Join(rx, ") ∧ (")+")) ∨ (("+strings.Join(ry, ") ∧ (")+"))")
}

var c11VarRe = regexp.MustCompile(`[nv]_[A-Za-z0-9_]+`)

func c11Mentions(f, v string) bool {
	for _, m := range c11VarRe.FindAllString(f, -1) {
		if m == "n_"+v || m == "v_"+v {
			return true
		}
	}
	return false
}

func c11Kill(c []string, vars map[string]bool) []string {
	if len(vars) == 0 {
		return c
	}
	var out []string
	for _, f := range c {
		keep := true
		for v := range vars {
			if c11Mentions(f, v) {
				keep = false
			}
		}
		if keep {
			out = append(out, f)
		}
	}
	return out
}

// assigned collects identifiers assigned/declared/ranged anywhere under n (not inside closures).
func c11Assigned(n ast.Node) map[string]bool {
	out := map[string]bool{}
	if n == nil {
		return out
	}
	ast.Inspect(n, func(x ast.Node) bool {
		switch s := x.(type) {
		case *ast.FuncLit:
			return false
		case *ast.AssignStmt:
			for _, l := range s.Lhs {
				if id, ok := l.(*ast.Ident); ok {
					out[id.Name] = true
				}
			}
		case *ast.RangeStmt:
			for _, l := range []ast.Expr{s.Key, s.Value} {
				if id, ok := l.(*ast.Ident); ok {
					out[id.Name] = true
				}
			}
		case *ast.ValueSpec:
			for _, id := range s.Names {
				out[id.Name] = true
			}
		case *ast.IncDecStmt:
			if id, ok := s.X.(*ast.Ident); ok {
				out[id.Name] = true
			}
		case *ast.UnaryExpr:
			if s.Op == token.AND {
				if id, ok := s.X.(*ast.Ident); ok {
					out[id.Name] = true // address taken: anything may happen to it
				}
			}
		}
		return true
	})
	return out
}

func c11IntLit(e ast.Expr) (string, bool) {
	if p, ok := e.(*ast.ParenExpr); ok {
		return c11IntLit(p.X)
	}
	if bl, ok := e.(*ast.BasicLit); ok && bl.Kind == token.INT {
		if v, err := strconv.ParseUint(bl.Value, 0, 62); err == nil {
			return strconv.FormatUint(v, 10), true
		}
	}
	return "", false
}

// lenOf: len(x) for an identifier x
func c11LenOf(e ast.Expr) (string, bool) {
	if p, ok := e.(*ast.ParenExpr); ok {
		return c11LenOf(p.X)
	}
	ce, ok := e.(*ast.CallExpr)
	if !ok || len(ce.Args) != 1 {
		return "", false
	}
	if f, ok := ce.Fun.(*ast.Ident); !ok || f.Name != "len" {
		return "", false
	}
	if id, ok := ce.Args[0].(*ast.Ident); ok {
		return id.Name, true
	}
	return "", false
}

// term: a Lean natural-number term for len(x) or a literal
func c11Term(e ast.Expr) (string, bool) {
	if v, ok := c11LenOf(e); ok {
		return "n_" + v, true
	}
	if p, ok := e.(*ast.ParenExpr); ok {
		return c11Term(p.X)
	}
	if id, ok := e.(*ast.Ident); ok {
		if _, isCount := c11Counts[id.Name]; isCount {
			return "v_" + id.Name, true
		}
	}
	return c11IntLit(e)
}

// prop translates a condition into a Lean proposition; "" when it can not be read.
func c11Prop(e ast.Expr) string {
	switch x := e.(type) {
	case *ast.ParenExpr:
		return c11Prop(x.X)
	case *ast.UnaryExpr:
		if x.Op == token.NOT {
			if p := c11Prop(x.X); p != "" {
				return "¬(" + p + ")"
			}
		}
	case *ast.BinaryExpr:
		switch x.Op {
		case token.LAND, token.LOR:
			a, b := c11Prop(x.X), c11Prop(x.Y)
			if a != "" && b != "" {
				op := " ∧ "
				if x.Op == token.LOR {
					op = " ∨ "
				}
				return "(" + a + op + b + ")"
			}
		case token.EQL, token.NEQ, token.LSS, token.LEQ, token.GTR, token.GEQ:
			op := map[token.Token]string{token.EQL: "=", token.NEQ: "≠", token.LSS: "<", token.LEQ: "≤", token.GTR: ">", token.GEQ: "≥"}[x.Op]
			a, oka := c11Term(x.X)
			b, okb := c11Term(x.Y)
			if oka && okb && (strings.HasPrefix(a, "n_") || strings.HasPrefix(b, "n_") || strings.HasPrefix(a, "v_") || strings.HasPrefix(b, "v_")) {
				return a + " " + op + " " + b
			}
			// x == "" , x != "" , x == nil
			if x.Op == token.EQL || x.Op == token.NEQ {
				for _, pr := range [][2]ast.Expr{{x.X, x.Y}, {x.Y, x.X}} {
					id, ok := pr[0].(*ast.Ident)
					if !ok {
						continue
					}
					if s, ok := StringLit(pr[1]); ok && s == "" {
						return "n_" + id.Name + " " + op + " 0"
					}
					if n, ok := pr[1].(*ast.Ident); ok && n.Name == "nil" && x.Op == token.EQL {
						return "n_" + id.Name + " = 0"
					}
				}
			}
		}
	}
	return ""
}

// pos / neg: the facts known when the condition is true / false
func c11Pos(e ast.Expr) []string {
	switch x := e.(type) {
	case *ast.ParenExpr:
		return c11Pos(x.X)
	case *ast.UnaryExpr:
		if x.Op == token.NOT {
			return c11Neg(x.X)
		}
	case *ast.BinaryExpr:
		if x.Op == token.LAND {
			return append(c11Pos(x.X), c11Pos(x.Y)...)
		}
	}
	if p := c11Prop(e); p != "" {
		return []string{p}
	}
	return nil
}

func c11Neg(e ast.Expr) []string {
	switch x := e.(type) {
	case *ast.ParenExpr:
		return c11Neg(x.X)
	case *ast.UnaryExpr:
		if x.Op == token.NOT {
			return c11Pos(x.X)
		}
	case *ast.BinaryExpr:
		if x.Op == token.LOR {
			return append(c11Neg(x.X), c11Neg(x.Y)...)
		}
	}
	if p := c11Prop(e); p != "" {
		return []string{"¬(" + p + ")"}
	}
	return nil
}

func (a *c11An) addSite(ix *ast.IndexExpr, c []string) {
	id, ok := ix.X.(*ast.Ident)
	var k string
	isConst := false
	if lit, ok2 := c11IntLit(ix.Index); ok2 {
		k, isConst = lit, true
	} else if be, ok2 := ix.Index.(*ast.BinaryExpr); ok2 && be.Op == token.SUB && ok {
		// x[len(x)-1]
		if v, ok3 := c11LenOf(be.X); ok3 && v == id.Name {
			if one, ok4 := c11IntLit(be.Y); ok4 && one == "1" {
				k, isConst = "0", true
			}
		}
	}
	if !isConst {
		return
	}
	if !ok {
		a.skip++
		return
	}
	if a.arrays[id.Name] {
		return
	}
	pos := a.fset.Position(ix.Pos())
	fs := c11Relevant(c, id.Name)
	a.sites = append(a.sites, c11Site{file: a.file, line: pos.Line, col: pos.Column, v: id.Name, k: k,
		src: fmt.Sprintf("%s[%s]", id.Name, exprString(ix.Index)), facts: fs})
}

// relevant: the facts connected to v (directly or through shared variables)
func c11Relevant(c []string, v string) []string {
	vars := map[string]bool{"n_" + v: true}
	used := make([]bool, len(c))
	for changed := true; changed; {
		changed = false
		for i, f := range c {
			if used[i] {
				continue
			}
			ms := c11VarRe.FindAllString(f, -1)
			hit := false
			for _, m := range ms {
				if vars[m] {
					hit = true
				}
			}
			if hit {
				used[i] = true
				changed = true
				for _, m := range ms {
					vars[m] = true
				}
			}
		}
	}
	var out []string
	for i, f := range c {
		if used[i] {
			out = append(out, f)
		}
	}
	return out
}

// x[k:] needs k ≤ len(x)
func (a *c11An) addSliceSite(sx *ast.SliceExpr, c []string) {
	id, ok := sx.X.(*ast.Ident)
	if !ok || sx.Low == nil || sx.High != nil || sx.Max != nil || a.arrays[id.Name] {
		return
	}
	k, isK := c11IntLit(sx.Low)
	if !isK || k == "0" {
		return
	}
	pos := a.fset.Position(sx.Pos())
	fs := c11Relevant(c, id.Name)
	kk, _ := strconv.Atoi(k)
	a.sites = append(a.sites, c11Site{file: a.file, line: pos.Line, col: pos.Column, v: id.Name, k: strconv.Itoa(kk - 1),
		src: fmt.Sprintf("%s[%s:]", id.Name, k), facts: fs})
}

func exprString(e ast.Expr) string {
	switch x := e.(type) {
	case *ast.BasicLit:
		return x.Value
	case *ast.BinaryExpr:
		return exprString(x.X) + x.Op.String() + exprString(x.Y)
	case *ast.CallExpr:
		if f, ok := x.Fun.(*ast.Ident); ok && len(x.Args) == 1 {
			return f.Name + "(" + exprString(x.Args[0]) + ")"
		}
	case *ast.Ident:
		return x.Name
	}
	return "…"
}

// expr scans an expression for index sites, honouring && / || short circuits; closures restart empty.
func (a *c11An) expr(e ast.Node, c []string) {
	if e == nil {
		return
	}
	switch x := e.(type) {
	case *ast.BinaryExpr:
		if x.Op == token.LAND {
			a.expr(x.X, c)
			a.expr(x.Y, append(append([]string{}, c...), c11Pos(x.X)...))
			return
		}
		if x.Op == token.LOR {
			a.expr(x.X, c)
			a.expr(x.Y, append(append([]string{}, c...), c11Neg(x.X)...))
			return
		}
	case *ast.FuncLit:
		a.block(x.Body.List, nil)
		return
	case *ast.IndexExpr:
		a.addSite(x, c)
	case *ast.SliceExpr:
		a.addSliceSite(x, c)
	}
	// generic descent one level at a time so that the cases above see every sub-expression
	ast.Inspect(e, func(n ast.Node) bool {
		if n == nil || n == e {
			return true
		}
		switch n.(type) {
		case ast.Expr:
			a.expr(n, c)
			return false
		case ast.Stmt:
			return false
		}
		return true
	})
}

func c11Terminates(stmts []ast.Stmt) bool {
	if len(stmts) == 0 {
		return false
	}
	switch s := stmts[len(stmts)-1].(type) {
	case *ast.ReturnStmt:
		return true
	case *ast.BranchStmt:
		return s.Tok != token.FALLTHROUGH
	case *ast.ExprStmt:
		if ce, ok := s.X.(*ast.CallExpr); ok {
			switch f := ce.Fun.(type) {
			case *ast.Ident:
				return f.Name == "panic"
			case *ast.SelectorExpr:
				return strings.HasPrefix(f.Sel.Name, "Fatal") || f.Sel.Name == "Exit"
			}
		}
	case *ast.BlockStmt:
		return c11Terminates(s.List)
	}
	return false
}

func c11EndsInFallthrough(stmts []ast.Stmt) bool {
	if len(stmts) == 0 {
		return false
	}
	b, ok := stmts[len(stmts)-1].(*ast.BranchStmt)
	return ok && b.Tok == token.FALLTHROUGH
}

// newFacts: what an assignment establishes about the length of its left-hand sides
func c11AssignFacts(lhs []ast.Expr, rhs []ast.Expr) []string {
	var out []string
	if len(lhs) != len(rhs) {
		return nil
	}
	for i, l := range lhs {
		id, ok := l.(*ast.Ident)
		if !ok {
			continue
		}
		switch r := rhs[i].(type) {
		case *ast.CompositeLit:
			if at, ok := r.Type.(*ast.ArrayType); ok && at.Len == nil {
				keyed := false
				for _, el := range r.Elts {
					if _, ok := el.(*ast.KeyValueExpr); ok {
						keyed = true
					}
				}
				if !keyed {
					out = append(out, fmt.Sprintf("n_%s = %d", id.Name, len(r.Elts)))
				}
			}
		case *ast.CallExpr:
			if se, ok := r.Fun.(*ast.SelectorExpr); ok {
				if pk, ok := se.X.(*ast.Ident); ok && pk.Name == "strings" {
					switch se.Sel.Name {
					case "Split":
						if len(r.Args) == 2 {
							if sep, ok := StringLit(r.Args[1]); ok && sep != "" {
								out = append(out, "n_"+id.Name+" ≥ 1") // strings.Split with a non-empty separator never returns an empty slice
							}
						}
					case "SplitN":
						if len(r.Args) == 3 {
							sep, ok1 := StringLit(r.Args[1])
							n, ok2 := c11IntLit(r.Args[2])
							if ok1 && sep != "" && ok2 && n != "0" {
								out = append(out, "n_"+id.Name+" ≥ 1")
							}
						}
					}
				}
			}
		}
	}
	return out
}

func (a *c11An) noteArrayDecls(n ast.Node) {
	ast.Inspect(n, func(x ast.Node) bool {
		mark := func(names []*ast.Ident, t ast.Expr) {
			switch tt := t.(type) {
			case *ast.ArrayType:
				if tt.Len != nil {
					for _, id := range names {
						a.arrays[id.Name] = true
					}
				}
			case *ast.MapType:
				for _, id := range names {
					a.arrays[id.Name] = true
				}
			}
		}
		switch s := x.(type) {
		case *ast.ValueSpec:
			if s.Type != nil {
				mark(s.Names, s.Type)
			}
		case *ast.Field:
			mark(s.Names, s.Type)
		}
		return true
	})
}

// block walks statements in order; the returned facts hold after the last one.
func (a *c11An) block(stmts []ast.Stmt, c []string) []string {
	c = append([]string{}, c...)
	for _, s := range stmts {
		c = a.stmt(s, c)
	}
	return c
}

func (a *c11An) stmt(s ast.Stmt, c []string) []string {
	switch x := s.(type) {
	case nil:
		return c
	case *ast.BlockStmt:
		return c11Kill(a.block(x.List, c), c11Declared(x))
	case *ast.LabeledStmt:
		return a.stmt(x.Stmt, c)
	case *ast.ExprStmt:
		a.expr(x.X, c)
		return c
	case *ast.ReturnStmt:
		for _, r := range x.Results {
			a.expr(r, c)
		}
		return c
	case *ast.IncDecStmt, *ast.BranchStmt, *ast.EmptyStmt:
		return c11Kill(c, c11Assigned(s))
	case *ast.GoStmt:
		a.expr(x.Call, nil)
		return c
	case *ast.DeferStmt:
		a.expr(x.Call, nil)
		return c
	case *ast.SendStmt:
		a.expr(x.Chan, c)
		a.expr(x.Value, c)
		return c
	case *ast.DeclStmt:
		if gd, ok := x.Decl.(*ast.GenDecl); ok {
			for _, sp := range gd.Specs {
				if vs, ok := sp.(*ast.ValueSpec); ok {
					for _, v := range vs.Values {
						a.expr(v, c)
					}
					var lhs []ast.Expr
					for _, n := range vs.Names {
						lhs = append(lhs, n)
					}
					c = c11Kill(c, c11Assigned(s))
					c = append(c, c11AssignFacts(lhs, vs.Values)...)
				}
			}
		}
		return c
	case *ast.AssignStmt:
		for _, r := range x.Rhs {
			a.expr(r, c)
		}
		for _, l := range x.Lhs {
			a.expr(l, c) // x[0] = … is an index site too
		}
		if len(x.Lhs) == 1 && len(x.Rhs) == 1 && x.Tok == token.ASSIGN {
			if v, rel, ok := c11SelfUpdate(x.Lhs[0], x.Rhs[0]); ok {
				var old string
				c, old = a.rename(c, v)
				return append(c, rel(old))
			}
		}
		for name := range c11Assigned(s) {
			delete(a.counts, name)
			for cv, src := range a.counts {
				if src[0] == name {
					delete(a.counts, cv)
				}
			}
		}
		c = c11Kill(c, c11Assigned(s))
		// c := strings.Count(s, "sep")   /   x := strings.Split(s, "sep") with a known count
		if len(x.Lhs) == 1 && len(x.Rhs) == 1 {
			if id, ok := x.Lhs[0].(*ast.Ident); ok {
				if ce, ok := x.Rhs[0].(*ast.CallExpr); ok && len(ce.Args) == 2 {
					if se, ok := ce.Fun.(*ast.SelectorExpr); ok {
						if pk, ok := se.X.(*ast.Ident); ok && pk.Name == "strings" {
							src, ok1 := ce.Args[0].(*ast.Ident)
							sep, ok2 := StringLit(ce.Args[1])
							if ok1 && ok2 && sep != "" {
								if se.Sel.Name == "Count" {
									a.counts[id.Name] = [2]string{src.Name, sep}
								}
								if se.Sel.Name == "Split" {
									for cv, cs := range a.counts {
										if cs[0] == src.Name && cs[1] == sep {
											c = append(c, "n_"+id.Name+" = v_"+cv+" + 1") // len(strings.Split(s, sep)) = strings.Count(s, sep) + 1
										}
									}
								}
							}
						}
					}
				}
			}
		}
		return append(c, c11AssignFacts(x.Lhs, x.Rhs)...)
	case *ast.IfStmt:
		c = a.stmt(x.Init, c)
		a.expr(x.Cond, c)
		bodyOut := c11Kill(a.block(x.Body.List, append(append([]string{}, c...), c11Pos(x.Cond)...)), c11Declared(x.Body))
		elseIn := append(append([]string{}, c...), c11Neg(x.Cond)...)
		elseOut, elseTerm := elseIn, false
		if x.Else != nil {
			elseOut = a.stmt(x.Else, elseIn)
			if e, ok := x.Else.(*ast.BlockStmt); ok {
				elseTerm = c11Terminates(e.List)
			}
		}
		var after []string
		switch bodyTerm := c11Terminates(x.Body.List); {
		case bodyTerm && elseTerm:
			after = nil
		case bodyTerm:
			after = elseOut
		case elseTerm:
			after = bodyOut
		default:
			after = c11Join(bodyOut, elseOut)
		}
		if x.Init != nil {
			after = c11Kill(after, c11Declared(x.Init))
		}
		return after
	case *ast.ForStmt:
		c = a.stmt(x.Init, c)
		in := a.loopEntry(c, x)
		out := append([]string{}, in...)
		if x.Cond != nil {
			a.expr(x.Cond, in)
			in = append(in, c11Kill(c11Pos(x.Cond), c11Assigned(x))...)
		}
		a.block(x.Body.List, in)
		a.stmt(x.Post, in)
		return c11Kill(out, c11Declared(x))
	case *ast.RangeStmt:
		a.expr(x.X, c)
		in := a.loopEntry(c, x)
		a.block(x.Body.List, in)
		return c11Kill(in, c11Declared(x))
	case *ast.SwitchStmt:
		c = a.stmt(x.Init, c)
		if x.Tag != nil {
			a.expr(x.Tag, c)
		}
		lenVar, onLen := "", false
		if x.Tag != nil {
			lenVar, onLen = c11LenOf(x.Tag)
		}
		killed := c11Assigned(x.Body)
		var allVals []string
		var clauses []*ast.CaseClause
		for _, cs := range x.Body.List {
			cc := cs.(*ast.CaseClause)
			clauses = append(clauses, cc)
			if onLen {
				for _, e := range cc.List {
					if v, ok := c11IntLit(e); ok {
						allVals = append(allVals, v)
					}
				}
			}
		}
		var negSoFar []string // tagless switch: earlier cases were false
		var afterDisj []string
		defaultTerm, hasDefault, exact := false, false, onLen
		for i, cc := range clauses {
			in := append([]string{}, c...)
			for _, e := range cc.List {
				a.expr(e, append(append([]string{}, c...), negSoFar...))
			}
			var own []string
			switch {
			case onLen && cc.List != nil:
				var alts []string
				for _, e := range cc.List {
					if v, ok := c11IntLit(e); ok {
						alts = append(alts, "n_"+lenVar+" = "+v)
					} else {
						alts = nil
						exact = false
						break
					}
				}
				if len(alts) > 0 {
					own = append(own, "("+strings.Join(alts, " ∨ ")+")")
				}
			case onLen && cc.List == nil:
				for _, v := range allVals {
					own = append(own, "n_"+lenVar+" ≠ "+v)
				}
			case x.Tag == nil && cc.List != nil:
				own = append(own, negSoFar...)
				if len(cc.List) == 1 {
					own = append(own, c11Pos(cc.List[0])...)
				}
			case x.Tag == nil && cc.List == nil:
				own = append(own, negSoFar...)
			}
			if i > 0 && c11EndsInFallthrough(clauses[i-1].Body) {
				own = nil // entered from the clause above as well
			}
			if x.Tag == nil {
				for _, e := range cc.List {
					negSoFar = append(negSoFar, c11Neg(e)...)
				}
			}
			a.block(cc.Body, append(in, own...))
			if cc.List == nil {
				hasDefault = true
				defaultTerm = c11Terminates(cc.Body)
			} else if onLen && !c11Terminates(cc.Body) && len(own) == 1 {
				afterDisj = append(afterDisj, own[0])
			} else if onLen && !c11Terminates(cc.Body) {
				exact = false
			}
		}
		after := c11Kill(c, killed)
		if onLen && exact && hasDefault && defaultTerm && len(afterDisj) > 0 && !killed[lenVar] {
			after = append(after, "("+strings.Join(afterDisj, " ∨ ")+")")
		}
		return after
	case *ast.TypeSwitchStmt:
		for _, cs := range x.Body.List {
			a.block(cs.(*ast.CaseClause).Body, c11Kill(c, c11Assigned(x)))
		}
		return c11Kill(c, c11Assigned(x))
	case *ast.SelectStmt:
		for _, cs := range x.Body.List {
			a.block(cs.(*ast.CommClause).Body, c11Kill(c, c11Assigned(x)))
		}
		return c11Kill(c, c11Assigned(x))
	}
	return c11Kill(c, c11Assigned(s))
}

// A caller contract: a fact about a parameter that every caller establishes.  It is only used when the
// syntactic shape it relies on is found again in the source (holds).
type c11Contract struct {
	file, fn, fact, why string
	callArg             string // every call of fn passes exactly this expression …
	flag                string // … inside `if <flag> {`
	flagGuard           string // and <flag> is only ever set to true inside `if <flagGuard> {`
}

var c11Contracts = []c11Contract{{
	file: "caskethttp/fastcgi/setup.go", fn: "parseSRV", fact: "n_locator ≥ 6",
	why:     "the only call is parseSRV(upstreams[0]) under `if srvUpstream`, and srvUpstream is set only under strings.HasPrefix(upstreams[0], \"srv://\") (6 bytes); upstreams is only appended to afterwards",
	callArg: "upstreams[0]", flag: "srvUpstream", flagGuard: `strings.HasPrefix(upstreams[0], "srv://")`,
}}

func c11Src(fset *token.FileSet, n ast.Node) string {
	var sb strings.Builder
	printer.Fprint(&sb, fset, n)
	return sb.String()
}

func (ct c11Contract) holds(f *File) bool {
	ok, calls := true, 0
	var stack []ast.Node
	ast.Inspect(f.f, func(n ast.Node) bool {
		if n == nil {
			stack = stack[:len(stack)-1]
			return true
		}
		stack = append(stack, n)
		enclosingIf := func(cond string) bool {
			for i := len(stack) - 2; i >= 0; i-- {
				if is, isIf := stack[i].(*ast.IfStmt); isIf && c11Src(f.fset, is.Cond) == cond {
					// must be in the body, not the else branch
					if i+1 < len(stack) && stack[i+1] == ast.Node(is.Body) {
						return true
					}
				}
			}
			return false
		}
		switch x := n.(type) {
		case *ast.CallExpr:
			if id, isId := x.Fun.(*ast.Ident); isId && id.Name == ct.fn {
				calls++
				if len(x.Args) != 1 || c11Src(f.fset, x.Args[0]) != ct.callArg || !enclosingIf(ct.flag) {
					ok = false
				}
			}
		case *ast.AssignStmt:
			for i, l := range x.Lhs {
				if id, isId := l.(*ast.Ident); isId && id.Name == ct.flag {
					val := ""
					if i < len(x.Rhs) {
						val = c11Src(f.fset, x.Rhs[i])
					}
					if val != "false" && !(val == "true" && enclosingIf(ct.flagGuard)) {
						ok = false
					}
				}
				// the guarded element itself must never be overwritten
				if c11Src(f.fset, l) == ct.callArg {
					ok = false
				}
			}
		}
		return true
	})
	return ok && calls > 0
}

// C11Site is one constant index site as the correspondence harness needs it for the self-check of the extractor:
// where it is, which index it uses and under which sub-block keywords (`case "kw":` clauses around it) it sits.
type C11Site struct {
	File     string
	Line     int
	Var      string
	K        int      // the index that must be < len(Var)
	Keywords []string // string literals of the nearest enclosing case clause ("" = directive level)
}

// C11Sites lists the index sites of the anchored files (same walk as the obligations).
func C11Sites(repo string) ([]C11Site, error) {
	var out []C11Site
	for _, rel := range c11Files {
		f, err := Parse(filepath.Join(repo, rel))
		if err != nil {
			return nil, err
		}
		a := &c11An{fset: f.fset, file: rel, arrays: map[string]bool{}, counts: map[string][2]string{}}
		c11Counts = a.counts
		a.noteArrayDecls(f.f)
		for _, d := range f.f.Decls {
			if fd, ok := d.(*ast.FuncDecl); ok && fd.Body != nil {
				a.block(fd.Body.List, nil)
			}
		}
		// nearest enclosing case clause with string literals, by position
		type span struct {
			from, to token.Pos
			kws      []string
		}
		var spans []span
		ast.Inspect(f.f, func(n ast.Node) bool {
			if cc, ok := n.(*ast.CaseClause); ok {
				var kws []string
				for _, e := range cc.List {
					if s, ok := StringLit(e); ok {
						kws = append(kws, s)
					}
				}
				if len(kws) > 0 {
					spans = append(spans, span{cc.Pos(), cc.End(), kws})
				}
			}
			return true
		})
		for _, st := range a.sites {
			k, _ := strconv.Atoi(st.k)
			site := C11Site{File: rel, Line: st.line, Var: st.v, K: k}
			best := token.Pos(0)
			for _, sp := range spans {
				p := f.fset.Position(sp.from)
				q := f.fset.Position(sp.to)
				if (p.Line < st.line || (p.Line == st.line && p.Column <= st.col)) && (st.line < q.Line || (st.line == q.Line && st.col <= q.Column)) && sp.from >= best {
					best = sp.from
					site.Keywords = sp.kws
				}
			}
			out = append(out, site)
		}
	}
	return out, nil
}

func init() {
	register("C11", func(repo string, o *Out) error {
		var sites []c11Site
		var contracts []c11Contract
		skipped := 0
		for _, rel := range c11Files {
			f, err := Parse(filepath.Join(repo, rel))
			if err != nil {
				return fmt.Errorf("C11 anchors: %v", err)
			}
			a := &c11An{fset: f.fset, file: rel, arrays: map[string]bool{}, counts: map[string][2]string{}}
			c11Counts = a.counts
			a.noteArrayDecls(f.f)
			for _, d := range f.f.Decls {
				fd, ok := d.(*ast.FuncDecl)
				if !ok || fd.Body == nil {
					continue
				}
				var pre []string
				for _, ct := range c11Contracts {
					if ct.file == rel && ct.fn == fd.Name.Name && ct.holds(f) {
						pre = append(pre, ct.fact)
						contracts = append(contracts, ct)
					}
				}
				a.block(fd.Body.List, pre)
			}
			sites = append(sites, a.sites...)
			skipped += a.skip
		}
		sort.SliceStable(sites, func(i, j int) bool {
			if sites[i].file != sites[j].file {
				return sites[i].file < sites[j].file
			}
			if sites[i].line != sites[j].line {
				return sites[i].line < sites[j].line
			}
			return sites[i].col < sites[j].col
		})
		b := o.File("SetupBounds")
		fmt.Fprintf(b, "/-! One obligation per constant index site `x[k]` in the %d directive setup files anchored by C11:\nunder what the enclosing code established about `len x` (the hypotheses), the index is in range.\n%d constant-index sites on fixed-size arrays / struct fields are not listed. -/\n\n", len(c11Files), skipped)
		for _, ct := range contracts {
			fmt.Fprintf(b, "/-! caller contract used for `%s` in %s: `%s` — %s (re-checked syntactically on every run) -/\n\n", ct.fn, ct.file, ct.fact, ct.why)
		}
		var names []string
		for _, s := range sites {
			name := fmt.Sprintf("site_%s_%d_%d", regexp.MustCompile(`[^A-Za-z0-9]+`).ReplaceAllString(strings.TrimSuffix(s.file, ".go"), "_"), s.line, s.col)
			vars := map[string]bool{"n_" + s.v: true}
			for _, f := range s.facts {
				for _, m := range c11VarRe.FindAllString(f, -1) {
					vars[m] = true
				}
			}
			var vs []string
			for v := range vars {
				vs = append(vs, v)
			}
			sort.Strings(vs)
			stmt := fmt.Sprintf("∀ (%s : Nat), ", strings.Join(vs, " "))
			for _, f := range s.facts {
				stmt += "(" + f + ") → "
			}
			stmt += fmt.Sprintf("%s < n_%s", s.k, s.v)
			fmt.Fprintf(b, "/-- %s:%d:%d  `%s` -/\ntheorem %s : %s := by\n  intros; omega\n\n", s.file, s.line, s.col, s.src, name, stmt)
			names = append(names, name)
		}
		fmt.Fprintf(b, "/-- the sites, as (file, line) -/\ndef setupIndexSites : List (String × Nat) := [")
		for i, s := range sites {
			if i > 0 {
				b.WriteString(", ")
			}
			fmt.Fprintf(b, "(%s, %d)", LeanString(s.file), s.line)
		}
		b.WriteString("]\n\n")
		b.WriteString("/-- every listed site is in range under its path condition -/\ndef AllSetupSites : Prop :=\n  True")
		for _, s := range sites {
			stmt := ""
			vars := map[string]bool{"n_" + s.v: true}
			for _, f := range s.facts {
				for _, m := range c11VarRe.FindAllString(f, -1) {
					vars[m] = true
				}
			}
			var vs []string
			for v := range vars {
				vs = append(vs, v)
			}
			sort.Strings(vs)
			stmt = fmt.Sprintf("∀ (%s : Nat), ", strings.Join(vs, " "))
			for _, f := range s.facts {
				stmt += "(" + f + ") → "
			}
			stmt += fmt.Sprintf("%s < n_%s", s.k, s.v)
			fmt.Fprintf(b, "\n  ∧ (%s)", stmt)
		}
		b.WriteString("\n\ntheorem allSetupSites : AllSetupSites :=\n  ⟨trivial")
		for _, n := range names {
			b.WriteString(", " + n)
		}
		b.WriteString("⟩\n")
		return nil
	})
}
