// Package facts regenerates Casket/Generated/*.lean from /repo's working tree.
//
// It is deliberately small: it finds a named package-level var/const, a
// composite literal, the string arguments of calls to a named function, or
// the case lists of a switch in a named function, and prints them as Lean
// literals.  A declaration that cannot be found is a hard error (the check
// then reports that the tie cannot be established).
package facts

import (
	"fmt"
	"go/ast"
	"go/constant"
	"go/parser"
	"go/token"
	"os"
	"path/filepath"
	"sort"
	"strconv"
	"strings"
)

type File struct {
	fset *token.FileSet
	f    *ast.File
	path string
}

func Parse(path string) (*File, error) {
	fset := token.NewFileSet()
	f, err := parser.ParseFile(fset, path, nil, parser.ParseComments)
	if err != nil {
		return nil, err
	}
	return &File{fset, f, path}, nil
}

// VarValue returns the initialiser expression of package-level var/const `name`.
func (f *File) VarValue(name string) (ast.Expr, error) {
	for _, d := range f.f.Decls {
		gd, ok := d.(*ast.GenDecl)
		if !ok {
			continue
		}
		for _, sp := range gd.Specs {
			vs, ok := sp.(*ast.ValueSpec)
			if !ok {
				continue
			}
			for i, n := range vs.Names {
				if n.Name == name && i < len(vs.Values) {
					return vs.Values[i], nil
				}
			}
		}
	}
	return nil, fmt.Errorf("%s: no package-level %s with a value", f.path, name)
}

// Func returns the declaration of function (or method) `name`; recv "" for plain functions.
func (f *File) Func(recv, name string) (*ast.FuncDecl, error) {
	for _, d := range f.f.Decls {
		fd, ok := d.(*ast.FuncDecl)
		if !ok || fd.Name.Name != name {
			continue
		}
		r := ""
		if fd.Recv != nil && len(fd.Recv.List) == 1 {
			t := fd.Recv.List[0].Type
			if st, ok := t.(*ast.StarExpr); ok {
				t = st.X
			}
			if id, ok := t.(*ast.Ident); ok {
				r = id.Name
			}
		}
		if r == recv {
			return fd, nil
		}
	}
	return nil, fmt.Errorf("%s: no func %s.%s", f.path, recv, name)
}

func StringLit(e ast.Expr) (string, bool) {
	bl, ok := e.(*ast.BasicLit)
	if !ok || bl.Kind != token.STRING {
		return "", false
	}
	s, err := strconv.Unquote(bl.Value)
	return s, err == nil
}

// Strings returns the elements of a []string{...} composite literal.
func Strings(e ast.Expr) ([]string, error) {
	cl, ok := e.(*ast.CompositeLit)
	if !ok {
		return nil, fmt.Errorf("not a composite literal")
	}
	var out []string
	for _, el := range cl.Elts {
		s, ok := StringLit(el)
		if !ok {
			return nil, fmt.Errorf("non-literal element in string slice")
		}
		out = append(out, s)
	}
	return out, nil
}

// IntConst evaluates an integer constant expression made of literals, + - * / << and
// the names given in env.
func IntConst(e ast.Expr, env map[string]int64) (int64, error) {
	switch x := e.(type) {
	case *ast.BasicLit:
		v := constant.MakeFromLiteral(x.Value, x.Kind, 0)
		if i, ok := constant.Int64Val(constant.ToInt(v)); ok {
			return i, nil
		}
	case *ast.Ident:
		if v, ok := env[x.Name]; ok {
			return v, nil
		}
	case *ast.ParenExpr:
		return IntConst(x.X, env)
	case *ast.BinaryExpr:
		a, err := IntConst(x.X, env)
		if err != nil {
			return 0, err
		}
		b, err := IntConst(x.Y, env)
		if err != nil {
			return 0, err
		}
		switch x.Op {
		case token.ADD:
			return a + b, nil
		case token.SUB:
			return a - b, nil
		case token.MUL:
			return a * b, nil
		case token.QUO:
			if b != 0 {
				return a / b, nil
			}
		case token.SHL:
			return a << uint(b), nil
		}
	}
	return 0, fmt.Errorf("not an integer constant expression")
}

// CallStringArgs returns, in source order, the idx-th argument (a string literal) of every
// call to fn (either `fn(...)` or `pkg.fn(...)`) inside node.
func CallStringArgs(node ast.Node, fn string, idx int) []string {
	var out []string
	ast.Inspect(node, func(n ast.Node) bool {
		ce, ok := n.(*ast.CallExpr)
		if !ok {
			return true
		}
		name := ""
		switch f := ce.Fun.(type) {
		case *ast.Ident:
			name = f.Name
		case *ast.SelectorExpr:
			name = f.Sel.Name
		}
		if name == fn && idx < len(ce.Args) {
			if s, ok := StringLit(ce.Args[idx]); ok {
				out = append(out, s)
			}
		}
		return true
	})
	return out
}

// CaseStrings returns the string literals of all case clauses of switch statements in node.
func CaseStrings(node ast.Node) []string {
	var out []string
	ast.Inspect(node, func(n ast.Node) bool {
		cc, ok := n.(*ast.CaseClause)
		if !ok {
			return true
		}
		for _, e := range cc.List {
			if s, ok := StringLit(e); ok {
				out = append(out, s)
			}
		}
		return true
	})
	return out
}

// ---- Lean printing ----

func LeanString(s string) string {
	var b strings.Builder
	b.WriteByte('"')
	for _, r := range s {
		switch {
		case r == '"':
			b.WriteString("\\\"")
		case r == '\\':
			b.WriteString("\\\\")
		case r == '\n':
			b.WriteString("\\n")
		case r == '\t':
			b.WriteString("\\t")
		case r < 0x20 || r == 0x7f:
			fmt.Fprintf(&b, "\\x%02x", r)
		default:
			b.WriteRune(r)
		}
	}
	b.WriteByte('"')
	return b.String()
}

func LeanStringList(xs []string) string {
	q := make([]string, len(xs))
	for i, x := range xs {
		q[i] = LeanString(x)
	}
	return "[" + strings.Join(q, ", ") + "]"
}

type Out struct {
	dir   string
	files map[string]*strings.Builder
}

func (o *Out) File(name string) *strings.Builder {
	if b, ok := o.files[name]; ok {
		return b
	}
	b := &strings.Builder{}
	fmt.Fprintf(b, "/- GENERATED by `vharness facts` from /repo's working tree on every run. Do not edit. -/\nnamespace Casket.Generated\n\n")
	o.files[name] = b
	return b
}

func (o *Out) Flush() error {
	if err := os.MkdirAll(o.dir, 0o755); err != nil {
		return err
	}
	keep := map[string]bool{}
	var names []string
	for n := range o.files {
		names = append(names, n)
	}
	sort.Strings(names)
	for _, n := range names {
		b := o.files[n]
		b.WriteString("\nend Casket.Generated\n")
		p := filepath.Join(o.dir, n+".lean")
		keep[p] = true
		// Only touch the file when its content changed, so lake does not rebuild for nothing.
		if cur, err := os.ReadFile(p); err == nil && string(cur) == b.String() {
			continue
		}
		if err := os.WriteFile(p, []byte(b.String()), 0o644); err != nil {
			return err
		}
	}
	return nil
}

type extractor struct {
	ids string // space separated property ids that use the generated file
	fn  func(repo string, o *Out) error
}

var extractors []extractor

func register(ids string, fn func(repo string, o *Out) error) {
	extractors = append(extractors, extractor{ids, fn})
}

// Generate runs the extractors that serve property id ("" = all) and rewrites their files.
func Generate(repo, dir, id string) error {
	o := &Out{dir: dir, files: map[string]*strings.Builder{}}
	failed := false
	for _, e := range extractors {
		if id != "" && !strings.Contains(" "+e.ids+" ", " "+id+" ") {
			continue
		}
		if err := e.fn(repo, o); err != nil {
			if id != "" {
				return err
			}
			// generating for everybody: one property's missing table must not
			// keep the others' files from being written
			fmt.Fprintln(os.Stderr, "facts:", err)
			failed = true
		}
	}
	if err := o.Flush(); err != nil {
		return err
	}
	if failed {
		return fmt.Errorf("some extractors failed")
	}
	return nil
}
