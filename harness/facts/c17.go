package facts

import (
	"fmt"
	"go/ast"
	"go/token"
	"path/filepath"
	"strconv"
)

// C17: `defaultTimeouts` of caskethttp/httpserver/server.go (nanoseconds per field) and the
// duration fields of the Timeouts struct (every one of them must be merged over the site group).

var c17TimeUnits = map[string]int64{
	"Nanosecond": 1, "Microsecond": 1e3, "Millisecond": 1e6, "Second": 1e9, "Minute": 60e9, "Hour": 3600e9,
}

func c17Duration(e ast.Expr) (int64, error) {
	switch x := e.(type) {
	case *ast.BasicLit:
		if x.Kind == token.INT {
			return strconv.ParseInt(x.Value, 0, 64)
		}
	case *ast.ParenExpr:
		return c17Duration(x.X)
	case *ast.SelectorExpr:
		if id, ok := x.X.(*ast.Ident); ok && id.Name == "time" {
			if v, ok := c17TimeUnits[x.Sel.Name]; ok {
				return v, nil
			}
		}
	case *ast.BinaryExpr:
		a, err := c17Duration(x.X)
		if err != nil {
			return 0, err
		}
		b, err := c17Duration(x.Y)
		if err != nil {
			return 0, err
		}
		switch x.Op {
		case token.MUL:
			return a * b, nil
		case token.ADD:
			return a + b, nil
		}
	}
	return 0, fmt.Errorf("not a duration constant expression")
}

func init() {
	register("C17", func(repo string, o *Out) error {
		f, err := Parse(filepath.Join(repo, "caskethttp/httpserver/server.go"))
		if err != nil {
			return err
		}
		e, err := f.VarValue("defaultTimeouts")
		if err != nil {
			return err
		}
		cl, ok := e.(*ast.CompositeLit)
		if !ok {
			return fmt.Errorf("defaultTimeouts: not a composite literal")
		}
		vals := map[string]int64{"ReadTimeout": 0, "ReadHeaderTimeout": 0, "WriteTimeout": 0, "IdleTimeout": 0}
		for _, el := range cl.Elts {
			kv, ok := el.(*ast.KeyValueExpr)
			if !ok {
				return fmt.Errorf("defaultTimeouts: positional element")
			}
			k, ok := kv.Key.(*ast.Ident)
			if !ok {
				return fmt.Errorf("defaultTimeouts: odd key")
			}
			if _, known := vals[k.Name]; !known {
				return fmt.Errorf("defaultTimeouts: field %s is not one of the four modelled timeouts", k.Name)
			}
			v, err := c17Duration(kv.Value)
			if err != nil {
				return fmt.Errorf("defaultTimeouts.%s: %v", k.Name, err)
			}
			vals[k.Name] = v
		}
		b := o.File("Limits")
		fmt.Fprintf(b, "/-- `defaultTimeouts` in caskethttp/httpserver/server.go, nanoseconds: read, read-header, write, idle -/\n")
		fmt.Fprintf(b, "def defaultTimeouts : List Nat := [%d, %d, %d, %d]\n\n", vals["ReadTimeout"], vals["ReadHeaderTimeout"], vals["WriteTimeout"], vals["IdleTimeout"])

		// duration fields of `type Timeouts struct`
		sf, err := Parse(filepath.Join(repo, "caskethttp/httpserver/siteconfig.go"))
		if err != nil {
			return err
		}
		var fields []string
		found := false
		ast.Inspect(sf.f, func(n ast.Node) bool {
			ts, ok := n.(*ast.TypeSpec)
			if !ok || ts.Name.Name != "Timeouts" {
				return true
			}
			st, ok := ts.Type.(*ast.StructType)
			if !ok {
				return true
			}
			found = true
			for _, fl := range st.Fields.List {
				if se, ok := fl.Type.(*ast.SelectorExpr); ok && se.Sel.Name == "Duration" {
					for _, n := range fl.Names {
						fields = append(fields, n.Name)
					}
				}
			}
			return false
		})
		if !found {
			return fmt.Errorf("siteconfig.go: no type Timeouts struct")
		}
		fmt.Fprintf(b, "/-- the time.Duration fields of `type Timeouts struct` (siteconfig.go) -/\ndef timeoutFields : List String := %s\n", LeanStringList(fields))
		return nil
	})
}
