package facts

import (
	"fmt"
	"path/filepath"
)

func init() {
	register("C20", func(repo string, o *Out) error {
		f, err := Parse(filepath.Join(repo, "caskethttp/httpserver/replacer.go"))
		if err != nil {
			return err
		}
		fn, err := f.Func("replacer", "getSubstitution")
		if err != nil {
			return err
		}
		keys := CaseStrings(fn)
		if len(keys) == 0 {
			return fmt.Errorf("replacer.go: getSubstitution has no case labels")
		}
		b := o.File("Replacer")
		fmt.Fprintf(b, "/-- the `case` labels of `switch key` in replacer.getSubstitution (caskethttp/httpserver/replacer.go), in order -/\ndef placeholderKeys : List String := %s\n", LeanStringList(keys))
		return nil
	})
}
