package facts

import (
	"fmt"
	"go/ast"
	"go/token"
	"path/filepath"
)

// Constants of caskethttp/fastcgi/fcgiclient.go used by the wire model (C13).
func init() {
	register("C13", func(repo string, o *Out) error {
		f, err := Parse(filepath.Join(repo, "caskethttp/fastcgi/fcgiclient.go"))
		if err != nil {
			return err
		}
		env := fileConsts(f)
		b := o.File("FCGI")
		for _, c := range []struct{ name, lean string }{{"maxWrite", "fcgiMaxWrite"}, {"maxPad", "fcgiMaxPad"}} {
			v, ok := env[c.name]
			if !ok {
				return fmt.Errorf("fcgiclient.go: no constant %s", c.name)
			}
			fmt.Fprintf(b, "/-- `%s` in caskethttp/fastcgi/fcgiclient.go -/\ndef %s : Nat := %d\n", c.name, c.lean, v)
		}
		// the `iota + 1` blocks: record types (BeginRequest …) and roles (Responder …)
		block := func(first string) ([]string, error) {
			for _, d := range f.f.Decls {
				gd, ok := d.(*ast.GenDecl)
				if !ok || gd.Tok != token.CONST || len(gd.Specs) == 0 {
					continue
				}
				vs := gd.Specs[0].(*ast.ValueSpec)
				if vs.Names[0].Name != first || len(vs.Values) != 1 {
					continue
				}
				be, ok := vs.Values[0].(*ast.BinaryExpr)
				if !ok {
					return nil, fmt.Errorf("%s is not `iota + 1`", first)
				}
				if id, ok := be.X.(*ast.Ident); !ok || id.Name != "iota" || be.Op != token.ADD {
					return nil, fmt.Errorf("%s is not `iota + 1`", first)
				}
				if one, err := IntConst(be.Y, nil); err != nil || one != 1 {
					return nil, fmt.Errorf("%s is not `iota + 1`", first)
				}
				var names []string
				for _, sp := range gd.Specs {
					v := sp.(*ast.ValueSpec)
					if len(v.Values) > 0 && v != vs {
						break // a later explicit value ends the iota run (MaxType = UnknownType)
					}
					names = append(names, v.Names[0].Name)
				}
				return names, nil
			}
			return nil, fmt.Errorf("fcgiclient.go: no const block starting with %s", first)
		}
		types, err := block("BeginRequest")
		if err != nil {
			return err
		}
		want := []string{"BeginRequest", "AbortRequest", "EndRequest", "Params", "Stdin", "Stdout", "Stderr"}
		for i, w := range want {
			if i >= len(types) || types[i] != w {
				return fmt.Errorf("fcgiclient.go: record type %d is not %s", i+1, w)
			}
		}
		vals := make([]int64, len(types))
		for i := range types {
			vals[i] = int64(i + 1)
		}
		fmt.Fprintf(b, "/-- values of the record types %v (iota + 1) -/\ndef fcgiRecordTypes : List Nat := %s\n", types, leanInt64List(vals))
		roles, err := block("Responder")
		if err != nil {
			return err
		}
		if roles[0] != "Responder" {
			return fmt.Errorf("fcgiclient.go: first role is not Responder")
		}
		fmt.Fprintf(b, "def fcgiRoleResponder : Nat := 1\n")
		return nil
	})
}
