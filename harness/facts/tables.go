package facts

import (
	"fmt"
	"path/filepath"
)

func init() {
	register("C03 C09 C12", func(repo string, o *Out) error {
		f, err := Parse(filepath.Join(repo, "caskethttp/httpserver/plugin.go"))
		if err != nil {
			return err
		}
		e, err := f.VarValue("directives")
		if err != nil {
			return err
		}
		ds, err := Strings(e)
		if err != nil {
			return fmt.Errorf("directives: %v", err)
		}
		b := o.File("Directives")
		fmt.Fprintf(b, "/-- `directives` in caskethttp/httpserver/plugin.go, in order -/\ndef directives : List String := %s\n", LeanStringList(ds))
		return nil
	})
	register("C04 C05", func(repo string, o *Out) error {
		f, err := Parse(filepath.Join(repo, "caskethttp/proxy/reverseproxy.go"))
		if err != nil {
			return err
		}
		e, err := f.VarValue("hopHeaders")
		if err != nil {
			return err
		}
		hs, err := Strings(e)
		if err != nil {
			return fmt.Errorf("hopHeaders: %v", err)
		}
		b := o.File("Proxy")
		fmt.Fprintf(b, "/-- `hopHeaders` in caskethttp/proxy/reverseproxy.go -/\ndef hopHeaders : List String := %s\n\n", LeanStringList(hs))
		pf, err := Parse(filepath.Join(repo, "caskethttp/proxy/policy.go"))
		if err != nil {
			return err
		}
		ini, err := pf.Func("", "init")
		if err != nil {
			return err
		}
		names := CallStringArgs(ini, "RegisterPolicy", 0)
		if len(names) == 0 {
			return fmt.Errorf("policy.go: no RegisterPolicy calls in init")
		}
		fmt.Fprintf(b, "/-- policy names registered in caskethttp/proxy/policy.go:init -/\ndef policyNames : List String := %s\n", LeanStringList(names))
		return nil
	})
}
