package facts

import (
	"fmt"
	"go/ast"
	"path/filepath"
	"strings"
)

// LeanBytes prints a Go string as a Lean `List UInt8` literal (with the text in a comment-free form).
func LeanBytes(s string) string {
	parts := make([]string, len(s))
	for i := 0; i < len(s); i++ {
		parts[i] = fmt.Sprint(s[i])
	}
	return "[" + strings.Join(parts, ", ") + "]"
}

// StringPairs returns the elements of a []struct{a, b string}{{"x","y"},…} composite literal.
func StringPairs(e ast.Expr) ([][2]string, error) {
	cl, ok := e.(*ast.CompositeLit)
	if !ok {
		return nil, fmt.Errorf("not a composite literal")
	}
	var out [][2]string
	for _, el := range cl.Elts {
		inner, ok := el.(*ast.CompositeLit)
		if !ok || len(inner.Elts) != 2 {
			return nil, fmt.Errorf("element is not a two-field literal")
		}
		var pair [2]string
		for i, x := range inner.Elts {
			if kv, ok := x.(*ast.KeyValueExpr); ok {
				x = kv.Value
			}
			s, ok := StringLit(x)
			if !ok {
				return nil, fmt.Errorf("non-literal field")
			}
			pair[i] = s
		}
		out = append(out, pair)
	}
	return out, nil
}

func init() {
	// C02 (and C03, which reuses the file-serving model): index pages and the
	// precompressed-sibling priority list of caskethttp/staticfiles/fileserver.go.
	register("C02 C03", func(repo string, o *Out) error {
		f, err := Parse(filepath.Join(repo, "caskethttp/staticfiles/fileserver.go"))
		if err != nil {
			return err
		}
		e, err := f.VarValue("DefaultIndexPages")
		if err != nil {
			return err
		}
		pages, err := Strings(e)
		if err != nil {
			return fmt.Errorf("DefaultIndexPages: %v", err)
		}
		e, err = f.VarValue("staticEncodingPriority")
		if err != nil {
			return err
		}
		encs, err := StringPairs(e)
		if err != nil {
			return fmt.Errorf("staticEncodingPriority: %v", err)
		}
		b := o.File("FileServe")
		fmt.Fprintf(b, "/-- `DefaultIndexPages` in caskethttp/staticfiles/fileserver.go: %s -/\ndef defaultIndexPages : List (List UInt8) := [\n", strings.Join(pages, " "))
		for i, p := range pages {
			sep := ","
			if i == len(pages)-1 {
				sep = ""
			}
			fmt.Fprintf(b, "  %s%s\n", LeanBytes(p), sep)
		}
		fmt.Fprintf(b, "]\n\n/-- `staticEncodingPriority` (Accept-Encoding name, file extension), in priority order:")
		for _, p := range encs {
			fmt.Fprintf(b, " %s/%s", p[0], p[1])
		}
		fmt.Fprintf(b, " -/\ndef staticEncodingPriority : List (List UInt8 × List UInt8) := [\n")
		for i, p := range encs {
			sep := ","
			if i == len(encs)-1 {
				sep = ""
			}
			fmt.Fprintf(b, "  (%s, %s)%s\n", LeanBytes(p[0]), LeanBytes(p[1]), sep)
		}
		fmt.Fprintf(b, "]\n")
		return nil
	})
}
