//go:build verif

// Test-only accessors for the verification harness (/verif), property C06.
// Compiled only with -tags verif and delivered through `go build -overlay`;
// /repo itself does not contain this file.
package caskettls

import (
	"crypto/tls"

	"github.com/caddyserver/certmagic"
)

// VerifTLSConfig returns the tls.Config that buildStandardTLSConfig stored in c.
func VerifTLSConfig(c *Config) *tls.Config { return c.tlsConfig }

// VerifSelfSigned makes an in-memory self-signed certificate for the given names.
func VerifSelfSigned(names []string) (tls.Certificate, error) {
	return newSelfSignedCertificate(selfSignedConfig{SAN: names, KeyType: certmagic.P256})
}
