//go:build verif

// Test-only accessors for the verification harness (/verif), property C16.
// Compiled only with -tags verif and delivered through `go build -overlay`;
// the casket tree itself does not contain this file.
package casket

import "sync"

// VerifC16ExecuteShutdownCallbacks is what the SIGINT/SIGTERM handlers call
// before they exit the process (the os.Exit itself is not reproduced in-process).
func VerifC16ExecuteShutdownCallbacks(signame string) int {
	return executeShutdownCallbacks(signame)
}

// VerifC16Reset puts the process-global lifecycle state back to what a fresh
// process has: no instances, the shutdown once-guard unfired, started false.
func VerifC16Reset() {
	instancesMu.Lock()
	instances = nil
	instancesMu.Unlock()
	shutdownCallbacksOnce = sync.Once{}
	mu.Lock()
	started = false
	mu.Unlock()
}
