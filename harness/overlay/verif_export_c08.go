//go:build verif

// Test-only accessors for the verification harness (/verif), property C08.
// Compiled only with -tags verif and delivered through `go build -overlay`;
// the casket tree itself does not contain this file.
package casket

// VerifC08PurgeEventHooks empties the event-hook registry (a fresh process has none).
func VerifC08PurgeEventHooks() { purgeEventHooks() }

// VerifC08ResetInstances forgets every instance (after the harness stopped them).
func VerifC08ResetInstances() {
	instancesMu.Lock()
	instances = nil
	instancesMu.Unlock()
}
