//go:build verif

package casket

import "sync"

// VerifNewInstance builds the Instance a real Start creates before it calls
// ValidateAndExecuteDirectives(cdyfile, inst, false); nothing is started.
func VerifNewInstance(serverType string) *Instance {
	return &Instance{serverType: serverType, wg: new(sync.WaitGroup), Storage: make(map[interface{}]interface{})}
}
