//go:build verif

package proxy

// VerifParseUpstream is parseUpstream: how the proxy directive's setup turns one upstream address (`to` argument or
// `upstream` line) into host names.
func VerifParseUpstream(u string) ([]string, error) { return parseUpstream(u) }
