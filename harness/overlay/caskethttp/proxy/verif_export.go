//go:build verif

// Test-only accessors for the verification harness (/verif). Compiled only
// with -tags verif and delivered through `go build -overlay`; /repo itself
// does not contain this file.
package proxy

// VerifHosts exposes the host pool of an upstream built by NewStaticUpstreams.
func VerifHosts(u Upstream) HostPool {
	if su, ok := u.(*staticUpstream); ok {
		return su.Hosts
	}
	return nil
}

// VerifSetMaxFails sets max_fails of a static upstream.
func VerifSetMaxFails(u Upstream, n int32) {
	if su, ok := u.(*staticUpstream); ok {
		su.MaxFails = n
	}
}

// VerifRobin reads a round-robin counter; VerifSetRobin writes it.
func VerifRobin(r *RoundRobin) uint32 {
	r.mutex.Lock()
	defer r.mutex.Unlock()
	return r.robin
}

func VerifSetRobin(r *RoundRobin, v uint32) {
	r.mutex.Lock()
	defer r.mutex.Unlock()
	r.robin = v
}

// VerifGlobalRobin is the round-robin policy the header policy falls back to.
func VerifGlobalRobin() *RoundRobin { return &roundRobinPolicier }

// VerifPolicy returns the policy object of a static upstream.
func VerifPolicy(u Upstream) Policy {
	if su, ok := u.(*staticUpstream); ok {
		return su.Policy
	}
	return nil
}
