//go:build verif

// Test-only accessors for the verification harness (/verif): the health-check worker as an actor
// that the harness schedules itself. Compiled only with -tags verif and delivered through
// `go build -overlay`; /repo itself does not contain this file.
package proxy

import "net/http"

// VerifSetHealthCheck configures the health check of a static upstream without starting the
// ticker-driven worker: the path to probe and the transport the probes go through.
func VerifSetHealthCheck(u Upstream, path string, rt http.RoundTripper) {
	if su, ok := u.(*staticUpstream); ok {
		su.HealthCheck.Path = path
		su.HealthCheck.Client = http.Client{Transport: rt}
	}
}

// VerifHealthCheck runs one pass of the real health check over all hosts (what HealthCheckWorker
// does on every tick).
func VerifHealthCheck(u Upstream) {
	if su, ok := u.(*staticUpstream); ok {
		su.healthCheck()
	}
}
