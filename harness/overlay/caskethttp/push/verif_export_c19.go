//go:build verif

// Test-only accessor for the verification harness (/verif), property C19.
package push

// VerifLink is one parsed Link resource.
type VerifLink struct {
	URI    string
	Params map[string]string
}

// VerifParseLinkHeader is parseLinkHeader.
func VerifParseLinkHeader(h string) []VerifLink {
	var out []VerifLink
	for _, r := range parseLinkHeader(h) {
		out = append(out, VerifLink{r.uri, r.params})
	}
	return out
}
