//go:build verif

// Test-only accessors for the verification harness (/verif), properties C13 and C19.
package fastcgi

import "io"

// VerifNewClient is an FCGIClient over a caller-supplied connection
// (what DialWithDialerContext builds around a dialled one).
func VerifNewClient(rwc io.ReadWriteCloser, reqID uint16) *FCGIClient {
	return &FCGIClient{rwc: rwc, keepAlive: false, reqID: reqID}
}

// VerifWritePairs is writePairs.
func (c *FCGIClient) VerifWritePairs(recType uint8, pairs map[string]string) error {
	return c.writePairs(recType, pairs)
}

// VerifStderr is what streamReader diverted to the error log buffer.
func (c *FCGIClient) VerifStderr() []byte { return c.stderr.Bytes() }

// VerifStreamReader is the demultiplexing reader Do returns, without sending a request.
func (c *FCGIClient) VerifStreamReader() io.Reader { return &streamReader{c: c} }

// VerifMaxWrite is the record payload limit.
const VerifMaxWrite = maxWrite
