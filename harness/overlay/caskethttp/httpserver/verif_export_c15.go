//go:build verif

// Test-only accessors for the verification harness (/verif), property C15.
// Compiled only with -tags verif and delivered through `go build -overlay`;
// /repo itself does not contain this file.
package httpserver

import (
	"github.com/tmpim/casket"
)

// VerifC15Configs returns the master list of site configs of an http context.
func VerifC15Configs(ctx casket.Context) []*SiteConfig {
	if h, ok := ctx.(*httpContext); ok {
		return h.siteConfigs
	}
	return nil
}

// VerifC15Context wraps a hand-made list of site configs in an http context.
func VerifC15Context(cfgs []*SiteConfig) casket.Context {
	return &httpContext{siteConfigs: cfgs, keysToSiteConfigs: make(map[string]*SiteConfig)}
}

// VerifC15SetConfigs replaces the master list (what activateHTTPS does with the
// result of makePlaintextRedirects).
func VerifC15SetConfigs(ctx casket.Context, cfgs []*SiteConfig) {
	if h, ok := ctx.(*httpContext); ok {
		h.siteConfigs = cfgs
	}
}

// The pure stages of activateHTTPS, in its order. enableAutoHTTPS is always
// called with loadCertificates=false: no certificate is obtained or loaded.
func VerifC15Mark(cfgs []*SiteConfig)                      { markQualifiedForAutoHTTPS(cfgs) }
func VerifC15Enable(cfgs []*SiteConfig) error              { return enableAutoHTTPS(cfgs, false) }
func VerifC15Redirects(cfgs []*SiteConfig) []*SiteConfig   { return makePlaintextRedirects(cfgs) }
func VerifC15RedirPlaintextHost(c *SiteConfig) *SiteConfig { return redirPlaintextHost(c) }
func VerifC15HostHasOtherPort(cfgs []*SiteConfig, i int, port string) bool {
	return hostHasOtherPort(cfgs, i, port)
}

// VerifC15MakeServers runs the real MakeServers of the context (TLS-off rule
// for explicitly-HTTP sites, default ports, grouping, NewServer; nothing listens).
func VerifC15MakeServers(ctx casket.Context) ([]casket.Server, error) {
	return ctx.(*httpContext).MakeServers()
}

// VerifC15Standardize is standardizeAddress.
func VerifC15Standardize(s string) (Address, error) { return standardizeAddress(s) }

// VerifC15Middleware returns the uncompiled middleware stack of a site.
func VerifC15Middleware(c *SiteConfig) []Middleware { return c.middleware }
