//go:build verif

// Test-only accessors for the verification harness (/verif), property C19.
// Compiled only with -tags verif and delivered through `go build -overlay`.
package httpserver

import (
	"bytes"
	"crypto/tls"
	"net"
	"net/http"

	"github.com/tmpim/casket/caskettls"
)

// VerifParseRawClientHello is parseRawClientHello.
func VerifParseRawClientHello(data []byte) caskettls.ClientHelloInfo {
	return caskettls.ClientHelloInfo(parseRawClientHello(data))
}

// VerifLooksLike runs one of the five heuristics.
func VerifLooksLike(which string, info caskettls.ClientHelloInfo) bool {
	i := rawHelloInfo(info)
	switch which {
	case "firefox":
		return i.looksLikeFirefox()
	case "chrome":
		return i.looksLikeChrome()
	case "edge":
		return i.looksLikeEdge()
	case "safari":
		return i.looksLikeSafari()
	case "tor":
		return i.looksLikeTor()
	case "heartbeat":
		return i.advertisesHeartbeatSupport()
	}
	panic("verif: unknown heuristic " + which)
}

// VerifGetVersion is getVersion.
func VerifGetVersion(ua, name string) float64 { return getVersion(ua, name) }

// VerifHelloListener gives access to the helloInfos of a tlsHelloListener (see VerifTLSHelloListener).
type VerifHelloListener struct{ l *tlsHelloListener }

// Recorded returns the helloInfos entry for a remote address.
func (v *VerifHelloListener) Recorded(addr string) (caskettls.ClientHelloInfo, bool) {
	v.l.helloInfosMu.RLock()
	defer v.l.helloInfosMu.RUnlock()
	i, ok := v.l.helloInfos[addr]
	return caskettls.ClientHelloInfo(i), ok
}

// Handler is the tlsHandler that consults this listener.
func (v *VerifHelloListener) Handler(next http.Handler) http.Handler {
	return &tlsHandler{next: next, listener: v.l}
}

// Listener wraps ln the way Server.Listen does for TLS sites: the returned listener's Accept is
// the real tlsHelloListener.Accept (tee of the ClientHello + tls.Server); Recorded and Handler of
// the returned value consult its helloInfos.
func VerifTLSHelloListener(ln net.Listener, config *tls.Config) (net.Listener, *VerifHelloListener) {
	l := newTLSListener(ln, config)
	return l, &VerifHelloListener{l: l}
}

// VerifHelloBuf returns the ClientHello capture buffer of a connection handed out by
// tlsHelloListener.Accept (nil for anything else).  The harness only compares the pointers of
// successive connections, to report whether bufpool really handed the same buffer out again.
func VerifHelloBuf(c net.Conn) *bytes.Buffer {
	if tc, ok := c.(*tls.Conn); ok {
		c = tc.NetConn()
	}
	if hc, ok := c.(*clientHelloConn); ok {
		return hc.buf
	}
	return nil
}
