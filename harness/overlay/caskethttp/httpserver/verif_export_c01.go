//go:build verif

// Test-only accessors for the verification harness (/verif), property C01.
// Compiled only with -tags verif and delivered through `go build -overlay`;
// /repo itself does not contain this file.
package httpserver

// VerifVHostTrie is a handle on an otherwise unexported vhostTrie.
type VerifVHostTrie struct {
	t     *vhostTrie
	sites []*SiteConfig
}

// VerifNewVHostTrie returns an empty trie (newVHostTrie).
func VerifNewVHostTrie() *VerifVHostTrie { return &VerifVHostTrie{t: newVHostTrie()} }

// Insert adds a fresh site under key and returns its index.
func (v *VerifVHostTrie) Insert(key string) int {
	sc := &SiteConfig{}
	v.sites = append(v.sites, sc)
	v.t.Insert(key, sc)
	return len(v.sites) - 1
}

// Match returns the index of the matched site (-1: none) and the matched path prefix.
func (v *VerifVHostTrie) Match(key string) (int, string) {
	sc, p := v.t.Match(key)
	if sc == nil {
		return -1, p
	}
	for i, s := range v.sites {
		if s == sc {
			return i, p
		}
	}
	return -2, p
}

// VerifStandardizeAddress exposes standardizeAddress followed by Normalize.
func VerifStandardizeAddress(s string) (Address, error) {
	a, err := standardizeAddress(s)
	if err != nil {
		return a, err
	}
	return a.Normalize(), nil
}

// VerifC01ServerSites returns the site configs a Server was built from (NewServer's group), in order.
func VerifC01ServerSites(s *Server) []*SiteConfig { return s.sites }

// VerifC01PrependMiddleware puts m in front of the site's middleware stack (the outermost handler).
func VerifC01PrependMiddleware(c *SiteConfig, m Middleware) {
	c.middleware = append([]Middleware{m}, c.middleware...)
}
