//go:build verif

// Test-only accessor for the verification harness (/verif). Compiled only with -tags verif and
// delivered through `go build -overlay`; /repo itself does not contain this file.
package httpserver

// VerifSites returns the site configurations a server was built from.
func VerifSites(s *Server) []*SiteConfig { return s.sites }
