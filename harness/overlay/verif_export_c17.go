//go:build verif

// Test-only accessor for the verification harness (/verif), property C17. Compiled only with
// -tags verif and delivered through `go build -overlay`; /repo does not contain this file.
package casket

// VerifListenerServers returns the servers of a started instance, so that the effective
// http.Server settings of a listener shared by several sites can be read.
func VerifListenerServers(i *Instance) []Server {
	out := make([]Server, 0, len(i.servers))
	for _, s := range i.servers {
		out = append(out, s.server)
	}
	return out
}
