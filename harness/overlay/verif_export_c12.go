//go:build verif

// Test-only accessor for the verification harness (/verif). Compiled only with
// -tags verif and delivered through `go build -overlay`; /repo does not contain this file.
package casket

// VerifServers returns the servers of a started instance (to call their handlers in-process).
func VerifServers(i *Instance) []Server {
	out := make([]Server, 0, len(i.servers))
	for _, s := range i.servers {
		out = append(out, s.server)
	}
	return out
}
