//go:build verif

// Test-only entry point for the verification harness (/verif), property C15.
// Compiled only with -tags verif and delivered through `go build -overlay`;
// /repo itself does not contain this file.
package casket

import (
	"bytes"
	"fmt"
	"sync"
)

// VerifC15Load runs the front end of Start on a Casketfile — loadServerBlocks,
// Context.InspectServerBlocks and every directive's setup function in directive
// order — exactly like ValidateAndExecuteDirectives(…, justValidate=true) does
// (parsing callbacks are NOT run, so nothing contacts a CA), and hands back the
// private instance it built so that the caller can look at the context.
// The caller must call inst.ShutdownCallbacks() when done (stops the certificate
// cache goroutine of the instance).
func VerifC15Load(cdyfile Input) (*Instance, Context, error) {
	inst := &Instance{serverType: cdyfile.ServerType(), wg: new(sync.WaitGroup), Storage: make(map[interface{}]interface{})}
	stypeName := cdyfile.ServerType()
	stype, err := getServerType(stypeName)
	if err != nil {
		return inst, nil, err
	}
	inst.casketfileInput = cdyfile
	sblocks, err := loadServerBlocks(stypeName, cdyfile.Path(), bytes.NewReader(cdyfile.Body()))
	if err != nil {
		return inst, nil, fmt.Errorf("parse: %v", err)
	}
	inst.context = stype.NewContext(inst)
	if inst.context == nil {
		return inst, nil, fmt.Errorf("server type %s produced a nil Context", stypeName)
	}
	sblocks, err = inst.context.InspectServerBlocks(cdyfile.Path(), sblocks)
	if err != nil {
		return inst, inst.context, fmt.Errorf("inspect: %v", err)
	}
	err = executeDirectives(inst, cdyfile.Path(), stype.Directives(), sblocks, true)
	if err != nil {
		return inst, inst.context, fmt.Errorf("directives: %v", err)
	}
	return inst, inst.context, nil
}

// VerifC15RunParsingCallbacks runs the parsing callbacks registered for directive dir
// of the instance's server type (RegisterParsingCallback), in registration order, on the
// instance's context — what executeDirectives does after the last setup function of dir.
func VerifC15RunParsingCallbacks(inst *Instance, dir string) error {
	if allCallbacks, ok := parsingCallbacks[inst.serverType]; ok {
		for _, callback := range allCallbacks[dir] {
			if err := callback(inst.context); err != nil {
				return err
			}
		}
	}
	return nil
}
