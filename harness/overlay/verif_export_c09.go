//go:build verif

// Test-only accessor for the verification harness (/verif). Compiled only with -tags verif and
// delivered through `go build -overlay`; /repo itself does not contain this file.
package casket

// VerifServer returns the server behind a listener of a started instance.
func VerifServer(sl ServerListener) Server { return sl.server }
