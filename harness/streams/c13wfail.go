//go:build c13

package streams

import (
	"errors"
	"strconv"

	"github.com/tmpim/casket/caskethttp/fastcgi"

	"verifharness/hx"
)

// c13.wfail: FCGIClient.Do over a connection that stops accepting writes.  The client has no retry
// path: rwc.Write is called once per record and its error is returned up (and latched by bufio).
// Observed: the bytes the connection accepted before it broke.

type breakingConn struct {
	accepted []byte
	calls    int
	failAt   int
	failed   int
}

func (c *breakingConn) Read(b []byte) (int, error) { return 0, errors.New("broken") }
func (c *breakingConn) Write(b []byte) (int, error) {
	c.calls++
	if c.calls >= c.failAt {
		c.failed++
		return 0, errors.New("write: connection reset by peer")
	}
	c.accepted = append(c.accepted, b...)
	return len(b), nil
}
func (c *breakingConn) Close() error { return nil }

func init() {
	hx.Register(&hx.Stream{ID: "C13", Name: "c13.wfail",
		Gen: func(g *hx.Gen) {
			r := g.Rng
			mw := fastcgi.VerifMaxWrite
			type conv struct {
				pairs, body, rk string
				records      int
			}
			convs := []conv{
				{"3:4:1", "5:2", "w", 5},
				{"", "0:0", "n", 3},
				{strconv.Itoa(mw-100) + ":50:1", strconv.Itoa(2*mw+5) + ":3", "r4096", 7},
				{"x41=42", strconv.Itoa(mw) + ":1", "w", 5},
				{"x41=42", strconv.Itoa(mw+1) + ":1", "r333", 6},
			}
			for _, c := range convs {
				for k := 1; k <= c.records+1; k++ {
					g.Case("1", c.pairs, c.body, c.rk, strconv.Itoa(k))
				}
			}
			n := 40
			if g.Thorough() {
				n = 1500
			}
			for i := 0; i < n; i++ {
				body := strconv.Itoa(hx.Pick(r, []int{0, 7, mw - 1, mw, mw + 1, 3 * mw})) + ":" + strconv.Itoa(r.Intn(26))
				rk := hx.Pick(r, []string{"w", "r1000", "r70000"})
				g.Case(strconv.Itoa(1+r.Intn(9)), strconv.Itoa(1+r.Intn(300))+":"+strconv.Itoa(r.Intn(400))+":"+strconv.Itoa(r.Intn(26)), body, rk, strconv.Itoa(1+r.Intn(8)))
			}
		},
		Eval: func(f []string) (string, []string) {
			id, _ := strconv.Atoi(f[0])
			names, m := c13ParsePairs(f[1])
			body := c13ParseBody(f[2])
			failAt, _ := strconv.Atoi(f[4])
			if len(names) > 1 {
				return "bad-case:one pair at most", nil
			}
			conn := &breakingConn{failAt: failAt}
			doErr := false
			out := c13Guard(func() string {
				c := fastcgi.VerifNewClient(conn, uint16(id))
				_, err := c.Do(m, c13BodyReader(body, f[3]))
				doErr = err != nil
				return hx.H(conn.accepted)
			})
			tags := []string{}
			switch {
			case conn.failed == 0:
				tags = append(tags, "trivial-never-failed")
			case doErr:
				tags = append(tags, "failure-reported-by-Do")
			default:
				tags = append(tags, "failure-in-stdin-or-a-Close:not-reported-by-Do")
			}
			return out, tags
		}})
}
