//go:build c19

package streams

import (
	"bufio"
	"crypto/ecdsa"
	"crypto/elliptic"
	"crypto/rand"
	"crypto/tls"
	"crypto/x509"
	"crypto/x509/pkix"
	"fmt"
	"io"
	"math/big"
	"net"
	"net/http"
	"strconv"
	"strings"
	"sync"
	"time"

	"github.com/tmpim/casket/caskethttp/httpserver"

	"verifharness/hx"
)

// c19.handshake: a real crypto/tls client and the real tlsHelloListener.Accept + tls.Server +
// net/http server + tlsHandler, over an in-memory connection whose client→server bytes are
// delivered in prescribed pieces.  This is the runtime part the Lean model of clientHelloConn
// abstracts (how crypto/tls calls Read); it is explored, not proved.
//   case: cuts (sizes of the pieces of the first flight; the rest arrives as written), ua
//   out:  same | differs:<split>|<whole> | PANIC… | err:…      (model: always "same")

var (
	c19CertOnce sync.Once
	c19Cert     tls.Certificate
)

func c19TLSCert() tls.Certificate {
	c19CertOnce.Do(func() {
		key, _ := ecdsa.GenerateKey(elliptic.P256(), rand.Reader)
		tmpl := &x509.Certificate{SerialNumber: big.NewInt(1), Subject: pkix.Name{CommonName: "example.test"},
			NotBefore: time.Now().Add(-time.Hour), NotAfter: time.Now().Add(24 * time.Hour), DNSNames: []string{"example.test"},
			KeyUsage: x509.KeyUsageDigitalSignature, ExtKeyUsage: []x509.ExtKeyUsage{x509.ExtKeyUsageServerAuth}}
		der, _ := x509.CreateCertificate(rand.Reader, tmpl, tmpl, &key.PublicKey, key)
		c19Cert = tls.Certificate{Certificate: [][]byte{der}, PrivateKey: key}
	})
	return c19Cert
}

// pipeListener hands out the server ends of in-memory connections.
type pipeListener struct {
	ch   chan net.Conn
	done chan struct{}
	once sync.Once
}

func (l *pipeListener) Accept() (net.Conn, error) {
	select {
	case c := <-l.ch:
		return c, nil
	case <-l.done:
		return nil, io.EOF
	}
}
func (l *pipeListener) Close() error   { l.once.Do(func() { close(l.done) }); return nil }
func (l *pipeListener) Addr() net.Addr { return c19Addr("pipe") }

// cutWriter delivers the first bytes written in pieces of the given sizes (net.Pipe hands each
// Write to the reader as one delivery), everything after as written.
type cutWriter struct {
	net.Conn
	cuts []int
}

func (c *cutWriter) Write(b []byte) (int, error) {
	n := 0
	for len(b) > 0 {
		k := len(b)
		if len(c.cuts) > 0 {
			if c.cuts[0] < k {
				k = c.cuts[0]
			}
			c.cuts = c.cuts[1:]
			if k <= 0 {
				continue
			}
		}
		m, err := c.Conn.Write(b[:k])
		n += m
		if err != nil {
			return n, err
		}
		b = b[k:]
	}
	return n, nil
}

// c19Handshake runs one full handshake + request; returns the recorded hello and the mitm verdict.
func c19Handshake(cuts []int, ua string) (string, error) {
	pl := &pipeListener{ch: make(chan net.Conn, 1), done: make(chan struct{})}
	cfg := &tls.Config{Certificates: []tls.Certificate{c19TLSCert()}}
	ln, v := httpserver.VerifTLSHelloListener(pl, cfg)
	verdict := "unchecked"
	recorded := "-"
	var mu sync.Mutex
	next := http.HandlerFunc(func(w http.ResponseWriter, r *http.Request) {
		mu.Lock()
		defer mu.Unlock()
		if info, ok := v.Recorded(r.RemoteAddr); ok {
			recorded = c19ShowInfo(info)
		}
		if m, ok := r.Context().Value(httpserver.MitmCtxKey).(bool); ok {
			verdict = "checked:" + strconv.FormatBool(m)
		}
		w.Write([]byte("ok"))
	})
	srv := &http.Server{Handler: v.Handler(next), ErrorLog: nil}
	go srv.Serve(ln)
	defer srv.Close()

	cli, srvSide := net.Pipe()
	pl.ch <- srvSide
	cli.SetDeadline(time.Now().Add(20 * time.Second))
	pool := x509.NewCertPool()
	leaf, _ := x509.ParseCertificate(c19TLSCert().Certificate[0])
	pool.AddCert(leaf)
	tc := tls.Client(&cutWriter{Conn: cli, cuts: append([]int(nil), cuts...)}, &tls.Config{ServerName: "example.test", RootCAs: pool})
	defer cli.Close() // not tc.Close(): close_notify would wait for a reader that is gone
	if err := tc.Handshake(); err != nil {
		return "", fmt.Errorf("handshake: %v", err)
	}
	fmt.Fprintf(tc, "GET / HTTP/1.1\r\nHost: example.test\r\nUser-Agent: %s\r\nConnection: close\r\n\r\n", ua)
	resp, err := http.ReadResponse(bufio.NewReader(tc), nil)
	if err != nil {
		return "", fmt.Errorf("response: %v", err)
	}
	io.Copy(io.Discard, resp.Body)
	mu.Lock()
	defer mu.Unlock()
	return recorded + " " + verdict, nil
}

func init() {
	hx.Register(&hx.Stream{ID: "C19", Name: "c19.handshake",
		Gen: func(g *hx.Gen) {
			r := g.Rng
			uas := []string{c19UAs[0], c19UAs[2], c19UAs[5], "curl/8"}
			// single cuts around the record header and a sweep through the hello; then random multi-cuts
			for _, c := range []int{1, 2, 4, 5, 6, 7, 9, 20, 43, 44, 100, 200} {
				g.Case(strconv.Itoa(c), hx.HS(hx.Pick(r, uas)))
			}
			n := 25
			if g.Thorough() {
				n = 3000
			}
			for i := 0; i < n; i++ {
				var cs []string
				for k := 1 + r.Intn(5); k > 0; k-- {
					cs = append(cs, strconv.Itoa(1+r.Intn(hx.Pick(r, []int{6, 60, 300}))))
				}
				g.Case(strings.Join(cs, ","), hx.HS(hx.Pick(r, uas)))
			}
		},
		Eval: func(f []string) (string, []string) {
			cuts, ua := c19ParseCuts(f[0]), hx.UnHS(f[1])
			out := c19Guard(func() string {
				split, err := c19Handshake(cuts, ua)
				if err != nil {
					return "err:" + err.Error()
				}
				whole, err := c19Handshake(nil, ua)
				if err != nil {
					return "err:" + err.Error()
				}
				if !strings.HasPrefix(whole, "v=") {
					return "err:nothing recorded for the unsplit hello: " + whole
				}
				if split != whole {
					return "differs:" + split + "|" + whole
				}
				return "same"
			})
			return out, c19Tags(out, "pieces="+strconv.Itoa(min(len(cuts), 5)))
		}})
}
