//go:build c11

package streams

import (
	"fmt"
	"os"
	"path/filepath"
	"strings"
	"time"

	"github.com/tmpim/casket/caskethttp/basicauth"

	"verifharness/hx"
)

// c11.htcache — the TIE for Model/HtCacheLock.lean: a history of calls of the real basicauth.GetHtpasswdMatcher (what
// the basicauth setup calls for `htpasswd=<file>`) and of changes to the files, in one process.
//
//	c11.htcache  basicauth  ops
//
//	ops   comma list:  g<f><u>  call for file f (0|1) and user u (b = bob, a = alice, z = nobody)
//	                   A<f> write a file listing bob    B<f> write a file listing bob and alice    M<f> write a malformed file
//	                   R<f> remove    D<f> a directory in the file's place    T<f> same contents, later modification time
//	out   the outcomes of the calls, comma separated:  ok | eopen | eparse | enouser | eother:<msg>
//	      or, instead, TIMEOUT:op<i> (the call did not return within the watchdog) / PANIC:op<i>:<msg>
//
// Runs in the worker process like the search streams (a call that blocks keeps the package mutex for good).

var c11HtContents = map[byte]string{
	'A': "bob:{SHA}W6ph5Mm5Pz8GgiULbPgzG37mj9g=\n",
	'B': "bob:{SHA}W6ph5Mm5Pz8GgiULbPgzG37mj9g=\n# second user\nalice:{SHA}W6ph5Mm5Pz8GgiULbPgzG37mj9g=\n",
	'M': "no colon here\n",
}

var c11HtUsers = map[byte]string{'b': "bob", 'a': "alice", 'z': "nobody"}

func c11HtEval(f []string) (string, []string) {
	if len(f) != 2 {
		return "bad-case", nil
	}
	if !c11IsWorker() {
		return c11Isolated("c11.htcache", f, 2, "SKIPPED")
	}
	return c11InWorker(c11HtLocal, f)
}

func c11HtLocal(f []string) (string, []string) {
	c11MutSeq++
	base := filepath.Join(c11Tmp, fmt.Sprintf("ht-%d-%d", os.Getpid(), c11MutSeq))
	if err := os.Mkdir(base, 0o755); err != nil {
		panic("c11.htcache: " + err.Error())
	}
	defer os.RemoveAll(base)
	name := func(c byte) string { return filepath.Join(base, "htpasswd"+string(c)) }
	var outs []string
	calls, touched := 0, 0
	tags := []string{"dir=basicauth"}
	if f[1] == "" {
		return "", append(tags, "trivial-no-call")
	}
	for i, op := range strings.Split(f[1], ",") {
		if len(op) < 2 || (op[1] != '0' && op[1] != '1') {
			return "bad-case", nil
		}
		p := name(op[1])
		switch op[0] {
		case 'g':
			if len(op) != 3 || c11HtUsers[op[2]] == "" {
				return "bad-case", nil
			}
			calls++
			c11Loads++
			type res struct {
				err error
				pan interface{}
			}
			ch := make(chan res, 1)
			go func() {
				defer func() {
					if r := recover(); r != nil {
						ch <- res{pan: r}
					}
				}()
				_, err := basicauth.GetHtpasswdMatcher(p, c11HtUsers[op[2]], "")
				ch <- res{err: err}
			}()
			select {
			case r := <-ch:
				switch {
				case r.pan != nil:
					return fmt.Sprintf("PANIC:op%d:%s", i, strings.ReplaceAll(strings.SplitN(fmt.Sprint(r.pan), "\n", 2)[0], base, "@M@")), tags
				case r.err == nil:
					outs = append(outs, "ok")
				case strings.HasPrefix(r.err.Error(), "open "):
					outs = append(outs, "eopen")
				case strings.HasPrefix(r.err.Error(), "parsing htpasswd"):
					outs = append(outs, "eparse")
				case strings.HasPrefix(r.err.Error(), "username "):
					outs = append(outs, "enouser")
				default:
					outs = append(outs, "eother:"+strings.NewReplacer(base, "@M@", ",", ";").Replace(r.err.Error()))
				}
			case <-time.After(c11Watchdog):
				return fmt.Sprintf("TIMEOUT:op%d", i), tags
			}
		case 'A', 'B', 'M':
			os.RemoveAll(p)
			if err := os.WriteFile(p, []byte(c11HtContents[op[0]]), 0o644); err != nil {
				panic("c11.htcache: " + err.Error())
			}
		case 'R':
			os.RemoveAll(p)
		case 'D':
			os.RemoveAll(p)
			os.Mkdir(p, 0o755)
		case 'T':
			if fi, err := os.Stat(p); err == nil && fi.Mode().IsRegular() {
				touched++
				t := time.Now().Add(time.Duration(touched) * time.Hour)
				os.Chtimes(p, t, t)
			}
		default:
			return "bad-case", nil
		}
	}
	switch {
	case calls == 0:
		tags = append(tags, "trivial-no-call")
	case calls == 1:
		tags = append(tags, "calls=1")
	default:
		tags = append(tags, "calls=2+")
	}
	seen := map[string]bool{}
	for _, o := range outs {
		if !seen[o] && !strings.HasPrefix(o, "eother") {
			seen[o] = true
			tags = append(tags, "res="+o)
		}
	}
	return strings.Join(outs, ","), tags
}

func c11HtGen(g *hx.Gen) {
	alpha := []string{"g0b", "g0a", "g0z", "A0", "B0", "M0", "R0", "D0", "T0"}
	maxLen := 4
	if g.Thorough() {
		maxLen = 5
	}
	level := []string{""}
	for n := 1; n <= maxLen; n++ {
		var next []string
		for _, p := range level {
			for _, a := range alpha {
				s := a
				if p != "" {
					s = p + "," + a
				}
				next = append(next, s)
				g.Case("basicauth", s)
			}
		}
		level = next
	}
	// longer histories over two files
	r := g.Rng
	both := []string{"g0b", "g0a", "g0z", "g1b", "g1a", "A0", "B0", "M0", "R0", "D0", "T0", "A1", "B1", "M1", "R1", "D1", "T1", "g0b", "g1b", "g0a"}
	N := 2500
	if g.Thorough() {
		N = 40000
	}
	for i := 0; i < N; i++ {
		var ops []string
		for k := 5 + r.Intn(10); k > 0; k-- {
			ops = append(ops, hx.Pick(r, both))
		}
		g.Case("basicauth", strings.Join(ops, ","))
	}
}

// registered in c11reload.go, after c11.reload: a failure shows first as a Casketfile that does not load
