//go:build c05

package streams

import (
	"bytes"
	"context"
	"errors"
	"fmt"
	"io"
	"net/http"
	"net/http/httptest"
	"strconv"
	"strings"
	"sync"
	"sync/atomic"
	"time"

	"github.com/tmpim/casket/casketfile"
	"github.com/tmpim/casket/caskethttp/httpserver"
	"github.com/tmpim/casket/caskethttp/proxy"

	"verifharness/hx"
)

// c05.retry  kind robin keyhex hosts maxConns maxFails tryDuration interval failTimeout bodyLen framing events [layout]
//   layout (optional 13th field, see c04_layout.go): backends on the directive line / on `upstream` lines / mixed, the
//          six settings lines of the block in the given order
//   framing  cl: Content-Length = bodyLen (0 = http.NoBody) | chunked: ContentLength -1, TransferEncoding chunked, non-nil Body
//            (what net/http hands a handler for a chunked upload, also when the body turns out empty) | nil: Body nil
//   hosts  comma list of u/c/script[/f] : the state of the backend WHEN THE REQUEST ARRIVES: u 1 = marked unhealthy;
//          c = in-flight count of other requests; f = failures already on record (Fails; they do not expire while the
//          request is served; default 0; f >= max_fails = the backend is out of rotation);
//          script = outcome of the successive attempts on that host, last repeats:
//          K answers, H fails before reading the body and a health-check pass that finds every backend alive runs
//          before the next Select (a flapping backend: passes /health, fails requests), F fails before reading the body, R fails after reading it, C context.Canceled, T ErrMaxBytesExceeded
//   events - or comma list of a>j=u/c/f : the state of backends changes while the request is served: when attempt
//          number a of the request (0-based, counted over all backends) starts (inside its RoundTrip), backend j is given
//          health flag u, c in-flight requests of others and f failures on record — a backend that comes back into
//          rotation (health check passed, failure expired, connection slot freed) or goes away between two attempts.
//          A case of 11 fields has no events.
//   durations in milliseconds
//   out    <ok|502|499|413> TAB <host:body,...>   body = none|full|empty|partial|unread
//
// The real code path: proxy.NewStaticUpstreams (Casketfile) -> proxy.Proxy.ServeHTTP (the retry loop, real clock,
// real Select, real bufferedBody) with each backend's transport replaced by a scripted one.
// Only timing-insensitive cases are generated: an attempt is instantaneous, recorded failures outlive the loop
// (fail_timeout >> try_duration) or are not recorded at all with try_duration = 0.

// the part of a backend's state that belongs to other requests / the health checker
type c05HostState struct {
	u bool
	c int64
	f int32
}

type c05RetryEvent struct {
	at, host int
	st       c05HostState
}

// shared by the transports of one case; guarded by the transports' mutex
type c05RetryEnv struct {
	pool     []*proxy.UpstreamHost
	cur      []c05HostState // what the case (arrival) and the events so far have given each backend
	events   []c05RetryEvent
	attempts int
	fired    int
}

// the events of the attempt that starts now; counters are moved by the difference, so the request's own
// in-flight count and recorded failures stay what the proxy made them
func (e *c05RetryEnv) attemptStarts() {
	n := e.attempts
	e.attempts++
	for _, ev := range e.events {
		if ev.at != n || ev.host < 0 || ev.host >= len(e.pool) {
			continue
		}
		h, cur := e.pool[ev.host], &e.cur[ev.host]
		var u int32
		if ev.st.u {
			u = 1
		}
		atomic.StoreInt32(&h.Unhealthy, u)
		atomic.AddInt64(&h.Conns, ev.st.c-cur.c)
		atomic.AddInt32(&h.Fails, ev.st.f-cur.f)
		*cur = ev.st
		e.fired++
	}
}

type c05RetryTransport struct {
	env *c05RetryEnv
	// afterFail: the health-check worker runs a pass (every backend passes its probe) once this
	// attempt's failure has been recorded, i.e. during the try_interval sleep before the next Select
	afterFail func(failsBefore int32)
	// between: another request with a body of the same length and other content is proxied (by another proxy
	// block of the same server, retries enabled, so it is buffered too) after this failed attempt has closed
	// the request body and before the next attempt starts, i.e. during the try_interval wait
	between func()
	start   *time.Time
	stamps *[]time.Duration
	idx    int
	script string
	calls  int
	want   []byte
	mu     *sync.Mutex
	log    *[]string
}

func (t *c05RetryTransport) RoundTrip(req *http.Request) (*http.Response, error) {
	t.mu.Lock()
	defer t.mu.Unlock()
	if t.env != nil {
		t.env.attemptStarts()
	}
	n := t.calls
	t.calls++
	o := byte('K')
	if len(t.script) > 0 {
		if n >= len(t.script) {
			n = len(t.script) - 1
		}
		o = t.script[n]
	}
	body := "none"
	if req.Body != nil && req.Body != http.NoBody {
		switch o {
		case 'K', 'R':
			b, _ := io.ReadAll(req.Body)
			switch {
			case bytes.Equal(b, t.want):
				body = "full"
			case len(b) == 0:
				body = "empty"
			default:
				body = "partial"
			}
		default:
			body = "unread"
		}
	}
	*t.log = append(*t.log, fmt.Sprintf("%d:%s", t.idx, body))
	if t.start != nil {
		*t.stamps = append(*t.stamps, time.Since(*t.start))
	}
	// the RoundTripper contract, kept by http.Transport: the request body is closed after every attempt,
	// a failed one included
	if req.Body != nil {
		req.Body.Close()
	}
	if o != 'K' && t.between != nil {
		t.between()
	}
	switch o {
	case 'K':
		return &http.Response{StatusCode: 200, Proto: "HTTP/1.1", ProtoMajor: 1, ProtoMinor: 1, Header: http.Header{},
			Body: io.NopCloser(strings.NewReader("ok")), ContentLength: 2, Request: req}, nil
	case 'H':
		if t.afterFail != nil {
			go t.afterFail(atomic.LoadInt32(&t.env.pool[t.idx].Fails))
		}
	case 'C':
		return nil, context.Canceled
	case 'T':
		return nil, httpserver.ErrMaxBytesExceeded
	}
	return nil, errors.New("scripted backend failure")
}

// Cases with a try_interval of 150 ms or more probe the timing side condition with the real clock. Every delay
// in the loop is a sleep of try_interval and attempts are instantaneous, so every attempt should start a little
// after a multiple of try_interval; a run in which one starts more than 60 ms late (machine under load) is not
// a faithful replay of the abstract-time model and is repeated (up to five times).
//
// Cases with events and a short window (try_duration < 1 s; the ones that may end with nobody in rotation, so that the
// loop waits for the window to pass) expect every attempt within a few try_intervals of 1 ms after the arrival; a run
// in which an attempt starts later than a third of the window is repeated likewise.
func c05RetryEval(f []string) (string, []string) {
	if len(f) == 11 {
		f = append(append([]string{}, f...), "-")
	}
	out, tags, stamps := c05RetryOnce(f)
	if len(f) != 12 && len(f) != 13 {
		return out, tags
	}
	interval, _ := strconv.Atoi(f[7])
	if window, _ := strconv.Atoi(f[6]); interval < 150 && f[11] != "-" && window > 0 && window < 1000 {
		for try := 0; try < 5; try++ {
			late := false
			for _, st := range stamps {
				if st > time.Duration(window)*time.Millisecond/3 {
					late = true
				}
			}
			if !late {
				return out, tags
			}
			out, tags, stamps = c05RetryOnce(f)
		}
		return "timing-unreliable\t" + out, append(tags, "timing-unreliable")
	}
	if interval < 150 {
		return out, tags
	}
	for try := 0; try < 5; try++ {
		late := false
		for _, st := range stamps {
			if st%(time.Duration(interval)*time.Millisecond) > 60*time.Millisecond {
				late = true
			}
		}
		if !late {
			return out, append(tags, "timing-boundary")
		}
		out, tags, stamps = c05RetryOnce(f)
	}
	return "timing-unreliable\t" + out, append(tags, "timing-unreliable")
}

func c05RetryOnce(f []string) (string, []string, []time.Duration) {
	out, tags, stamps := c05RetryRun(f)
	return out, tags, stamps
}

func c05RetryRun(f []string) (string, []string, []time.Duration) {
	var stamps []time.Duration
	start := time.Now()
	out, tags := c05RetryEvalAt(f, &start, &stamps)
	return out, tags, stamps
}

func c05RetryBlock(n int, policy, mc, mf, d, i, f string) ([]string, []blkLine) {
	backends := make([]string, n)
	for j := range backends {
		backends[j] = fmt.Sprintf("h%d.test:80", j)
	}
	return backends, []blkLine{{"", " policy " + policy + "\n"}, {"", " max_conns " + mc + "\n"}, {"", " max_fails " + mf + "\n"},
		{"", " try_duration " + d + "ms\n"}, {"", " try_interval " + i + "ms\n"}, {"", " fail_timeout " + f + "ms\n"}}
}

func c05RetryEvalAt(f []string, start *time.Time, stamps *[]time.Duration) (string, []string) {
	if len(f) == 11 {
		f = append(append([]string{}, f...), "-")
	}
	lay := ""
	if len(f) == 13 {
		lay = f[12]
		f = f[:12]
	}
	if len(f) != 12 {
		return "bad-case", nil
	}
	framing := f[10]
	if framing != "cl" && framing != "chunked" && framing != "nil" {
		return "bad-case", nil
	}
	kind, robinS, keyS, hostsS := f[0], f[1], f[2], f[3]
	hosts := strings.Split(hostsS, ",")
	policy := kind
	bodyLen, _ := strconv.Atoi(f[9])
	backends, lines := c05RetryBlock(len(hosts), policy, f[4], f[5], f[6], f[7], f[8])
	cfg, ok := blkWrite("proxy /", backends, lines, lay)
	if !ok {
		return "bad-case:layout", nil
	}
	ups, err := proxy.NewStaticUpstreams(casketfile.NewDispenser("Testfile", strings.NewReader(cfg)), "")
	if err != nil || len(ups) != 1 {
		return fmt.Sprintf("setup-error:%v", err), nil
	}
	up := ups[0]
	defer up.Stop()
	pool := proxy.VerifHosts(up)
	if len(pool) != len(hosts) {
		return "setup-error:pool", nil
	}
	proxy.VerifSetHealthCheck(up, "/health", c05HealthOK{})
	body := c05RetryBody(bodyLen)
	var mu sync.Mutex
	var log []string
	anyUnhealthy, anyFail := false, false
	env := &c05RetryEnv{pool: pool, cur: make([]c05HostState, len(pool))}
	if f[11] != "-" && f[11] != "" {
		for _, es := range strings.Split(f[11], ",") {
			var ev c05RetryEvent
			var u int
			if n, err := fmt.Sscanf(es, "%d>%d=%d/%d/%d", &ev.at, &ev.host, &u, &ev.st.c, &ev.st.f); n != 5 || err != nil || ev.at < 0 || ev.host < 0 || ev.st.c < 0 || ev.st.f < 0 {
				return "bad-case", nil
			}
			ev.st.u = u != 0
			env.events = append(env.events, ev)
		}
	}
	between, stopOther := c05OtherRequest(body)
	defer stopOther()
	outAtArrival := make([]bool, len(hosts))
	nOut := 0
	for i, hs := range hosts {
		p := strings.Split(hs, "/")
		if len(p) != 3 && len(p) != 4 {
			return "bad-case", nil
		}
		c, _ := strconv.ParseInt(p[1], 10, 64)
		pool[i].Conns = c
		if p[0] != "0" {
			atomic.StoreInt32(&pool[i].Unhealthy, 1)
			anyUnhealthy = true
		}
		var fails int64
		if len(p) == 4 {
			var err error
			if fails, err = strconv.ParseInt(p[3], 10, 32); err != nil || fails < 0 {
				return "bad-case", nil
			}
			atomic.StoreInt32(&pool[i].Fails, int32(fails))
		}
		env.cur[i] = c05HostState{u: p[0] != "0", c: c, f: int32(fails)}
		if !pool[i].Available() {
			outAtArrival[i] = true
			nOut++
		}
		if strings.ContainsAny(p[2], "FRH") {
			anyFail = true
		}
		host := pool[i]
		pool[i].ReverseProxy.Transport = &c05RetryTransport{env: env, idx: i, script: p[2], want: body, mu: &mu, log: &log, start: start, stamps: stamps, between: between,
			afterFail: func(failsBefore int32) {
				// wait until the loop has recorded the failure, then let the real health check run once
				deadline := time.Now().Add(time.Second)
				for atomic.LoadInt32(&host.Fails) <= failsBefore && time.Now().Before(deadline) {
					time.Sleep(50 * time.Microsecond)
				}
				proxy.VerifHealthCheck(up)
			}}
	}
	robin, _ := strconv.ParseUint(robinS, 10, 32)
	key := hx.UnHS(keyS)
	req := httptest.NewRequest("POST", "http://front.test/", nil)
	switch framing {
	case "cl":
		if bodyLen > 0 {
			req.Body = io.NopCloser(bytes.NewReader(body))
			req.ContentLength = int64(bodyLen)
		}
	case "chunked":
		req.Body = io.NopCloser(bytes.NewReader(body))
		req.ContentLength = -1
		req.TransferEncoding = []string{"chunked"}
	case "nil":
		if bodyLen != 0 {
			return "bad-case", nil
		}
		req.Body = nil
		req.ContentLength = 0
	}
	req.RemoteAddr = "192.0.2.1:4000"
	req.RequestURI = "/"
	switch kind {
	case "ip_hash":
		req.RemoteAddr = key + ":4000"
	case "uri_hash":
		req.RequestURI = key
	case "round_robin":
		rr, _ := proxy.VerifPolicy(up).(*proxy.RoundRobin)
		if rr == nil {
			return "setup-error:policy", nil
		}
		proxy.VerifSetRobin(rr, uint32(robin))
	}
	p := proxy.Proxy{Next: httpserver.EmptyNext, Upstreams: []proxy.Upstream{up}}
	// a loop that never gives up must not hang the check
	done := make(chan int, 1)
	*start = time.Now()
	go func() {
		st, _ := p.ServeHTTP(httptest.NewRecorder(), req)
		done <- st
	}()
	var status int
	select {
	case status = <-done:
	case <-time.After(20 * time.Second):
		mu.Lock()
		defer mu.Unlock()
		return "hung\t" + strings.Join(log, ","), []string{"hung"}
	}
	res := strconv.Itoa(status)
	if status == 0 {
		res = "ok"
	}
	mu.Lock()
	out := res + "\t" + strings.Join(log, ",")
	nAttempts := len(log)
	fired := env.fired
	lastHost := -1
	if nAttempts > 0 {
		lastHost, _ = strconv.Atoi(strings.SplitN(log[nAttempts-1], ":", 2)[0])
	}
	mu.Unlock()
	tags := append([]string{kind, fmt.Sprintf("n=%d", len(hosts)), "result=" + res}, blkLayoutTags(lay)...)
	if nAttempts > 1 {
		tags = append(tags, "retried")
	}
	if bodyLen > 0 && nAttempts > 1 {
		tags = append(tags, "body-resent")
	}
	if anyUnhealthy {
		tags = append(tags, "some-unhealthy")
	}
	if nOut > 0 {
		tags = append(tags, "some-out-at-arrival")
	}
	if len(hosts) > 1 && nOut == len(hosts)-1 {
		tags = append(tags, "one-selectable-at-arrival")
	}
	if fired > 0 {
		tags = append(tags, "state-changed-during-request")
	}
	if status == 0 && lastHost >= 0 && outAtArrival[lastHost] {
		tags = append(tags, "answered-by-returned-backend")
		if bodyLen > 0 && nAttempts > 1 {
			tags = append(tags, "body-resent-to-returned-backend")
		}
	}
	if !anyFail && !anyUnhealthy && nOut == 0 && fired == 0 {
		tags = append(tags, "trivial-all-fine")
	}
	return out, tags
}

// c05OtherRequest sets up a second proxy block of the same server (one healthy backend, retries enabled) and
// returns a function that sends one request through it whose body has the length of the case's body and the
// complement of its content. What the proxy package shares between requests (package-level state) is shared
// with the request under test; pools, policies and counters are not.
func c05OtherRequest(body []byte) (func(), func()) {
	if len(body) == 0 {
		return nil, func() {}
	}
	ups, err := proxy.NewStaticUpstreams(casketfile.NewDispenser("Testfile", strings.NewReader(
		"proxy /other other.test:80 other2.test:80 {\n try_duration 1000ms\n try_interval 1ms\n}\n")), "")
	if err != nil || len(ups) != 1 || len(proxy.VerifHosts(ups[0])) != 2 {
		return nil, func() {}
	}
	up := ups[0]
	for _, h := range proxy.VerifHosts(up) {
		h.ReverseProxy.Transport = c05OtherBackend{}
	}
	other := make([]byte, len(body))
	for i := range body {
		other[i] = ^body[i]
	}
	p := proxy.Proxy{Next: httpserver.EmptyNext, Upstreams: []proxy.Upstream{up}}
	return func() {
		req := httptest.NewRequest("POST", "http://front.test/other", bytes.NewReader(other))
		req.RemoteAddr = "192.0.2.2:4000"
		p.ServeHTTP(httptest.NewRecorder(), req)
	}, func() { up.Stop() }
}

type c05OtherBackend struct{}

func (c05OtherBackend) RoundTrip(req *http.Request) (*http.Response, error) {
	if req.Body != nil {
		io.Copy(io.Discard, req.Body)
		req.Body.Close()
	}
	return &http.Response{StatusCode: 200, Proto: "HTTP/1.1", ProtoMajor: 1, ProtoMinor: 1, Header: http.Header{},
		Body: io.NopCloser(strings.NewReader("ok")), ContentLength: 2, Request: req}, nil
}

// the health endpoint of every backend answers 200
type c05HealthOK struct{}

func (c05HealthOK) RoundTrip(req *http.Request) (*http.Response, error) {
	return &http.Response{StatusCode: 200, Proto: "HTTP/1.1", ProtoMajor: 1, ProtoMinor: 1, Header: http.Header{},
		Body: io.NopCloser(strings.NewReader("ok")), ContentLength: 2, Request: req}, nil
}

func c05RetryBody(n int) []byte {
	b := make([]byte, n)
	for i := range b {
		b[i] = byte(i*131 + i>>8 + 7)
	}
	return b
}

func c05RetryGen(g *hx.Gen) {
	r := g.Rng
	kinds := []string{"first", "round_robin", "ip_hash", "uri_hash"}
	keys := map[string][]string{"first": {""}, "round_robin": {""}, "ip_hash": {"10.0.0.1", "10.0.0.2", "192.168.7.33"}, "uri_hash": {"/", "/a/b?c=d", "/k"}}
	// also: true = every case emitted next is emitted a second time with its upstream block written another way
	// (backends on `upstream` lines or mixed, the settings lines in a seeded order — more than four lines: sampled)
	also := false
	emitE := func(framing, kind string, robin int, key string, hosts []string, mc, mf, d, i, f, blen int, events []string) {
		ev := "-"
		if len(events) > 0 {
			ev = strings.Join(events, ",")
		}
		g.Case(kind, strconv.Itoa(robin), hx.HS(key), strings.Join(hosts, ","), strconv.Itoa(mc), strconv.Itoa(mf),
			strconv.Itoa(d), strconv.Itoa(i), strconv.Itoa(f), strconv.Itoa(blen), framing, ev)
		if also {
			g.Case(kind, strconv.Itoa(robin), hx.HS(key), strings.Join(hosts, ","), strconv.Itoa(mc), strconv.Itoa(mf),
				strconv.Itoa(d), strconv.Itoa(i), strconv.Itoa(f), strconv.Itoa(blen), framing, ev, blkRandLayout(r, len(hosts)))
		}
	}
	emitF := func(framing, kind string, robin int, key string, hosts []string, mc, mf, d, i, f, blen int) {
		emitE(framing, kind, robin, key, hosts, mc, mf, d, i, f, blen, nil)
	}
	emitN := 0
	// the framing of the request body cycles through known length / unknown length (chunked upload)
	emit := func(kind string, robin int, key string, hosts []string, mc, mf, d, i, f, blen int) {
		emitN++
		framing := "cl"
		if emitN%2 == 0 {
			framing = "chunked"
		}
		emitF(framing, kind, robin, key, hosts, mc, mf, d, i, f, blen)
	}
	const D, I, F = 3000, 1, 600000
	// 1. exhaustive: pools of 1..3 (thorough 1..4), every host one of: healthy, fails unread, fails after reading, unhealthy, full;
	//    every policy, with a body. At least one healthy host (reaches it) — and the all-bad pools with a short window (gives up).
	states := []string{"0/0/K", "0/0/F", "0/0/R", "1/0/K", "0/2/K"}
	maxN := 3
	if g.Thorough() {
		maxN = 4
	}
	for n := 1; n <= maxN; n++ {
		total := 1
		for i := 0; i < n; i++ {
			total *= len(states)
		}
		for code := 0; code < total; code++ {
			hosts := make([]string, n)
			c := code
			healthy := false
			for i := range hosts {
				hosts[i] = states[c%len(states)]
				if c%len(states) == 0 {
					healthy = true
				}
				c /= len(states)
			}
			for ki, kind := range kinds {
				if !g.Thorough() && n == 3 && (code+ki)%2 == 1 {
					continue
				}
				key := keys[kind][code%len(keys[kind])]
				robin := code % (n + 1)
				also = true
				if healthy {
					emit(kind, robin, key, hosts, 2, 1, D, I, F, 1000)
				} else if (code+ki)%3 == 0 || g.Thorough() {
					emit(kind, robin, key, hosts, 2, 1, 150, I, F, 1000)
				}
			}
		}
	}
	also = false
	// 2. max_fails > 1, flaky hosts (fail then answer), no retries (try_duration 0), body sizes, no body
	N := 400
	if g.Thorough() {
		N = 6000
	}
	scripts := []string{"K", "F", "R", "FK", "RK", "FFK", "RRK", "FRK", "KF"}
	for it := 0; it < N; it++ {
		n := 1 + r.Intn(4)
		hosts := make([]string, n)
		healthy := false
		for i := range hosts {
			switch r.Intn(6) {
			case 0:
				hosts[i] = "1/0/K"
			case 1:
				hosts[i] = "0/2/K"
			case 2:
				hosts[i] = "0/1/K"
				healthy = true
			default:
				sc := hx.Pick(r, scripts)
				hosts[i] = "0/0/" + sc
				if sc == "K" {
					healthy = true
				}
			}
		}
		if !healthy {
			hosts[r.Intn(n)] = "0/0/K"
		}
		kind := hx.Pick(r, kinds)
		d := D
		if r.Chance(1, 5) {
			d = 0
		}
		blen := hx.Pick(r, []int{0, 1, 1000, 32 * 1024, 70000})
		also = it%3 == 0
		emit(kind, r.Intn(6), hx.Pick(r, keys[kind]), hosts, 2, 1+r.Intn(3), d, I, F, blen)
	}
	also = false
	// 2b. body framing x failure scripts, two and three backends: known Content-Length, unknown length (chunked upload,
	//     also with an empty body), Content-Length 0 with http.NoBody, nil Body; the failing backends fail before
	//     reading the body (F) or after reading it (R); with and without retries
	for _, fr := range []struct {
		framing string
		blen    int
	}{{"cl", 1}, {"cl", 1000}, {"cl", 70000}, {"chunked", 1}, {"chunked", 1000}, {"chunked", 70000}, {"chunked", 0}, {"cl", 0}, {"nil", 0}} {
		for _, hosts := range [][]string{{"0/0/F", "0/0/K"}, {"0/0/R", "0/0/K"}, {"0/0/R", "0/0/R", "0/0/K"}, {"0/0/F", "0/0/R", "0/0/K"}, {"0/0/RK", "0/0/K"}, {"0/0/K", "0/0/R"}} {
			for _, kind := range []string{"first", "round_robin"} {
				for _, d := range []int{D, 0} {
					for _, mf := range []int{1, 2} {
						emitF(fr.framing, kind, len(hosts), "", hosts, 0, mf, d, I, F, fr.blen)
					}
				}
			}
		}
	}
	// 2c. the timing side condition (RetrySpec.budget: max_fails * #other backends * try_interval < try_duration <= fail_timeout),
	//     probed with the real clock at generous margins (>= 100 ms between a decision point and the nearest event):
	//     inside the budget the healthy backend is reached; a window shorter than one sleep gives up with a healthy
	//     backend still untried; a fail_timeout shorter than the sleep lets `first` come back to the failing backend until
	//     the window is over; just outside the (sufficient, not necessary) budget the request may still be answered
	timing := []struct {
		hosts   []string
		d, i, f int
	}{
		{[]string{"0/0/F", "0/0/F", "0/0/K"}, 700, 200, 600000}, // inside: 2*200 < 700: answered by backend 2 at t = 400
		{[]string{"0/0/F", "0/0/F", "0/0/K"}, 100, 250, 600000}, // window shorter than one sleep: gives up at t = 250 after two failures
		{[]string{"0/0/F", "0/0/K"}, 700, 200, 80},              // fail_timeout < try_interval: `first` retries backend 0 at 0,200,400,600,800 -> 502
		{[]string{"0/0/F", "0/0/F", "0/0/K"}, 300, 200, 600000}, // outside the budget (400 >= 300) yet answered at t = 400 (checked at t = 200 < 300)
		{[]string{"0/0/F", "0/0/K"}, 100, 200, 600000},          // inside (200 >= 100 is outside!) -> one failure at 0 (< 100), sleep, backend 1 answers
	}
	for ti, tc := range timing {
		if !g.Thorough() && ti >= 4 {
			continue
		}
		emitF("cl", "first", 0, "", tc.hosts, 0, 1, tc.d, tc.i, tc.f, 100)
	}
	// 2d. a flapping backend (fails every request, passes every health check, and a health-check pass runs in every
	//     try_interval sleep) next to a healthy one: the recorded failure must keep it out, the healthy one answers
	for _, hosts := range [][]string{{"0/0/H", "0/0/K"}, {"0/0/H", "0/0/H", "0/0/K"}, {"0/0/K", "0/0/H"}, {"0/0/H", "0/0/FK"}} {
		for _, kind := range []string{"first", "round_robin", "ip_hash"} {
			for _, mf := range []int{1, 2} {
				for _, fr := range []string{"cl", "chunked"} {
					emitF(fr, kind, 0, "10.0.0.1", hosts, 0, mf, 600, 40, 600000, 100)
				}
			}
		}
	}
	// 3. client cancellation and over-long bodies end the loop at once
	for _, sc := range []string{"C", "T", "FC", "RT"} {
		for _, kind := range []string{"first", "round_robin"} {
			emit(kind, 0, "", []string{"0/0/" + sc, "0/0/K"}, 0, 2, D, I, F, 100)
		}
	}
	// 4. one backend and retries: the body is not buffered
	for _, sc := range []string{"RK", "FK", "RRK", "K"} {
		for _, blen := range []int{0, 10, 40000} {
			emit("first", 0, "", []string{"0/0/" + sc}, 0, 3, D, I, F, blen)
		}
	}
	// 5. backends out of rotation WHEN THE REQUEST ARRIVES (unhealthy / max_fails failures on record / at max_conns) and
	//    coming back — or going away — while it is served (events). max_conns is 2 throughout.
	const MC = 2
	// a backend's arrival state: 0 in rotation, 1 unhealthy, 2 failed (max_fails on record), 3 full
	hostAt := func(state int, script string, mf int) string {
		switch state {
		case 1:
			return "1/0/" + script
		case 2:
			return "0/0/" + script + "/" + strconv.Itoa(mf)
		case 3:
			return "0/" + strconv.Itoa(MC) + "/" + script
		}
		return "0/0/" + script
	}
	back := func(at, host int) string { return fmt.Sprintf("%d>%d=0/0/0", at, host) }
	away := func(at, host, how, mf int) string {
		switch how % 3 {
		case 0:
			return fmt.Sprintf("%d>%d=1/0/0", at, host)
		case 1:
			return fmt.Sprintf("%d>%d=0/0/%d", at, host, mf)
		}
		return fmt.Sprintf("%d>%d=0/%d/0", at, host, MC)
	}
	// a backend that is in rotation from the arrival to the end and always answers: the request is answered (theorem
	// C05_retry_reaches_healthy), the long window costs nothing; without one the loop may have to wait for the window
	window := func(hosts, events []string) int {
		for i, h := range hosts {
			if h != "0/0/K" && h != "0/1/K" {
				continue
			}
			touched := false
			for _, e := range events {
				if strings.Contains(e, fmt.Sprintf(">%d=", i)) {
					touched = true
				}
			}
			if !touched {
				return D
			}
		}
		return 150
	}
	// 5a. exactly one backend selectable at arrival; it fails during the request (after reading the body / before / it is
	//     retried itself with max_fails 2); a healthy backend comes back while an attempt on the first one is running
	//     (attempt 0, or the last attempt before the first one is marked down); a third one stays away or comes back failing
	n5 := 0
	for _, n := range []int{2, 3} {
		for a := 0; a < n; a++ {
			for _, sc := range []string{"R", "F", "RK", "RF"} {
				for outState := 1; outState <= 3; outState++ {
					for _, mf := range []int{1, 2} {
						for _, late := range []bool{false, true} {
							for third := 0; third < 3; third++ {
								if n == 2 && third > 0 || late && mf == 1 {
									continue
								}
								for ki, kind := range kinds {
									n5++
									if !g.Thorough() && (n5+ki)%3 != 0 {
										continue
									}
									hosts := make([]string, n)
									var events []string
									b := (a + 1) % n
									e := 0
									if late {
										e = mf - 1
									}
									for i := range hosts {
										switch {
										case i == a:
											hosts[i] = hostAt(0, sc, mf)
										case i == b:
											hosts[i] = hostAt(outState, "K", mf)
											events = append(events, back(e, i))
										default:
											hosts[i] = hostAt(1+(outState+third)%3, "R", mf)
											if third == 2 {
												events = append(events, back(0, i))
											}
										}
									}
									framing := "cl"
									if n5%2 == 0 {
										framing = "chunked"
									}
									blen := []int{1000, 1, 70000}[n5%3]
									also = n5%4 == 0
									emitE(framing, kind, n5%(n+1), keys[kind][n5%len(keys[kind])], hosts, MC, mf, D, I, F, blen, events)
								}
							}
						}
					}
				}
			}
		}
	}
	// 5b. exhaustive, two backends: each in rotation / unhealthy / failed / full at arrival x script K / R / F; a backend
	//     that is out comes back never / during attempt 0 / during attempt 1; one that is in rotation stays or goes away
	//     during attempt 0; max_fails 1, 2; first and round_robin
	for s0 := 0; s0 < 4; s0++ {
		for s1 := 0; s1 < 4; s1++ {
			for _, sc0 := range []string{"K", "R", "F"} {
				for _, sc1 := range []string{"K", "R", "F"} {
					for e0 := 0; e0 < 3; e0++ {
						for e1 := 0; e1 < 3; e1++ {
							if s0 != 0 && s1 != 0 && (sc0 != "K" || sc1 != "K" || e0 > 1 || e1 > 1) {
								continue // nobody in rotation: no attempt, scripts and events play no part
							}
							if s0 == 0 && e0 == 2 || s1 == 0 && e1 == 2 {
								continue
							}
							for _, mf := range []int{1, 2} {
								for ki, kind := range []string{"first", "round_robin"} {
									n5++
									if !g.Thorough() && (n5+ki)%2 != 0 {
										continue
									}
									hosts := []string{hostAt(s0, sc0, mf), hostAt(s1, sc1, mf)}
									var events []string
									for i, se := range [][2]int{{s0, e0}, {s1, e1}} {
										switch {
										case se[0] == 0 && se[1] == 1:
											events = append(events, away(0, i, n5, mf))
										case se[0] != 0 && se[1] > 0:
											events = append(events, back(se[1]-1, i))
										}
									}
									framing := "cl"
									if n5%2 == 0 {
										framing = "chunked"
									}
									also = n5%4 == 0
									emitE(framing, kind, n5%3, "", hosts, MC, mf, window(hosts, events), I, F, 1000, events)
								}
							}
						}
					}
				}
			}
		}
	}
	// 5c. seeded random: 2..4 backends in random arrival states (also one failure short of max_fails, one slot short of
	//     max_conns), flaky scripts, up to three random changes of state during attempts 0..3, every policy
	N5 := 300
	if g.Thorough() {
		N5 = 5000
	}
	for it := 0; it < N5; it++ {
		n := 2 + r.Intn(3)
		mf := 1 + r.Intn(3)
		randState := func() (u, c, f int) {
			switch r.Intn(7) {
			case 0:
				return 1, 0, 0
			case 1:
				return 0, MC, 0
			case 2:
				return 0, 0, mf
			case 3:
				return 0, MC - 1, mf - 1
			}
			return 0, 0, 0
		}
		hosts := make([]string, n)
		for i := range hosts {
			u, c, f := randState()
			hosts[i] = fmt.Sprintf("%d/%d/%s/%d", u, c, hx.Pick(r, []string{"K", "K", "F", "R", "FK", "RK", "RRK", "KF"}), f)
			if f == 0 {
				hosts[i] = hosts[i][:len(hosts[i])-2]
			}
		}
		var events []string
		for k := r.Intn(4); k > 0; k-- {
			u, c, f := randState()
			events = append(events, fmt.Sprintf("%d>%d=%d/%d/%d", r.Intn(4), r.Intn(n), u, c, f))
		}
		kind := hx.Pick(r, kinds)
		framing := hx.Pick(r, []string{"cl", "chunked"})
		blen := hx.Pick(r, []int{0, 1, 1000, 32 * 1024, 70000})
		also = it%3 == 0
		emitE(framing, kind, r.Intn(6), hx.Pick(r, keys[kind]), hosts, MC, mf, window(hosts, events), I, F, blen, events)
	}
}

func init() {
	hx.Register(&hx.Stream{ID: "C05", Name: "c05.retry", Gen: c05RetryGen, Eval: c05RetryEval})
}
