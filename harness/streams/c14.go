//go:build c14

package streams

import (
	"context"
	"errors"
	"fmt"
	"io"
	"net/http"
	"net/http/httptest"
	"strconv"
	"strings"
	"sync"
	"sync/atomic"
	"time"

	"github.com/tmpim/casket/casketfile"
	"github.com/tmpim/casket/caskethttp/httpserver"
	"github.com/tmpim/casket/caskethttp/proxy"

	"verifharness/hx"
)

// c14.sched  nHosts maxConns maxFails expiry unhealthyBits nThreads events retry [layout]
//   layout  (optional 9th field, see c04_layout.go) how the upstream block is written: backends on the directive line /
//           on `upstream` lines / mixed, the lines of the block in the given order
//   retry   1 = try_duration 30s, try_interval 1ms: after a failed attempt the request selects again (0 = try_duration 0)
//   expiry  0 fail_timeout 0 (failures not counted) | 1 fail_timeout 1h (never expires within the run) | 2 fail_timeout 15ms (awaited at once)
//           3 fail_timeout 300ms: failures are recorded at least 120ms apart and the event "w" waits for the oldest to expire
//   events  comma list of t:x : request t runs to its next blocking point; x = preferred backend (when it selects) or
//           outcome code (when its round trip ends: 0 ok 1 error 2 client cancelled 3 body too large 4 panic)
//   out     snapshots after every event, joined by ";" : label|conns|fails|inflight
//
// The real code path: N goroutines call proxy.Proxy.ServeHTTP on one upstream block built by NewStaticUpstreams.
// Blocking points under the scheduler's control: a load-balancing policy registered through proxy.RegisterPolicy
// (it computes the choice when told to "select" and returns when told to "go on": the select/count window), and the
// backend transport (RoundTrip blocks until told how to end).  Exactly one request runs at a time, so every schedule
// is replayed deterministically.  conns/fails are the real atomic counters, inflight is counted by the transport.

const (
	c14NotStarted int32 = iota
	c14Running
	c14AtBarrier
	c14Chosen
	c14InTransport
	c14Done
)

type c14Thread struct {
	id       int
	state    int32
	choose   chan int
	ack      chan int
	goOn     chan struct{}
	finish   chan int
	chosen   int
	host     int32
	reported bool
	ctx      context.Context
	cancel   context.CancelFunc
	// the transport found the request's context cancelled and answered context.Canceled at once
	cancelSeen int32
	retried    bool
}

func (t *c14Thread) set(s int32) { atomic.StoreInt32(&t.state, s) }
func (t *c14Thread) get() int32  { return atomic.LoadInt32(&t.state) }

type c14Sched struct {
	threads  []*c14Thread
	pool     proxy.HostPool
	inflight []int32
	tagTimes int32
}

var (
	c14Mu      sync.Mutex
	c14Scheds  = map[string]*c14Sched{}
	c14Counter int64
)

type c14Policy struct{ id string }

func (p *c14Policy) Select(pool proxy.HostPool, r *http.Request) *proxy.UpstreamHost {
	c14Mu.Lock()
	s := c14Scheds[p.id]
	c14Mu.Unlock()
	if s == nil {
		return nil
	}
	tid, err := strconv.Atoi(r.Header.Get("X-Verif-Thread"))
	if err != nil || tid < 0 || tid >= len(s.threads) {
		return nil
	}
	th := s.threads[tid]
	th.set(c14AtBarrier)
	pref := <-th.choose
	// the choice is made now, on the state of this moment, like a sound policy would
	idx := -1
	if pool[pref%len(pool)].Available() {
		idx = pref % len(pool)
	} else {
		for i, h := range pool {
			if h.Available() {
				idx = i
				break
			}
		}
	}
	th.chosen = idx
	th.set(c14Chosen)
	th.ack <- idx
	if idx < 0 {
		th.set(c14Running)
		return nil
	}
	<-th.goOn
	th.set(c14Running)
	return pool[idx]
}

type c14Transport struct {
	s    *c14Sched
	host int
}

func (t *c14Transport) RoundTrip(req *http.Request) (*http.Response, error) {
	tid, _ := strconv.Atoi(req.Header.Get("X-Verif-Thread"))
	th := t.s.threads[tid]
	if n := len(req.Header["X-Verif-Tag"]); n != 1 {
		// the upstream block adds this header once per request (C04); a request that lost its slot and
		// selected again must not carry it twice
		atomic.StoreInt32(&t.s.tagTimes, int32(n))
	}
	if req.Context().Err() != nil {
		// the client is gone: like http.Transport, give up at once (the request was counted in just before)
		atomic.StoreInt32(&th.host, int32(t.host))
		atomic.StoreInt32(&th.cancelSeen, 1)
		return nil, context.Canceled
	}
	atomic.AddInt32(&t.s.inflight[t.host], 1)
	atomic.StoreInt32(&th.host, int32(t.host))
	th.set(c14InTransport)
	o := <-th.finish
	atomic.AddInt32(&t.s.inflight[t.host], -1)
	th.set(c14Running)
	switch o {
	case 0:
		return &http.Response{StatusCode: 200, Proto: "HTTP/1.1", ProtoMajor: 1, ProtoMinor: 1, Header: http.Header{},
			Body: io.NopCloser(strings.NewReader("ok")), ContentLength: 2, Request: req}, nil
	case 2:
		return nil, context.Canceled
	case 3:
		return nil, httpserver.ErrMaxBytesExceeded
	case 4:
		panic("scripted backend panic")
	}
	return nil, errors.New("scripted backend failure")
}

// the health endpoint of the backends: the probe of backend i fails when bit i of mask is set
type c14HealthTransport struct {
	mask *int32
}

func (t *c14HealthTransport) RoundTrip(req *http.Request) (*http.Response, error) {
	var i int
	fmt.Sscanf(req.URL.Host, "h%d.test", &i)
	if atomic.LoadInt32(t.mask)>>uint(i)&1 == 1 {
		return nil, errors.New("scripted health probe failure")
	}
	return &http.Response{StatusCode: 200, Proto: "HTTP/1.1", ProtoMajor: 1, ProtoMinor: 1, Header: http.Header{},
		Body: io.NopCloser(strings.NewReader("ok")), ContentLength: 2, Request: req}, nil
}

var c14Outcomes = []string{"ok", "err", "cancel", "big", "panic"}

func c14Wait(th *c14Thread, states ...int32) bool {
	deadline := time.Now().Add(5 * time.Second)
	for spins := 0; ; spins++ {
		st := th.get()
		for _, w := range states {
			if st == w {
				return true
			}
		}
		if spins > 200 {
			time.Sleep(20 * time.Microsecond)
			if time.Now().After(deadline) {
				return false
			}
		}
	}
}

func c14Block(nHosts int, id string, maxConns, maxFails int, ft string, retry bool) ([]string, []blkLine) {
	backends := make([]string, nHosts)
	for i := range backends {
		backends[i] = fmt.Sprintf("h%d.test:80", i)
	}
	lines := []blkLine{{"", " policy verif_barrier " + id + "\n"}, {"", fmt.Sprintf(" max_conns %d\n", maxConns)}, {"", fmt.Sprintf(" max_fails %d\n", maxFails)},
		{"", " fail_timeout " + ft + "\n"}, {"", " header_upstream +X-Verif-Tag t\n"}}
	if retry {
		lines = append(lines, blkLine{"", " try_duration 30s\n"}, blkLine{"", " try_interval 1ms\n"})
	}
	return backends, lines
}

func c14Eval(f []string) (string, []string) {
	lay := ""
	if len(f) == 9 {
		lay = f[8]
		f = f[:8]
	}
	if len(f) != 8 {
		return "bad-case", nil
	}
	retry := f[7] == "1"
	nHosts, _ := strconv.Atoi(f[0])
	maxConns, _ := strconv.Atoi(f[1])
	maxFails, _ := strconv.Atoi(f[2])
	expiry := f[3]
	unh := f[4]
	nThreads, _ := strconv.Atoi(f[5])
	if nHosts < 2 || nThreads < 1 || maxFails < 1 {
		return "bad-case", nil
	}
	id := fmt.Sprintf("s%d", atomic.AddInt64(&c14Counter, 1))
	ft := map[string]string{"0": "0s", "1": "1h", "2": "15ms", "3": "300ms"}[expiry]
	if ft == "" {
		return "bad-case", nil
	}
	backends, lines := c14Block(nHosts, id, maxConns, maxFails, ft, retry)
	cfg, ok := blkWrite("proxy /", backends, lines, lay)
	if !ok {
		return "bad-case:layout", nil
	}
	ups, err := proxy.NewStaticUpstreams(casketfile.NewDispenser("Testfile", strings.NewReader(cfg)), "")
	if err != nil || len(ups) != 1 {
		return fmt.Sprintf("setup-error:%v", err), nil
	}
	up := ups[0]
	defer up.Stop()
	pool := proxy.VerifHosts(up)
	s := &c14Sched{pool: pool, inflight: make([]int32, nHosts)}
	for i := 0; i < nThreads; i++ {
		ctx, cancel := context.WithCancel(context.Background())
		s.threads = append(s.threads, &c14Thread{id: i, choose: make(chan int), ack: make(chan int), goOn: make(chan struct{}), finish: make(chan int), ctx: ctx, cancel: cancel})
	}
	for i, h := range pool {
		if i < len(unh) && unh[i] == '1' {
			atomic.StoreInt32(&h.Unhealthy, 1)
		}
		h.ReverseProxy.Transport = &c14Transport{s: s, host: i}
	}
	var healthMask int32
	proxy.VerifSetHealthCheck(up, "/health", &c14HealthTransport{mask: &healthMask})
	c14Mu.Lock()
	c14Scheds[id] = s
	c14Mu.Unlock()
	defer func() {
		c14Mu.Lock()
		delete(c14Scheds, id)
		c14Mu.Unlock()
	}()
	p := proxy.Proxy{Next: httpserver.EmptyNext, Upstreams: []proxy.Upstream{up}}

	snapshot := func(label string) string {
		cs, fs, is := make([]string, nHosts), make([]string, nHosts), make([]string, nHosts)
		for i, h := range pool {
			cs[i] = strconv.FormatInt(atomic.LoadInt64(&h.Conns), 10)
			fs[i] = strconv.Itoa(int(atomic.LoadInt32(&h.Fails)))
			is[i] = strconv.Itoa(int(atomic.LoadInt32(&s.inflight[i])))
		}
		us := make([]byte, nHosts)
		for i, h := range pool {
			us[i] = '0'
			if atomic.LoadInt32(&h.Unhealthy) != 0 {
				us[i] = '1'
			}
		}
		return label + "|" + strings.Join(cs, ",") + "|" + strings.Join(fs, ",") + "|" + strings.Join(is, ",") + "|" + string(us)
	}
	anyAvail := func() bool {
		for _, h := range pool {
			if h.Available() {
				return true
			}
		}
		return false
	}
	// arrive waits until a request that is on its way to Select is at a blocking point. With retries on, a
	// request that finds no backend available keeps polling on its own (try_interval) and never gets there:
	// reported as "free" once that is the stable situation (every other request is blocked).
	arrive := func(th *c14Thread, states ...int32) string {
		deadline := time.Now().Add(5 * time.Second)
		grace := time.Now().Add(40 * time.Millisecond)
		for {
			st := th.get()
			for _, w := range states {
				if st == w {
					return "at"
				}
			}
			if retry && time.Now().After(grace) && !anyAvail() {
				return "free"
			}
			if time.Now().After(deadline) {
				return "stuck"
			}
			time.Sleep(20 * time.Microsecond)
		}
	}
	start := func(th *c14Thread) {
		th.set(c14Running)
		go func() {
			defer func() {
				recover()
				th.set(c14Done)
			}()
			req := httptest.NewRequest("GET", "http://front.test/", nil).WithContext(th.ctx)
			req.Header.Set("X-Verif-Thread", strconv.Itoa(th.id))
			req.RemoteAddr = "192.0.2.1:4000"
			p.ServeHTTP(httptest.NewRecorder(), req)
		}()
	}
	var snaps []string
	tags := map[string]bool{}
	stuck := func(where string) (string, []string) {
		return strings.Join(append(snaps, "stuck:"+where), ";"), []string{"stuck"}
	}
	selectStep := func(th *c14Thread, x int) (string, bool) {
		th.choose <- x
		idx := <-th.ack
		if idx < 0 {
			if retry {
				// the request goes on polling by itself
				return "none", true
			}
			if !c14Wait(th, c14Done) {
				return "", false
			}
			th.reported = true
			return "none", true
		}
		return "sel:" + strconv.Itoa(idx), true
	}
	var events [][2]int
	if f[6] != "" {
		for _, e := range strings.Split(f[6], ",") {
			if e == "w" {
				events = append(events, [2]int{1000, 0})
				continue
			}
			if strings.HasPrefix(e, "hc:") {
				m, err := strconv.Atoi(e[3:])
				if err != nil || m < 0 {
					return "bad-case", nil
				}
				events = append(events, [2]int{3000, m})
				continue
			}
			if strings.HasPrefix(e, "c:") {
				t, err := strconv.Atoi(e[2:])
				if err != nil || t < 0 || t >= nThreads {
					return "bad-case", nil
				}
				events = append(events, [2]int{2000 + t, 0})
				continue
			}
			p := strings.Split(e, ":")
			if len(p) != 2 {
				return "bad-case", nil
			}
			t, e1 := strconv.Atoi(p[0])
			x, e2 := strconv.Atoi(p[1])
			if e1 != nil || e2 != nil || t < 0 || t >= nThreads || x < 0 {
				return "bad-case", nil
			}
			events = append(events, [2]int{t, x})
		}
	}
	maxSel := 0
	var queue []int // backends of the outstanding failures, oldest first (expiry 3)
	for _, ev := range events {
		if ev[0] == 1000 {
			if len(queue) == 0 {
				snaps = append(snaps, snapshot("noop"))
				continue
			}
			h := queue[0]
			queue = queue[1:]
			before := atomic.LoadInt32(&pool[h].Fails)
			deadline := time.Now().Add(5 * time.Second)
			for atomic.LoadInt32(&pool[h].Fails) >= before && time.Now().Before(deadline) {
				time.Sleep(500 * time.Microsecond)
			}
			tags["failure-expired-while-another-outstanding"] = len(queue) > 0 || tags["failure-expired-while-another-outstanding"]
			snaps = append(snaps, snapshot("exp:"+strconv.Itoa(h)))
			continue
		}
		if ev[0] >= 3000 {
			// one pass of the real health check (what HealthCheckWorker does on a tick), probing every backend
			atomic.StoreInt32(&healthMask, int32(ev[1]))
			proxy.VerifHealthCheck(up)
			bits := make([]byte, nHosts)
			for i := range bits {
				bits[i] = '0'
				if ev[1]>>uint(i)&1 == 1 {
					bits[i] = '1'
				}
			}
			outstanding := false
			for _, h := range pool {
				if atomic.LoadInt32(&h.Fails) != 0 {
					outstanding = true
				}
			}
			tags["health-check"] = true
			if outstanding {
				tags["health-check-with-failures-outstanding"] = true
			}
			snaps = append(snaps, snapshot("hc:"+string(bits)))
			continue
		}
		if ev[0] >= 2000 {
			// the client of this request goes away; the request notices at its next round trip
			th := s.threads[ev[0]-2000]
			th.cancel()
			if st := th.get(); st == c14AtBarrier || st == c14Chosen || st == c14Running {
				tags["cancelled-between-attempts"] = th.retried || tags["cancelled-between-attempts"]
				tags["cancelled-before-forward"] = true
			}
			snaps = append(snaps, snapshot("noop"))
			continue
		}
		th, x := s.threads[ev[0]], ev[1]
		label := ""
		switch th.get() {
		case c14NotStarted:
			start(th)
			switch arrive(th, c14AtBarrier, c14Done) {
			case "stuck":
				return stuck("start")
			case "free":
				label = "none"
			}
			if label != "" {
				break
			}
			if th.get() == c14Done {
				th.reported = true
				label = "none"
				break
			}
			l, ok := selectStep(th, x)
			if !ok {
				return stuck("select")
			}
			label = l
		case c14Running:
			// retries on: the request is between a failed attempt / an empty Select and its next Select
			switch arrive(th, c14AtBarrier, c14Done) {
			case "stuck":
				return stuck("retry")
			case "free":
				label = "none"
			}
			if label != "" {
				break
			}
			if th.get() == c14Done {
				th.reported = true
				label = "none"
				break
			}
			l, ok := selectStep(th, x)
			if !ok {
				return stuck("select")
			}
			label = l
		case c14AtBarrier:
			l, ok := selectStep(th, x)
			if !ok {
				return stuck("select")
			}
			label = l
		case c14Chosen:
			inWindow := 0
			for _, o := range s.threads {
				if o.get() == c14Chosen {
					inWindow++
				}
			}
			if inWindow > maxSel {
				maxSel = inWindow
			}
			th.goOn <- struct{}{}
			if arrive(th, c14InTransport, c14AtBarrier, c14Done) == "stuck" {
				return stuck("go-on")
			}
			if th.get() == c14InTransport {
				label = "fwd:" + strconv.Itoa(int(atomic.LoadInt32(&th.host)))
			} else if atomic.LoadInt32(&th.cancelSeen) == 1 {
				// counted in, found cancelled by the transport, counted out, ended with 499
				if !c14Wait(th, c14Done) {
					return stuck("cancelled")
				}
				th.reported = true
				label = "fin:" + strconv.Itoa(int(atomic.LoadInt32(&th.host))) + ":cancel"
			} else {
				// the slot was lost and the request selected again at once: it waits at the barrier again, or,
				// with no backend available, it has ended (the model accounts for that in the same action)
				label = "lost:" + strconv.Itoa(th.chosen)
				if th.get() == c14Done {
					th.reported = true
				}
			}
		case c14InTransport:
			h := int(atomic.LoadInt32(&th.host))
			o := x % 5
			th.finish <- o
			if retry && o == 1 {
				tags["retried-after-failure"] = true
				th.retried = true
				// the attempt ends; the request records the failure and comes back to Select
				if arrive(th, c14AtBarrier, c14Done) == "stuck" {
					snaps = append(snaps, snapshot("fin:"+strconv.Itoa(h)+":"+c14Outcomes[o]))
					return stuck("finish")
				}
			} else {
				if !c14Wait(th, c14Done) {
					return stuck("finish")
				}
				th.reported = true
			}
			label = "fin:" + strconv.Itoa(h) + ":" + c14Outcomes[o]
			tags["outcome-"+c14Outcomes[o]] = true
			if th.retried && o != 1 {
				tags["retried-attempt-ends-"+c14Outcomes[o]] = true
			}
			if o == 1 && expiry == "3" {
				queue = append(queue, h)
				time.Sleep(120 * time.Millisecond)
			}
			if o == 1 && expiry == "2" {
				deadline := time.Now().Add(5 * time.Second)
				for atomic.LoadInt32(&pool[h].Fails) != 0 {
					time.Sleep(time.Millisecond)
					if time.Now().After(deadline) {
						break
					}
				}
			}
		case c14Done:
			if !th.reported {
				th.reported = true
				label = "none"
			} else {
				label = "noop"
			}
		default:
			return stuck("state")
		}
		snaps = append(snaps, snapshot(label))
	}
	for _, th := range s.threads {
		if st := th.get(); st != c14NotStarted && st != c14Done {
			// unblock what is left so that nothing leaks, then report
			return "not-quiescent:" + strings.Join(snaps, ";"), []string{"not-quiescent"}
		}
	}
	if n := atomic.LoadInt32(&s.tagTimes); n != 0 {
		return fmt.Sprintf("rule-applied-%d-times:", n) + strings.Join(snaps, ";"), []string{"rule-reapplied"}
	}
	snaps = append(snaps, snapshot("final"))
	var tl []string
	for k, v := range tags {
		if v {
			tl = append(tl, k)
		}
	}
	if maxSel > 1 {
		tl = append(tl, "overlapping-select-windows")
	}
	tl = append(tl, fmt.Sprintf("threads=%d", nThreads), "expiry="+expiry)
	tl = append(tl, blkLayoutTags(lay)...)
	if maxConns > 0 {
		tl = append(tl, "capped")
	}
	if len(events) == 0 {
		tl = append(tl, "trivial-empty")
	}
	return strings.Join(snaps, ";"), tl
}

func c14Ev(e [2]int) string {
	if e[0] >= 3000 {
		return fmt.Sprintf("hc:%d", e[1])
	}
	if e[0] >= 2000 {
		return fmt.Sprintf("c:%d", e[0]-2000)
	}
	return fmt.Sprintf("%d:%d", e[0], e[1])
}

func c14Gen(g *hx.Gen) {
	r := g.Rng
	also, emitted := 3, 0
	emit := func(nHosts, mc, mf, expiry int, unh string, nThreads int, evs [][2]int) {
		// drain: let every request run to its end (answering ok). With a cap, a request may lose its slot and
		// select again while another one is being forwarded, so allow four rounds per request.
		for round := 0; round < 4*nThreads+4; round++ {
			for t := 0; t < nThreads; t++ {
				evs = append(evs, [2]int{t, 0})
			}
		}
		parts := make([]string, len(evs))
		for i, e := range evs {
			parts[i] = c14Ev(e)
		}
		g.Case(strconv.Itoa(nHosts), strconv.Itoa(mc), strconv.Itoa(mf), strconv.Itoa(expiry), unh, strconv.Itoa(nThreads), strings.Join(parts, ","), "0")
		// one case in `also` a second time with the upstream block written another way (backends on `upstream` lines or
		// mixed, the lines in a seeded order — the block has more than four lines: sampled)
		emitted++
		if also > 0 && emitted%also == 0 {
			g.Case(strconv.Itoa(nHosts), strconv.Itoa(mc), strconv.Itoa(mf), strconv.Itoa(expiry), unh, strconv.Itoa(nThreads), strings.Join(parts, ","), "0", blkRandLayout(r, nHosts))
		}
	}
	// 1. exhaustive: two requests, every interleaving of their three steps (select, go on, end), both backends or only one up,
	//    caps 0..2, each pair of outcomes ok/error
	var inter [][]int
	var rec func(a, b int, cur []int)
	rec = func(a, b int, cur []int) {
		if a == 0 && b == 0 {
			inter = append(inter, append([]int{}, cur...))
			return
		}
		if a > 0 {
			rec(a-1, b, append(cur, 0))
		}
		if b > 0 {
			rec(a, b-1, append(cur, 1))
		}
	}
	rec(3, 3, nil)
	for _, unh := range []string{"00", "01"} {
		for mc := 0; mc <= 2; mc++ {
			for _, il := range inter {
				for oc := 0; oc < 4; oc++ {
					for _, expiry := range []int{1, 2} {
						if !g.Thorough() && expiry == 2 && (oc+mc+len(unh))%2 == 0 {
							continue
						}
						var evs [][2]int
						step := []int{0, 0}
						for _, t := range il {
							x := 0
							if step[t] == 2 {
								x = (oc >> t) & 1
							}
							step[t]++
							evs = append(evs, [2]int{t, x})
						}
						emit(2, mc, 1, expiry, unh, 2, evs)
					}
				}
			}
		}
	}
	// 1b. two failures recorded 120ms apart, then each awaited: the first expires while the second is outstanding
	//     (same backend and different backends, max_fails high enough / too low to keep the backend selectable)
	K := 12
	if g.Thorough() {
		K = 80
	}
	for it := 0; it < K; it++ {
		nThreads := 3 + r.Intn(2)
		mf := 1 + r.Intn(3)
		pref2 := r.Intn(2)
		var parts []string
		// request 0 fails on its backend, request 1 fails on pref2, others answer; waits in between and at the end
		seq := [][2]int{{0, 0}, {0, 0}, {0, 1}, {1, pref2}, {1, 0}, {1, 1}}
		for _, e := range seq {
			parts = append(parts, fmt.Sprintf("%d:%d", e[0], e[1]))
		}
		// x = 0 or 5: as a preference backend 0 or 1, as an outcome always "answers" (no third failure: the run
		// must not last into the spontaneous expiry of the second one)
		parts = append(parts, fmt.Sprintf("2:%d", 5*r.Intn(2)), "2:0")
		if r.Bool() {
			parts = append(parts, "2:0")
		}
		parts = append(parts, "w")
		parts = append(parts, fmt.Sprintf("%d:%d", nThreads-1, 5*r.Intn(2)))
		parts = append(parts, "w", "w")
		for round := 0; round < 4*nThreads+4; round++ {
			for t := 0; t < nThreads; t++ {
				parts = append(parts, fmt.Sprintf("%d:0", t))
			}
		}
		g.Case("2", strconv.Itoa(r.Intn(3)), strconv.Itoa(mf), "3", "00", strconv.Itoa(nThreads), strings.Join(parts, ","), "0")
	}
	// 1c. retries on (try_duration 30s): a request whose attempt failed selects again. Backends stay up
	//     (failures not counted, or max_fails far above the number of failures) and there are never more
	//     requests than slots, so a retrying request always finds a backend and comes back to the barrier.
	//     The counters are compared after every attempt's end, i.e. while the request is still running.
	emitRetry := func(nHosts, mc, expiry, nThreads int, evs [][2]int) {
		for round := 0; round < 4*nThreads+4; round++ {
			for t := 0; t < nThreads; t++ {
				evs = append(evs, [2]int{t, 0})
			}
		}
		parts := make([]string, len(evs))
		for i, e := range evs {
			parts[i] = c14Ev(e)
		}
		g.Case(strconv.Itoa(nHosts), strconv.Itoa(mc), "50", strconv.Itoa(expiry), strings.Repeat("0", nHosts), strconv.Itoa(nThreads), strings.Join(parts, ","), "1")
		emitted++
		if also > 0 && emitted%also == 0 {
			g.Case(strconv.Itoa(nHosts), strconv.Itoa(mc), "50", strconv.Itoa(expiry), strings.Repeat("0", nHosts), strconv.Itoa(nThreads), strings.Join(parts, ","), "1", blkRandLayout(r, nHosts))
		}
	}
	// exhaustive: one or two requests, two backends, caps 0..2; request 0 fails k times on the preferred
	// backend(s) before it answers, request 1 runs in between at every position
	for mc := 0; mc <= 2; mc++ {
		for _, expiry := range []int{0, 1} {
			for fails := 1; fails <= 3; fails++ {
				for prefs := 0; prefs < 1<<uint(fails+1); prefs++ {
					var a [][2]int
					for i := 0; i <= fails; i++ {
						out := 1
						if i == fails {
							out = 0
						}
						a = append(a, [2]int{0, (prefs >> uint(i)) & 1}, [2]int{0, 0}, [2]int{0, out})
					}
					emitRetry(2, mc, expiry, 1, a)
					// the client goes away at every point of the run (before the start, while selected, while being
					// forwarded, between two attempts): the request ends with 499 at its next round trip
					for pos := 0; pos <= len(a); pos++ {
						if !g.Thorough() && (pos+prefs+fails+mc)%2 != 0 {
							continue
						}
						b := append([][2]int{}, a[:pos]...)
						b = append(b, [2]int{2000, 0})
						b = append(b, a[pos:]...)
						emitRetry(2, mc, expiry, 1, b)
					}
					// the retried attempt ends with a panic / a cancellation / an over-long body instead of an answer
					for _, out := range []int{4, 2, 3} {
						b := append([][2]int{}, a...)
						b[len(b)-1] = [2]int{0, out}
						emitRetry(2, mc, expiry, 1, b)
					}
					if mc != 1 || true {
						// a second request takes its three steps after the i-th step of the first
						for pos := 0; pos <= len(a); pos += 2 {
							if !g.Thorough() && (pos+prefs+fails)%3 != 0 {
								continue
							}
							b := append([][2]int{}, a[:pos]...)
							b = append(b, [2]int{1, prefs & 1}, [2]int{1, 0})
							b = append(b, a[pos:]...)
							b = append(b, [2]int{1, 0})
							emitRetry(2, mc, expiry, 2, b)
						}
					}
				}
			}
		}
	}
	// random: 2..3 backends, requests up to the number of slots, errors frequent
	R := 300
	if g.Thorough() {
		R = 5000
	}
	for it := 0; it < R; it++ {
		nHosts := 2 + r.Intn(2)
		mc := r.Intn(3)
		nThreads := 1 + r.Intn(4)
		if mc > 0 && nThreads > nHosts*mc {
			nThreads = nHosts * mc
		}
		n := nThreads*3 + r.Intn(nThreads*6)
		evs := make([][2]int, n)
		for i := range evs {
			x := r.Intn(5)
			if r.Chance(2, 3) {
				x = r.Intn(2)
			}
			evs[i] = [2]int{r.Intn(nThreads), x}
			if r.Chance(1, 12) {
				evs[i] = [2]int{2000 + r.Intn(nThreads), 0}
			}
		}
		emitRetry(nHosts, mc, r.Intn(2), nThreads, evs)
	}
	// 1d. the health-check worker as an actor: a pass (every backend passing, or one failing) at every point of
	//     a run in which request 0 fails on backend 0 (failure outstanding: never expiring, or expiring when told to)
	//     and request 1 is answered; max_fails 1 and 2
	for _, expiry := range []int{1, 3} {
		for _, mf := range []int{1, 2} {
			base := [][2]int{{0, 0}, {0, 0}, {0, 1}, {1, 0}, {1, 0}, {1, 0}}
			for pos := 0; pos <= len(base); pos++ {
				for _, mask := range []int{0, 1, 2} {
					if !g.Thorough() && (pos+mask+mf)%2 == 0 && mask != 0 {
						continue
					}
					b := append([][2]int{}, base[:pos]...)
					b = append(b, [2]int{3000, mask})
					b = append(b, base[pos:]...)
					if mask != 0 {
						b = append(b, [2]int{3000, 0})
					}
					if expiry == 3 {
						b = append(b, [2]int{1000, 0}, [2]int{3000, 0})
					}
					b = append(b, [2]int{2, 0}, [2]int{2, 0}, [2]int{2, 0})
					parts := make([]string, 0, len(b)+20)
					for _, e := range b {
						if e[0] == 1000 {
							parts = append(parts, "w")
						} else {
							parts = append(parts, c14Ev(e))
						}
					}
					for round := 0; round < 8; round++ {
						for t := 0; t < 3; t++ {
							parts = append(parts, fmt.Sprintf("%d:0", t))
						}
					}
					g.Case("2", "0", strconv.Itoa(mf), strconv.Itoa(expiry), "00", "3", strings.Join(parts, ","), "0")
				}
			}
		}
	}
	// 2. seeded random schedules: 2..3 backends, 2..5 requests (thorough: up to 6), all outcome kinds
	N := 1200
	if g.Thorough() {
		N = 20000
	}
	for it := 0; it < N; it++ {
		nHosts := 2 + r.Intn(2)
		nThreads := 2 + r.Intn(4)
		if g.Thorough() && r.Chance(1, 4) {
			nThreads = 6
		}
		unh := ""
		for i := 0; i < nHosts; i++ {
			if r.Chance(1, 4) {
				unh += "1"
			} else {
				unh += "0"
			}
		}
		expiry := r.Intn(3)
		if expiry == 2 && r.Chance(2, 3) {
			expiry = 1
		}
		n := nThreads*2 + r.Intn(nThreads*4)
		evs := make([][2]int, n)
		for i := range evs {
			x := r.Intn(5)
			if r.Chance(1, 2) {
				x = r.Intn(2)
			}
			evs[i] = [2]int{r.Intn(nThreads), x}
			if r.Chance(1, 15) {
				evs[i] = [2]int{2000 + r.Intn(nThreads), 0}
			}
			if r.Chance(1, 12) {
				evs[i] = [2]int{3000, r.Intn(1 << uint(nHosts))}
				if r.Bool() {
					evs[i][1] = 0
				}
			}
		}
		emit(nHosts, r.Intn(4), 1+r.Intn(3), expiry, unh, nThreads, evs)
	}
}

func init() {
	proxy.RegisterPolicy("verif_barrier", func(args []string) proxy.Policy {
		id := ""
		if len(args) > 0 {
			id = args[0]
		}
		return &c14Policy{id: id}
	})
	hx.Register(&hx.Stream{ID: "C14", Name: "c14.sched", Gen: c14Gen, Eval: c14Eval})
}
