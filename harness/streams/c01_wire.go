//go:build c01

package streams

import (
	"bufio"
	"fmt"
	"io"
	"log"
	"net/http"
	"net/http/httptest"
	"strconv"
	"strings"

	"github.com/tmpim/casket"
	"github.com/tmpim/casket/caskethttp/httpserver"
	"github.com/tmpim/casket/caskettls"

	"verifharness/hx"
)

// c01.wire  sites  hosthex  targethex  protoMajor
//   sites  = as in c01.route
//   target = the request-target as the client writes it on the wire: raw bytes (UTF-8 as it is) or percent-encoded
//   out    = badrequest | routed TAB <URL.Path hex> TAB (site TAB <index> TAB <path_prefix hex> | notfound TAB <status>)
//
// The real code path: the bytes "GET <target> HTTP/1.1\r\nHost: <host>\r\n\r\n" -> net/http's ReadRequest (request line,
// url.ParseRequestURI: query cut, percent-decoding into URL.Path) -> httpserver.NewServer + Server.ServeHTTP with one
// marker middleware per site.  Site paths and request paths are drawn from an alphabet WITH multi-byte UTF-8 characters.

func c01WireEval(f []string) (string, []string) {
	if len(f) != 4 {
		return "bad-case", nil
	}
	sites := c01ParseSites(f[0])
	host, target := hx.UnHS(f[1]), hx.UnHS(f[2])
	pm, _ := strconv.Atoi(f[3])
	tags := []string{fmt.Sprintf("sites=%d", len(sites))}
	if len(sites) < 2 {
		tags = append(tags, "trivial-fewer-than-two-sites")
	}
	if strings.Contains(target, "%") {
		tags = append(tags, "target-escaped")
	}
	for i := 0; i < len(target); i++ {
		if target[i] >= 0x80 {
			tags = append(tags, "target-raw-non-ascii")
			break
		}
	}
	req, err := http.ReadRequest(bufio.NewReader(strings.NewReader("GET " + target + " HTTP/1.1\r\nHost: " + host + "\r\n\r\n")))
	if err != nil {
		return "badrequest", append(tags, "badrequest")
	}
	if req.Host != host {
		return "host-differs:" + hx.HS(req.Host), tags
	}
	if pm != 1 {
		req.Proto, req.ProtoMajor, req.ProtoMinor = fmt.Sprintf("HTTP/%d.0", pm), pm, 0
	}
	req.RemoteAddr = "192.0.2.1:4000"
	type hit struct {
		idx    int
		prefix string
	}
	var ran []hit
	group := make([]*httpserver.SiteConfig, len(sites))
	nonASCIISite := false
	for i, s := range sites {
		sc := &httpserver.SiteConfig{
			Addr:         httpserver.Address{Original: s.key, Host: s.addrHost},
			TLS:          &caskettls.Config{},
			FallbackSite: s.fallback,
		}
		for j := 0; j < len(s.key); j++ {
			if s.key[j] >= 0x80 {
				nonASCIISite = true
			}
		}
		idx := i
		sc.AddMiddleware(func(next httpserver.Handler) httpserver.Handler {
			return httpserver.HandlerFunc(func(w http.ResponseWriter, r *http.Request) (int, error) {
				pfx, _ := r.Context().Value(casket.CtxKey("path_prefix")).(string)
				ran = append(ran, hit{idx, pfx})
				w.WriteHeader(200)
				return 0, nil
			})
		})
		group[i] = sc
	}
	if nonASCIISite {
		tags = append(tags, "site-path-non-ascii")
	}
	srv, err := httpserver.NewServer("127.0.0.1:0", group)
	if err != nil {
		return "setup-error:" + err.Error(), tags
	}
	rec := httptest.NewRecorder()
	srv.ServeHTTP(rec, req)
	head := "routed\t" + hx.HS(req.URL.Path) + "\t"
	switch {
	case len(ran) == 0:
		return head + "notfound\t" + strconv.Itoa(rec.Code), append(tags, "notfound")
	case len(ran) == 1 && rec.Code == 200:
		for j := 0; j < len(ran[0].prefix); j++ {
			if ran[0].prefix[j] >= 0x80 {
				tags = append(tags, "served-under-non-ascii-prefix")
				break
			}
		}
		return head + "site\t" + strconv.Itoa(ran[0].idx) + "\t" + hx.HS(ran[0].prefix), append(tags, "served")
	}
	return fmt.Sprintf("unexpected:ran=%d,status=%d", len(ran), rec.Code), tags
}

func c01PctEncode(p string, lower bool) string {
	var b strings.Builder
	for i := 0; i < len(p); i++ {
		c := p[i]
		switch {
		case c == '/' || c == '-' || c == '.' || c == '_' || c == '~' || (c >= '0' && c <= '9') || (c >= 'a' && c <= 'z') || (c >= 'A' && c <= 'Z'):
			b.WriteByte(c)
		case lower:
			fmt.Fprintf(&b, "%%%02x", c)
		default:
			fmt.Fprintf(&b, "%%%02X", c)
		}
	}
	return b.String()
}

// site path prefixes and request paths with multi-byte UTF-8 characters (2-, 3- and 4-byte sequences), and
// their ASCII look-alikes / byte-wise neighbours
var c01UPaths = []string{"", "/", "/café", "/café/menü", "/日本", "/日", "/caf", "/cafe", "/cafè", "/\U0001F600", "/plain", "/é"}
var c01UReqPaths = []string{
	"/", "/café", "/café/", "/café/menü", "/café/menü/today", "/café/index.html", "/cafés",
	"/cafe", "/caf", "/cafè/x", "/café", "/日本/page", "/日本", "/日", "/日本語",
	"/\U0001F600/x", "/plain/x", "/é", "/éé/y", "/other",
}

func c01WireGen(g *hx.Gen) {
	mk := func(key string) c01Site { return c01Site{key, false, c01AddrHost(key)} }
	emit := func(sites []c01Site, host, target string, pm int) {
		g.Case(c01EncSites(sites), hx.HS(host), hx.HS(target), strconv.Itoa(pm))
	}
	// every spelling of one path on the wire: raw, percent-encoded (upper / lower hex), with a query
	spell := func(p string, n int) string {
		switch n % 4 {
		case 0:
			return p
		case 1:
			return c01PctEncode(p, false)
		case 2:
			return c01PctEncode(p, true)
		}
		return c01PctEncode(p, false) + "?q=caf%C3%A9/x"
	}
	hosts := []string{"example.com", "*.example.com", ""}
	reqHosts := []string{"example.com", "EXAMPLE.com:8080", "x.example.com", "zzz"}
	// one site and every ordered pair of sites of one host over the path alphabet, every request path, all spellings
	n := 0
	for _, h := range hosts {
		for _, p1 := range c01UPaths {
			for _, rp := range c01UReqPaths {
				for sp := 0; sp < 3; sp++ {
					n++
					emit([]c01Site{mk(h + p1)}, reqHosts[n%len(reqHosts)], spell(rp, sp), 1+n%2)
				}
			}
			for _, p2 := range c01UPaths {
				if p1 == p2 || (p1 == "" && p2 == "/") || (p1 == "/" && p2 == "") {
					continue
				}
				for ri, rp := range c01UReqPaths {
					n++
					if !g.Thorough() && (n+ri)%3 != 0 {
						continue
					}
					emit([]c01Site{mk(h + p1), mk(h + p2)}, reqHosts[n%len(reqHosts)], spell(rp, n/3), 1+n%2)
				}
			}
		}
	}
	// hand-picked sets in every declaration order x request hosts x paths x spellings
	sets := [][]string{
		{"example.com", "example.com/café", "example.com/café/menü", "example.com/plain"},
		{"example.com/日本"},
		{"example.com/日本", "example.com/日", "*.example.com/日本"},
		{"example.com/caf", "example.com/café", "example.com/cafè", ""},
		{"/é", "example.com", "*.com/café"},
		{"EXAMPLE.com:8080/café", "0.0.0.0:8080/café/menü", "*.example.com:8080/\U0001F600"},
	}
	for _, set := range sets {
		for _, perm := range c01Perms(len(set)) {
			sites := make([]c01Site, len(set))
			for i, j := range perm {
				sites[i] = mk(set[j])
			}
			for _, h := range reqHosts {
				for _, rp := range c01UReqPaths {
					for sp := 0; sp < 4; sp++ {
						emit(sites, h, spell(rp, sp), 1)
					}
				}
			}
		}
	}
	// broken escapes and odd targets: ReadRequest answers 400 (or decodes), compared with the model
	for _, t := range []string{"/caf%C3%A", "/caf%C3%", "/caf%zz", "/%", "/caf%c3%a9", "/caf%C3%A9%2Fmen%C3%BC", "/caf%25C3%25A9", "/café?", "/?café", "/café%3Fx", "//café", "/caf\xc3", "/caf\xc3\xa9\xff"} {
		emit([]c01Site{mk("example.com"), mk("example.com/café"), mk("example.com/café/menü")}, "example.com", t, 1)
	}
	// seeded random: 1..8 sites, paths of 0..3 segments over a mixed alphabet, requests aimed under a declared path
	N := 3000
	if g.Thorough() {
		N = 60000
	}
	segs := []string{"café", "caf", "é", "日本", "日", "foo", "menü", "\U0001F600", ""}
	randPath := func() string {
		p := ""
		for i, k := 0, g.Rng.Intn(4); i < k; i++ {
			p += "/" + hx.Pick(g.Rng, segs)
		}
		return p
	}
	rhosts := []string{"a.com", "*.a.com", "b.a.com", "", "*.com"}
	for it := 0; it < N; it++ {
		ns := 1 + g.Rng.Intn(8)
		sites := make([]c01Site, ns)
		for i := range sites {
			sites[i] = mk(hx.Pick(g.Rng, rhosts) + randPath())
		}
		s := sites[g.Rng.Intn(ns)]
		h := strings.ReplaceAll(c01AddrHost(s.key), "*", "x")
		if h == "" || g.Rng.Chance(1, 6) {
			h = hx.Pick(g.Rng, []string{"a.com", "b.a.com", "zzz", "A.COM:8080"})
		}
		p := "/"
		if i := strings.Index(s.key, "/"); i >= 0 && g.Rng.Chance(3, 4) {
			p = s.key[i:]
		} else if g.Rng.Bool() {
			p = randPath() + "/"
		}
		if g.Rng.Bool() {
			p += hx.Pick(g.Rng, []string{"", "/", "/x", "x", "é", "/" + hx.Pick(g.Rng, segs)})
		}
		emit(sites, h, spell(p, g.Rng.Intn(4)), 1+g.Rng.Intn(2)*g.Rng.Intn(2))
	}
}

func init() {
	quiet := func() error { log.SetOutput(io.Discard); return nil }
	hx.Register(&hx.Stream{ID: "C01", Name: "c01.wire", Gen: c01WireGen, Eval: c01WireEval, Setup: quiet})
}
