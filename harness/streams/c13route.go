//go:build c13

package streams

import (
	"bufio"
	"context"
	"fmt"
	"io"
	"net"
	"net/http"
	"net/http/httptest"
	"net/url"
	"os"
	"path/filepath"
	"sort"
	"strings"
	"sync"
	"time"

	"github.com/tmpim/casket"
	"github.com/tmpim/casket/caskethttp/httpserver"

	"verifharness/hx"
)

// c13.route: a fastcgi directive parsed from Casketfile text, a site root with real files, a
// request parsed by net/http, the real Handler.ServeHTTP dialling a scripted byte-level responder
// on the loopback interface.  Observed: which responder (if any) got the request, the parameters
// and stdin it received.

type c13Got struct {
	params [][2]string
	stdin  []byte
	ok     bool
}

type c13Responder struct {
	ln  net.Listener
	got chan c13Got
}

func c13StartResponder() (*c13Responder, error) {
	ln, err := net.Listen("tcp", "127.0.0.1:0")
	if err != nil {
		return nil, err
	}
	rs := &c13Responder{ln: ln, got: make(chan c13Got, 16)}
	go func() {
		for {
			conn, err := ln.Accept()
			if err != nil {
				return
			}
			go rs.serve(conn)
		}
	}()
	return rs, nil
}

func (rs *c13Responder) serve(conn net.Conn) {
	defer conn.Close()
	conn.SetDeadline(time.Now().Add(20 * time.Second))
	br := bufio.NewReader(conn)
	var params, stdin []byte
	var id uint16
	g := c13Got{}
	for {
		h := make([]byte, 8)
		if _, err := io.ReadFull(br, h); err != nil {
			break
		}
		cl, pl := int(h[4])<<8|int(h[5]), int(h[6])
		body := make([]byte, cl+pl)
		if _, err := io.ReadFull(br, body); err != nil {
			break
		}
		id = uint16(h[2])<<8 | uint16(h[3])
		if h[1] == 4 {
			params = append(params, body[:cl]...)
		}
		if h[1] == 5 {
			if cl == 0 {
				g.ok = true
				break
			}
			stdin = append(stdin, body[:cl]...)
		}
	}
	g.params, _ = fcgiPairs(params)
	g.stdin = stdin
	rs.got <- g
	if g.ok {
		conn.Write(fcgiRec(6, id, []byte("Status: 200 OK\r\nContent-Type: text/plain\r\n\r\nok"), 1))
		conn.Write(fcgiRec(6, id, nil, 0))
		conn.Write(fcgiRec(3, id, make([]byte, 8), 0))
	}
}

var (
	c13Resp  [2]*c13Responder
	c13Roots = map[string]string{}
	c13Mu    sync.Mutex
	c13Tmp   string
)

func c13RouteSetup() error {
	for i := range c13Resp {
		r, err := c13StartResponder()
		if err != nil {
			return err
		}
		c13Resp[i] = r
	}
	d, err := os.MkdirTemp("", "verif-c13-")
	if err != nil {
		return err
	}
	c13Tmp = d
	c13Roots = map[string]string{}
	casket.AppName, casket.AppVersion = "Casket", "verif"
	return nil
}

func c13RouteTeardown() {
	for _, r := range c13Resp {
		if r != nil {
			r.ln.Close()
		}
	}
	os.RemoveAll(c13Tmp)
}

// c13Root materialises a set of files once.
func c13Root(files string) (string, error) {
	c13Mu.Lock()
	defer c13Mu.Unlock()
	if d, ok := c13Roots[files]; ok {
		return d, nil
	}
	d := filepath.Join(c13Tmp, fmt.Sprintf("r%d", len(c13Roots)))
	if err := os.MkdirAll(d, 0o755); err != nil {
		return "", err
	}
	if files != "" {
		for _, f := range strings.Split(files, ",") {
			p := filepath.Join(d, filepath.FromSlash(f))
			if err := os.MkdirAll(filepath.Dir(p), 0o755); err != nil {
				return "", err
			}
			if err := os.WriteFile(p, []byte("<?php secret source ?>"), 0o644); err != nil {
				return "", err
			}
		}
	}
	c13Roots[files] = d
	return d, nil
}

func c13Casketfile(rules string) string {
	var b strings.Builder
	for i, rs := range strings.Split(rules, ";;") {
		p := strings.Split(rs, "|")
		fmt.Fprintf(&b, "fastcgi %s %s {\n", p[0], c13Resp[i%2].ln.Addr().String())
		if p[1] != "" {
			fmt.Fprintf(&b, " ext %s\n", p[1])
		}
		if p[2] != "" {
			fmt.Fprintf(&b, " split %s\n", p[2])
		}
		if p[3] != "" {
			fmt.Fprintf(&b, " index %s\n", strings.ReplaceAll(p[3], ",", " "))
		}
		if p[4] != "" {
			fmt.Fprintf(&b, " except %s\n", strings.ReplaceAll(p[4], ",", " "))
		}
		if p[5] != "" {
			for _, kv := range strings.Split(p[5], ",") {
				x := strings.SplitN(kv, "=", 2)
				fmt.Fprintf(&b, " env %s %s\n", x[0], x[1])
			}
		}
		b.WriteString("}\n")
	}
	return b.String()
}

// c13RouteSite is one fastcgi middleware built from Casketfile text over a materialised site root.
type c13RouteSite struct {
	handler    httpserver.Handler
	root       string
	nextCalled bool
}

func c13RouteHandler(rules, files string) (*c13RouteSite, string) {
	root, err := c13Root(files)
	if err != nil {
		return nil, "setup-error:" + err.Error()
	}
	c := casket.NewTestController("http", c13Casketfile(rules))
	cfg := httpserver.GetConfig(c)
	cfg.Root = root
	cfg.Addr = httpserver.Address{Host: "example.test", Port: "8080"}
	action, err := casket.DirectiveAction("http", "fastcgi")
	if err != nil {
		return nil, "setup-error:" + err.Error()
	}
	if err := action(c); err != nil {
		return nil, "setup-error:" + err.Error()
	}
	mids := cfg.Middleware()
	if len(mids) != 1 {
		return nil, "setup-error:middleware"
	}
	site := &c13RouteSite{root: root}
	site.handler = mids[0](httpserver.HandlerFunc(func(w http.ResponseWriter, r *http.Request) (int, error) {
		site.nextCalled = true
		return 0, nil
	}))
	return site, ""
}

func c13RouteEval(f []string) (string, []string) {
	site, e := c13RouteHandler(f[1], f[2])
	if site == nil {
		return e, nil
	}
	return c13RouteServe(site, f[0] == "1", f[3:])
}

// c13RouteServe sends one request (method path query headers body remote te) through the site.
func c13RouteServe(site *c13RouteSite, cs bool, f []string) (string, []string) {
	method := f[0]
	path, query, hdrs, body, remote, te := hx.UnHS(f[1]), hx.UnHS(f[2]), hx.UnHS(f[3]), hx.UnH(f[4]), f[5], f[6]
	root, handler := site.root, site.handler
	site.nextCalled = false
	// drain stale answers
	for _, r := range c13Resp {
		for len(r.got) > 0 {
			<-r.got
		}
	}
	target := (&url.URL{Path: path}).EscapedPath()
	if path == "" {
		target = "http://example.test:8080"
	}
	if query != "" {
		target += "?" + query
	}
	var raw strings.Builder
	fmt.Fprintf(&raw, "%s %s HTTP/1.1\r\nHost: example.test:8080\r\n", method, target)
	for _, l := range strings.Split(hdrs, "\n") {
		if l != "" {
			raw.WriteString(l + "\r\n")
		}
	}
	switch te {
	case "cl":
		fmt.Fprintf(&raw, "Content-Length: %d\r\n\r\n", len(body))
		raw.Write(body)
	case "chunked":
		raw.WriteString("Transfer-Encoding: chunked\r\n\r\n")
		if len(body) > 0 {
			fmt.Fprintf(&raw, "%x\r\n", len(body))
			raw.Write(body)
			raw.WriteString("\r\n")
		}
		raw.WriteString("0\r\n\r\n")
	default:
		raw.WriteString("\r\n")
	}
	req, err := http.ReadRequest(bufio.NewReader(strings.NewReader(raw.String())))
	if err != nil {
		return "rejected-by-net/http", []string{"trivial-rejected"}
	}
	req.RemoteAddr = remote
	req = req.WithContext(context.WithValue(req.Context(), httpserver.OriginalURLCtxKey, *req.URL))

	prev := httpserver.CaseSensitivePath
	httpserver.CaseSensitivePath = cs
	defer func() { httpserver.CaseSensitivePath = prev }()

	w := httptest.NewRecorder()
	var status int
	var herr error
	if p := c13Guard(func() string { status, herr = handler.ServeHTTP(w, req); return "" }); p != "" {
		return p, []string{"panic"}
	}
	tags := []string{"method=" + method}
	if cs {
		tags = append(tags, "case-sensitive")
	}
	for i, r := range c13Resp {
		select {
		case g := <-r.got:
			sort.Slice(g.params, func(a, b int) bool { return g.params[a][0] < g.params[b][0] })
			var ps []string
			for _, kv := range g.params {
				ps = append(ps, hx.HS(kv[0])+":"+hx.HS(strings.ReplaceAll(kv[1], root, "/ROOT")))
			}
			if !g.ok {
				return "responder-got-truncated-request", tags
			}
			if status != 0 || w.Code != 200 || w.Body.String() != "ok" {
				return fmt.Sprintf("sent-but-response-lost:%d:%d:%q:%v", status, w.Code, w.Body.String(), herr), tags
			}
			tags = append(tags, "sent")
			if _, err := os.Stat(root + strings.TrimRight(path, " .")); err == nil && !strings.HasSuffix(path, "/") {
				tags = append(tags, "existing-file")
			}
			return fmt.Sprintf("sent:%d;env=%s;stdin=%s", i, strings.Join(ps, ","), hx.H(g.stdin)), tags
		default:
		}
	}
	switch {
	case site.nextCalled:
		if _, err := os.Stat(root + path); err == nil {
			return "next", append(tags, "next-existing")
		}
		return "next", append(tags, "next")
	case status == 500:
		return "err500", append(tags, "err500")
	}
	return fmt.Sprintf("other:%d:%v", status, herr), tags
}

func c13RouteGen(g *hx.Gen) {
	r := g.Rng
	ruleSets := []string{
		"/|.php|.php|index.php||",
		"/|.php|.php|index.php||APP_ENV=prod,DB=x",
		"/app|.php|.php|index.php|/dl,/static|",
		"/app/|.php|.php|||",
		"/|.php||||",
		"/|.PHP|.PHP|index.php||",
		"/|.php|.php|index.html||",
		"/app|.php|.php|index.php||K=1;;/|.cgi|.cgi|||Z=2",
		"/|||||",
		// excluded points of the routing theorem: a split string that does not occur in the
		// extension, in other letter case, a proper part of it; an extension ending in a dot
		"/|.php|.cgi|||",
		"/|.php|.PHP|||",
		"/|.php|.ph|||",
		"/|.php|php5|||",
		"/|.php.|.php|||",
	}
	fileSets := []string{
		"a.php,app/x.php,app/index.php,app/sub/y.PHP,UP.PHP,b.txt,app/dl/z.php,app/static/s.php,c.php5,dir.php/f.txt,index.php,app/q.cgi,t.php,t.php.,u.php .",
		"b.txt",
		"",
	}
	paths := []string{"/a.php", "/A.PHP", "/a.PhP", "/a.php/extra/info", "/a.php/x.php/y", "/app/", "/app", "/app/x.php", "/APP/X.PHP", "/app/sub/y.PHP", "/app/sub/y.php",
		"/UP.PHP", "/UP.PHP/info", "/up.php", "/b.txt", "/missing.php", "/missing", "/a.php.", "/a.php ", "/a.php. .", "//a.php", "/app//x.php", "/app/dl/z.php", "/app/dl", "/app/DL/z.php",
		"/app/static/s.php", "/", "", "/dir.php/f.txt", "/dir.php/", "/c.php5", "/a.phpx", "/app/./x.php", "/.php", "/app/x.php/", "/app/q.cgi", "/app/q.cgi/pi", "/index.php", "/app/index.php/a/b", "/t.php", "/t.php.", "/t.php..", "/u.php .", "/u.php", "/t.php. ", "/a.php5",
		// the split string occurs again inside PATH_INFO, in every letter-case combination relative to
		// the script's occurrence: the split must be at the FIRST occurrence under the mode's comparison
		"/UP.PHP/report.php", "/UP.PHP/report.PHP", "/a.php/report.PHP", "/a.php/report.php", "/a.PhP/x.php/y.PHP", "/UP.PHP/a.Php/b.php",
		"/app/sub/y.PHP/export/list.php/3", "/app/x.php/a.PHP/b.php", "/INDEX.PHP/report.php", "/index.php/r.PHP", "/a.PHP.php", "/a.php.PHP", "/.PHP.php.PHP"}
	methods := []string{"GET", "GET", "POST", "POST", "HEAD", "OPTIONS", "PUT", "DELETE", "PATCH"}
	hdrLines := []string{"X-Foo: bar", "X-Foo: second", "Accept: */*", "Cookie: a=b; c=d", "Content-Type: application/json", "x-lower-case: v", "User-Agent: verif/1.0 (x y)", "X-Empty:", "Proxy: http://evil", "Authorization: Basic dTpw", "X-With-Dash-And-9: 9"}
	remotes := []string{"192.0.2.1:1234", "[2001:db8::1]:443", "noport", "[::1]"}
	emit := func(cs bool, rules, files, method, path, query, hdrs string, body []byte, remote, te string) {
		c := "0"
		if cs {
			c = "1"
		}
		g.Case(c, rules, files, method, hx.HS(path), hx.HS(query), hx.HS(hdrs), hx.H(body), remote, te)
	}
	// every path x every rule set, both case modes, GET without body
	for _, rs := range ruleSets {
		for _, p := range paths {
			emit(false, rs, fileSets[0], "GET", p, "", "", nil, remotes[0], "none")
			if g.Thorough() || strings.ContainsAny(p, "APXYU") || rs == ruleSets[5] {
				emit(true, rs, fileSets[0], "GET", p, "", "", nil, remotes[0], "none")
			}
		}
	}
	// runes whose lower-case form has another byte length (U+0130 İ: 2 -> 3 bytes, U+212A K: 3 -> 1):
	// an offset found in a lower-cased copy does not fit the original path
	for _, rs := range []string{ruleSets[0], ruleSets[4], "/|.php|.PHP|||"} {
		for _, p := range []string{"/İ/a.php", "/İİİ.php", "/İ/a.php/info", "/K/a.php", "/K/a.php/in/fo", "/KK/UP.PHP/x",
			"/a.php/K.php", "/é/a.php/x", "/İİİİİİ.php", "/\xff/a.php/pi", "/ȺȺȺ.php", "/Ⱥ/a.php/x", "/ȺȺȺȺ/UP.PHP"} {
			emit(false, rs, fileSets[0], "GET", p, "", "", nil, remotes[0], "none")
			emit(true, rs, fileSets[0], "GET", p, "", "", nil, remotes[0], "none")
		}
	}
	n := 500
	if g.Thorough() {
		n = 8000
	}
	for i := 0; i < n; i++ {
		var hs []string
		seen := map[string]bool{}
		for k := r.Intn(5); k > 0; k-- {
			l := hx.Pick(r, hdrLines)
			name := strings.ToLower(strings.SplitN(l, ":", 2)[0])
			if seen[name] && name != "x-foo" {
				continue
			}
			seen[name] = true
			hs = append(hs, l)
		}
		method := hx.Pick(r, methods)
		var body []byte
		te := "none"
		if r.Chance(1, 2) {
			body = []byte(c13Filler(r.Intn(26), hx.Pick(r, []int{1, 5, 100, 70000})))
			te = hx.Pick(r, []string{"cl", "cl", "chunked"})
		}
		emit(r.Chance(1, 8), hx.Pick(r, ruleSets), hx.Pick(r, fileSets), method, hx.Pick(r, paths), hx.Pick(r, []string{"", "a=1&b=2", "x"}),
			strings.Join(hs, "\n"), body, hx.Pick(r, remotes), te)
	}
}

// c13.routeseq: several requests one after the other through ONE fastcgi middleware in one process:
// whatever the handler or the package keeps between requests must not show in what the next responder
// receives.  Fields: cs rules files, then method path query headers body remote te per request.
func c13RouteSeqEval(f []string) (string, []string) {
	if len(f) < 10 || (len(f)-3)%7 != 0 {
		return "bad-case", nil
	}
	site, e := c13RouteHandler(f[1], f[2])
	if site == nil {
		return e, nil
	}
	var outs []string
	sent := 0
	for i := 3; i+6 < len(f); i += 7 {
		out, tags := c13RouteServe(site, f[0] == "1", f[i:i+7])
		outs = append(outs, out)
		for _, t := range tags {
			if t == "sent" {
				sent++
			}
		}
	}
	tags := []string{"requests=" + fmt.Sprint(len(outs))}
	if sent < 2 {
		tags = append(tags, "trivial-fewer-than-two-sent")
	} else {
		tags = append(tags, "sent>=2")
	}
	return strings.Join(outs, "\t"), tags
}

func c13RouteSeqGen(g *hx.Gen) {
	r := g.Rng
	// configurations and methods without known findings (no HEAD/OPTIONS bodies, split inside the extension)
	ruleSets := []string{"/|.php|.php|index.php||", "/|.php|.php|index.php||APP_ENV=prod,DB=x", "/app|.php|.php|index.php||K=1;;/|.cgi|.cgi|||Z=2"}
	files := "a.php,app/x.php,app/index.php,UP.PHP,b.txt,index.php,app/q.cgi"
	paths := []string{"/a.php", "/a.php/extra/info", "/app/x.php", "/app/", "/UP.PHP/report.php", "/index.php", "/app/index.php/a/b", "/a.php", "/app/x.php/pi", "/b.txt", "/missing.php"}
	hdrLines := []string{"X-Foo: bar", "X-Secret-Token: t0ps3cret", "Accept: */*", "Cookie: session=abc", "Content-Type: application/json", "Authorization: Basic dTpw", "X-With-Dash-And-9: 9", "User-Agent: verif/1.0"}
	remotes := []string{"192.0.2.1:1234", "[2001:db8::1]:443", "198.51.100.7:80"}
	req := func() []string {
		var hs []string
		seen := map[string]bool{}
		for k := r.Intn(4); k > 0; k-- {
			l := hx.Pick(r, hdrLines)
			if !seen[l] {
				seen[l] = true
				hs = append(hs, l)
			}
		}
		method := hx.Pick(r, []string{"GET", "GET", "POST", "PUT"})
		var body []byte
		te := "none"
		if method != "GET" || r.Chance(1, 4) {
			body = []byte(c13Filler(r.Intn(26), hx.Pick(r, []int{1, 5, 100, 3000})))
			te = hx.Pick(r, []string{"cl", "cl", "chunked"})
		}
		return []string{method, hx.HS(hx.Pick(r, paths)), hx.HS(hx.Pick(r, []string{"", "a=1&b=2"})), hx.HS(strings.Join(hs, "\n")), hx.H(body), hx.Pick(r, remotes), te}
	}
	// a request with many headers and a body, then a bare GET: nothing of the first may reach the second
	rich := []string{"POST", hx.HS("/a.php/extra/info"), hx.HS("tok=1"), hx.HS("X-Secret-Token: t0ps3cret\nCookie: session=abc\nAuthorization: Basic dTpw\nContent-Type: application/json"), hx.H([]byte(c13Filler(3, 500))), remotes[1], "cl"}
	bare := []string{"GET", hx.HS("/app/x.php"), hx.HS(""), hx.HS(""), "", remotes[0], "none"}
	for _, rs := range ruleSets {
		g.Case(append(append([]string{"0", rs, files}, rich...), bare...)...)
		g.Case(append(append(append([]string{"0", rs, files}, bare...), rich...), bare...)...)
	}
	n := 60
	if g.Thorough() {
		n = 2000
	}
	for i := 0; i < n; i++ {
		f := []string{"0", hx.Pick(r, ruleSets), files}
		for k := 2 + r.Intn(2); k > 0; k-- {
			f = append(f, req()...)
		}
		g.Case(f...)
	}
}

func init() {
	// the sequences first: a case of c13.routeseq carries its own history and replays on its own
	hx.Register(&hx.Stream{ID: "C13", Name: "c13.routeseq", Gen: c13RouteSeqGen, Eval: c13RouteSeqEval,
		Serial: true, Setup: c13RouteSetup, Teardown: c13RouteTeardown})
	hx.Register(&hx.Stream{ID: "C13", Name: "c13.route", Gen: c13RouteGen, Eval: c13RouteEval,
		Serial: true, Setup: c13RouteSetup, Teardown: c13RouteTeardown})
}
