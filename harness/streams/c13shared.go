//go:build c13 || c19

package streams

import (
	"bytes"
	"io"
)

// Helpers shared by the FastCGI streams of C13 and C19.

// fcgiRWC is the connection handed to FCGIClient: reads come from r, writes are captured.
type fcgiRWC struct {
	r     io.Reader
	wrote bytes.Buffer
}

func (c *fcgiRWC) Read(b []byte) (int, error)  { return c.r.Read(b) }
func (c *fcgiRWC) Write(b []byte) (int, error) { return c.wrote.Write(b) }
func (c *fcgiRWC) Close() error                { return nil }

// fcgiRec renders one record the way a responder would (any padding).
func fcgiRec(typ byte, id uint16, content []byte, pad int) []byte {
	b := []byte{1, typ, byte(id >> 8), byte(id), byte(len(content) >> 8), byte(len(content)), byte(pad), 0}
	b = append(b, content...)
	return append(b, make([]byte, pad)...)
}

// c13Filler is the deterministic filler shared with the Lean drivers (`filler seed n`).
func c13Filler(seed, n int) string {
	b := make([]byte, n)
	for i := range b {
		b[i] = byte(97 + (seed+i)%26)
	}
	return string(b)
}

// fcgiSplit cuts a byte stream into records (type, id, content); ok=false if it is not a
// sequence of whole version-1 records.  Used by the harness only to find the order in which a
// Go map was iterated and to play the responder in c13.env; the judge is the Lean decoder.
type fcgiRecord struct {
	typ     byte
	id      uint16
	content []byte
}

func fcgiSplit(w []byte) (recs []fcgiRecord, ok bool) {
	for len(w) > 0 {
		if len(w) < 8 || w[0] != 1 {
			return recs, false
		}
		cl, pl := int(w[4])<<8|int(w[5]), int(w[6])
		if len(w) < 8+cl+pl {
			return recs, false
		}
		recs = append(recs, fcgiRecord{w[1], uint16(w[2])<<8 | uint16(w[3]), w[8 : 8+cl]})
		w = w[8+cl+pl:]
	}
	return recs, true
}

// fcgiPairs decodes a name-value stream.
func fcgiPairs(s []byte) (pairs [][2]string, ok bool) {
	size := func() (int, bool) {
		if len(s) == 0 {
			return 0, false
		}
		if s[0] < 128 {
			n := int(s[0])
			s = s[1:]
			return n, true
		}
		if len(s) < 4 {
			return 0, false
		}
		n := int(s[0]&0x7f)<<24 | int(s[1])<<16 | int(s[2])<<8 | int(s[3])
		s = s[4:]
		return n, true
	}
	for len(s) > 0 {
		nl, ok1 := size()
		vl, ok2 := size()
		if !ok1 || !ok2 || len(s) < nl+vl {
			return pairs, false
		}
		pairs = append(pairs, [2]string{string(s[:nl]), string(s[nl : nl+vl])})
		s = s[nl+vl:]
	}
	return pairs, true
}
