//go:build c09

package streams

import (
	"bytes"
	"crypto/sha256"
	"fmt"
	"io"
	"net/http"
	"net/http/httptest"
	"os"
	"path/filepath"
	"reflect"
	"sort"
	"strconv"
	"strings"
	"sync"

	"github.com/tmpim/casket"
	"github.com/tmpim/casket/casketfile"
	_ "github.com/tmpim/casket/caskethttp"
	"github.com/tmpim/casket/caskethttp/httpserver"

	"verifharness/hx"
)

// ---------------------------------------------------------------------------------------------
// c09.directives: the list the loader iterates over
// ---------------------------------------------------------------------------------------------

func c09DirectivesEval(f []string) (string, []string) {
	// the list the loader iterates over, and which of its entries have a plugin registered
	var reg []string
	for _, d := range casket.ValidDirectives("http") {
		if _, err := casket.DirectiveAction("http", d); err == nil {
			reg = append(reg, d)
		}
	}
	return strings.Join(casket.ValidDirectives("http"), ",") + "#" + strings.Join(reg, ","), []string{"list"}
}

// ---------------------------------------------------------------------------------------------
// c09.group: the real parser's per-directive token groups for a block and a reordering of it
//   0 lines  <dir>:<hex tok>|<hex tok>|...,...     1 perm  indices
// ---------------------------------------------------------------------------------------------

type c09Line struct {
	dir  string
	toks []string
}

func c09ParseLines(s string) []c09Line {
	if s == "" {
		return nil
	}
	var out []c09Line
	for _, e := range strings.Split(s, ",") {
		p := strings.SplitN(e, ":", 2)
		l := c09Line{dir: p[0]}
		if p[1] != "" {
			for _, t := range strings.Split(p[1], "|") {
				l.toks = append(l.toks, hx.UnHS(t))
			}
		}
		out = append(out, l)
	}
	return out
}

func c09Perm(s string, n int) ([]int, bool) {
	var out []int
	if s != "" {
		for _, x := range strings.Split(s, ",") {
			i, err := strconv.Atoi(x)
			if err != nil || i < 0 || i >= n {
				return nil, false
			}
			out = append(out, i)
		}
	}
	return out, len(out) == n
}

// c09Render writes the lines as Casketfile text: a token is quoted when it needs to be, a "{"
// token opens a block (the following tokens go one per line until the matching "}").
func c09Render(lines []c09Line) string {
	var b strings.Builder
	b.WriteString("example.test {\n")
	for _, l := range lines {
		depth := 0
		b.WriteString("\t")
		for i := 0; i < len(l.toks); i++ {
			t := l.toks[i]
			switch {
			case t == "{":
				b.WriteString(" {\n")
				depth++
			case t == "}":
				b.WriteString(strings.Repeat("\t", depth) + "}")
				depth--
				if depth > 0 {
					b.WriteString("\n")
				}
			case depth == 0:
				if i > 0 {
					b.WriteString(" ")
				}
				b.WriteString(c09Quote(t))
			default:
				// inside a block: one token per line, sometimes two
				b.WriteString(strings.Repeat("\t", depth+1) + c09Quote(t))
				if i+1 < len(l.toks) && l.toks[i+1] != "}" && l.toks[i+1] != "{" && (i+len(t))%2 == 0 {
					i++
					b.WriteString(" " + c09Quote(l.toks[i]))
				}
				b.WriteString("\n")
			}
		}
		b.WriteString("\n")
	}
	b.WriteString("}\n")
	return b.String()
}

func c09Quote(t string) string {
	if t == "" || strings.ContainsAny(t, " \t\n\"{}#") {
		return `"` + strings.ReplaceAll(t, `"`, `\"`) + `"`
	}
	return t
}

func c09Groups(text string) (string, error) {
	blocks, err := casketfile.Parse("Casketfile", strings.NewReader(text), casket.ValidDirectives("http"))
	if err != nil {
		return "", err
	}
	if len(blocks) != 1 {
		return "", fmt.Errorf("%d blocks", len(blocks))
	}
	var dirs []string
	for d := range blocks[0].Tokens {
		dirs = append(dirs, d)
	}
	sort.Strings(dirs)
	var out []string
	for _, d := range dirs {
		var ts []string
		for _, t := range blocks[0].Tokens[d] {
			ts = append(ts, hx.HS(t.Text))
		}
		out = append(out, d+"="+strings.Join(ts, "|"))
	}
	return strings.Join(out, ";"), nil
}

func c09GroupEval(f []string) (string, []string) {
	if len(f) != 2 {
		return "bad-case", nil
	}
	lines := c09ParseLines(f[0])
	perm, ok := c09Perm(f[1], len(lines))
	if !ok {
		return "bad-case", nil
	}
	re := make([]c09Line, len(lines))
	moved := false
	for k, i := range perm {
		re[k] = lines[i]
		moved = moved || k != i
	}
	// a block that does not parse is an answer ("!parse-error" in place of its groups)
	a, errA := c09Groups(c09Render(lines))
	if errA != nil {
		a = "!parse-error="
	}
	b, errB := c09Groups(c09Render(re))
	if errB != nil {
		b = "!parse-error="
	}
	tags := []string{fmt.Sprintf("lines=%d", len(lines))}
	if errA != nil || errB != nil {
		tags = append(tags, "parse-error")
	}
	if strings.Contains(f[0], hx.HS("\n")) {
		tags = append(tags, "multi-line-quoted-argument")
	}
	if !moved {
		tags = append(tags, "trivial-identity")
	} else {
		tags = append(tags, "reordered")
	}
	if strings.Contains(f[0], hx.HS("{")) {
		tags = append(tags, "sub-block")
	}
	dup := map[string]int{}
	for _, l := range lines {
		dup[l.dir]++
	}
	for _, n := range dup {
		if n > 1 {
			tags = append(tags, "repeated-directive")
			break
		}
	}
	return a + "#" + b, tags
}

// c09StablePerms lists every reordering of dirs that keeps equal directives in their relative
// order (limit > 0 caps the number).
func c09StablePerms(dirs []string, limit int) [][]int {
	n := len(dirs)
	var out [][]int
	used := make([]bool, n)
	cur := make([]int, 0, n)
	var rec func()
	rec = func() {
		if limit > 0 && len(out) >= limit {
			return
		}
		if len(cur) == n {
			out = append(out, append([]int(nil), cur...))
			return
		}
		for i := 0; i < n; i++ {
			if used[i] {
				continue
			}
			// i may come next only if no earlier unused line has the same directive
			ok := true
			for j := 0; j < i; j++ {
				if !used[j] && dirs[j] == dirs[i] {
					ok = false
					break
				}
			}
			if !ok {
				continue
			}
			used[i] = true
			cur = append(cur, i)
			rec()
			cur = cur[:len(cur)-1]
			used[i] = false
		}
	}
	rec()
	return out
}

func c09RandStablePerm(g *hx.Gen, dirs []string) []int {
	n := len(dirs)
	used := make([]bool, n)
	var out []int
	for len(out) < n {
		var cand []int
		for i := 0; i < n; i++ {
			if used[i] {
				continue
			}
			ok := true
			for j := 0; j < i; j++ {
				if !used[j] && dirs[j] == dirs[i] {
					ok = false
					break
				}
			}
			if ok {
				cand = append(cand, i)
			}
		}
		i := hx.Pick(g.Rng, cand)
		used[i] = true
		out = append(out, i)
	}
	return out
}

func c09PermField(p []int) string {
	s := make([]string, len(p))
	for i, x := range p {
		s[i] = strconv.Itoa(x)
	}
	return strings.Join(s, ",")
}

func c09GroupLineField(ls []c09Line) string {
	out := make([]string, len(ls))
	for i, l := range ls {
		ts := make([]string, len(l.toks))
		for j, t := range l.toks {
			ts[j] = hx.HS(t)
		}
		out[i] = l.dir + ":" + strings.Join(ts, "|")
	}
	return strings.Join(out, ",")
}

func c09GroupGen(g *hx.Gen) {
	valid := casket.ValidDirectives("http")
	// the last two: a quoted argument continued over a line break with a backslash, and a plain
	// multi-line quoted argument (token line numbers are all that is left of file order)
	args := []string{"a", "/x", "b c", "", "#h", "v\"q", "cont \\\nnext", "line1\nline2", "/p/*", "0"}
	randLine := func(dir string) c09Line {
		l := c09Line{dir: dir, toks: []string{dir}}
		for i, n := 0, g.Rng.Intn(4); i < n; i++ {
			l.toks = append(l.toks, hx.Pick(g.Rng, args[:8]))
		}
		if g.Rng.Chance(1, 4) {
			// make the multi-line argument the LAST token of the line
			l.toks = append(l.toks, hx.Pick(g.Rng, args[6:8]))
		}
		if g.Rng.Chance(1, 3) {
			l.toks = append(l.toks, "{")
			for i, n := 0, 1+g.Rng.Intn(4); i < n; i++ {
				l.toks = append(l.toks, hx.Pick(g.Rng, []string{"sub", "k", "v w", "/y", "except"}))
			}
			if g.Rng.Chance(1, 4) {
				l.toks = append(l.toks, "{", "deep", "}")
			}
			l.toks = append(l.toks, "}")
		}
		return l
	}
	// exhaustive: every stable reordering of blocks of up to 5 lines over 3 directive names
	names := []string{"header", "rewrite", "log"}
	maxN := 4
	if g.Thorough() {
		maxN = 6
	}
	for n := 0; n <= maxN; n++ {
		total := 1
		for i := 0; i < n; i++ {
			total *= len(names)
		}
		for code := 0; code < total; code++ {
			ls := make([]c09Line, n)
			dirs := make([]string, n)
			c := code
			for i := 0; i < n; i++ {
				dirs[i] = names[c%len(names)]
				c /= len(names)
				ls[i] = c09Line{dir: dirs[i], toks: []string{dirs[i], fmt.Sprintf("arg%d", i)}}
				if (i+code)%3 == 2 {
					ls[i].toks = append(ls[i].toks, []string{"q \\\nr", "m1\nm2"}[(i+code)%2])
				} else if i%2 == 1 {
					ls[i].toks = append(ls[i].toks, "{", fmt.Sprintf("sub%d", i), "x", "}")
				}
			}
			for _, p := range c09StablePerms(dirs, 0) {
				g.Case(c09GroupLineField(ls), c09PermField(p))
			}
		}
	}
	// random: up to 12 lines over all valid directive names
	N := 8000
	if g.Thorough() {
		N = 100000
	}
	for it := 0; it < N; it++ {
		n := 1 + g.Rng.Intn(12)
		pool := make([]string, 1+g.Rng.Intn(5))
		for i := range pool {
			pool[i] = hx.Pick(g.Rng, valid)
		}
		ls := make([]c09Line, n)
		dirs := make([]string, n)
		for i := range ls {
			dirs[i] = hx.Pick(g.Rng, pool)
			ls[i] = randLine(dirs[i])
		}
		g.Case(c09GroupLineField(ls), c09PermField(c09RandStablePerm(g, dirs)))
	}
}

// ---------------------------------------------------------------------------------------------
// c09.perm: a block and a reordering of it, both started through the real loader (casket.Start),
// compared on the handler chain the loader compiled and on a battery of requests
//   0 lines  <dir>:<hex line text>,...   1 perm
// ---------------------------------------------------------------------------------------------

var (
	c09Mu      sync.Mutex
	c09Root    string
	c09Backend *httptest.Server
)

func c09Setup() error {
	c09Mu.Lock()
	defer c09Mu.Unlock()
	if c09Root != "" {
		return nil
	}
	var c09SetupEr error
	func() {
		casket.Quiet = true
		dir, err := os.MkdirTemp("", "verif-c09-")
		if err != nil {
			c09SetupEr = err
			return
		}
		c09Root = dir
		files := map[string]string{
			"index.html":       "<html>index</html>\n",
			"idx.html":         "<html>idx</html>\n",
			"a.txt":            "file a\n",
			"a.html":           "<p>a html</p>\n",
			"big.txt":          strings.Repeat("compressible text 0123456789\n", 400),
			"x.foo":            "foo file\n",
			"404.html":         "custom not found page\n",
			"sub/index.html":   "<html>sub index</html>\n",
			"sub/b.txt":        "file b\n",
			"sub/hidden/h.txt": "hidden\n",
			"secret/s.txt":     "the secret\n",
			"internal/x.txt":   "internal x\n",
			"md/doc.md":        "# Title\n\nsome *markdown* text\n",
			"t/page.html":      "host={{.Host}} uri={{.URI}} method={{.Method}}\n",
			"dir/one.txt":      "1\n",
			"dir/two.txt":      "22\n",
			"dir/Casketfile":   "# a Casketfile lying inside the site root\n",
			"try/real.txt":     "real\n",
		}
		for name, body := range files {
			p := filepath.Join(dir, filepath.FromSlash(name))
			os.MkdirAll(filepath.Dir(p), 0o755)
			if err := os.WriteFile(p, []byte(body), 0o644); err != nil {
				c09SetupEr = err
				return
			}
		}
		c09Backend = httptest.NewServer(http.HandlerFunc(func(w http.ResponseWriter, r *http.Request) {
			w.Header().Set("X-Backend", "1")
			w.Header().Set("Date", "Thu, 01 Jan 2015 00:00:00 GMT")
			fmt.Fprintf(w, "backend saw %s %s auth=%q xa=%q\n", r.Method, r.URL.RequestURI(), r.Header.Get("Authorization"), r.Header.Get("X-A"))
		}))
	}()
	return c09SetupEr
}

func c09Teardown() {
	c09Mu.Lock()
	defer c09Mu.Unlock()
	if c09Backend != nil {
		c09Backend.Close()
		c09Backend = nil
	}
	if c09Root != "" {
		os.RemoveAll(c09Root)
		c09Root = ""
	}
}

// the directive lines blocks are drawn from
var c09Pool = []c09Line{
	{"root", []string{"root @ROOT@"}},
	{"index", []string{"index idx.html index.html"}},
	{"bind", []string{"bind 127.0.0.1"}},
	{"limits", []string{"limits {\n\theader 64kb\n\tbody /up 64\n}"}},
	{"timeouts", []string{"timeouts 30s"}},
	{"request_id", []string{"request_id"}},
	{"log", []string{"log / @LOG@ \"{method} {uri} {status}\""}},
	{"log", []string{"log /sub @LOG@.sub"}},
	{"rewrite", []string{"rewrite /old /a.txt"}},
	{"rewrite", []string{"rewrite /open /secret/s.txt"}},
	{"rewrite", []string{"rewrite /pub /internal/x.txt"}},
	{"rewrite", []string{"rewrite {\n\tregexp ^/re/(.*)$\n\tto /sub/{1}\n}"}},
	{"ext", []string{"ext .html .txt"}},
	{"gzip", []string{"gzip"}},
	{"gzip", []string{"gzip {\n\text .foo\n\tmin_length 1\n}"}},
	{"header", []string{"header / X-A one"}},
	{"header", []string{"header /sub X-B two"}},
	{"header", []string{"header /secret {\n\tX-S three\n\t-Server\n}"}},
	{"errors", []string{"errors {\n\t404 @ROOT@/404.html\n}"}},
	{"basicauth", []string{"basicauth /secret user pass"}},
	{"basicauth", []string{"basicauth /sub/b.txt bob builder"}},
	{"redir", []string{"redir /go /a.txt 302"}},
	{"redir", []string{"redir /secret/r /a.txt 301"}},
	{"redir", []string{"redir /internal/r /a.txt"}},
	{"status", []string{"status 418 /teapot"}},
	{"status", []string{"status 404 /sub/hidden"}},
	{"mime", []string{"mime .foo text/x-foo"}},
	{"internal", []string{"internal /internal"}},
	{"expvar", []string{"expvar /debug/vars-c09"}},
	{"pprof", []string{"pprof"}},
	{"push", []string{"push /index.html /a.txt"}},
	{"templates", []string{"templates /t"}},
	{"proxy", []string{"proxy /api @BACKEND@"}},
	{"proxy", []string{"proxy /secret/api @BACKEND@ {\n\twithout /secret\n}"}},
	{"websocket", []string{"websocket /ws cat"}},
	{"fastcgi", []string{"fastcgi /fcgi 127.0.0.1:9 {\n\text .fcgi\n}"}},
	{"markdown", []string{"markdown /md"}},
	{"browse", []string{"browse /dir"}},
	{"tryfiles", []string{"tryfiles /try {path} /try/real.txt"}},
	// lines whose last token is a quoted argument running over a line break: continued with a
	// backslash, and a plain multi-line string
	{"log", []string{"log /ml @LOG@.ml \"{method} \\\n{uri} {status}\""}},
	{"log", []string{"log /ml2 @LOG@.ml2 \"{method}\n{status}\""}},
	{"status", []string{"status 418 \"/tea\\\npot\""}},
	{"basicauth", []string{"basicauth /dir bob \"pw\\\nx\""}},
}

type c09Req struct {
	method, target string
	hdr            [][2]string
	body           string
}

func c09Battery() []c09Req {
	basic := func(u, p string) [2]string {
		r, _ := http.NewRequest("GET", "/", nil)
		r.SetBasicAuth(u, p)
		return [2]string{"Authorization", r.Header.Get("Authorization")}
	}
	gz := [2]string{"Accept-Encoding", "gzip"}
	return []c09Req{
		{"GET", "/", nil, ""}, {"GET", "/a.txt", nil, ""}, {"HEAD", "/a.txt", nil, ""}, {"GET", "/a", nil, ""},
		{"GET", "/old", nil, ""}, {"GET", "/open", nil, ""}, {"GET", "/open", [][2]string{basic("user", "pass")}, ""},
		{"GET", "/pub", nil, ""}, {"GET", "/re/b.txt", nil, ""}, {"GET", "/re/b.txt", [][2]string{basic("bob", "builder")}, ""},
		{"GET", "/go", nil, ""}, {"GET", "/secret/r", nil, ""}, {"GET", "/secret/r", [][2]string{basic("user", "pass")}, ""},
		{"GET", "/internal/r", nil, ""}, {"GET", "/internal/x.txt", nil, ""},
		{"GET", "/secret/s.txt", nil, ""}, {"GET", "/secret/s.txt", [][2]string{basic("user", "pass")}, ""},
		{"GET", "/secret/s.txt", [][2]string{basic("user", "wrong")}, ""}, {"GET", "/secret/s.txt", [][2]string{basic("user", "pass"), gz}, ""},
		{"GET", "/sub/", nil, ""}, {"GET", "/sub", nil, ""}, {"GET", "/sub/b.txt", nil, ""}, {"GET", "/sub/hidden/h.txt", nil, ""},
		{"GET", "/teapot", nil, ""}, {"GET", "/x.foo", nil, ""}, {"GET", "/x.foo", [][2]string{gz}, ""},
		{"GET", "/big.txt", [][2]string{gz}, ""}, {"GET", "/big.txt", nil, ""}, {"GET", "/nonexistent", nil, ""},
		{"GET", "/nonexistent", [][2]string{gz}, ""}, {"GET", "/t/page.html", nil, ""}, {"GET", "/md/doc.md", nil, ""},
		{"GET", "/dir/", nil, ""}, {"GET", "/dir/", [][2]string{{"Accept", "application/json"}}, ""},
		{"GET", "/api/echo?x=1", nil, ""}, {"GET", "/secret/api/e", nil, ""}, {"GET", "/secret/api/e", [][2]string{basic("user", "pass")}, ""},
		{"POST", "/up", nil, strings.Repeat("x", 100)}, {"POST", "/a.txt", nil, "small"}, {"GET", "/try/missing.txt", nil, ""},
		{"GET", "/sub/../a.txt", nil, ""}, {"GET", "//a.txt", nil, ""}, {"OPTIONS", "/a.txt", nil, ""},
	}
}

// c09Load starts the block through the real loader (casket.Start) and returns the http server
// it built and a stop function.
func c09Load(lines []c09Line, logName string) (*httpserver.Server, func(), error) {
	return c09LoadFrom("Casketfile", lines, logName)
}

// c09LoadFrom: as c09Load, the configuration claiming to come from the file `path`.
func c09LoadFrom(path string, lines []c09Line, logName string) (*httpserver.Server, func(), error) {
	var cf strings.Builder
	cf.WriteString("http://127.0.0.1:0 {\n")
	for _, l := range lines {
		t := l.toks[0]
		t = strings.ReplaceAll(t, "@ROOT@", c09Root)
		t = strings.ReplaceAll(t, "@BACKEND@", c09Backend.URL)
		t = strings.ReplaceAll(t, "@LOG@", filepath.Join(c09Root, logName))
		cf.WriteString("\t" + strings.ReplaceAll(t, "\n", "\n\t") + "\n")
	}
	cf.WriteString("}\n")
	inst, err := casket.Start(casket.CasketfileInput{Filepath: path, Contents: []byte(cf.String()), ServerTypeName: "http"})
	if err != nil {
		return nil, nil, err
	}
	stop := func() {
		inst.ShutdownCallbacks()
		inst.Stop()
	}
	var srv *httpserver.Server
	for _, sl := range inst.Servers() {
		if s, ok := casket.VerifServer(sl).(*httpserver.Server); ok {
			srv = s
		}
	}
	if srv == nil {
		stop()
		return nil, nil, fmt.Errorf("no http server in the instance")
	}
	return srv, stop, nil
}

// c09Client is the in-process client side: an httptest recorder that, like net/http's own
// response writer, can be asked for close notifications (the proxy does).
type c09Client struct {
	*httptest.ResponseRecorder
	closed chan bool
}

func (c c09Client) CloseNotify() <-chan bool { return c.closed }

func c09Do(srv *httpserver.Server, rq c09Req) *httptest.ResponseRecorder {
	var body io.Reader
	if rq.body != "" {
		body = strings.NewReader(rq.body)
	}
	req := httptest.NewRequest(rq.method, "http://127.0.0.1"+rq.target, body)
	req.RequestURI = rq.target
	for _, h := range rq.hdr {
		req.Header.Set(h[0], h[1])
	}
	rec := httptest.NewRecorder()
	srv.ServeHTTP(c09Client{rec, make(chan bool)}, req)
	return rec
}

// c09Start loads the block and returns the compiled handler chain (directive names, outside in)
// and the answers to the battery.
func c09Start(lines []c09Line, logName string) (chain string, answers []string, err error) {
	chain, answers, _, err = c09StartCodes(lines, logName)
	return
}

func c09StartCodes(lines []c09Line, logName string) (chain string, answers []string, codes map[int]int, err error) {
	codes = map[int]int{}
	srv, stop, err := c09Load(lines, logName)
	if err != nil {
		return "", nil, nil, err
	}
	defer stop()
	sites := httpserver.VerifSites(srv)
	if len(sites) != 1 {
		return "", nil, nil, fmt.Errorf("%d sites", len(sites))
	}
	for _, rq := range c09Battery() {
		rec := c09Do(srv, rq)
		codes[rec.Code]++
		answers = append(answers, c09Digest(rec))
	}
	// Only now look at the handler types: some middleware constructors (errors) store `next` in a
	// shared handler, so calling them again would cut the chain the battery runs through.
	var names []string
	for _, mw := range sites[0].Middleware() {
		names = append(names, c09HandlerName(mw(httpserver.EmptyNext)))
	}
	return strings.Join(names, ","), answers, codes, nil
}

func c09Digest(rec *httptest.ResponseRecorder) string {
	var b bytes.Buffer
	fmt.Fprintf(&b, "%d\n", rec.Code)
	h := rec.Header()
	keys := make([]string, 0, len(h))
	for k := range h {
		keys = append(keys, k)
	}
	sort.Strings(keys)
	for _, k := range keys {
		if k == "Date" {
			continue
		}
		fmt.Fprintf(&b, "%s: %s\n", k, strings.Join(h[k], "|"))
	}
	b.WriteString("\n")
	b.Write(rec.Body.Bytes())
	if os.Getenv("VERIF_C09_DUMP") != "" {
		return b.String()
	}
	return fmt.Sprintf("%x", sha256.Sum256(b.Bytes()))[:16]
}

// package of a handler's type -> directive that installs it
var c09PkgDirective = map[string]string{
	"extensions": "ext", "redirect": "redir", "internalsrv": "internal", "requestid": "request_id",
}

func c09HandlerName(h httpserver.Handler) string {
	t := reflect.TypeOf(h)
	for t.Kind() == reflect.Ptr {
		t = t.Elem()
	}
	pkg := t.PkgPath()
	pkg = pkg[strings.LastIndex(pkg, "/")+1:]
	if d, ok := c09PkgDirective[pkg]; ok {
		return d
	}
	if pkg == "httpserver" {
		return "?" + t.Name()
	}
	return pkg
}

func c09PermEval(f []string) (string, []string) {
	if len(f) != 2 {
		return "bad-case", nil
	}
	if err := c09Setup(); err != nil {
		return "setup-error:" + err.Error(), nil
	}
	var lines []c09Line
	if f[0] != "" {
		for _, e := range strings.Split(f[0], ",") {
			p := strings.SplitN(e, ":", 2)
			lines = append(lines, c09Line{p[0], []string{hx.UnHS(p[1])}})
		}
	}
	perm, ok := c09Perm(f[1], len(lines))
	if !ok {
		return "bad-case", nil
	}
	re := make([]c09Line, len(lines))
	moved := false
	for k, i := range perm {
		re[k] = lines[i]
		moved = moved || k != i
	}
	chainA, ansA, codes, errA := c09StartCodes(lines, "access-a.log")
	chainB, ansB, errB := c09Start(re, "access-b.log")
	if errA != nil || errB != nil {
		// a block that no longer loads is an answer, not a harness failure
		if errA != nil {
			chainA = "!start-error"
		}
		if errB != nil {
			chainB = "!start-error"
		}
		if os.Getenv("VERIF_C09_DUMP") != "" {
			fmt.Fprintf(os.Stderr, "start errors: %v / %v\n", errA, errB)
		}
		return chainA + "#" + chainB + "#differ:start", []string{"start-error"}
	}
	res := "equal"
	for i := range ansA {
		if ansA[i] != ansB[i] {
			b := c09Battery()[i]
			res = fmt.Sprintf("differ:%s %s", b.method, b.target)
			break
		}
	}
	tags := []string{fmt.Sprintf("lines=%d", len(lines))}
	if moved {
		tags = append(tags, "reordered")
	} else {
		tags = append(tags, "trivial-identity")
	}
	if strings.Count(chainA, ",") >= 2 {
		tags = append(tags, "chain>=3")
	}
	// the battery must actually exercise the site: several different statuses, mostly not 404/500
	if len(codes) >= 3 && codes[200] >= 5 {
		tags = append(tags, "battery-varied")
	} else {
		tags = append(tags, "trivial-battery-flat")
	}
	if os.Getenv("VERIF_C09_DUMP") != "" {
		fmt.Fprintf(os.Stderr, "codes=%v\n", codes)
	}
	// a reordering that puts a directive later in the list in front of one earlier in it
	D := casket.ValidDirectives("http")
	pos := map[string]int{}
	for i, d := range D {
		pos[d] = i
	}
	for k := 1; k < len(re); k++ {
		if pos[re[k].dir] < pos[re[k-1].dir] {
			tags = append(tags, "written-against-list-order")
			break
		}
	}
	return chainA + "#" + chainB + "#" + res, tags
}

func c09PermLineField(ls []c09Line) string {
	out := make([]string, len(ls))
	for i, l := range ls {
		out[i] = l.dir + ":" + hx.HS(l.toks[0])
	}
	return strings.Join(out, ",")
}

func c09PermGen(g *hx.Gen) {
	root := c09Pool[0]
	dirsOf := func(ls []c09Line) []string {
		d := make([]string, len(ls))
		for i, l := range ls {
			d[i] = l.dir
		}
		return d
	}
	byName := func(names ...string) []c09Line {
		ls := []c09Line{root}
		for _, n := range names {
			for _, l := range c09Pool {
				if l.toks[0] == n || (l.dir == n && !strings.Contains(n, " ")) {
					ls = append(ls, l)
					break
				}
			}
		}
		return ls
	}
	// 1. hand-picked interacting sets, every stable reordering
	sets := [][]c09Line{
		byName("rewrite /open /secret/s.txt", "basicauth /secret user pass", "header / X-A one", "gzip"),
		byName("redir /secret/r /a.txt 301", "basicauth /secret user pass", "internal", "rewrite /pub /internal/x.txt"),
		byName("errors", "status 404 /sub/hidden", "log / @LOG@ \"{method} {uri} {status}\"", "header /sub X-B two"),
		byName("proxy /secret/api @BACKEND@ {\n\twithout /secret\n}", "basicauth /secret user pass", "header / X-A one", "gzip"),
		byName("templates", "markdown", "browse", "mime"),
	}
	for _, ls := range sets {
		perms := c09StablePerms(dirsOf(ls), 0)
		step := 1
		if !g.Thorough() && len(perms) > 30 {
			step = len(perms) / 30
		}
		for pi := 0; pi < len(perms); pi += step {
			g.Case(c09PermLineField(ls), c09PermField(perms[pi]))
		}
		g.Case(c09PermLineField(ls), c09PermField(perms[len(perms)-1]))
	}
	// the whole pool, written in list order, reversed by directive, and shuffled
	{
		ls := append([]c09Line(nil), c09Pool...)
		dirs := dirsOf(ls)
		g.Case(c09PermLineField(ls), c09PermField(c09StablePerms(dirs, 1)[0]))
		// directives in reverse list order, lines of one directive kept in order
		var rev []int
		var order []string
		seenDir := map[string]bool{}
		for _, d := range dirs {
			if !seenDir[d] {
				seenDir[d] = true
				order = append(order, d)
			}
		}
		for k := len(order) - 1; k >= 0; k-- {
			for i, d := range dirs {
				if d == order[k] {
					rev = append(rev, i)
				}
			}
		}
		g.Case(c09PermLineField(ls), c09PermField(rev))
		for i := 0; i < 3; i++ {
			g.Case(c09PermLineField(ls), c09PermField(c09RandStablePerm(g, dirs)))
		}
	}
	// 2. seeded random subsets of up to 9 lines in a random written order, random stable reordering
	N := 1000
	if g.Thorough() {
		N = 20000
	}
	for it := 0; it < N; it++ {
		n := 2 + g.Rng.Intn(8)
		ls := []c09Line{root}
		picked := map[int]bool{0: true}
		for len(ls) < n {
			i := g.Rng.Intn(len(c09Pool))
			if !picked[i] {
				picked[i] = true
				ls = append(ls, c09Pool[i])
			}
		}
		// the block as written: a random order (lines of one directive in pool order)
		w := c09RandStablePerm(g, dirsOf(ls))
		written := make([]c09Line, len(ls))
		for k, i := range w {
			written[k] = ls[i]
		}
		g.Case(c09PermLineField(written), c09PermField(c09RandStablePerm(g, dirsOf(written))))
	}
}

// ---------------------------------------------------------------------------------------------
// c09.pairs: the documented relative order of directive pairs, probed on the running server.
//   0 scenario   1 written order: 0 = outer directive's line first, 1 = inner first
//   out = what the probe observed (a status code, or 1/0 for "present"/"absent")
// The model predicts the observation from the position of the two directives in the regenerated
// list; the judge demands the documented one.
// ---------------------------------------------------------------------------------------------

type c09Scenario struct {
	name         string
	outer, inner string // the directive documented as outer, and the inner one
	lines        [2]string
	probe        c09Req
	observe      func(rec *httptest.ResponseRecorder, logFile string) string
}

// scenarios whose configuration claims to come from a file inside the site root
var c09ScenarioCasketfile = map[string]string{"rootcallback-before-browse": "dir/Casketfile"}

func c09Scenarios() []c09Scenario {
	status := func(rec *httptest.ResponseRecorder, _ string) string { return strconv.Itoa(rec.Code) }
	flag := func(b bool) string {
		if b {
			return "1"
		}
		return "0"
	}
	logHas := func(want string) func(*httptest.ResponseRecorder, string) string {
		return func(_ *httptest.ResponseRecorder, logFile string) string {
			b, _ := os.ReadFile(logFile)
			return flag(strings.TrimSpace(string(b)) == want)
		}
	}
	return []c09Scenario{
		{"rewrite-before-basicauth", "rewrite", "basicauth", [2]string{"rewrite /open /secret/s.txt", "basicauth /secret user pass"},
			c09Req{"GET", "/open", nil, ""}, status},
		{"basicauth-before-proxy", "basicauth", "proxy", [2]string{"basicauth /secret user pass", "proxy /secret/api @BACKEND@"},
			c09Req{"GET", "/secret/api/e", nil, ""}, status},
		{"redir-before-browse", "redir", "browse", [2]string{"redir /dir/ /a.txt 302", "browse /dir"},
			c09Req{"GET", "/dir/", nil, ""}, status},
		{"internal-before-browse", "internal", "browse", [2]string{"internal /internal", "browse /internal"},
			c09Req{"GET", "/internal/", nil, ""}, status},
		{"basicauth-before-markdown", "basicauth", "markdown", [2]string{"basicauth /md user pass", "markdown /md"},
			c09Req{"GET", "/md/doc.md", nil, ""}, status},
		{"header-around-proxy", "header", "proxy", [2]string{"header /api X-A one", "proxy /api @BACKEND@"},
			c09Req{"GET", "/api/x", nil, ""},
			func(rec *httptest.ResponseRecorder, _ string) string { return flag(rec.Header().Get("X-A") == "one") }},
		{"errors-around-status", "errors", "status", [2]string{"errors {\n\t404 @ROOT@/404.html\n}", "status 404 /sub/hidden"},
			c09Req{"GET", "/sub/hidden/h.txt", nil, ""},
			func(rec *httptest.ResponseRecorder, _ string) string {
				return flag(strings.Contains(rec.Body.String(), "custom not found page"))
			}},
		{"log-around-proxy", "log", "proxy", [2]string{"log /api @LOG@ \"{status}\"", "proxy /api @BACKEND@"},
			c09Req{"GET", "/api/x", nil, ""},
			func(_ *httptest.ResponseRecorder, logFile string) string {
				b, _ := os.ReadFile(logFile)
				return flag(strings.Contains(string(b), "200"))
			}},
		{"gzip-around-proxy", "gzip", "proxy", [2]string{"gzip {\n\tmin_length 1\n}", "proxy /api @BACKEND@"},
			c09Req{"GET", "/api/x", [][2]string{{"Accept-Encoding", "gzip"}}, ""},
			func(rec *httptest.ResponseRecorder, _ string) string {
				return flag(rec.Header().Get("Content-Encoding") == "gzip")
			}},
		// rewriters before access
		{"ext-before-basicauth", "ext", "basicauth", [2]string{"ext .txt", "basicauth /secret/s.txt user pass"},
			c09Req{"GET", "/secret/s", nil, ""}, status},
		{"tryfiles-before-basicauth", "tryfiles", "basicauth", [2]string{"tryfiles {path} /secret/s.txt", "basicauth /secret user pass"},
			c09Req{"GET", "/no-such-file", nil, ""}, status},
		{"rewrite-before-internal", "rewrite", "internal", [2]string{"rewrite ^/pub$ /internal/x.txt", "internal /internal"},
			c09Req{"GET", "/pub", nil, ""}, status},
		// access before content
		{"redir-before-proxy", "redir", "proxy", [2]string{"redir /api/x /a.txt 302", "proxy /api @BACKEND@"},
			c09Req{"GET", "/api/x", nil, ""}, status},
		{"status-before-browse", "status", "browse", [2]string{"status 418 /dir", "browse /dir"},
			c09Req{"GET", "/dir/", nil, ""}, status},
		// error pages around a content handler whose backend is missing (502)
		{"errors-around-fastcgi", "errors", "fastcgi", [2]string{"errors {\n\t502 @ROOT@/404.html\n}", "fastcgi /fcgi 127.0.0.1:9"},
			c09Req{"GET", "/fcgi/x.php", nil, ""},
			func(rec *httptest.ResponseRecorder, _ string) string {
				return flag(rec.Code == 502 && strings.Contains(rec.Body.String(), "custom not found page"))
			}},
		// the access log around everything: a line is written / carries what was sent
		{"log-around-rewrite", "log", "rewrite", [2]string{"log /old @LOG@ \"{status}\"", "rewrite ^/old$ /a.txt"},
			c09Req{"GET", "/old", nil, ""}, logHas("200")},
		{"log-around-basicauth", "log", "basicauth", [2]string{"log /secret @LOG@ \"{status}\"", "basicauth /secret user pass"},
			c09Req{"GET", "/secret/s.txt", nil, ""}, logHas("401")},
		{"log-around-redir", "log", "redir", [2]string{"log /go @LOG@ \"{status}\"", "redir /go /a.txt 302"},
			c09Req{"GET", "/go", nil, ""}, logHas("302")},
		{"log-around-errors", "log", "errors", [2]string{"log / @LOG@ \"{status} {size}\"", "errors {\n\t404 @ROOT@/404.html\n}"},
			c09Req{"GET", "/nonexistent", nil, ""}, logHas("404 22")},
		{"log-around-gzip", "log", "gzip", [2]string{"log / @LOG@ \"{status} {size}\"", "gzip"},
			c09Req{"GET", "/big.txt", [][2]string{{"Accept-Encoding", "gzip"}}, ""},
			func(rec *httptest.ResponseRecorder, logFile string) string {
				b, _ := os.ReadFile(logFile)
				return flag(rec.Header().Get("Content-Encoding") == "gzip" && strings.TrimSpace(string(b)) == fmt.Sprintf("200 %d", rec.Body.Len()))
			}},
		{"log-around-browse", "log", "browse", [2]string{"log /dir @LOG@ \"{status}\"", "browse /dir"},
			c09Req{"GET", "/dir/", nil, ""}, logHas("200")},
		// the parsing callback after root (hideCasketfile) must have run before browse is set up:
		// the Casketfile lies in the browsed directory and must not be listed
		{"rootcallback-before-browse", "root", "browse", [2]string{"root @ROOT@", "browse /dir"},
			c09Req{"GET", "/dir/", nil, ""},
			func(rec *httptest.ResponseRecorder, _ string) string {
				return flag(rec.Code == 200 && strings.Contains(rec.Body.String(), "one.txt") && !strings.Contains(rec.Body.String(), "Casketfile"))
			}},
	}
}

// c09RunScenario loads the scenario's two-directive site (written order "0": the outer directive's
// line first, "1": the inner one first), sends the probe and returns the observation.
func c09RunScenario(sc c09Scenario, order, logName string) (string, error) {
	lines := []c09Line{c09Pool[0], {sc.outer, []string{sc.lines[0]}}, {sc.inner, []string{sc.lines[1]}}}
	if order == "1" {
		lines[1], lines[2] = lines[2], lines[1]
	}
	if sc.outer == "root" {
		lines = lines[1:] // the scenario brings its own root line
	}
	from := "Casketfile"
	if rel, ok := c09ScenarioCasketfile[sc.name]; ok {
		from = filepath.Join(c09Root, rel)
	}
	os.Remove(filepath.Join(c09Root, logName))
	srv, stop, err := c09LoadFrom(from, lines, logName)
	if err != nil {
		return "", err
	}
	rec := c09Do(srv, sc.probe)
	stop() // closes the log
	if os.Getenv("VERIF_C09_DUMP") != "" {
		b, err := os.ReadFile(filepath.Join(c09Root, logName))
		fmt.Fprintf(os.Stderr, "code=%d hdr=%v body=%q log=%q err=%v\n", rec.Code, rec.Header(), rec.Body.String(), b, err)
	}
	return sc.observe(rec, filepath.Join(c09Root, logName)), nil
}

func c09PairsEval(f []string) (string, []string) {
	if len(f) != 2 {
		return "bad-case", nil
	}
	if err := c09Setup(); err != nil {
		return "setup-error:" + err.Error(), nil
	}
	for _, sc := range c09Scenarios() {
		if sc.name != f[0] {
			continue
		}
		obs, err := c09RunScenario(sc, f[1], "pairs-"+sc.name+"-"+f[1]+".log")
		if err != nil {
			return "start-error:" + err.Error(), nil
		}
		return obs, []string{sc.name, "written-order-" + f[1]}
	}
	return "bad-case:unknown scenario", nil
}

func c09PairsGen(g *hx.Gen) {
	for _, sc := range c09Scenarios() {
		g.Case(sc.name, "0")
		g.Case(sc.name, "1")
	}
}

// ---------------------------------------------------------------------------------------------
// c09.callbacks: where parsing callbacks run, observed through a probe server type "c09probe"
// (directives p1..p4 in that order; every setup and every callback records itself) loaded by the
// real casket.Start.
//   0 blocks  ';'-separated, each a ','-separated list of directive names (one line each)
//   1 perm    reordering of the lines of block 0
//   2 cbs     ','-separated directives after which a parsing callback is registered
//   out = events of the configuration as written '#' events after reordering block 0
//         event = s:<dir>:<block>:<key> | c:<dir>
// ---------------------------------------------------------------------------------------------

var (
	c09ProbeDirs  = []string{"p1", "p2", "p3", "p4"}
	c09ProbeTrace []string
	c09ProbeCbs   map[string]bool
)

type c09ProbeCtx struct{}

func (c *c09ProbeCtx) InspectServerBlocks(path string, sbs []casketfile.ServerBlock) ([]casketfile.ServerBlock, error) {
	return sbs, nil
}
func (c *c09ProbeCtx) MakeServers() ([]casket.Server, error) { return nil, nil }

func init() {
	casket.RegisterServerType("c09probe", casket.ServerType{
		Directives:   func() []string { return c09ProbeDirs },
		DefaultInput: func() casket.Input { return casket.CasketfileInput{ServerTypeName: "c09probe"} },
		NewContext:   func(*casket.Instance) casket.Context { return &c09ProbeCtx{} },
	})
	for _, d := range c09ProbeDirs {
		d := d
		casket.RegisterPlugin(d, casket.Plugin{ServerType: "c09probe", Action: func(c *casket.Controller) error {
			c09ProbeTrace = append(c09ProbeTrace, fmt.Sprintf("s:%s:%d:%d", d, c.ServerBlockIndex, c.ServerBlockKeyIndex))
			return nil
		}})
		// registration is for the life of the process: the callback is always there and stands for
		// "registered" only when the case enables it
		casket.RegisterParsingCallback("c09probe", d, func(casket.Context) error {
			if c09ProbeCbs[d] {
				c09ProbeTrace = append(c09ProbeTrace, "c:"+d)
			}
			return nil
		})
	}
}

func c09ProbeRun(blocks [][]string) (string, error) {
	var cf strings.Builder
	for i, b := range blocks {
		fmt.Fprintf(&cf, "site%d, alias%d {\n", i, i)
		for j, d := range b {
			fmt.Fprintf(&cf, "\t%s arg%d\n", d, j)
		}
		cf.WriteString("}\n")
	}
	c09ProbeTrace = nil
	inst, err := casket.Start(casket.CasketfileInput{Filepath: "Casketfile", Contents: []byte(cf.String()), ServerTypeName: "c09probe"})
	if err != nil {
		return "", err
	}
	inst.Stop()
	return strings.Join(c09ProbeTrace, ","), nil
}

func c09CallbacksEval(f []string) (string, []string) {
	if len(f) != 3 {
		return "bad-case", nil
	}
	casket.Quiet = true
	var blocks [][]string
	for _, b := range strings.Split(f[0], ";") {
		if b == "" {
			blocks = append(blocks, nil)
		} else {
			blocks = append(blocks, strings.Split(b, ","))
		}
	}
	perm, ok := c09Perm(f[1], len(blocks[0]))
	if !ok {
		return "bad-case", nil
	}
	c09ProbeCbs = map[string]bool{}
	if f[2] != "" {
		for _, d := range strings.Split(f[2], ",") {
			c09ProbeCbs[d] = true
		}
	}
	a, err := c09ProbeRun(blocks)
	if err != nil {
		return "start-error:" + err.Error(), nil
	}
	re := make([]string, len(blocks[0]))
	moved := false
	for k, i := range perm {
		re[k] = blocks[0][i]
		moved = moved || k != i
	}
	blocks2 := append([][]string{re}, blocks[1:]...)
	b, err := c09ProbeRun(blocks2)
	if err != nil {
		return "start-error:" + err.Error(), nil
	}
	tags := []string{fmt.Sprintf("callbacks=%d", len(c09ProbeCbs))}
	if moved {
		tags = append(tags, "reordered")
	}
	if len(c09ProbeCbs) == 0 {
		tags = append(tags, "trivial-no-callback")
	}
	return a + "#" + b, tags
}

func c09CallbacksGen(g *hx.Gen) {
	// exhaustive: every block of up to 3 (thorough 4) lines over p1..p4, every stable reordering,
	// every set of registered callbacks; a fixed second block
	maxN := 3
	if g.Thorough() {
		maxN = 4
	}
	for n := 0; n <= maxN; n++ {
		total := 1
		for i := 0; i < n; i++ {
			total *= 4
		}
		for code := 0; code < total; code++ {
			dirs := make([]string, n)
			c := code
			for i := range dirs {
				dirs[i] = c09ProbeDirs[c%4]
				c /= 4
			}
			for _, p := range c09StablePerms(dirs, 0) {
				for mask := 0; mask < 16; mask++ {
					if !g.Thorough() && n == 3 && (mask+code)%4 != 0 {
						continue
					}
					var cbs []string
					for i, d := range c09ProbeDirs {
						if mask>>i&1 == 1 {
							cbs = append(cbs, d)
						}
					}
					second := []string{"", "p3,p1", "p2"}[(code+mask)%3]
					g.Case(strings.Join(dirs, ",")+";"+second, c09PermField(p), strings.Join(cbs, ","))
				}
			}
		}
	}
}

// ---------------------------------------------------------------------------------------------
// c09.history: the documented order after a HISTORY of loads in one process.  Earlier loads are
// Casketfiles rejected for a misspelt directive (a failed start / reload, or -validate of a file
// with a typo); then a two-directive site of c09.pairs is started and probed.
//   0 typos     ','-separated misspelt directives, one rejected load each
//   1 scenario  2 written order (as c09.pairs)
//   3 how       start | validate | mixed: the rejected loads go through casket.Start, through
//               casket.ValidateAndExecuteDirectives(justValidate), or alternate
//   out = r|a per earlier load (rejected / accepted) '#' the probe's observation
//         '#' casket.ValidDirectives("http") afterwards
// ---------------------------------------------------------------------------------------------

func c09RejectedLoad(word string, validate bool) string {
	cf := "http://127.0.0.1:0 {\n\troot " + c09Root + "\n\t" + word + " x\n}\n"
	in := casket.CasketfileInput{Filepath: "Casketfile", Contents: []byte(cf), ServerTypeName: "http"}
	if validate {
		if err := casket.ValidateAndExecuteDirectives(in, nil, true); err != nil {
			return "r"
		}
		return "a"
	}
	inst, err := casket.Start(in)
	if err != nil {
		return "r"
	}
	inst.ShutdownCallbacks()
	inst.Stop()
	return "a"
}

func c09HistoryEval(f []string) (string, []string) {
	if len(f) != 4 {
		return "bad-case", nil
	}
	if err := c09Setup(); err != nil {
		return "setup-error:" + err.Error(), nil
	}
	var typos []string
	if f[0] != "" {
		typos = strings.Split(f[0], ",")
	}
	for _, sc := range c09Scenarios() {
		if sc.name != f[1] {
			continue
		}
		flags := ""
		for i, w := range typos {
			flags += c09RejectedLoad(w, f[3] == "validate" || (f[3] == "mixed" && i%2 == 1))
		}
		obs, err := c09RunScenario(sc, f[2], "history-"+sc.name+"-"+f[2]+".log")
		if err != nil {
			obs = "start-error"
		}
		tags := []string{fmt.Sprintf("rejected-loads=%d", strings.Count(flags, "r")), "how-" + f[3], "written-order-" + f[2]}
		if !strings.Contains(flags, "r") {
			tags = append(tags, "trivial-no-rejected-load")
		}
		// does a typo resemble the scenario's inner directive more than its outer one?
		pre := func(a, b string) int {
			n := 0
			for n < len(a) && n < len(b) && a[n] == b[n] {
				n++
			}
			return n
		}
		for _, w := range typos {
			if pre(w, sc.inner) > pre(w, sc.outer) {
				tags = append(tags, "typo-resembles-inner")
				break
			}
		}
		return flags + "#" + obs + "#" + strings.Join(casket.ValidDirectives("http"), ","), tags
	}
	return "bad-case:unknown scenario", nil
}

// c09Typos: misspellings of a directive name that are not themselves directives
func c09Typos(d string, valid map[string]bool) []string {
	var out []string
	add := func(w string) {
		if w != "" && !valid[w] && !strings.ContainsAny(w, ", \t#") {
			for _, o := range out {
				if o == w {
					return
				}
			}
			out = append(out, w)
		}
	}
	n := len(d)
	if n >= 2 {
		add(d[:n-1])                                   // last letter dropped: rewrit, gzi
		add(d[:n-2] + string(d[n-1]) + string(d[n-2])) // last two swapped: basicauht
		add(string(d[0]) + string(d[2:]))              // second letter dropped
		add(d[:1] + string(d[n-1]) + d[1:n-1])         // lgo
	}
	add(d + "s")
	return out
}

func c09HistoryGen(g *hx.Gen) {
	valid := map[string]bool{}
	for _, d := range casket.ValidDirectives("http") {
		valid[d] = true
	}
	scs := c09Scenarios()
	hows := []string{"start", "validate", "mixed"}
	// no earlier load at all (must agree with c09.pairs)
	for _, sc := range scs[:3] {
		g.Case("", sc.name, "0", "start")
	}
	// every scenario after ONE rejected load with a typo of its inner directive (first two
	// misspellings), and of its outer directive; both written orders; start and validate
	for _, sc := range scs {
		for ti, w := range c09Typos(sc.inner, valid) {
			if ti >= 2 && !g.Thorough() {
				break
			}
			for _, o := range []string{"0", "1"} {
				for _, how := range hows[:2] {
					g.Case(w, sc.name, o, how)
				}
			}
		}
		if ws := c09Typos(sc.outer, valid); len(ws) > 0 {
			g.Case(ws[0], sc.name, "1", "start")
		}
	}
	// seeded random histories of 2..4 rejected loads with typos of any directive of the scenarios
	var names []string
	seen := map[string]bool{}
	for _, sc := range scs {
		for _, d := range []string{sc.outer, sc.inner} {
			if !seen[d] {
				seen[d] = true
				names = append(names, d)
			}
		}
	}
	N := 120
	if g.Thorough() {
		N = 3000
	}
	for it := 0; it < N; it++ {
		sc := scs[g.Rng.Intn(len(scs))]
		n := 2 + g.Rng.Intn(3)
		var ws []string
		for i := 0; i < n; i++ {
			d := hx.Pick(g.Rng, names)
			if g.Rng.Chance(1, 2) {
				d = hx.Pick(g.Rng, []string{sc.inner, sc.outer})
			}
			ts := c09Typos(d, valid)
			if len(ts) == 0 {
				continue
			}
			ws = append(ws, hx.Pick(g.Rng, ts))
		}
		g.Case(strings.Join(ws, ","), sc.name, hx.Pick(g.Rng, []string{"0", "1"}), hx.Pick(g.Rng, hows))
	}
}

func init() {
	hx.Register(&hx.Stream{ID: "C09", Name: "c09.callbacks", Gen: c09CallbacksGen, Eval: c09CallbacksEval, Serial: true})
	hx.Register(&hx.Stream{ID: "C09", Name: "c09.pairs", Gen: c09PairsGen, Eval: c09PairsEval, Serial: true, Teardown: c09Teardown})
	hx.Register(&hx.Stream{ID: "C09", Name: "c09.directives", Gen: func(g *hx.Gen) { g.Case("http") }, Eval: c09DirectivesEval})
	hx.Register(&hx.Stream{ID: "C09", Name: "c09.group", Gen: c09GroupGen, Eval: c09GroupEval})
	hx.Register(&hx.Stream{ID: "C09", Name: "c09.perm", Gen: c09PermGen, Eval: c09PermEval, Serial: true,
		Teardown: c09Teardown})
	// last: under a defect that lets a rejected load change process-wide state, the streams above
	// stay unaffected and every case here carries its own history (replayable in a fresh process)
	hx.Register(&hx.Stream{ID: "C09", Name: "c09.history", Gen: c09HistoryGen, Eval: c09HistoryEval, Serial: true,
		Teardown: c09Teardown})
}
