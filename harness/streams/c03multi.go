//go:build c03

package streams

// c03.multi: several sites in ONE process, each with `basicauth … htpasswd=<file>` below its own
// root: same relative file name with different contents, the same user with different passwords,
// one file shared by two sites on purpose, different spellings of the file name.  A case is a
// HISTORY of configuration loads (start; stop then start; start of the new configuration while the
// old instance still runs, as a reload does; sites in either order; htpasswd files edited in between)
// followed by one request.  GetHtpasswdMatcher keeps a process-wide, never-emptied cache of parsed
// files; nothing is reset by hand here, the stream is Serial, and what earlier cases loaded stays
// in the cache — the property is that none of that is observable: a protected resource is served
// only with credentials valid for THAT site.

import (
	"crypto/sha1"
	"encoding/base64"
	"fmt"
	"net"
	"os"
	"path"
	"path/filepath"
	"strings"
	"time"

	"github.com/tmpim/casket"

	"verifharness/hx"
)

type c03mSite struct{ host, root, file, user string }

type c03mInst struct {
	T    string
	inst *casket.Instance
	addr string
	err  error
}

var c03mInsts = map[string]*c03mInst{}

func c03mParseSites(s string) []c03mSite {
	var out []c03mSite
	for _, it := range strings.Split(s, ";") {
		p := strings.Split(it, ":")
		if len(p) == 4 {
			out = append(out, c03mSite{p[0], p[1], p[2], p[3]})
		}
	}
	return out
}

// c03mWriteRoots creates a protected and a public file below every root.
func c03mWriteRoots(T string, sites []c03mSite) error {
	for _, s := range sites {
		if err := os.MkdirAll(filepath.Join(T, s.root, "secret"), 0o755); err != nil {
			return err
		}
		os.WriteFile(filepath.Join(T, s.root, "secret", "s.txt"), []byte("ROOT:"+s.root+"\n"), 0o644)
		os.WriteFile(filepath.Join(T, s.root, "pub.txt"), []byte("ROOT:"+s.root+"\n"), 0o644)
	}
	return nil
}

// c03mWriteFiles brings the htpasswd files ("path=user:kind:pw,…[|next version];…") to version v.
// A file is rewritten (and gets a new mtime) only when its version changes.
func c03mWriteFiles(T string, files string, v int, have map[string]int) error {
	for _, f := range strings.Split(files, ";") {
		p, all, ok := strings.Cut(f, "=")
		if !ok {
			continue
		}
		versions := strings.Split(all, "|")
		i := v
		if i > len(versions) {
			i = len(versions)
		}
		if have[p] == i {
			continue
		}
		have[p] = i
		var b strings.Builder
		for _, e := range strings.Split(versions[i-1], ",") {
			q := strings.SplitN(e, ":", 3)
			if len(q) != 3 {
				continue
			}
			switch q[1] {
			case "s":
				sum := sha1.Sum([]byte(q[2]))
				fmt.Fprintf(&b, "%s:{SHA}%s\n", q[0], base64.StdEncoding.EncodeToString(sum[:]))
			default:
				fmt.Fprintf(&b, "%s:%s\n", q[0], q[2])
			}
		}
		full := filepath.Join(T, p)
		os.MkdirAll(filepath.Dir(full), 0o755)
		if err := os.WriteFile(full, []byte(b.String()), 0o600); err != nil {
			return err
		}
		mt := time.Unix(fsBaseTime+int64(i), 0)
		os.Chtimes(full, mt, mt)
	}
	return nil
}

func c03mCasketfile(T string, sites []c03mSite, labels string) string {
	var b strings.Builder
	for _, l := range labels {
		for _, s := range sites {
			if s.host == string(l) {
				fmt.Fprintf(&b, "http://%s.test:0 {\n\troot %s%s\n\tbasicauth /secret %s htpasswd=%s\n}\n", s.host, T, s.root, s.user, s.file)
			}
		}
	}
	return b.String()
}

// c03mScenario runs the history once per (sites, files, history) and keeps the last instance.
func c03mScenario(sitesF, filesF, histF string) *c03mInst {
	key := sitesF + "\t" + filesF + "\t" + histF
	if in, ok := c03mInsts[key]; ok {
		return in
	}
	in := &c03mInst{}
	c03mInsts[key] = in
	T, err := os.MkdirTemp("", "verif-multi-")
	if err != nil {
		in.err = err
		return in
	}
	if T, err = filepath.EvalSymlinks(T); err != nil {
		in.err = err
		return in
	}
	in.T = T
	sites := c03mParseSites(sitesF)
	if err := c03mWriteRoots(T, sites); err != nil {
		in.err = err
		return in
	}
	have := map[string]int{}
	var cur *casket.Instance
	for i, load := range strings.Split(histF, ";") {
		restart := strings.HasPrefix(load, "R")
		labels := strings.TrimPrefix(load, "R")
		v := 1
		if len(labels) > 0 && labels[0] >= '1' && labels[0] <= '9' {
			v = int(labels[0] - '0')
			labels = labels[1:]
		}
		if err := c03mWriteFiles(T, filesF, v, have); err != nil {
			in.err = err
			return in
		}
		input := casket.CasketfileInput{Filepath: filepath.Join(T, fmt.Sprintf("Casketfile%d", i)), Contents: []byte(c03mCasketfile(T, sites, labels)), ServerTypeName: "http"}
		// `R`: the new configuration is loaded while the old instance is still serving (as a reload
		// does), then the old one is stopped; otherwise stop first.  Instance.Restart itself is not
		// used: its listener hand-over (File() of the listening socket) intermittently blocks
		// http.Server.Shutdown in this Go version — C07's subject, not this stream's.
		if cur != nil && !restart {
			cur.Stop()
			cur = nil
		}
		next, err := casket.Start(input)
		if err != nil {
			in.err = fmt.Errorf("start: %v", err)
			return in
		}
		if cur != nil {
			cur.Stop()
		}
		cur = next
	}
	in.inst = cur
	if cur == nil || len(cur.Servers()) == 0 || cur.Servers()[0].Addr() == nil {
		in.err = fmt.Errorf("no listener")
		return in
	}
	in.addr = fmt.Sprintf("127.0.0.1:%d", cur.Servers()[0].Addr().(*net.TCPAddr).Port)
	return in
}

func c03mEval(f []string) (string, []string) {
	if len(f) != 6 {
		return "bad-case", nil
	}
	in := c03mScenario(hx.UnHS(f[0]), hx.UnHS(f[1]), hx.UnHS(f[2]))
	if in.err != nil {
		return "setup-error:" + in.err.Error(), nil
	}
	host, p, cred := f[3], hx.UnHS(f[4]), hx.UnHS(f[5])
	hdr := ""
	if cred != "" {
		hdr = "Authorization: Basic " + base64.StdEncoding.EncodeToString([]byte(cred)) + "\r\n"
	}
	site := &fsSite{addr: in.addr}
	resp, body, _, err := site.fetchHost(host+".test", "GET", p, hdr)
	if err != nil {
		return "io-error", nil
	}
	tags := []string{"hist=" + hx.UnHS(f[2])}
	if cred == "" {
		tags = append(tags, "no-creds")
	}
	switch {
	case resp.StatusCode == 401:
		return "U401", append(tags, "401")
	case resp.StatusCode == 200 && strings.HasPrefix(string(body), "ROOT:"):
		return "C\t" + hx.HS(path.Clean(strings.TrimSpace(strings.TrimPrefix(string(body), "ROOT:")))), append(tags, "content")
	case resp.StatusCode == 404 && strings.Contains(string(body), "not served"):
		return "N", append(tags, "trivial-nosite")
	}
	return fmt.Sprintf("S%d", resp.StatusCode), tags
}

func c03mTeardown() {
	for k, in := range c03mInsts {
		if in.inst != nil {
			in.inst.Stop()
		}
		if in.T != "" {
			os.RemoveAll(in.T)
		}
		delete(c03mInsts, k)
	}
}

func c03mGen(g *hx.Gen) {
	type layout struct {
		sites, files string
		hists        []string
	}
	two := []string{"ab", "ba", "a;Rab", "b;Rab", "ab;Rba", "a;ab", "b;ba", "ab;Rb", "ba;Ra;Rab"}
	layouts := []layout{
		// same relative name, same user, different passwords
		{"a:/rA:users.ht:bob;b:/rB:users.ht:bob", "/rA/users.ht=bob:s:pwA,alice:s:pw2;/rB/users.ht=bob:s:pwB", two},
		// plain entries, the {PLAIN} quirk, a later line for the same user wins
		{"a:/rA:users.ht:bob;b:/rB:users.ht:bob", "/rA/users.ht=bob:p:old,bob:p:pwA;/rB/users.ht=bob:p:{PLAIN}pwB", two},
		// three roots, a file shared by two sites on purpose (a and d), other spellings of the name
		{"a:/rA:users.ht:bob;b:/rB:./users.ht:bob;c:/rC:conf/../users.ht:bob;d:/rA:conf/../users.ht:alice",
			"/rA/users.ht=bob:s:pwA,alice:p:pw2;/rB/users.ht=bob:s:pwB,alice:s:pwX;/rC/users.ht=bob:p:pwC",
			[]string{"abcd", "dcba", "cb;Rabcd", "d;Rcba", "bc;abd", "abcd;Rdcba"}},
		// the htpasswd file is edited between loads: password changed, user removed, user added
		{"a:/rA:users.ht:bob;b:/rB:users.ht:bob;c:/rA:users.ht:alice",
			"/rA/users.ht=bob:s:pwA,alice:s:pw2|bob:s:pwA2,alice:s:pw2|bob:p:pwA,alice:p:pwX;/rB/users.ht=bob:s:pwB",
			[]string{"1ab;R2ab", "1ab;2ab", "1ab;R2ba;R3abc", "2ab;R1ab", "1abc;R3cba", "1a;R2a;R1a"}},
		// one root nested in the other: /r/users.ht and /r/in/users.ht
		{"a:/r:users.ht:bob;b:/r/in:users.ht:bob;c:/r:in/users.ht:bob", "/r/users.ht=bob:s:pwA;/r/in/users.ht=bob:s:pwB", []string{"abc", "cba", "b;Rac", "a;Rbc"}},
	}
	creds := []string{"", "bob:pwA", "bob:pwA2", "bob:pwB", "bob:pwC", "bob:old", "bob:{PLAIN}pwB", "bob:zzz", "alice:pw2", "alice:pwX", "alice:pwA", "bob:"}
	paths := []string{"/secret/s.txt", "/pub.txt", "/x/..//secret/./s.txt"}
	for _, l := range layouts {
		hosts := ""
		for _, s := range c03mParseSites(l.sites) {
			hosts += s.host
		}
		for _, h := range l.hists {
			for _, host := range hosts + "z" {
				for _, c := range creds {
					for i, p := range paths {
						if i == 2 && c != "" && c != "bob:pwA" {
							continue
						}
						g.Case(hx.HS(l.sites), hx.HS(l.files), hx.HS(h), string(host), hx.HS(p), hx.HS(c))
					}
				}
			}
		}
	}
}

func init() {
	hx.Register(&hx.Stream{ID: "C03", Name: "c03.multi", Gen: c03mGen, Eval: c03mEval, Serial: true, Setup: fsSetup, Teardown: c03mTeardown})
}
