//go:build c02

package streams

// c02.cond stream: generator and evaluator (rendering and header construction in c02condlib.go).

import (
	"fmt"
	"net/url"
	"strconv"
	"strings"

	"verifharness/hx"
)

func c02CondEval(f []string) (string, []string) {
	if len(f) != 10 {
		return "bad-case", nil
	}
	site, err := fsSiteFor(f[:6], func(T string) (string, error) {
		return fsCasketfileText(T, hx.UnHS(f[1]), hx.UnHS(f[3]), hx.UnHS(f[4]), hx.UnHS(f[5]), ""), nil
	})
	if err != nil {
		return "setup-error:" + err.Error(), nil
	}
	id := site.ident()
	method, target, ae, cond := f[6], hx.UnHS(f[7]), hx.UnHS(f[8]), hx.UnHS(f[9])
	hdr := "Accept: application/json\r\n"
	if ae != "" {
		hdr += "Accept-Encoding: " + ae + "\r\n"
	}
	hdr += c02CondHeaders(cond, id)
	resp, body, rerr, err := site.fetch(method, target, hdr)
	if err != nil {
		return "io-error", []string{"io-error"}
	}
	explored := strings.Contains(cond, "x=")
	out, kind := c02CondRender(method, resp, body, rerr, id, explored, false)
	return out, []string{"kind=" + kind, "method=" + method}
}

var c02Conds = []string{
	"", "inm=*", "inm=g", "inm=g,s%f", "ims=0", "ims=g", "ims=999999", "range=0-3", "range=2-", "range=-4", "range=0-9999", "range=9999-",
	"range=5-2", "range=g", "range=-0", "inm=s%o;range=0-3", "ims=0;range=1-2",
	"x=ifmatch:*", "x=ifmatch:g", "x=ius:0", "x=ius:999999", "x=multi",
}

// per entry: tags and dates that refer to the entry itself, its sibling, another file
func c02CondsFor(self, sib, other int) []string {
	out := append([]string{}, c02Conds...)
	for _, k := range []int{self, sib, other} {
		if k == 0 {
			continue
		}
		out = append(out, fmt.Sprintf("inm=s%d", k), fmt.Sprintf("inm=w%d", k), fmt.Sprintf("inm=s%d,s%d", other, k),
			fmt.Sprintf("ims=%d", 100*k), fmt.Sprintf("ims=%d", 100*k-1), fmt.Sprintf("inm=s%d;ims=%d", other, 100*k),
			fmt.Sprintf("x=ifmatch:s%d", k), fmt.Sprintf("x=ifmatch:w%d", k), fmt.Sprintf("x=ifrange:s%d", k), fmt.Sprintf("x=ius:%d", 100*k-1))
	}
	return out
}

func c02CondGen(g *hx.Gen) {
	sites := []c02Site{
		{0, "/site/Casketfile", "", "", "", nil},
		{0, "/site/dir/c.txt.gz", "", "/|tar", "", nil},
		{2, "/site/dir/deep/index.txt.br", "/pre", "", "", nil},
		{1, "/site/Casketfile", "", "/dir|zip", "c.txt,index.html", nil},
	}
	for _, s := range sites {
		sf := s.fields()
		fx := s.fixture()
		inoOf := func(p string) int {
			for _, e := range fx.entries {
				if e.path == p && !e.isDir {
					return e.ino
				}
			}
			return 0
		}
		for _, e := range fx.entries {
			if !strings.HasPrefix(e.path, "/site") {
				continue
			}
			rel := strings.TrimPrefix(e.path, "/site")
			esc := (&url.URL{Path: rel}).EscapedPath()
			self, sib := e.ino, inoOf(e.path+".gz")
			if e.isDir {
				esc += "/"
				self = inoOf(e.path + "/index.html")
				sib = inoOf(e.path + "/index.html.gz")
			}
			if rel == "" {
				esc = "/"
			}
			other := inoOf("/site/a.txt")
			conds := c02CondsFor(self, sib, other)
			for i, c := range conds {
				c = strings.ReplaceAll(strings.ReplaceAll(c, "%f", strconv.Itoa(self)), "%o", strconv.Itoa(other))
				for _, ae := range []string{"", "gzip", "br, zstd"} {
					m := "GET"
					if (i+len(ae))%5 == 0 {
						m = "HEAD"
					}
					g.Case(append(append([]string{}, sf...), m, hx.HS(s.prefix+esc), hx.HS(ae), hx.HS(c))...)
				}
			}
		}
	}
}

func init() {
	hx.Register(&hx.Stream{ID: "C02", Name: "c02.cond", Gen: c02CondGen, Eval: c02CondEval, Setup: fsSetup, Teardown: fsTeardown})
}
