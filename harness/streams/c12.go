//go:build c12

package streams

import (
	"bufio"
	"bytes"
	stdgzip "compress/gzip"
	"errors"
	"fmt"
	"io"
	"log"
	"net"
	"net/http"
	"net/http/httptest"
	"os"
	"path/filepath"
	"sort"
	"strconv"
	"strings"
	"sync"

	"github.com/tmpim/casket"
	_ "github.com/tmpim/casket/caskethttp"
	"github.com/tmpim/casket/caskethttp/httpserver"

	"verifharness/hx"
)

// C12 — each request gets exactly one well-formed response; panics are contained.
//
// c12.serve  stack  path  ae  inner
//
// The site is loaded from Casketfile text with casket.Start (real directive ordering, real
// setup functions, real httpserver.NewServer).  The innermost handler is the test-only `probe`
// directive, registered through the public RegisterDevDirective / RegisterPlugin API; it acts out
// the script carried by the X-Probe request header.  The request is served by the real
// Server.ServeHTTP over a ResponseWriter that counts header commits the way net/http's does
// (a WriteHeader after the first is counted and ignored; invalid codes panic).  A plain
// follow-up request is then served by the same server.

type c12Writer struct {
	h       http.Header
	snap    http.Header
	commits int
	status  int
	body    bytes.Buffer
	head    bool // the request method is HEAD
	infos   int  // informational (1xx) headers sent before the response header
}

// bodyAllowed: net/http sends no body for HEAD requests and for 1xx, 204, 304
func (w *c12Writer) bodyAllowed() bool {
	return !w.head && w.status != 204 && w.status != 304 && !(w.status >= 100 && w.status <= 199)
}

func (w *c12Writer) Header() http.Header { return w.h }
func (w *c12Writer) WriteHeader(code int) {
	if w.commits > 0 {
		w.commits++ // net/http: "superfluous response.WriteHeader call", ignored
		return
	}
	if code < 100 || code > 999 {
		panic(fmt.Sprintf("invalid WriteHeader code %v", code))
	}
	if code >= 100 && code <= 199 && code != 101 {
		w.infos++ // informational: sent at once, the response header is still to come
		return
	}
	w.commits = 1
	w.status = code
	w.snap = w.h.Clone()
	// net/http: no Content-Length with 204 and 304 (nor Content-Type with 304)
	if code == 204 || code == 304 {
		w.snap.Del("Content-Length")
	}
	if code == 304 {
		w.snap.Del("Content-Type")
	}
}
func (w *c12Writer) Write(b []byte) (int, error) {
	if w.commits == 0 {
		w.WriteHeader(200)
	}
	if !w.bodyAllowed() {
		if w.head {
			return len(b), nil
		}
		return 0, http.ErrBodyNotAllowed
	}
	return w.body.Write(b)
}

// like net/http's *response the writer implements io.ReaderFrom and io.StringWriter, so wrappers
// that forward to such fast paths are exercised
func (w *c12Writer) ReadFrom(src io.Reader) (int64, error) {
	b, err := io.ReadAll(src)
	if len(b) == 0 {
		return 0, err
	}
	n, _ := w.Write(b)
	return int64(n), err
}
func (w *c12Writer) WriteString(s string) (int, error) { return w.Write([]byte(s)) }

func (w *c12Writer) Flush() {
	if w.commits == 0 {
		w.WriteHeader(200)
	}
}
func (w *c12Writer) CloseNotify() <-chan bool { return make(chan bool) }
func (w *c12Writer) Hijack() (net.Conn, *bufio.ReadWriter, error) {
	return nil, nil, errors.New("not a hijacker")
}
func (w *c12Writer) Push(string, *http.PushOptions) error { return http.ErrNotSupported }

// ---- the probe directive ----

type c12Probe struct{ Next httpserver.Handler }

func (p c12Probe) ServeHTTP(w http.ResponseWriter, r *http.Request) (int, error) {
	script := r.Header.Get("X-Probe")
	if script == "" {
		return p.Next.ServeHTTP(w, r)
	}
	f := strings.Split(script, ":")
	if f[0] == "file" {
		return p.Next.ServeHTTP(w, r) // the static file server answers
	}
	wrote := func(st, body string, cl bool, mode string) {
		b := hx.UnH(body)
		if cl {
			w.Header().Set("Content-Length", strconv.Itoa(len(b)))
		}
		if strings.HasPrefix(mode, "e") {
			// an already encoded response: gzip's response filters must leave it alone
			w.Header().Set("Content-Encoding", c12OwnCoding)
			mode = mode[1:]
		}
		for strings.HasPrefix(mode, "i") {
			// informational headers first: the response header proper follows
			c12Info(w, len(mode))
			mode = mode[1:]
		}
		if st != "-" {
			code, _ := strconv.Atoi(st)
			w.WriteHeader(code)
		}
		switch mode {
		case "c":
			// the struct hides bytes.Reader's WriteTo: io.Copy looks for ReaderFrom on w
			io.Copy(w, struct{ io.Reader }{bytes.NewReader(b)})
		case "s":
			io.WriteString(w, string(b))
		case "wf":
			w.Write(b)
			w.(http.Flusher).Flush()
		case "fw":
			// Flush first (commits 200, so only used with the implicit status), then Write
			w.(http.Flusher).Flush()
			w.Write(b)
		case "nw":
			// every wrapper must still offer the optional interfaces of the connection's writer
			_, okF := w.(http.Flusher)
			cn, okC := w.(http.CloseNotifier)
			pu, okP := w.(http.Pusher)
			_, okH := w.(http.Hijacker)
			_, okR := w.(io.ReaderFrom)
			if !okF || !okC || !okH {
				w.Write([]byte("MISSING-OPTIONAL-INTERFACE"))
				return
			}
			_ = okR // ReaderFrom is an optimisation, wrappers may hide it
			cn.CloseNotify()
			if okP { // only HTTP/2 connections (and casket's wrappers) offer Push
				pu.Push("/c12-push", nil)
			}
			w.Write(b)
		default:
			w.Write(b)
		}
	}
	var err error
	switch f[0] {
	case "ret":
		s, _ := strconv.Atoi(f[1])
		if f[2] == "1" {
			err = errors.New("probe failed")
		}
		if len(f) == 4 { // ret:<s>:<e>:<n> - n informational headers, then return without a response
			n, _ := strconv.Atoi(f[3])
			for k := 0; k < n; k++ {
				c12Info(w, k)
			}
		}
		return s, err
	case "write":
		if len(f) != 7 {
			return 500, errors.New("bad probe script")
		}
		wrote(f[1], f[2], f[5] == "1", f[6])
		if f[3] == "1" {
			err = errors.New("probe failed")
		}
		return 0, err
	case "panic":
		if len(f) == 2 {
			n, _ := strconv.Atoi(f[1])
			for k := 0; k < n; k++ {
				c12Info(w, k)
			}
		}
		panic("probe panic before writing")
	case "panicafter":
		wrote(f[1], f[2], false, "w")
		panic("probe panic after writing")
	}
	return 500, errors.New("bad probe script")
}

// c12Info sends an informational header: 103 Early Hints or 102 Processing, alternating.
func c12Info(w http.ResponseWriter, k int) {
	if k%2 == 0 {
		w.Header().Set("Link", "</c12.css>; rel=preload")
		w.WriteHeader(http.StatusEarlyHints)
	} else {
		w.WriteHeader(http.StatusProcessing)
	}
}

var (
	c12Once     sync.Once
	c12Dir      string
	c12Insts    = map[string]*casket.Instance{}
	c12Base     = map[string]string{} // per site: what a fresh instance answered to the follow-up requests
	c12BaseLive = map[string]string{}
)

// template sources used as written bodies and as files: only {{.Method}} is used as an action
// that renders, so the harness can compute the rendered text itself
var c12Bodies = map[string]string{
	"plain":  "PROBE-BODY-1 just text, forty bytes or more, no actions\n",
	"tok":    "<p>method={{.Method}}</p> a template that parses and executes fine\n",
	"tparse": "<p>{{.Method</p> a template that does not even parse ............\n",
	"texec":  "<p>" + strings.Repeat("x", 60) + `{{.Include "c12-missing.html"}}</p> parses, fails in Execute` + "\n",
}

func c12Render(src []byte) []byte { return bytes.ReplaceAll(src, []byte("{{.Method}}"), []byte("GET")) }

// the content coding the probe labels its own ("already encoded") responses with; the bytes are
// the handler's and must arrive untouched
const c12OwnCoding = "x-c12"

const c12Custom = "CUSTOM-404-PAGE\n"
const c12Follow = "FOLLOWUP-OK\n"

func c12Setup() error {
	var err error
	c12Once.Do(func() {
		// RegisterDevDirective prints a notice on stdout; keep stdout clean for `vharness eval`
		old := os.Stdout
		if devnull, e := os.OpenFile(os.DevNull, os.O_WRONLY, 0); e == nil {
			os.Stdout = devnull
			defer func() { os.Stdout = old; devnull.Close() }()
		}
		httpserver.RegisterDevDirective("probe", "proxy")
		casket.RegisterPlugin("probe", casket.Plugin{ServerType: "http", Action: func(c *casket.Controller) error {
			for c.Next() {
			}
			httpserver.GetConfig(c).AddMiddleware(func(next httpserver.Handler) httpserver.Handler {
				return c12Probe{Next: next}
			})
			return nil
		}})
		casket.Quiet = true
		log.SetOutput(io.Discard)
	})
	if c12Dir == "" {
		c12Dir, err = os.MkdirTemp("", "verif-c12-")
		if err != nil {
			return err
		}
		os.WriteFile(filepath.Join(c12Dir, "404.html"), []byte(c12Custom), 0o644)
		os.WriteFile(filepath.Join(c12Dir, "ok.txt"), []byte(c12Follow), 0o644)
		for k, b := range c12Bodies {
			os.WriteFile(filepath.Join(c12Dir, "f-"+k+".html"), []byte(b), 0o644)
			os.WriteFile(filepath.Join(c12Dir, "f-"+k+".bin"), []byte(b), 0o644)
		}
	}
	return err
}

func c12Teardown() {
	for k, inst := range c12Insts {
		inst.Stop()
		delete(c12Insts, k)
	}
	if c12Dir != "" {
		os.RemoveAll(c12Dir)
		c12Dir = ""
	}
}

var c12Known = map[string]bool{"limits": true, "request_id": true, "log": true, "rewrite": true, "gzip": true, "header": true,
	"errors:plain": true, "errors:page404": true, "errors:visible": true, "status": true, "mime": true, "internal": true, "templates": true}

// c12DirectiveText: the default (one line / one block) spelling of a directive.
func c12DirectiveText(d string) (string, error) {
	if !c12Known[d] {
		return "", errors.New("unknown directive " + d)
	}
	switch d {
	case "limits":
		return " limits 1MB\n", nil
	case "request_id":
		return " request_id\n", nil
	case "log":
		return fmt.Sprintf(" log / %s\n", filepath.Join(c12Dir, "access.log")), nil
	case "rewrite":
		return " rewrite /c12-old /c12-new.html\n", nil
	case "gzip":
		return " gzip\n", nil
	case "header":
		return " header / {\n  X-C12 on\n  -X-Inner\n }\n", nil
	case "errors:plain":
		return fmt.Sprintf(" errors %s\n", filepath.Join(c12Dir, "errors.log")), nil
	case "errors:page404":
		return fmt.Sprintf(" errors %s {\n  404 %s\n }\n", filepath.Join(c12Dir, "errors.log"), filepath.Join(c12Dir, "404.html")), nil
	case "errors:visible":
		return " errors visible\n", nil
	case "status":
		return " status 403 /c12-forbidden\n", nil
	case "mime":
		return " mime .c12 text/c12\n", nil
	case "internal":
		return " internal /c12-internal\n", nil
	case "templates":
		return " templates\n", nil
	}
	return "", errors.New("unknown directive " + d)
}

func c12Casketfile(stack []string) (string, error) {
	var b strings.Builder
	fmt.Fprintf(&b, "http://127.0.0.1:0 {\n root %s\n", c12Dir)
	for _, d := range stack {
		t, err := c12DirectiveText(d)
		if err != nil {
			return "", err
		}
		b.WriteString(t)
	}
	b.WriteString(" probe\n}\n")
	return b.String(), nil
}

func c12Server(stackField string) (*httpserver.Server, error) {
	srv, _, err := c12Instance(stackField)
	return srv, err
}

func c12Instance(stackField string) (*httpserver.Server, *casket.Instance, error) {
	key := c12Key(stackField)
	c12ReqHost = "127.0.0.1"
	if !c12Legacy(stackField) {
		if _, h, err := c12SiteText(stackField); err == nil {
			c12ReqHost = h
		}
	}
	inst := c12Insts[key]
	if inst == nil {
		if len(c12Insts) >= 48 { // bound the number of open listeners
			for k, i := range c12Insts {
				i.Stop()
				delete(c12Insts, k)
			}
		}
		var text string
		var err error
		if c12Legacy(stackField) {
			var stack []string
			if key != "" {
				stack = strings.Split(key, ",")
			}
			text, err = c12Casketfile(stack)
		} else {
			text, _, err = c12SiteText(stackField)
		}
		if err != nil {
			return nil, nil, err
		}
		inst, err = casket.Start(casket.CasketfileInput{Contents: []byte(text), Filepath: "C12file", ServerTypeName: "http"})
		if err != nil {
			return nil, nil, err
		}
		c12Insts[key] = inst
		// the answers of the fresh site to the follow-up requests
		for _, s := range casket.VerifServers(inst) {
			if hs, ok := s.(*httpserver.Server); ok {
				c12Base[key] = c12FollowUps(hs)
				delete(c12BaseLive, key)
			}
		}
	}
	for _, s := range casket.VerifServers(inst) {
		if hs, ok := s.(*httpserver.Server); ok {
			return hs, inst, nil
		}
	}
	return nil, nil, errors.New("no http server in the instance")
}

// c12Chunks splits bytes into the known chunk texts.
func c12Chunks(b []byte, inner []byte, enc bool) []string {
	pfx := "r:"
	if enc {
		pfx = "g:"
	}
	var out []string
	usedInner := false
	rendered := c12Render(inner)
	for len(b) > 0 {
		switch {
		case !usedInner && len(inner) > 0 && !bytes.Equal(rendered, inner) && bytes.HasPrefix(b, rendered):
			out = append(out, pfx+"rendered:"+hx.H(inner))
			b = b[len(rendered):]
			usedInner = true
			continue
		case !usedInner && len(inner) > 0 && bytes.HasPrefix(b, inner):
			out = append(out, pfx+"inner:"+hx.H(inner))
			b = b[len(inner):]
			usedInner = true
			continue
		case bytes.HasPrefix(b, []byte(c12Custom)):
			out = append(out, pfx+"custom:404")
			b = b[len(c12Custom):]
			continue
		case bytes.HasPrefix(b, []byte("[ERROR ")):
			if i := bytes.IndexByte(b, '\n'); i >= 0 {
				out = append(out, pfx+"debugerr")
				b = b[i+1:]
				continue
			}
		case bytes.HasPrefix(b, []byte("[PANIC ")):
			out = append(out, pfx+"debugpanic")
			b = nil
			continue
		}
		matched := false
		for s := 400; s < 600 && !matched; s++ {
			// DefaultErrorFunc's text; log's own failover (used only without ErrorFunc) omits the newline
			t := fmt.Sprintf("%d %s\n", s, http.StatusText(s))
			if bytes.HasPrefix(b, []byte(t)) {
				out = append(out, pfx+"errtext:"+strconv.Itoa(s))
				b = b[len(t):]
				matched = true
			}
		}
		if !matched {
			out = append(out, pfx+"other:"+hx.H(b))
			b = nil
		}
	}
	return out
}

func c12Body(w *c12Writer, inner []byte) string {
	ce := ""
	if w.snap != nil {
		ce = w.snap.Get("Content-Encoding")
	}
	return c12Classify(ce, w.body.Bytes(), inner)
}

func c12Classify(ce string, raw []byte, inner []byte) string {
	var segs []string
	if len(raw) == 0 {
		return "-" // no body on the wire (HEAD, 204, 304, or nothing written), whatever Content-Encoding says
	}
	if ce == "gzip" {
		br := bytes.NewReader(raw)
		zr, err := stdgzip.NewReader(br)
		if err != nil {
			return "X:bad-gzip:" + hx.H(raw)
		}
		zr.Multistream(false)
		dec, err := io.ReadAll(zr)
		if err != nil {
			return "X:truncated-gzip:" + hx.H(raw)
		}
		segs = append(segs, c12Chunks(dec, inner, true)...)
		rest, _ := io.ReadAll(br)
		segs = append(segs, c12Chunks(rest, inner, false)...)
	} else if ce == c12OwnCoding {
		segs = c12Chunks(raw, inner, false)
	} else if ce != "" {
		return "X:content-encoding:" + hx.HS(ce)
	} else {
		segs = c12Chunks(raw, inner, false)
	}
	if len(segs) == 0 {
		return "-"
	}
	return strings.Join(segs, "+")
}

// c12PathAndBody: the request path for a case and the bytes the innermost handler writes.
func c12PathAndBody(pathField, script string) (string, []byte, bool) {
	ext := ".html"
	if !strings.HasPrefix(pathField, "html") {
		ext = ".bin"
	}
	sp := strings.Split(script, ":")
	switch sp[0] {
	case "file":
		if len(sp) != 3 {
			return "", nil, false
		}
		b, known := c12Bodies[sp[1]]
		if !known || hx.HS(b) != sp[2] {
			return "", nil, false // the case must describe the file
		}
		return "/f-" + sp[1] + ext, []byte(b), true
	case "write":
		if len(sp) != 7 {
			return "", nil, false
		}
		return "/x" + ext, hx.UnH(sp[2]), true
	case "panicafter":
		if len(sp) != 3 {
			return "", nil, false
		}
		return "/x" + ext, hx.UnH(sp[2]), true
	}
	return "/x" + ext, nil, true
}

// c12Observe serves one request in-process and returns commits, status, Content-Length state, body.
func c12Observe(srv *httpserver.Server, path, probe string, ae bool, inner []byte) string {
	return c12ObserveM(srv, "GET", path, probe, ae, inner)
}

func c12ObserveM(srv *httpserver.Server, method, path, probe string, ae bool, inner []byte) string {
	r := httptest.NewRequest(method, "http://"+c12ReqHost+path, nil)
	if probe != "" {
		r.Header.Set("X-Probe", probe)
	}
	if ae {
		r.Header.Set("Accept-Encoding", "gzip")
	}
	w := &c12Writer{h: http.Header{}, head: method == "HEAD"}
	srv.ServeHTTP(w, r)
	cl := "-"
	if w.snap != nil {
		if v := w.snap.Values("Content-Length"); len(v) > 0 {
			switch {
			case w.head:
				cl = "h" // describes the body a GET would get: presence only
			case len(v) == 1 && v[0] == strconv.Itoa(w.body.Len()):
				cl = "="
			default:
				cl = "!"
			}
		}
	}
	return fmt.Sprintf("%d %d %s %s", w.commits, w.status, cl, c12Body(w, inner))
}

// the Host the requests of the current case carry (a server block may have several addresses)
var c12ReqHost = "127.0.0.1"

var c12FollowProbe = c12Write("200", "tok", 0, 1, "w")

// c12FollowUps: the two follow-up requests, observed in full.
func c12FollowUps(srv *httpserver.Server) string {
	return c12Observe(srv, "/ok.txt", "", false, []byte(c12Follow)) + " | " +
		c12Observe(srv, "/x.html", c12FollowProbe, true, []byte(c12Bodies["tok"]))
}

func c12Key(stackField string) string {
	if !c12Legacy(stackField) {
		return stackField // a configuration as written: the order of the tokens is part of it
	}
	var stack []string
	if stackField != "" {
		stack = strings.Split(stackField, ",")
	}
	sort.Strings(stack)
	return strings.Join(stack, ",")
}

func c12Eval(f []string) (string, []string) {
	if len(f) != 4 {
		return "bad-case", nil
	}
	srv, err := c12Server(f[0])
	if err != nil {
		return "setup-error:" + err.Error(), nil
	}
	path, inner, ok := c12PathAndBody(f[1], f[3])
	if !ok {
		return "bad-case", nil
	}
	method := "GET"
	if strings.HasSuffix(f[1], "-head") {
		method = "HEAD"
	}
	sp := strings.Split(f[3], ":")
	out := c12ObserveM(srv, method, path, f[3], f[2] == "1", inner)

	// only that request is affected: the follow-up requests (a plain file, and a template
	// rendered and gzip-compressed, which goes through the pooled buffer and the pooled gzip
	// writer) must be answered exactly as a fresh instance of the same site answered them
	follow := "ok"
	key := c12Key(f[0])
	if got := c12FollowUps(srv); got != c12Base[key] || !strings.HasPrefix(got, "1 200 = r:inner:"+hx.HS(c12Follow)) {
		follow = "bad"
	}
	tags := []string{sp[0], "path=" + f[1]}
	if f[0] == "" {
		tags = append(tags, "trivial-empty-stack")
	} else if c12Legacy(f[0]) {
		tags = append(tags, fmt.Sprintf("wrappers=%d", strings.Count(f[0], ",")+1))
	} else {
		tags = append(tags, c12SpellTags(f[0])...)
	}
	if strings.Contains(out, "g:") {
		tags = append(tags, "gzip-coded")
	}
	return out + " " + follow, tags
}

// ---- generator ----

var c12Semantic = []string{"log", "gzip", "header", "templates"}
var c12ErrModes = []string{"", "errors:plain", "errors:page404", "errors:visible"}
var c12Transparent = []string{"limits", "request_id", "rewrite", "status", "mime", "internal"}

func c12Write(st, kind string, e int, cl int, mode string) string {
	return fmt.Sprintf("write:%s:%s:%d:%s:%d:%s", st, hx.HS(c12Bodies[kind]), e, kind, cl, mode)
}

func c12Inners() []string {
	body := hx.HS("PROBE-BODY-1")
	long := hx.HS(strings.Repeat("probe body line\n", 40))
	out := []string{
		"ret:404:0", "ret:404:1", "ret:500:1", "ret:403:0", "ret:503:1", "ret:400:0",
		"ret:0:0", "ret:200:0", "ret:301:0",
		"write:500:" + long + ":0:plain:0:w", "write:-:" + long + ":1:plain:1:c", "write:200:" + body + ":0:plain:0:s",
		"panic",
		"panicafter:200:" + body, "panicafter:-:" + body, "panicafter:404:" + long,
	}
	// statuses without a body (net/http drops what the handler writes) and an informational prelude
	out = append(out, c12Write("204", "plain", 0, 1, "w"), c12Write("304", "plain", 0, 0, "w"), c12Write("204", "tok", 0, 0, "c"),
		c12Write("304", "tok", 0, 1, "w"), c12Write("204", "plain", 1, 0, "w"),
		c12Write("200", "plain", 0, 1, "iw"), c12Write("404", "tok", 0, 0, "iw"), c12Write("-", "plain", 0, 0, "ic"),
		c12Write("200", "texec", 0, 1, "iw"), c12Write("201", "plain", 1, 0, "iw"), c12Write("404", "plain", 0, 1, "iiw"),
		// informational headers, then no response of the handler's own: an error status, nothing, a panic
		"ret:404:0:1", "ret:500:1:2", "ret:403:0:3", "ret:0:0:1", "ret:200:0:2", "panic:1", "panic:2")
	// a response gzip's response filters decline to compress (204: nothing to encode), flushed by the
	// handler: the Flush must reach the connection's writer without a second WriteHeader
	out = append(out, c12Write("204", "plain", 0, 1, "wf"), c12Write("204", "plain", 0, 0, "wf"), c12Write("204", "tok", 1, 0, "wf"))
	// ... and a response that already carries a Content-Encoding of its own
	out = append(out, c12Write("200", "plain", 0, 1, "ew"), c12Write("404", "plain", 0, 0, "ewf"), c12Write("-", "plain", 0, 1, "efw"),
		c12Write("200", "tok", 0, 0, "ewf"), c12Write("201", "plain", 1, 1, "ewf"), c12Write("-", "tok", 0, 0, "ec"))
	// bodies that are templates (render fine / do not parse / fail while executing) or plain, with
	// and without an explicit Content-Length, written with Write, io.Copy, io.WriteString, Write+Flush
	for _, k := range []string{"plain", "tok", "tparse", "texec"} {
		out = append(out,
			c12Write("200", k, 0, 1, "w"), c12Write("-", k, 0, 0, "c"), c12Write("404", k, 0, 1, "s"),
			c12Write("201", k, 1, 1, "w"), c12Write("200", k, 0, 0, "wf"), c12Write("-", k, 0, 1, "c"),
			c12Write("-", k, 0, 1, "fw"), c12Write("200", k, 0, 0, "nw"),
			"file:"+k+":"+hx.HS(c12Bodies[k]))
	}
	return out
}

func c12Gen(g *hx.Gen) {
	inners := c12Inners()
	// every subset of the response-affecting wrappers x every errors mode, with three choices of the
	// pass-through wrappers (none, all, a seeded random subset); thorough: every subset of those too
	var transSets [][]string
	if g.Thorough() {
		for m := 0; m < 1<<len(c12Transparent); m++ {
			var s []string
			for i, d := range c12Transparent {
				if m>>i&1 == 1 {
					s = append(s, d)
				}
			}
			transSets = append(transSets, s)
		}
	}
	for m := 0; m < 1<<len(c12Semantic); m++ {
		for _, em := range c12ErrModes {
			var sem []string
			for i, d := range c12Semantic {
				if m>>i&1 == 1 {
					sem = append(sem, d)
				}
			}
			if em != "" {
				sem = append(sem, em)
			}
			sets := transSets
			if !g.Thorough() {
				var rnd []string
				for _, d := range c12Transparent {
					if g.Rng.Bool() {
						rnd = append(rnd, d)
					}
				}
				sets = [][]string{nil, c12Transparent, rnd}
			}
			for _, ts := range sets {
				stack := append(append([]string{}, sem...), ts...)
				sort.Strings(stack)
				for _, in := range inners {
					for _, p := range []string{"html", "bin", "html-head", "bin-head"} {
						if strings.HasSuffix(p, "-head") && (strings.HasPrefix(in, "panicafter") || len(ts) == len(c12Transparent)) {
							continue // keep the quick tier small: HEAD with no / a random set of pass-through wrappers
						}
						for _, ae := range []string{"1", "0"} {
							if g.Thorough() && len(ts) != 0 && len(ts) != len(c12Transparent) && (p == "bin" && ae == "0") {
								continue
							}
							g.Case(strings.Join(stack, ","), p, ae, in)
						}
					}
				}
			}
		}
	}
	// seeded random statuses and bodies
	N := 1500
	if g.Thorough() {
		N = 20000
	}
	all := append(append([]string{}, c12Semantic...), c12Transparent...)
	for it := 0; it < N; it++ {
		var stack []string
		for _, d := range all {
			if g.Rng.Bool() {
				stack = append(stack, d)
			}
		}
		if em := hx.Pick(g.Rng, c12ErrModes); em != "" {
			stack = append(stack, em)
		}
		sort.Strings(stack)
		body := make([]byte, 1+g.Rng.Intn(300))
		for i := range body {
			body[i] = "abcdefghijklmnopqrstuvwxyz \n<>/"[g.Rng.Intn(31)]
		}
		st := hx.Pick(g.Rng, []string{"-", "200", "201", "202", "204", "304", "400", "404", "410", "500", "502"})
		var in string
		switch g.Rng.Intn(5) {
		case 0:
			in = fmt.Sprintf("ret:%d:%d:%d", hx.Pick(g.Rng, []int{400, 401, 403, 404, 405, 410, 413, 429, 500, 501, 502, 503, 504}), g.Rng.Intn(2), g.Rng.Intn(3))
		case 1:
			in = fmt.Sprintf("ret:%d:0", hx.Pick(g.Rng, []int{0, 200, 204, 301, 302, 304}))
		case 2:
			in = fmt.Sprintf("write:%s:%s:%d:plain:%d:%s", st, hx.H(body), g.Rng.Intn(2), g.Rng.Intn(2), hx.Pick(g.Rng, []string{"w", "c", "s", "wf", "nw", "iw"}))
		case 3:
			in = "panic"
		default:
			in = fmt.Sprintf("panicafter:%s:%s", st, hx.H(body))
		}
		g.Case(strings.Join(stack, ","), hx.Pick(g.Rng, []string{"html", "bin", "html", "bin", "html-head", "bin-head"}), strconv.Itoa(g.Rng.Intn(2)), in)
	}
	// the same behaviours on sites whose directives are written in other ways (c12site.go)
	c12SpelledGen(g)
}

// ---- c12.chain: wrapper stacks assembled through the httpserver API ----
//
// c12.chain  stack  path  ae  inner       (same case and answer format as c12.serve)
// The chain is built from the directives' own setup functions (casket.DirectiveAction on
// Casketfile text) and handed to httpserver.NewServer in directive order - no Casketfile is
// loaded, so InspectServerBlocks does not add `errors` to a site that has `gzip`: gzip's own
// fallback for an unhandled error status is reachable here.  (log and errors need their log files
// opened by the loader's startup callbacks and are not used in this stream.)

var c12ChainOrder = []string{"limits", "request_id", "rewrite", "gzip", "header", "status", "mime", "internal", "templates"}

var c12ChainText = map[string]string{
	"limits": "limits 1MB\n", "request_id": "request_id\n", "rewrite": "rewrite /c12-old /c12-new.html\n", "gzip": "gzip\n",
	"header": "header / {\n X-C12 on\n -X-Inner\n}\n", "status": "status 403 /c12-forbidden\n", "mime": "mime .c12 text/c12\n",
	"internal": "internal /c12-internal\n", "templates": "templates\n",
}

var c12Chains = map[string]*httpserver.Server{}

func c12ChainServer(stackField string) (*httpserver.Server, error) {
	key := c12Key(stackField)
	c12ReqHost = "127.0.0.1"
	if srv := c12Chains[key]; srv != nil {
		return srv, nil
	}
	have := map[string]bool{}
	if stackField != "" {
		for _, d := range strings.Split(stackField, ",") {
			if _, ok := c12ChainText[d]; !ok {
				return nil, errors.New("directive not available in c12.chain: " + d)
			}
			have[d] = true
		}
	}
	base := casket.NewTestController("http", "")
	base.Key = "c12chain.test"
	cfg := httpserver.GetConfig(base)
	cfg.Root = c12Dir
	cfg.Addr = httpserver.Address{Original: "127.0.0.1", Host: "127.0.0.1", Port: "0"}
	for _, d := range c12ChainOrder {
		if !have[d] {
			continue
		}
		c := casket.NewTestController("http", c12ChainText[d])
		act, err := casket.DirectiveAction("http", d)
		if err != nil {
			return nil, err
		}
		if err := act(c); err != nil {
			return nil, err
		}
		for _, m := range httpserver.GetConfig(c).Middleware() {
			cfg.AddMiddleware(m)
		}
	}
	cfg.AddMiddleware(func(next httpserver.Handler) httpserver.Handler { return c12Probe{Next: next} })
	srv, err := httpserver.NewServer("127.0.0.1:0", []*httpserver.SiteConfig{cfg})
	if err != nil {
		return nil, err
	}
	c12Chains[key] = srv
	c12Base["chain:"+key] = c12FollowUps(srv)
	return srv, nil
}

func c12ChainEval(f []string) (string, []string) {
	if len(f) != 4 {
		return "bad-case", nil
	}
	srv, err := c12ChainServer(f[0])
	if err != nil {
		return "setup-error:" + err.Error(), nil
	}
	path, inner, ok := c12PathAndBody(f[1], f[3])
	if !ok {
		return "bad-case", nil
	}
	method := "GET"
	if strings.HasSuffix(f[1], "-head") {
		method = "HEAD"
	}
	out := c12ObserveM(srv, method, path, f[3], f[2] == "1", inner)
	follow := "ok"
	if got := c12FollowUps(srv); got != c12Base["chain:"+c12Key(f[0])] || !strings.HasPrefix(got, "1 200 = r:inner:"+hx.HS(c12Follow)) {
		follow = "bad"
	}
	return out + " " + follow, []string{strings.Split(f[3], ":")[0], "chain"}
}

func c12ChainGen(g *hx.Gen) {
	inners := c12Inners()
	sem := []string{"gzip", "header", "templates"}
	for m := 0; m < 1<<len(sem); m++ {
		var stack []string
		for i, d := range sem {
			if m>>i&1 == 1 {
				stack = append(stack, d)
			}
		}
		for _, extra := range [][]string{nil, {"limits", "request_id", "rewrite", "status", "mime", "internal"}} {
			st := append(append([]string{}, stack...), extra...)
			sort.Strings(st)
			for _, in := range inners {
				for _, p := range []string{"html", "bin", "html-head"} {
					if p == "html-head" && (strings.HasPrefix(in, "panicafter") || extra != nil) {
						continue
					}
					for _, ae := range []string{"1", "0"} {
						if ae == "0" && extra != nil {
							continue
						}
						g.Case(strings.Join(st, ","), p, ae, in)
					}
				}
			}
		}
	}
}

func c12ChainTeardown() {
	for k := range c12Chains {
		delete(c12Chains, k)
	}
	c12Teardown()
}

// ---- c12.live: the same sites over real sockets ----
//
// c12.live  stack  path  ae  inner      out = <status> <body> <follow-up on the same connection> <on a new one>
// A real net/http client talks to the listener casket.Start opened: the request with the probe
// script, then a plain request on the same keep-alive connection, then one on a fresh connection.

func c12Get(tr *http.Transport, addr, path, probe string, ae bool) (int, string, string, []byte, error) {
	return c12GetM(tr, "GET", addr, path, probe, ae)
}

func c12GetM(tr *http.Transport, method, addr, path, probe string, ae bool) (int, string, string, []byte, error) {
	req, err := http.NewRequest(method, "http://"+addr+path, nil)
	if err != nil {
		return 0, "", "", nil, err
	}
	req.Host = c12ReqHost
	if probe != "" {
		req.Header.Set("X-Probe", probe)
	}
	if ae {
		req.Header.Set("Accept-Encoding", "gzip")
	}
	res, err := tr.RoundTrip(req)
	if err != nil {
		return 0, "", "", nil, err
	}
	defer res.Body.Close()
	b, err := io.ReadAll(res.Body)
	return res.StatusCode, res.Header.Get("Content-Encoding"), res.Header.Get("Content-Length"), b, err
}

func c12LiveEval(f []string) (string, []string) {
	if len(f) != 4 {
		return "bad-case", nil
	}
	_, inst, err := c12Instance(f[0])
	if err != nil {
		return "setup-error:" + err.Error(), nil
	}
	sl := inst.Servers()
	if len(sl) == 0 || sl[0].Addr() == nil {
		return "setup-error:no listener", nil
	}
	addr := sl[0].Addr().String()
	path, inner, ok := c12PathAndBody(f[1], f[3])
	if !ok {
		return "bad-case", nil
	}
	sp := strings.Split(f[3], ":")
	key := c12Key(f[0])
	follow := func(t *http.Transport) string {
		st, _, _, b, err := c12Get(t, addr, "/ok.txt", "", false)
		if err != nil || st != 200 || string(b) != c12Follow {
			return "bad"
		}
		// a rendered, compressed template: compared with what the fresh site answered
		st2, ce2, _, b2, err := c12Get(t, addr, "/x.html", c12FollowProbe, true)
		got := fmt.Sprintf("%d %s", st2, c12Classify(ce2, b2, []byte(c12Bodies["tok"])))
		if err != nil {
			got = "ERR"
		}
		if base, ok := c12BaseLive[key]; !ok {
			c12BaseLive[key] = got
		} else if base != got {
			return "bad"
		}
		return "ok"
	}
	if _, ok := c12BaseLive[key]; !ok {
		// first use of this (fresh) instance in this stream: record its answers
		trb := &http.Transport{DisableCompression: true}
		follow(trb)
		trb.CloseIdleConnections()
	}
	tr := &http.Transport{DisableCompression: true, MaxIdleConnsPerHost: 1}
	defer tr.CloseIdleConnections()
	method := "GET"
	if strings.HasSuffix(f[1], "-head") {
		method = "HEAD"
	}
	st, ce, declared, body, err := c12GetM(tr, method, addr, path, f[3], f[2] == "1")
	if method == "HEAD" || st == 204 || st == 304 {
		declared = "" // describes the body a GET would get / not sent at all
	}
	out := ""
	if err != nil {
		out = fmt.Sprintf("%d ! ERR:%s", st, strings.ReplaceAll(err.Error(), " ", "_"))
	} else {
		cl := "ok"
		if declared != "" && declared != strconv.Itoa(len(body)) {
			cl = "!"
		}
		out = fmt.Sprintf("%d %s %s", st, cl, c12Classify(ce, body, inner))
	}
	f1 := follow(tr)
	tr2 := &http.Transport{DisableCompression: true}
	f2 := follow(tr2)
	tr2.CloseIdleConnections()
	tags := []string{sp[0], "live"}
	if !c12Legacy(f[0]) {
		tags = append(tags, c12SpellTags(f[0])...)
	}
	return out + " " + f1 + " " + f2, tags
}

func c12LiveGen(g *hx.Gen) {
	body := hx.HS("PROBE-BODY-1")
	inners := []string{"ret:404:1", "ret:500:0", "ret:0:0", "write:-:" + body + ":1:plain:0:w",
		"panic", "panicafter:200:" + body, "panicafter:-:" + body}
	for _, k := range []string{"plain", "tok", "tparse", "texec"} {
		inners = append(inners, c12Write("200", k, 0, 1, "w"), c12Write("404", k, 0, 1, "c"), c12Write("-", k, 0, 0, "wf"),
			c12Write("-", k, 0, 1, "fw"), c12Write("200", k, 0, 0, "nw"),
			"file:"+k+":"+hx.HS(c12Bodies[k]))
	}
	inners = append(inners, "ret:404:0:1", "ret:500:1:2", "ret:0:0:1", "panic:1", c12Write("204", "plain", 0, 1, "w"), c12Write("304", "tok", 0, 0, "w"),
		c12Write("200", "plain", 0, 1, "iw"), c12Write("404", "tok", 0, 0, "iw"), c12Write("200", "texec", 0, 1, "iw"))
	for m := 0; m < 1<<len(c12Semantic); m++ {
		for _, em := range c12ErrModes {
			var stack []string
			for i, d := range c12Semantic {
				if m>>i&1 == 1 {
					stack = append(stack, d)
				}
			}
			if em != "" {
				stack = append(stack, em)
			}
			if g.Rng.Bool() {
				stack = append(stack, c12Transparent...)
			}
			sort.Strings(stack)
			for _, in := range inners {
				p := "html"
				if !g.Thorough() && g.Rng.Chance(1, 4) {
					p = "bin"
				}
				g.Case(strings.Join(stack, ","), p, "1", in)
				if !strings.HasPrefix(in, "panicafter") && (g.Thorough() || g.Rng.Chance(1, 3)) {
					g.Case(strings.Join(stack, ","), "html-head", "1", in)
				}
				if g.Thorough() {
					g.Case(strings.Join(stack, ","), "bin", "0", in)
				}
			}
		}
	}
	c12SpelledLiveGen(g)
}

func init() {
	hx.Register(&hx.Stream{ID: "C12", Name: "c12.chain", Gen: c12ChainGen, Eval: c12ChainEval, Serial: true, Setup: c12Setup, Teardown: c12ChainTeardown})
	hx.Register(&hx.Stream{ID: "C12", Name: "c12.live", Gen: c12LiveGen, Eval: c12LiveEval, Serial: true, Setup: c12Setup, Teardown: c12Teardown})
	hx.Register(&hx.Stream{ID: "C12", Name: "c12.serve", Gen: c12Gen, Eval: c12Eval, Serial: true, Setup: c12Setup, Teardown: c12Teardown})
}
