//go:build c02

package streams

// c02.sites: SEVERAL sites loaded from one Casketfile through casket.Start, every address of
// every server block probed.  What c02.serve cannot see: configuration-time code that runs over
// all site configurations of a Casketfile (hideCasketfile is one walk over all of them after the
// `root` directives; every address of a block is a site configuration of its own), and HOW a
// block is written.  A case names the blocks by their MEANING (addresses, root, prefix, browse
// scopes, index pages) plus a style number that only the harness reads (c02common.go: st*
// bits); the model answers from the meaning, so every spelling and every order of the blocks
// has to give the answers the single-site model gives for that block.

import (
	"fmt"
	"net/url"
	"strings"

	"verifharness/hx"
)

func c02SitesFixture(casketfile string) *fsFixture {
	fx := newFixture()
	for _, d := range []string{"/w", "/w/site", "/w/site/sub", "/w/site/sub/deep", "/w/site2", "/w/other", "/conf"} {
		fx.dir(d)
	}
	for _, f := range []string{"/w/top.txt", "/w/site/a.txt", "/w/site/a.txt.gz", "/w/site/sub/index.html", "/w/site/sub/b.txt",
		"/w/site/sub/deep/d.txt", "/w/site2/x.txt", "/w/site2/index.html", "/w/other/o.txt", "/conf/c.txt"} {
		fx.file(f)
	}
	fx.file(casketfile) // no-op when the Casketfile takes an existing file's place
	return fx
}

// c02SitesMountFixture: the same tree MOUNTED (c02common.go: fsMount) — the model's "/" is the real
// top of the file system, /MNT the harness's temp directory, so that `root /` and roots several
// levels above the Casketfile are site roots like any other.
func c02SitesMountFixture(casketfile string) *fsFixture {
	fx := newFixture()
	fx.dir(fsMount)
	for _, e := range c02SitesFixture("/w/top.txt").entries {
		fx.add(fsMount+e.path, e.isDir)
	}
	fx.file(casketfile)
	return fx
}

var c02SitesMountRoots = []string{"/", fsMount, fsMount + "/w", fsMount + "/w/site", fsMount + "/conf"}
var c02SitesMountCasketfiles = []string{fsMount + "/w/site/Casketfile", fsMount + "/w/site/sub/Casketfile", fsMount + "/Casketfile", fsMount + "/conf/Casketfile"}

// c02Under: p lies strictly below the directory root ("/" = the top of the file system).
func c02Under(root, p string) bool {
	if root == "/" {
		return len(p) > 1 && p[0] == '/'
	}
	return strings.HasPrefix(p, root+"/")
}

func c02Mounted(fxText string) bool {
	return strings.HasPrefix(fxText, "d1 "+fsMount+"\n")
}

// c02SitesMountProbes: the requests one address of a block over a mounted fixture is asked.  Below a
// root above the mount point NOTHING outside the fixture is touched: every target stays (after
// cleaning) below /MNT, "/" and /MNT itself are never archived, "/" is never listed.
func c02SitesMountProbes(fx *fsFixture, root, casketfile string) [][3]string {
	var out [][3]string
	add := func(m, t, ae string) { out = append(out, [3]string{m, t, ae}) }
	base, mnt := root, ""
	if root == "/" {
		base, mnt = "", fsMount
	}
	if root != "/" {
		add("GET", "/", "")
		if root != fsMount {
			add("GET", "/?archive=tar", "")
			add("GET", "/?archive=zip", "")
		}
	}
	for _, e := range fx.entries {
		if !c02Under(root, e.path) {
			continue
		}
		rel := strings.TrimPrefix(e.path, base)
		add("GET", rel, "")
		if e.isDir {
			add("GET", rel+"/", "")
			if e.path != fsMount {
				add("GET", rel+"/?archive=tar", "")
				add("GET", rel+"?archive=zip", "")
				add("GET", rel+"/?archive=tar.gz", "")
			}
		} else {
			add("GET", rel, "gzip")
		}
	}
	if c02Under(root, casketfile) {
		// the Casketfile under every spelling; the mount element itself stays as it is
		tail := strings.TrimPrefix(strings.TrimPrefix(casketfile, base), mnt)
		add("GET", mnt+tail, "")
		add("HEAD", mnt+tail, "")
		add("POST", mnt+tail, "")
		add("GET", mnt+"/."+tail, "gzip")
		add("GET", mnt+"/"+tail, "")
		add("GET", "/"+mnt+tail, "")
		add("GET", "/%2e%2e"+mnt+tail, "")
		add("GET", mnt+"/x/.."+tail, "br")
		add("GET", mnt+tail[:1]+fmt.Sprintf("%%%02x", tail[1])+tail[2:], "")
	}
	if root != "/" {
		// out of the root (cleaned away before the file system is asked; stays below the mount point)
		for _, t := range []string{"/../Casketfile", "/../conf/Casketfile", "/../site/Casketfile", "/../../w/site/Casketfile", "/../conf/c.txt"} {
			add("GET", t, "")
		}
	}
	return out
}

var c02SitesRoots = []string{"/w/site", "/w/site/sub", "/w/site2", "/w/other", "/w"}
var c02SitesCasketfiles = []string{"/w/site/Casketfile", "/w/site/sub/Casketfile", "/w/site2/Casketfile", "/w/Casketfile", "/conf/Casketfile", "/w/site2/index.html"}

func c02Dash(s string) string {
	if s == "" {
		return "-"
	}
	return s
}

func c02BlockLine(b fsBlockSpec) string {
	return fmt.Sprintf("%s %s %s %s %s %d", strings.Join(b.hosts, ","), b.root, c02Dash(b.prefix), c02Dash(b.browse), c02Dash(b.index), b.style)
}

func c02ParseBlocks(config string) ([]fsBlockSpec, error) {
	var out []fsBlockSpec
	for _, l := range strings.Split(config, "\n") {
		w := strings.Fields(l)
		if len(w) != 6 {
			return nil, fmt.Errorf("bad block line %q", l)
		}
		undash := func(s string) string {
			if s == "-" {
				return ""
			}
			return s
		}
		var style int
		if _, err := fmt.Sscanf(w[5], "%d", &style); err != nil {
			return nil, err
		}
		out = append(out, fsBlockSpec{hosts: strings.Split(w[0], ","), root: w[1], prefix: undash(w[2]), browse: undash(w[3]), index: undash(w[4]), style: style})
	}
	return out, nil
}

// c02SitesProbes: the requests one address of a block is asked (targets without the prefix).
func c02SitesProbes(fx *fsFixture, root, casketfile string) [][3]string {
	var out [][3]string // method, target, accept-encoding
	add := func(m, t, ae string) { out = append(out, [3]string{m, t, ae}) }
	for _, q := range []string{"", "?archive=tar", "?archive=zip", "?archive=tar.gz"} {
		add("GET", "/"+q, "")
	}
	for _, e := range fx.entries {
		if !strings.HasPrefix(e.path, root+"/") {
			continue
		}
		rel := (&url.URL{Path: strings.TrimPrefix(e.path, root)}).EscapedPath()
		add("GET", rel, "")
		if e.isDir {
			add("GET", rel+"/", "")
			add("GET", rel+"/?archive=tar", "")
			add("GET", rel+"?archive=zip", "")
		} else {
			add("GET", rel, "gzip")
		}
	}
	// the Casketfile under every spelling, wherever it is relative to this root
	cfRels := []string{"/Casketfile", "/" + casketfile[strings.LastIndex(casketfile, "/")+1:]}
	if strings.HasPrefix(casketfile, root+"/") {
		cfRels = append(cfRels, strings.TrimPrefix(casketfile, root))
	} else if strings.HasPrefix(casketfile, root) {
		cfRels = append(cfRels, "/"+strings.TrimPrefix(casketfile, root)) // byte prefix only (/w/site vs /w/site2/…)
	}
	for _, rel := range cfRels {
		add("GET", rel, "")
		add("HEAD", rel, "")
		add("GET", "/."+rel, "gzip")
		add("GET", "/"+rel, "")
		add("GET", "/%2e%2e"+rel, "")
		add("GET", "/x/.."+rel, "br")
		add("GET", rel[:1]+fmt.Sprintf("%%%02x", rel[1])+rel[2:], "")
		add("POST", rel, "")
	}
	// out of the root: the other sites' files, the Casketfile from above
	for _, t := range []string{"/../Casketfile", "/../conf/Casketfile", "/../site/Casketfile", "/../../w/site/Casketfile", "/..%2fsite2/x.txt", "/../other/o.txt"} {
		add("GET", t, "")
	}
	return out
}

func c02SitesGen(g *hx.Gen) {
	r := g.Rng
	browses := []string{"/|" + c02Arch, "/|" + c02Arch, "/|tar", "/|zip;/sub|tar", "", "/|tar.gz"}
	indexes := []string{"", "", "", "b.txt,index.html", "x.txt"}
	randStyle := func() int {
		switch r.Intn(4) {
		case 0:
			return 0
		case 1:
			return 1 << r.Intn(stBits)
		}
		return r.Intn(stAll + 1)
	}
	emitInstance := func(cf string, blocks []fsBlockSpec) {
		fx := c02SitesFixture(cf)
		probes := c02SitesProbes
		if c02Under(fsMount, cf) {
			fx, probes = c02SitesMountFixture(cf), c02SitesMountProbes
		}
		lines := make([]string, len(blocks))
		for i, b := range blocks {
			lines[i] = c02BlockLine(b)
		}
		key := []string{hx.HS(fx.text()), hx.HS(cf), hx.HS(strings.Join(lines, "\n"))}
		n := 0
		for _, b := range blocks {
			for _, h := range b.hosts {
				for _, p := range probes(fx, b.root, cf) {
					n++
					fm := "j"
					if n%5 == 0 {
						fm = "h"
					}
					g.Case(append(append([]string{}, key...), h, p[0], hx.HS(b.prefix+p[1]), hx.HS(p[2]), fm)...)
				}
			}
		}
	}
	mkBlocks := func(roots []string) []fsBlockSpec {
		blocks := make([]fsBlockSpec, len(roots))
		special := -1
		if r.Chance(1, 4) {
			special = r.Intn(len(roots))
		}
		for i, root := range roots {
			hosts := []string{fmt.Sprintf("s%d.test", i)}
			if r.Chance(1, 3) {
				hosts = append(hosts, fmt.Sprintf("t%d.test", i))
			}
			if i == special {
				hosts = append(hosts, hx.Pick(r, []string{"localhost", "127.0.0.1"}))
			}
			prefix := ""
			if r.Chance(1, 6) {
				prefix = "/pre"
			}
			blocks[i] = fsBlockSpec{hosts: hosts, root: root, prefix: prefix, browse: hx.Pick(r, browses), index: hx.Pick(r, indexes), style: randStyle()}
		}
		return blocks
	}
	// every spelling on its own (and all together), on the configuration the property text suggests:
	// a site whose root does not contain the Casketfile first, the one that does after it
	for bit := -1; bit <= stBits; bit++ {
		style := 0
		if bit >= 0 && bit < stBits {
			style = 1 << bit
		} else if bit == stBits {
			style = stAll
		}
		for _, order := range [][2]string{{"/w/other", "/w/site"}, {"/w/site", "/w/other"}} {
			emitInstance("/w/site/Casketfile", []fsBlockSpec{
				{hosts: []string{"s0.test", "t0.test"}, root: order[0], browse: "/|" + c02Arch, index: "b.txt,index.html", style: style},
				{hosts: []string{"s1.test", "localhost"}, root: order[1], browse: "/|tar;/sub|zip", index: "x.txt,index.html", style: style},
			})
		}
	}
	// MOUNTED fixture: the top of the file system (`root /`) and roots several levels above the
	// Casketfile as values of the root dimension.  A site whose root is "/" browses only below the
	// mount point.
	mkMountBlocks := func(roots []string, style func() int) []fsBlockSpec {
		blocks := mkBlocks(roots)
		for i := range blocks {
			blocks[i].style = style()
			switch blocks[i].root {
			case "/":
				blocks[i].browse = hx.Pick(r, []string{fsMount + "|" + c02Arch, fsMount + "|tar,zip", fsMount + "/w|tar;" + fsMount + "|zip", ""})
			case fsMount:
				blocks[i].browse = hx.Pick(r, []string{"/|" + c02Arch, "/w|tar,zip", "/|tar", ""})
			}
		}
		return blocks
	}
	for bit := -1; bit <= stBits; bit++ {
		style := 0
		if bit >= 0 && bit < stBits {
			style = 1 << bit
		} else if bit == stBits {
			style = stAll
		}
		emitInstance(fsMount+"/w/site/Casketfile", []fsBlockSpec{
			{hosts: []string{"s0.test"}, root: fsMount + "/conf", browse: "/|tar", style: style},
			{hosts: []string{"s1.test", "localhost"}, root: "/", browse: fsMount + "|" + c02Arch, index: "x.txt,index.html", style: style},
		})
	}
	for _, cf := range c02SitesMountCasketfiles {
		for _, r1 := range c02SitesMountRoots {
			for _, r2 := range c02SitesMountRoots {
				if r1 == "/" || r2 == "/" || r1 == fsMount || r2 == fsMount || g.Thorough() {
					emitInstance(cf, mkMountBlocks([]string{r1, r2}, randStyle))
				}
			}
		}
		emitInstance(cf, mkMountBlocks([]string{hx.Pick(r, c02SitesMountRoots), "/", hx.Pick(r, c02SitesMountRoots)}, randStyle))
	}
	// every Casketfile location x every ordered pair of roots (inside / outside / nested / equal)
	for _, cf := range c02SitesCasketfiles {
		for _, r1 := range c02SitesRoots {
			for _, r2 := range c02SitesRoots {
				emitInstance(cf, mkBlocks([]string{r1, r2}))
			}
		}
		// triples: a seeded sample (thorough: all)
		for _, r1 := range c02SitesRoots {
			for _, r2 := range c02SitesRoots {
				for _, r3 := range c02SitesRoots {
					if g.Thorough() || r.Chance(1, 20) {
						emitInstance(cf, mkBlocks([]string{r1, r2, r3}))
					}
				}
			}
		}
	}
}

func c02SitesEval(f []string) (string, []string) {
	if len(f) != 8 {
		return "bad-case", nil
	}
	blocks, err := c02ParseBlocks(hx.UnHS(f[2]))
	if err != nil {
		return "bad-case:" + err.Error(), nil
	}
	mounted := c02Mounted(hx.UnHS(f[0]))
	site, err := fsSiteFor([]string{f[0], "sites", f[1], f[2]}, func(T string) (string, error) {
		var b strings.Builder
		for _, bl := range blocks {
			if mounted {
				// the root line names the real directory ("/" is the top of the file system itself);
				// browse scopes of a root above the mount point name real paths
				bl.absRoot = "/"
				if bl.root != "/" {
					bl.absRoot = fsRealPath(T, bl.root)
				}
				bl.browse = strings.ReplaceAll(bl.browse, fsMount, T)
			}
			b.WriteString(fsBlockText(T, bl))
		}
		return b.String(), nil
	})
	if err != nil {
		return "setup-error:" + err.Error(), nil
	}
	host, method, target, ae := f[3], f[4], hx.UnHS(f[5]), hx.UnHS(f[6])
	hdr := "Accept: application/json\r\n"
	if f[7] == "h" {
		hdr = "Accept: text/html\r\n"
	}
	if ae != "" {
		hdr += "Accept-Encoding: " + ae + "\r\n"
	}
	var out, kind string
	if !mounted {
		out, kind = site.roundTripHost(host, method, target, hdr, true)
	} else {
		// model coordinates -> real paths in the request, and back in a Location header
		escT := (&url.URL{Path: site.T}).EscapedPath()
		resp, body, rerr, err := site.fetchHost(host, method, strings.ReplaceAll(target, fsMount, escT), hdr)
		if err != nil {
			out, kind = "io-error:"+strings.SplitN(err.Error(), ":", 2)[0], "io-error"
		} else {
			if loc := resp.Header.Get("Location"); loc != "" {
				resp.Header.Set("Location", strings.ReplaceAll(strings.ReplaceAll(loc, escT, fsMount), site.T, fsMount))
			}
			out, kind = fsRender(method, resp, body, rerr, true)
		}
	}
	tags := []string{"kind=" + kind, fmt.Sprintf("blocks=%d", len(blocks))}
	cf := hx.UnHS(f[1])
	for i, bl := range blocks {
		for j, h := range bl.hosts {
			if h != host {
				continue
			}
			tags = append(tags, fmt.Sprintf("block-%d", i), fmt.Sprintf("address-%d-of-%d", j, len(bl.hosts)))
			inside := c02Under(bl.root, cf)
			if bl.root == "/" {
				tags = append(tags, "root=top-of-file-system")
			} else if mounted && (bl.root == fsMount || bl.root == fsMount+"/w") {
				tags = append(tags, "root=far-above-casketfile")
			}
			earlierOutside := false
			for _, prev := range blocks[:i] {
				if !c02Under(prev.root, cf) {
					earlierOutside = true
				}
			}
			switch {
			case inside && earlierOutside:
				tags = append(tags, "casketfile-inside-after-outside")
			case inside:
				tags = append(tags, "casketfile-inside")
			default:
				tags = append(tags, "casketfile-outside")
			}
			for bit, name := range stNames {
				if bl.style&(1<<bit) != 0 {
					tags = append(tags, "style="+name)
				}
			}
		}
	}
	if kind == "S404" || kind == "S400" || kind == "S405" {
		tags = append(tags, "trivial-"+kind)
	}
	return out, tags
}

func init() {
	hx.Register(&hx.Stream{ID: "C02", Name: "c02.sites", Gen: c02SitesGen, Eval: c02SitesEval, Setup: fsSetup, Teardown: fsTeardown})
}
