//go:build c02

package streams

// c02.sites: SEVERAL sites loaded from one Casketfile through casket.Start, every address of
// every server block probed.  What c02.serve cannot see: configuration-time code that runs over
// all site configurations of a Casketfile (hideCasketfile is one walk over all of them after the
// `root` directives; every address of a block is a site configuration of its own), and HOW a
// block is written.  A case names the blocks by their MEANING (addresses, root, prefix, browse
// scopes, index pages) plus a style number that only the harness reads (c02common.go: st*
// bits); the model answers from the meaning, so every spelling and every order of the blocks
// has to give the answers the single-site model gives for that block.

import (
	"fmt"
	"net/url"
	"strings"

	"verifharness/hx"
)

func c02SitesFixture(casketfile string) *fsFixture {
	fx := newFixture()
	for _, d := range []string{"/w", "/w/site", "/w/site/sub", "/w/site/sub/deep", "/w/site2", "/w/other", "/conf"} {
		fx.dir(d)
	}
	for _, f := range []string{"/w/top.txt", "/w/site/a.txt", "/w/site/a.txt.gz", "/w/site/sub/index.html", "/w/site/sub/b.txt",
		"/w/site/sub/deep/d.txt", "/w/site2/x.txt", "/w/site2/index.html", "/w/other/o.txt", "/conf/c.txt"} {
		fx.file(f)
	}
	fx.file(casketfile) // no-op when the Casketfile takes an existing file's place
	return fx
}

var c02SitesRoots = []string{"/w/site", "/w/site/sub", "/w/site2", "/w/other", "/w"}
var c02SitesCasketfiles = []string{"/w/site/Casketfile", "/w/site/sub/Casketfile", "/w/site2/Casketfile", "/w/Casketfile", "/conf/Casketfile", "/w/site2/index.html"}

func c02Dash(s string) string {
	if s == "" {
		return "-"
	}
	return s
}

func c02BlockLine(b fsBlockSpec) string {
	return fmt.Sprintf("%s %s %s %s %s %d", strings.Join(b.hosts, ","), b.root, c02Dash(b.prefix), c02Dash(b.browse), c02Dash(b.index), b.style)
}

func c02ParseBlocks(config string) ([]fsBlockSpec, error) {
	var out []fsBlockSpec
	for _, l := range strings.Split(config, "\n") {
		w := strings.Fields(l)
		if len(w) != 6 {
			return nil, fmt.Errorf("bad block line %q", l)
		}
		undash := func(s string) string {
			if s == "-" {
				return ""
			}
			return s
		}
		var style int
		if _, err := fmt.Sscanf(w[5], "%d", &style); err != nil {
			return nil, err
		}
		out = append(out, fsBlockSpec{hosts: strings.Split(w[0], ","), root: w[1], prefix: undash(w[2]), browse: undash(w[3]), index: undash(w[4]), style: style})
	}
	return out, nil
}

// c02SitesProbes: the requests one address of a block is asked (targets without the prefix).
func c02SitesProbes(fx *fsFixture, root, casketfile string) [][3]string {
	var out [][3]string // method, target, accept-encoding
	add := func(m, t, ae string) { out = append(out, [3]string{m, t, ae}) }
	for _, q := range []string{"", "?archive=tar", "?archive=zip", "?archive=tar.gz"} {
		add("GET", "/"+q, "")
	}
	for _, e := range fx.entries {
		if !strings.HasPrefix(e.path, root+"/") {
			continue
		}
		rel := (&url.URL{Path: strings.TrimPrefix(e.path, root)}).EscapedPath()
		add("GET", rel, "")
		if e.isDir {
			add("GET", rel+"/", "")
			add("GET", rel+"/?archive=tar", "")
			add("GET", rel+"?archive=zip", "")
		} else {
			add("GET", rel, "gzip")
		}
	}
	// the Casketfile under every spelling, wherever it is relative to this root
	cfRels := []string{"/Casketfile", "/" + casketfile[strings.LastIndex(casketfile, "/")+1:]}
	if strings.HasPrefix(casketfile, root+"/") {
		cfRels = append(cfRels, strings.TrimPrefix(casketfile, root))
	} else if strings.HasPrefix(casketfile, root) {
		cfRels = append(cfRels, "/"+strings.TrimPrefix(casketfile, root)) // byte prefix only (/w/site vs /w/site2/…)
	}
	for _, rel := range cfRels {
		add("GET", rel, "")
		add("HEAD", rel, "")
		add("GET", "/."+rel, "gzip")
		add("GET", "/"+rel, "")
		add("GET", "/%2e%2e"+rel, "")
		add("GET", "/x/.."+rel, "br")
		add("GET", rel[:1]+fmt.Sprintf("%%%02x", rel[1])+rel[2:], "")
		add("POST", rel, "")
	}
	// out of the root: the other sites' files, the Casketfile from above
	for _, t := range []string{"/../Casketfile", "/../conf/Casketfile", "/../site/Casketfile", "/../../w/site/Casketfile", "/..%2fsite2/x.txt", "/../other/o.txt"} {
		add("GET", t, "")
	}
	return out
}

func c02SitesGen(g *hx.Gen) {
	r := g.Rng
	browses := []string{"/|" + c02Arch, "/|" + c02Arch, "/|tar", "/|zip;/sub|tar", "", "/|tar.gz"}
	indexes := []string{"", "", "", "b.txt,index.html", "x.txt"}
	randStyle := func() int {
		switch r.Intn(4) {
		case 0:
			return 0
		case 1:
			return 1 << r.Intn(stBits)
		}
		return r.Intn(stAll + 1)
	}
	emitInstance := func(cf string, blocks []fsBlockSpec) {
		fx := c02SitesFixture(cf)
		lines := make([]string, len(blocks))
		for i, b := range blocks {
			lines[i] = c02BlockLine(b)
		}
		key := []string{hx.HS(fx.text()), hx.HS(cf), hx.HS(strings.Join(lines, "\n"))}
		n := 0
		for _, b := range blocks {
			for _, h := range b.hosts {
				for _, p := range c02SitesProbes(fx, b.root, cf) {
					n++
					fm := "j"
					if n%5 == 0 {
						fm = "h"
					}
					g.Case(append(append([]string{}, key...), h, p[0], hx.HS(b.prefix+p[1]), hx.HS(p[2]), fm)...)
				}
			}
		}
	}
	mkBlocks := func(roots []string) []fsBlockSpec {
		blocks := make([]fsBlockSpec, len(roots))
		special := -1
		if r.Chance(1, 4) {
			special = r.Intn(len(roots))
		}
		for i, root := range roots {
			hosts := []string{fmt.Sprintf("s%d.test", i)}
			if r.Chance(1, 3) {
				hosts = append(hosts, fmt.Sprintf("t%d.test", i))
			}
			if i == special {
				hosts = append(hosts, hx.Pick(r, []string{"localhost", "127.0.0.1"}))
			}
			prefix := ""
			if r.Chance(1, 6) {
				prefix = "/pre"
			}
			blocks[i] = fsBlockSpec{hosts: hosts, root: root, prefix: prefix, browse: hx.Pick(r, browses), index: hx.Pick(r, indexes), style: randStyle()}
		}
		return blocks
	}
	// every spelling on its own (and all together), on the configuration the property text suggests:
	// a site whose root does not contain the Casketfile first, the one that does after it
	for bit := -1; bit <= stBits; bit++ {
		style := 0
		if bit >= 0 && bit < stBits {
			style = 1 << bit
		} else if bit == stBits {
			style = stAll
		}
		for _, order := range [][2]string{{"/w/other", "/w/site"}, {"/w/site", "/w/other"}} {
			emitInstance("/w/site/Casketfile", []fsBlockSpec{
				{hosts: []string{"s0.test", "t0.test"}, root: order[0], browse: "/|" + c02Arch, index: "b.txt,index.html", style: style},
				{hosts: []string{"s1.test", "localhost"}, root: order[1], browse: "/|tar;/sub|zip", index: "x.txt,index.html", style: style},
			})
		}
	}
	// every Casketfile location x every ordered pair of roots (inside / outside / nested / equal)
	for _, cf := range c02SitesCasketfiles {
		for _, r1 := range c02SitesRoots {
			for _, r2 := range c02SitesRoots {
				emitInstance(cf, mkBlocks([]string{r1, r2}))
			}
		}
		// triples: a seeded sample (thorough: all)
		for _, r1 := range c02SitesRoots {
			for _, r2 := range c02SitesRoots {
				for _, r3 := range c02SitesRoots {
					if g.Thorough() || r.Chance(1, 20) {
						emitInstance(cf, mkBlocks([]string{r1, r2, r3}))
					}
				}
			}
		}
	}
}

func c02SitesEval(f []string) (string, []string) {
	if len(f) != 8 {
		return "bad-case", nil
	}
	blocks, err := c02ParseBlocks(hx.UnHS(f[2]))
	if err != nil {
		return "bad-case:" + err.Error(), nil
	}
	site, err := fsSiteFor([]string{f[0], "sites", f[1], f[2]}, func(T string) (string, error) {
		var b strings.Builder
		for _, bl := range blocks {
			b.WriteString(fsBlockText(T, bl))
		}
		return b.String(), nil
	})
	if err != nil {
		return "setup-error:" + err.Error(), nil
	}
	host, method, target, ae := f[3], f[4], hx.UnHS(f[5]), hx.UnHS(f[6])
	hdr := "Accept: application/json\r\n"
	if f[7] == "h" {
		hdr = "Accept: text/html\r\n"
	}
	if ae != "" {
		hdr += "Accept-Encoding: " + ae + "\r\n"
	}
	out, kind := site.roundTripHost(host, method, target, hdr, true)
	tags := []string{"kind=" + kind, fmt.Sprintf("blocks=%d", len(blocks))}
	cf := hx.UnHS(f[1])
	for i, bl := range blocks {
		for j, h := range bl.hosts {
			if h != host {
				continue
			}
			tags = append(tags, fmt.Sprintf("block-%d", i), fmt.Sprintf("address-%d-of-%d", j, len(bl.hosts)))
			inside := strings.HasPrefix(cf, bl.root+"/")
			earlierOutside := false
			for _, prev := range blocks[:i] {
				if !strings.HasPrefix(cf, prev.root+"/") {
					earlierOutside = true
				}
			}
			switch {
			case inside && earlierOutside:
				tags = append(tags, "casketfile-inside-after-outside")
			case inside:
				tags = append(tags, "casketfile-inside")
			default:
				tags = append(tags, "casketfile-outside")
			}
			for bit, name := range stNames {
				if bl.style&(1<<bit) != 0 {
					tags = append(tags, "style="+name)
				}
			}
		}
	}
	if kind == "S404" || kind == "S400" || kind == "S405" {
		tags = append(tags, "trivial-"+kind)
	}
	return out, tags
}

func init() {
	hx.Register(&hx.Stream{ID: "C02", Name: "c02.sites", Gen: c02SitesGen, Eval: c02SitesEval, Setup: fsSetup, Teardown: fsTeardown})
}
