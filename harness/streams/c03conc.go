//go:build c03

package streams

// c03.conc: a CONCURRENT phase on one basicauth-protected path.  The rule is set up by the real
// directive (casket.DirectiveAction("http", "basicauth") on a test controller, so the password
// matcher is whatever setup.go builds: PlainMatcher for a plain argument, GetHtpasswdMatcher for
// htpasswd=), the middleware is put in front of a handler that writes a secret, and G goroutines
// presenting the valid credentials run against G goroutines cycling through wrong ones (right
// user + wrong password, wrong user + right password, …), all calling the real
// BasicAuth.ServeHTTP for a bounded number of rounds.
//
// Judged: no wrong-credential request is ever served (bad:disclosure-concurrent), no valid one
// refused (bad:valid-credentials-rejected-concurrent).  This is EXPLORATION of schedules — the Go
// scheduler picks the interleavings, a clean run proves nothing — next to the theorem that the
// model's credential decision is a function of (rule, presented credentials) only
// (C03_credential_decision_pure).  Seeded regression C03-plainmatcher-shared-hash-array (the hash
// of the presented password kept in one array per rule) is found within a few thousand requests.

import (
	"crypto/sha1"
	"encoding/base64"
	"fmt"
	"net/http"
	"os"
	"path/filepath"
	"strconv"
	"strings"
	"sync"
	"sync/atomic"
	"time"

	"github.com/tmpim/casket"
	"github.com/tmpim/casket/caskethttp/httpserver"

	"verifharness/hx"
)

const c03cSecret = "@@C03-CONC-SECRET@@"

// c03cWriter is a minimal ResponseWriter: it only remembers whether the secret was written.
type c03cWriter struct {
	h      http.Header
	status int
	leaked bool
}

func (w *c03cWriter) Header() http.Header { return w.h }
func (w *c03cWriter) WriteHeader(s int)   { w.status = s }
func (w *c03cWriter) Write(b []byte) (int, error) {
	if strings.Contains(string(b), c03cSecret) {
		w.leaked = true
	}
	return len(b), nil
}

// c03cHandler builds the protected handler through the real basicauth setup.
func c03cHandler(kind, user, pass string) (httpserver.Handler, func(), error) {
	T, err := os.MkdirTemp("", "verif-conc-")
	if err != nil {
		return nil, nil, err
	}
	cleanup := func() { os.RemoveAll(T) }
	var input string
	switch kind {
	case "plain":
		input = fmt.Sprintf("basicauth /secret %s %s", user, pass)
	case "tworules": // a second rule on the same resource, for another user
		input = fmt.Sprintf("basicauth /secret %s %s\nbasicauth /secret alice other-password", user, pass)
	case "sha", "htplain":
		line := user + ":" + pass + "\n"
		if kind == "sha" {
			sum := sha1.Sum([]byte(pass))
			line = user + ":{SHA}" + base64.StdEncoding.EncodeToString(sum[:]) + "\n"
		}
		if err := os.WriteFile(filepath.Join(T, "users.ht"), []byte("carol:zzz\n"+line), 0o600); err != nil {
			cleanup()
			return nil, nil, err
		}
		input = fmt.Sprintf("basicauth /secret %s htpasswd=users.ht", user)
	default:
		cleanup()
		return nil, nil, fmt.Errorf("kind")
	}
	c := casket.NewTestController("http", input)
	cfg := httpserver.GetConfig(c)
	cfg.Root = T
	setup, err := casket.DirectiveAction("http", "basicauth")
	if err != nil {
		cleanup()
		return nil, nil, err
	}
	if err := setup(c); err != nil {
		cleanup()
		return nil, nil, err
	}
	mids := cfg.Middleware()
	if len(mids) != 1 {
		cleanup()
		return nil, nil, fmt.Errorf("middleware count %d", len(mids))
	}
	next := httpserver.HandlerFunc(func(w http.ResponseWriter, r *http.Request) (int, error) {
		w.Write([]byte(c03cSecret))
		return http.StatusOK, nil
	})
	return mids[0](next), cleanup, nil
}

func c03cEval(f []string) (string, []string) {
	if len(f) != 6 {
		return "bad-case", nil
	}
	kind, user, pass := f[0], hx.UnHS(f[1]), hx.UnHS(f[2])
	var wrong []string
	if w := hx.UnHS(f[3]); w != "" {
		wrong = strings.Split(w, ",")
	}
	G, _ := strconv.Atoi(f[4])
	rounds, _ := strconv.Atoi(f[5])
	h, cleanup, err := c03cHandler(kind, user, pass)
	if err != nil {
		return "setup-error:" + err.Error(), nil
	}
	defer cleanup()

	do := func(cred string) (served bool) {
		r, _ := http.NewRequest("GET", "/secret/file.txt", nil)
		r.RemoteAddr = "127.0.0.1:1"
		r.Header.Set("Authorization", "Basic "+base64.StdEncoding.EncodeToString([]byte(cred)))
		w := &c03cWriter{h: http.Header{}}
		status, _ := h.ServeHTTP(w, r)
		return status != http.StatusUnauthorized || w.leaked
	}
	// sequentially the guard must work, or the phase says nothing about concurrency
	if !do(user + ":" + pass) {
		return "sequential:valid-refused", []string{"kind=" + kind}
	}
	for _, c := range wrong {
		if do(c) {
			return "sequential:wrong-served", []string{"kind=" + kind}
		}
	}

	var leak, refused, stop int32
	var attempts int64
	deadline := time.Now().Add(2 * time.Second)
	var wg sync.WaitGroup
	start := make(chan struct{})
	for g := 0; g < G; g++ {
		wg.Add(2)
		go func() { // legitimate logins
			defer wg.Done()
			<-start
			for i := 0; i < rounds && atomic.LoadInt32(&stop) == 0; i++ {
				if !do(user + ":" + pass) {
					atomic.StoreInt32(&refused, 1)
				}
				if i&255 == 255 && time.Now().After(deadline) {
					return
				}
			}
		}()
		go func(g int) { // clients without valid credentials
			defer wg.Done()
			<-start
			for i := 0; i < rounds && atomic.LoadInt32(&stop) == 0 && len(wrong) > 0; i++ {
				atomic.AddInt64(&attempts, 1)
				if do(wrong[(i+g)%len(wrong)]) {
					atomic.StoreInt32(&leak, 1)
					atomic.StoreInt32(&stop, 1) // one served request is the finding
				}
				if i&255 == 255 && time.Now().After(deadline) {
					return
				}
			}
		}(g)
	}
	close(start)
	wg.Wait()
	tags := []string{"kind=" + kind, fmt.Sprintf("goroutines=%d", 2*G)}
	if atomic.LoadInt64(&attempts) >= 1000 {
		tags = append(tags, "wrong-attempts>=1000")
	}
	return fmt.Sprintf("leak=%d refused=%d", leak, refused), tags
}

func c03cGen(g *hx.Gen) {
	rounds := 25000
	if g.Thorough() {
		rounds = 200000
	}
	wrong := "bob:wrong-password,bob:,eve:correct-horse,bob:correct-hors,bob:correct-horse "
	for _, kind := range []string{"plain", "tworules", "sha", "htplain"} {
		g.Case(kind, hx.HS("bob"), hx.HS("correct-horse"), hx.HS(wrong), "4", strconv.Itoa(rounds))
	}
	// only right user + wrong password against the valid login: the narrowest race
	g.Case("plain", hx.HS("bob"), hx.HS("pw"), hx.HS("bob:wrong"), "4", strconv.Itoa(rounds))
	g.Case("plain", hx.HS("bob"), hx.HS("pw"), hx.HS("bob:wrong,bob:pw2"), "8", strconv.Itoa(rounds/2))
}

func init() {
	hx.Register(&hx.Stream{ID: "C03", Name: "c03.conc", Gen: c03cGen, Eval: c03cEval, Serial: true, Setup: fsSetup})
}
