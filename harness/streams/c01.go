//go:build c01

package streams

import (
	"fmt"
	"io"
	"log"
	"net"
	"net/http"
	"net/http/httptest"
	"net/url"
	"strconv"
	"strings"

	"github.com/tmpim/casket"
	"github.com/tmpim/casket/caskethttp/httpserver"
	"github.com/tmpim/casket/caskettls"

	"verifharness/hx"
)

// c01.route  sites  hosthex  pathhex  protoMajor
//   sites = comma list of <keyhex>:<fallback 0|1>:<addrhosthex> in declaration order
//   out   = site TAB <index> TAB <path_prefix hex> | notfound TAB <status>
//
// The real code path: httpserver.NewServer(addr, []*SiteConfig) with one marker
// middleware per site, then Server.ServeHTTP on an httptest recorder.

func c01RouteEval(f []string) (string, []string) {
	if len(f) != 4 {
		return "bad-case", nil
	}
	sites := c01ParseSites(f[0])
	host, path := hx.UnHS(f[1]), hx.UnHS(f[2])
	pm, _ := strconv.Atoi(f[3])

	type hit struct {
		idx    int
		prefix string
	}
	var ran []hit
	group := make([]*httpserver.SiteConfig, len(sites))
	for i, s := range sites {
		sc := &httpserver.SiteConfig{
			Addr:         httpserver.Address{Original: s.key, Host: s.addrHost},
			TLS:          &caskettls.Config{},
			FallbackSite: s.fallback,
		}
		idx := i
		sc.AddMiddleware(func(next httpserver.Handler) httpserver.Handler {
			return httpserver.HandlerFunc(func(w http.ResponseWriter, r *http.Request) (int, error) {
				pfx, _ := r.Context().Value(casket.CtxKey("path_prefix")).(string)
				ran = append(ran, hit{idx, pfx})
				w.Header().Add("X-Verif-Site", strconv.Itoa(idx))
				w.WriteHeader(200)
				return 0, nil
			})
		})
		group[i] = sc
	}
	srv, err := httpserver.NewServer("127.0.0.1:0", group)
	if err != nil {
		return "setup-error:" + err.Error(), nil
	}
	req := &http.Request{
		Method: "GET", Host: host, URL: &url.URL{Path: path},
		Proto: fmt.Sprintf("HTTP/%d.0", pm), ProtoMajor: pm, ProtoMinor: 0,
		Header: http.Header{}, RemoteAddr: "192.0.2.1:4000", RequestURI: path,
	}
	if pm == 1 {
		req.Proto, req.ProtoMinor = "HTTP/1.1", 1
	}
	rec := httptest.NewRecorder()
	srv.ServeHTTP(rec, req)

	tags := []string{fmt.Sprintf("sites=%d", len(sites)), fmt.Sprintf("proto=%d", pm)}
	if len(sites) < 2 {
		tags = append(tags, "trivial-fewer-than-two-sites")
	}
	if _, _, e := net.SplitHostPort(host); e == nil {
		tags = append(tags, "req-has-port")
	}
	if strings.ToLower(host) != host {
		tags = append(tags, "req-upper")
	}
	for i := 0; i < len(host); i++ {
		if host[i] >= 0x80 {
			tags = append(tags, "trivial-non-ascii-host")
			break
		}
	}
	if strings.HasPrefix(path, "/.well-known/acme-challenge/") {
		tags = append(tags, "trivial-acme-path")
	}
	switch {
	case len(ran) == 0:
		tags = append(tags, "notfound")
		if rec.Header().Get("X-Verif-Site") != "" {
			return "marker-header-without-run", tags
		}
		return "notfound\t" + strconv.Itoa(rec.Code), tags
	case len(ran) == 1:
		k := sites[ran[0].idx].key
		kh := strings.ToLower(strings.SplitN(k, "/", 2)[0])
		switch {
		case strings.Contains(kh, "*"):
			tags = append(tags, "via-wildcard")
		case kh == "" || strings.HasPrefix(kh, ":") || strings.HasPrefix(kh, "0.0.0.0") || strings.HasPrefix(kh, "[::]") || kh == "::" || sites[ran[0].idx].fallback:
			tags = append(tags, "via-catchall")
		default:
			tags = append(tags, "via-exact")
		}
		if ran[0].prefix != "/" {
			tags = append(tags, "prefix-nonroot")
		}
		if rec.Code != 200 {
			return fmt.Sprintf("site-ran-but-status:%d", rec.Code), tags
		}
		return "site\t" + strconv.Itoa(ran[0].idx) + "\t" + hx.HS(ran[0].prefix), tags
	default:
		return fmt.Sprintf("multiple-sites-ran:%d", len(ran)), tags
	}
}

// ---- generators ----

var c01HostPats = []string{
	"a.com", "b.a.com", "*.a.com", "*.*.com", "*.com", "c.b.a.com", "*.b.a.com",
	"", "0.0.0.0", "[::]", "*", "*.*", "localhost", "[::1]", "127.0.0.1", "*.*.*.*",
}
var c01Paths = []string{"", "/", "/foo", "/foo/", "/foo/bar", "/fo", "/bar", "/foo%2Fbar"}

var c01ReqHosts = []string{
	"a.com", "b.a.com", "c.b.a.com", "x.a.com", "x.y.com", "z.org", "zzz", "", "localhost",
	"[::1]", "127.0.0.1", "10.1.2.3", "0.0.0.0", "[::]", "a.com.", "com",
}
var c01ReqPaths = []string{"/", "/foo", "/foo/", "/foo/bar", "/foo/bar/baz", "/fo", "/foobar", "/bar", "/FOO", "/foo%2Fbar", "/f"}

// spellings of one host name: case and port variants (the property says they all route alike)
func c01Spellings(h string, all bool) []string {
	out := []string{h}
	up := strings.ToUpper(h)
	if up != h {
		out = append(out, up)
	}
	if strings.HasPrefix(h, "[") || !strings.Contains(h, ":") {
		out = append(out, h+":8080")
		if all && up != h {
			out = append(out, up+":443")
		}
	}
	return out
}

func c01Perms(n int) [][]int {
	if n == 0 {
		return [][]int{{}}
	}
	var out [][]int
	for _, p := range c01Perms(n - 1) {
		for pos := 0; pos <= len(p); pos++ {
			q := append(append(append([]int{}, p[:pos]...), n-1), p[pos:]...)
			out = append(out, q)
		}
	}
	return out
}

func c01Emit(g *hx.Gen, sites []c01Site, host, path string, pm int) {
	g.Case(c01EncSites(sites), hx.HS(host), hx.HS(path), strconv.Itoa(pm))
}

func c01RouteGen(g *hx.Gen) {
	mk := func(key string) c01Site { return c01Site{key, false, c01AddrHost(key)} }
	// no sites, one site
	for _, h := range []string{"a.com", "", "A.com:80"} {
		c01Emit(g, nil, h, "/", 1)
		c01Emit(g, nil, h, "/", 2)
	}
	// exhaustive: every ordered pair of keys over hosts x paths, against requests related to them
	hp := c01HostPats
	pp := c01Paths
	if !g.Thorough() {
		hp = hp[:12]
		pp = pp[:6]
	}
	var keys []string
	for _, h := range hp {
		for _, p := range pp {
			keys = append(keys, h+p)
		}
	}
	rh, rp := c01ReqHosts, c01ReqPaths
	for _, k := range keys {
		for _, h := range rh {
			for _, p := range rp[:6] {
				c01Emit(g, []c01Site{mk(k)}, h, p, 1)
			}
		}
	}
	n := 0
	for _, k1 := range keys {
		for _, k2 := range keys {
			if k1 == k2 {
				continue
			}
			// a deterministic slice of the request grid per pair (the whole grid in thorough)
			for hi, h := range rh {
				for pi, p := range rp {
					n++
					if !g.Thorough() && (hi*len(rp)+pi+n)%23 != 0 {
						continue
					}
					c01Emit(g, []c01Site{mk(k1), mk(k2)}, h, p, 1+(n%2))
				}
			}
		}
	}
	// case / port spellings x every declaration order, for site sets of 3 and 4
	sets := [][]string{
		{"a.com", "*.a.com", ""},
		{"a.com/foo", "a.com", "*.com/foo"},
		{"A.com:8080", "*.A.COM:8080/foo/", "0.0.0.0:8080"},
		{"b.a.com", "*.a.com", "*.*.com", "*.*.*"},
		{"a.com/foo", "a.com/foo/bar", "a.com/fo", ":80/foo"},
		{"[::1]:8080", "127.0.0.1:8080", "localhost:8080", "[::]:8080"},
		{"[::1]", "[::]", "a.com"},
		{"*", "*.com", "a.com/bar"},
		{"*.*.*.*", "a.com/foo"},
		{"http.a.com/", "0.0.0.0/foo", "/foo/bar", "[::]/"},
	}
	for _, set := range sets {
		for _, perm := range c01Perms(len(set)) {
			sites := make([]c01Site, len(set))
			for i, j := range perm {
				sites[i] = mk(set[j])
			}
			for _, h := range rh {
				for _, sp := range c01Spellings(h, true) {
					for _, p := range rp {
						c01Emit(g, sites, sp, p, 1)
					}
				}
			}
		}
	}
	// designated fallback sites
	for _, fbHost := range []string{"fb.test", "*.fb.test", "FB.test"} {
		for _, other := range []string{"a.com", "", "*.com"} {
			for _, order := range []bool{false, true} {
				fb := c01Site{fbHost + "/foo", true, fbHost}
				fb2 := c01Site{strings.ToLower(fbHost), true, strings.ToLower(fbHost)}
				sites := []c01Site{fb, mk(other), fb2}
				if order {
					sites = []c01Site{mk(other), fb2, fb}
				}
				for _, h := range []string{"a.com", "zzz", "fb.test", "x.fb.test", "1.2.3.4:80"} {
					for _, p := range []string{"/", "/foo/x"} {
						c01Emit(g, sites, h, p, 1)
						c01Emit(g, sites, h, p, 2)
					}
				}
			}
		}
	}
	// two designated fallback sites with different hosts (declaration order decides: known finding)
	for _, order := range []bool{false, true} {
		a, b := c01Site{"fa.test", true, "fa.test"}, c01Site{"fb.test/foo", true, "fb.test"}
		sites := []c01Site{a, mk("a.com"), b}
		if order {
			sites = []c01Site{b, mk("a.com"), a}
		}
		for _, h := range []string{"zzz", "a.com", "fa.test", "fb.test"} {
			c01Emit(g, sites, h, "/foo", 1)
		}
	}
	// outside the judged domain, still compared with the model: lower-case non-ASCII hosts (byte-wise
	// routing; upper-case non-ASCII letters would need Unicode case folding, which the model does not have)
	// and ACME HTTP-challenge paths (no issuer is configured here, so they route like any other path)
	for _, h := range []string{"\u00e9.com", "\u65e5\u672c.jp", "a.\u00e9.com"} {
		for _, rh := range []string{h, h + ":8080", "x." + h, "a.com"} {
			c01Emit(g, []c01Site{mk(h), mk("*." + h + "/foo"), mk("a.com")}, rh, "/foo/bar", 1)
		}
	}
	for _, p := range []string{"/.well-known/acme-challenge/tok", "/.well-known/acme-challenge/", "/.well-known/acme-challenge"} {
		c01Emit(g, []c01Site{mk("a.com"), mk("a.com/.well-known"), mk("")}, "a.com", p, 1)
		c01Emit(g, []c01Site{mk("a.com")}, "zzz", p, 2)
	}
	// site path prefixes with multi-byte UTF-8 characters (the trie walks BYTES; only the host part of an
	// address is lower-cased), request paths under them, beside them and their ASCII look-alikes
	// (alphabets shared with c01.wire, where the same paths arrive raw / percent-encoded on the wire)
	for _, set := range [][]string{
		{"example.com", "example.com/caf\u00e9", "example.com/caf\u00e9/men\u00fc", "example.com/plain"},
		{"example.com/\u65e5\u672c"},
		{"example.com/\u65e5\u672c", "example.com/\u65e5", "*.example.com/\u65e5\u672c"},
		{"example.com/caf", "example.com/caf\u00e9", "example.com/caf\u00e8", ""},
	} {
		for _, perm := range c01Perms(len(set)) {
			sites := make([]c01Site, len(set))
			for i, j := range perm {
				sites[i] = mk(set[j])
			}
			for _, h := range []string{"example.com", "EXAMPLE.com:8080", "x.example.com", "zzz"} {
				for _, p := range c01UReqPaths {
					c01Emit(g, sites, h, p, 1)
				}
			}
		}
	}
	for _, p1 := range c01UPaths {
		for _, p2 := range c01UPaths {
			if p1 == p2 {
				continue
			}
			for i, p := range c01UReqPaths {
				c01Emit(g, []c01Site{mk("a.com" + p1), mk("a.com" + p2), mk("/\u00e9")}, "A.com", p, 1+i%2)
			}
		}
	}
	// seeded random: up to 12 sites out of the alphabet with random spellings and requests aimed at them
	N := 6000
	if g.Thorough() {
		N = 150000
	}
	labels := []string{"a", "b", "c", "com", "org", "x", "*"}
	randHost := func() string {
		switch g.Rng.Intn(10) {
		case 0:
			return hx.Pick(g.Rng, []string{"", "0.0.0.0", "[::]", "[::1]", "127.0.0.1", "*"})
		default:
			k := 1 + g.Rng.Intn(4)
			ls := make([]string, k)
			stars := g.Rng.Intn(k + 1)
			if g.Rng.Bool() {
				stars = 0
			}
			for i := range ls {
				if i < stars {
					ls[i] = "*"
				} else {
					ls[i] = labels[g.Rng.Intn(5)]
				}
			}
			return strings.Join(ls, ".")
		}
	}
	randPath := func() string {
		k := g.Rng.Intn(4)
		p := ""
		for i := 0; i < k; i++ {
			p += "/" + hx.Pick(g.Rng, []string{"foo", "fo", "bar", "f", "", "foo%2F"})
		}
		return p
	}
	for it := 0; it < N; it++ {
		ns := 1 + g.Rng.Intn(12)
		sites := make([]c01Site, ns)
		for i := range sites {
			h := randHost()
			sp := c01Spellings(h, true)
			key := hx.Pick(g.Rng, sp) + randPath()
			sites[i] = mk(key)
			if g.Rng.Chance(1, 12) {
				sites[i].fallback = true
			}
		}
		// request: instantiate a site's pattern (so that matches happen), or anything
		var h string
		if g.Rng.Chance(3, 4) {
			s := sites[g.Rng.Intn(ns)]
			h = c01AddrHost(s.key)
			ls := strings.Split(h, ".")
			for i := range ls {
				if ls[i] == "*" && g.Rng.Chance(5, 6) {
					ls[i] = labels[g.Rng.Intn(6)]
				}
			}
			h = strings.Join(ls, ".")
			if strings.Contains(h, ":") {
				h = "[" + h + "]"
			}
			if g.Rng.Chance(1, 5) && len(ls) > 1 {
				h = "x." + h
			}
		} else {
			h = randHost()
		}
		h = hx.Pick(g.Rng, c01Spellings(h, true))
		p := randPath()
		if p == "" || g.Rng.Chance(1, 3) {
			p += "/" + hx.Pick(g.Rng, []string{"", "foo", "foo/bar", "x"})
		}
		c01Emit(g, sites, h, p, 1+g.Rng.Intn(2)*g.Rng.Intn(2))
	}
}

// malformed: host spellings and keys from a hostile alphabet, request paths that are not origin-form
func c01MalformedGen(g *hx.Gen) {
	alpha := "aA.*:[]/0-_%"
	rs := func(max int) string {
		b := make([]byte, g.Rng.Intn(max+1))
		for i := range b {
			b[i] = alpha[g.Rng.Intn(len(alpha))]
		}
		return string(b)
	}
	N := 4000
	if g.Thorough() {
		N = 100000
	}
	for it := 0; it < N; it++ {
		ns := g.Rng.Intn(4)
		sites := make([]c01Site, ns)
		for i := range sites {
			k := rs(7)
			sites[i] = c01Site{k, g.Rng.Chance(1, 6), rs(4)}
		}
		h := rs(7)
		if ns > 0 && g.Rng.Bool() {
			h = strings.SplitN(sites[g.Rng.Intn(ns)].key, "/", 2)[0]
			if g.Rng.Bool() {
				h += ":" + rs(2)
			}
		}
		p := hx.Pick(g.Rng, []string{"/", "", "*", "/" + rs(5), rs(5), "/\x00\xff\x80a", "//", "/a//b"})
		c01Emit(g, sites, h, p, g.Rng.Intn(4))
	}
}

// c01.hostport  hex   out = ok:<hosthex> | err        (net.SplitHostPort as used by serveHTTP / splitHostPath)
func c01HostportGen(g *hx.Gen) {
	alpha := []byte("a:[].0")
	maxLen := 6
	if g.Thorough() {
		maxLen = 7
	}
	var rec func(prefix []byte)
	rec = func(prefix []byte) {
		g.Case(hx.H(prefix))
		if len(prefix) == maxLen {
			return
		}
		for _, c := range alpha {
			rec(append(append([]byte{}, prefix...), c))
		}
	}
	rec(nil)
	for i := 0; i < 2000; i++ {
		b := make([]byte, g.Rng.Intn(20))
		for j := range b {
			b[j] = "abc:[]./%*0123456789\x00\xff"[g.Rng.Intn(22)]
		}
		g.Case(hx.H(b))
	}
}

// c01.match  keys  queryhex      (vhostTrie.Insert / Match directly)
func c01MatchEval(f []string) (string, []string) {
	t := httpserver.VerifNewVHostTrie()
	n := 0
	if f[0] != "" {
		for _, k := range strings.Split(f[0], ",") {
			t.Insert(hx.UnHS(k))
			n++
		}
	}
	i, p := t.Match(hx.UnHS(f[1]))
	tags := []string{fmt.Sprintf("keys=%d", n)}
	if i < 0 {
		if p != "" {
			return "nil-site-with-prefix", tags
		}
		return "-", append(tags, "nomatch")
	}
	return strconv.Itoa(i) + "\t" + hx.HS(p), append(tags, "match")
}

func c01MatchGen(g *hx.Gen) {
	// the rows of TestVHostTrie*, then random keys/queries over a small alphabet
	tables := []struct {
		keys    []string
		queries []string
	}{
		{[]string{"example", "example.com", "*.example.com", "example.com/foo", "example.com/foo/bar", "*.example.com/test"},
			[]string{"not-in-trie.com", "example", "example.com", "example.com/test", "example.com/foo", "example.com/foo/", "EXAMPLE.COM/foo", "EXAMPLE.COM/Foo", "example.com/foo/bar", "example.com/foo/bar/baz", "example.com/foo/other", "foo.example.com", "foo.example.com/else"}},
		{[]string{"example.com", ""}, []string{"not-in-trie.com", "example.com", "example.com/foo", "not-in-trie.com/asdf"}},
		{[]string{"0.0.0.0/asdf"}, []string{"example.com/asdf/foo", "example.com/foo", "host/asdf"}},
		{[]string{"*/foo"}, []string{"example.com/foo", "example.com"}},
		{[]string{"example.com:1234"}, []string{"example.com/foo"}},
	}
	for _, t := range tables {
		ks := make([]string, len(t.keys))
		for i, k := range t.keys {
			ks[i] = hx.HS(k)
		}
		for _, q := range t.queries {
			g.Case(strings.Join(ks, ","), hx.HS(q))
		}
	}
	alpha := "ab.*:/[]A1"
	rs := func(max int) string {
		b := make([]byte, g.Rng.Intn(max+1))
		for i := range b {
			b[i] = alpha[g.Rng.Intn(len(alpha))]
		}
		return string(b)
	}
	N := 3000
	if g.Thorough() {
		N = 60000
	}
	for it := 0; it < N; it++ {
		n := g.Rng.Intn(5)
		ks := make([]string, n)
		raw := make([]string, n)
		for i := range ks {
			raw[i] = rs(6)
			ks[i] = hx.HS(raw[i])
		}
		q := rs(8)
		if n > 0 && g.Rng.Bool() {
			q = raw[g.Rng.Intn(n)] + rs(3)
		}
		g.Case(strings.Join(ks, ","), hx.HS(q))
	}
}

func init() {
	quiet := func() error { log.SetOutput(io.Discard); return nil }
	hx.Register(&hx.Stream{ID: "C01", Name: "c01.route", Gen: func(g *hx.Gen) { c01RouteGen(g); c01MalformedGen(g) }, Eval: c01RouteEval, Setup: quiet})
	hx.Register(&hx.Stream{ID: "C01", Name: "c01.hostport", Gen: c01HostportGen,
		Eval: func(f []string) (string, []string) {
			s := hx.UnHS(f[0])
			h, _, err := net.SplitHostPort(s)
			if err != nil {
				return "err", []string{"err"}
			}
			return "ok:" + hx.HS(h), []string{"ok"}
		}})
	hx.Register(&hx.Stream{ID: "C01", Name: "c01.match", Gen: c01MatchGen, Eval: c01MatchEval})
}
