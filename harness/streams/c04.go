//go:build c04

package streams

import (
	"bytes"
	"context"
	"fmt"
	"io"
	"net"
	"net/http"
	"net/http/httptest"
	"net/textproto"
	"net/url"
	"sort"
	"strconv"
	"strings"

	"github.com/tmpim/casket/casketfile"
	"github.com/tmpim/casket/caskethttp/httpserver"
	"github.com/tmpim/casket/caskethttp/proxy"

	"verifharness/hx"
)

// c04.req   method path rawpath opaque rawquery host remoteaddr header contentLength bodyLen bodySeed
//           targetParts targetString without upRules flags
//   out   = method scheme urlhost path rawpath opaque rawquery reqhost header contentLength body
//   flags = comma list: transparent, buffered (two copies of the backend + try_duration: the body is buffered),
//           lay=<naming>:<order> (how the block is written, c04_layout.go), sib=a|b (a second proxy directive after / before)
// c04.resp  status header announced trailer bodyLen bodySeed preHeader downRules flags downRepls
//   out   = status header trailers body
//
// The real code path: proxy.NewStaticUpstreams (Casketfile) -> proxy.Proxy.ServeHTTP -> ReverseProxy.ServeHTTP,
// with the backend *transport* replaced by a recorder (the property's observation point) and the client side
// an httptest.ResponseRecorder.  net/http's own wire handling is exercised by c04.wire.

// ---- header map encoding: name=v1,v2;name2=... (hex) ----

type c04Entry struct {
	k  string
	vv []string
}

func c04EncEntries(es []c04Entry) string {
	parts := make([]string, len(es))
	for i, e := range es {
		if e.vv == nil {
			parts[i] = hx.HS(e.k)
			continue
		}
		vs := make([]string, len(e.vv))
		for j, v := range e.vv {
			vs[j] = hx.HS(v)
		}
		parts[i] = hx.HS(e.k) + "=" + strings.Join(vs, ",")
	}
	return strings.Join(parts, ";")
}

func c04DecEntries(s string) []c04Entry {
	if s == "" {
		return nil
	}
	var out []c04Entry
	for _, p := range strings.Split(s, ";") {
		kv := strings.SplitN(p, "=", 2)
		e := c04Entry{k: hx.UnHS(kv[0])}
		if len(kv) == 2 {
			e.vv = []string{}
			for _, v := range strings.Split(kv[1], ",") {
				e.vv = append(e.vv, hx.UnHS(v))
			}
		}
		out = append(out, e)
	}
	return out
}

func c04ToHeader(es []c04Entry) http.Header {
	h := http.Header{}
	for _, e := range es {
		if _, dup := h[e.k]; dup {
			panic("duplicate key in header field of the case")
		}
		h[e.k] = append([]string(nil), e.vv...)
	}
	return h
}

// canonical print: keys sorted, keys without values omitted, values of Trailer sorted
func c04ShowHeader(h http.Header) string {
	var ks []string
	for k, vv := range h {
		if len(vv) > 0 {
			ks = append(ks, k)
		}
	}
	sort.Strings(ks)
	es := make([]c04Entry, len(ks))
	for i, k := range ks {
		vv := append([]string(nil), h[k]...)
		if k == "Trailer" {
			sort.Strings(vv)
		}
		es[i] = c04Entry{k, vv}
	}
	return c04EncEntries(es)
}

func c04Body(n int, seed uint64) []byte {
	b := make([]byte, n)
	s := seed*2862933555777941757 + 3037000493
	for i := range b {
		s ^= s << 13
		s ^= s >> 7
		s ^= s << 17
		b[i] = byte(s >> 24)
	}
	return b
}

func c04URLParts(u *url.URL) string {
	return strings.Join([]string{hx.HS(u.Scheme), hx.HS(u.Host), hx.HS(u.Path), hx.HS(u.RawPath), hx.HS(u.Opaque), hx.HS(u.RawQuery)}, ",")
}

// Casketfile token: quoted when needed; the generators stay away from quotes, backslashes and line breaks.
func c04Tok(s string) string {
	if s == "" || strings.ContainsAny(s, " \t{}") {
		return `"` + s + `"`
	}
	return s
}

func c04TokOK(s string) bool { return !strings.ContainsAny(s, "\"\\\r\n") }

var c04Transparent = []c04Entry{{"Host", []string{"{host}"}}, {"X-Real-IP", []string{"{remote}"}}, {"X-Forwarded-Proto", []string{"{scheme}"}}, {"X-Forwarded-Port", []string{"{server_port}"}}}

// the lines of a rule set; the values of one rule (and `transparent`, which writes Host) keep their order
func c04RuleLines(directive string, rules []c04Entry, flags string) ([]blkLine, bool) {
	var out []blkLine
	if strings.Contains(flags, "transparent") {
		if len(rules) < 4 {
			return nil, false
		}
		for i, e := range c04Transparent {
			if rules[i].k != e.k || len(rules[i].vv) != 1 || rules[i].vv[0] != e.vv[0] {
				return nil, false
			}
		}
		rules = rules[4:]
		out = append(out, blkLine{directive + ":host", " transparent\n"})
	}
	for _, e := range rules {
		if !c04TokOK(e.k) || e.k == "" {
			return nil, false
		}
		key := directive + ":" + strings.ToLower(strings.TrimLeft(e.k, "+-"))
		for _, v := range e.vv {
			if !c04TokOK(v) {
				return nil, false
			}
			if v == "" {
				if !strings.HasPrefix(e.k, "-") {
					return nil, false
				}
				out = append(out, blkLine{key, fmt.Sprintf(" %s %s\n", directive, c04Tok(e.k))})
			} else {
				out = append(out, blkLine{key, fmt.Sprintf(" %s %s %s\n", directive, c04Tok(e.k), c04Tok(v))})
			}
		}
	}
	return out, true
}

// replacements (3-argument header_upstream, literal patterns): field=pat/to,pat/to;field=...
type c04Repl struct {
	field string
	pairs [][2]string
}

func c04EncRepls(rs []c04Repl) string {
	parts := make([]string, len(rs))
	for i, r := range rs {
		ps := make([]string, len(r.pairs))
		for j, p := range r.pairs {
			ps[j] = hx.HS(p[0]) + "/" + hx.HS(p[1])
		}
		parts[i] = hx.HS(r.field) + "=" + strings.Join(ps, ",")
	}
	return strings.Join(parts, ";")
}

func c04DecRepls(s string) ([]c04Repl, bool) {
	if s == "" {
		return nil, true
	}
	var out []c04Repl
	for _, p := range strings.Split(s, ";") {
		kv := strings.SplitN(p, "=", 2)
		if len(kv) != 2 {
			return nil, false
		}
		r := c04Repl{field: hx.UnHS(kv[0])}
		for _, pr := range strings.Split(kv[1], ",") {
			ab := strings.SplitN(pr, "/", 2)
			if len(ab) != 2 {
				return nil, false
			}
			r.pairs = append(r.pairs, [2]string{hx.UnHS(ab[0]), hx.UnHS(ab[1])})
		}
		out = append(out, r)
	}
	return out, true
}

func c04Literal(s string, replacement bool) bool {
	if s == "" {
		return false
	}
	for i := 0; i < len(s); i++ {
		c := s[i]
		if replacement && (c == '.' || c == ':') {
			continue
		}
		if !(c >= 'a' && c <= 'z' || c >= 'A' && c <= 'Z' || c >= '0' && c <= '9' || c == '-' || c == '_' || c == ' ' || c == '=' || c == ';' || c == '/' || c == ',') {
			return false
		}
	}
	return true
}

func c04ReplLines(directive string, rs []c04Repl) ([]blkLine, bool) {
	var out []blkLine
	for _, r := range rs {
		if r.field == "" || !c04TokOK(r.field) || strings.HasPrefix(r.field, "+") || strings.HasPrefix(r.field, "-") {
			return nil, false
		}
		for _, p := range r.pairs {
			// literal pattern, no `$` (template expansion) in the replacement
			if !c04Literal(p[0], false) || !c04Literal(p[1], true) {
				return nil, false
			}
			out = append(out, blkLine{directive + "-repl:" + strings.ToLower(r.field),
				fmt.Sprintf(" %s %s %s %s\n", directive, c04Tok(r.field), c04Tok(p[0]), c04Tok(p[1]))})
		}
	}
	return out, true
}

// the Authorization value the proxy makes from the credentials of a backend URL ("-" = none)
func c04Cred(u *url.URL) string {
	if u.User == nil {
		return "-"
	}
	pw, _ := u.User.Password()
	r := &http.Request{Header: http.Header{}}
	r.SetBasicAuth(u.User.Username(), pw)
	return hx.HS(r.Header.Get("Authorization"))
}

type c04Seen struct {
	req    *http.Request
	header http.Header
	body   string // nobody | same | differs
	calls  int
}

type c04Transport struct {
	seen     *c04Seen
	wantBody []byte
	respond  func(req *http.Request) *http.Response
}

func (t *c04Transport) RoundTrip(req *http.Request) (*http.Response, error) {
	t.seen.calls++
	t.seen.req = req
	t.seen.header = req.Header.Clone()
	if req.Body == nil {
		t.seen.body = "nobody"
	} else {
		b, err := io.ReadAll(req.Body)
		req.Body.Close()
		if err == nil && bytes.Equal(b, t.wantBody) {
			t.seen.body = "same"
		} else {
			t.seen.body = "differs"
		}
	}
	return t.respond(req), nil
}

// coverage tags of a layout: how the backends are named, whether the lines are in another order than the default
func c04LayoutTags(lay string, nLines int) []string {
	if lay == "" {
		return nil
	}
	direct, order, _ := blkParseLayout(lay)
	var tags []string
	switch {
	case direct == 0:
		tags = append(tags, "backends-on-upstream-lines")
	case direct > 0:
		tags = append(tags, "backends-mixed")
	}
	if order != 0 && nLines > 0 {
		tags = append(tags, "block-lines-reordered")
	}
	return tags
}

// A second proxy directive of the same site, written before (sib=b) or after (sib=a) the block of the case.  It serves
// another path and has settings of its own for everything the case's block may set: none of it may reach the case's block.
const c04Sibling = "proxy /sibling-zz http://sibling.test:9/sib?s=1 {\n without /sibling-zz\n transparent\n header_upstream X-Sibling s\n header_upstream -Accept\n" +
	" header_upstream Cookie a b\n header_downstream X-Sibling s\n header_downstream -Etag\n header_downstream Location internal sibling\n try_duration 2s\n max_conns 3\n}\n"

// c04Upstreams builds the site's proxy directives through the real setup code; the case's block is the one for "/".
func c04Upstreams(cfg, sib string, tr http.RoundTripper) ([]proxy.Upstream, func(), string) {
	switch sib {
	case "":
	case "a":
		cfg = cfg + c04Sibling
	case "b":
		cfg = c04Sibling + cfg
	default:
		return nil, nil, "bad-case:sibling"
	}
	ups, err := proxy.NewStaticUpstreams(casketfile.NewDispenser("Testfile", strings.NewReader(cfg)), "")
	stop := func() {
		for _, u := range ups {
			u.Stop()
		}
	}
	want := 1
	if sib != "" {
		want = 2
	}
	if err != nil || len(ups) != want {
		stop()
		return nil, nil, fmt.Sprintf("setup-error:%v", err)
	}
	if tr != nil {
		for _, u := range ups {
			for _, h := range proxy.VerifHosts(u) {
				h.ReverseProxy.Transport = tr
			}
		}
	}
	return ups, stop, ""
}

func c04Upstream(cfg string, tr http.RoundTripper) (proxy.Upstream, string) {
	ups, err := proxy.NewStaticUpstreams(casketfile.NewDispenser("Testfile", strings.NewReader(cfg)), "")
	if err != nil || len(ups) != 1 {
		return nil, fmt.Sprintf("setup-error:%v", err)
	}
	if tr != nil {
		for _, h := range proxy.VerifHosts(ups[0]) {
			h.ReverseProxy.Transport = tr
		}
	}
	return ups[0], ""
}

// the upstream block of a c04.req case: its backends (two copies of the target when the body has to be buffered)
// and its lines in the stream's fixed order
func c04ReqBlock(target, without string, rules []c04Entry, flags string, replLines []blkLine) ([]string, []blkLine, bool) {
	lines, ok := c04RuleLines("header_upstream", rules, flags)
	if !ok {
		return nil, nil, false
	}
	lines = append(lines, replLines...)
	if without != "" {
		lines = append(lines, blkLine{"", " without " + c04Tok(without) + "\n"})
	}
	backends := []string{target}
	if strings.Contains(flags, "buffered") {
		backends = append(backends, target)
		lines = append(lines, blkLine{"", " try_duration 1s\n"})
	}
	return backends, lines, true
}

func c04ReqEval(f []string) (string, []string) {
	if len(f) != 18 {
		return "bad-case", nil
	}
	method, path, rawpath, opaque, rawquery := hx.UnHS(f[0]), hx.UnHS(f[1]), hx.UnHS(f[2]), hx.UnHS(f[3]), hx.UnHS(f[4])
	host, remote := hx.UnHS(f[5]), hx.UnHS(f[6])
	hdrEntries := c04DecEntries(f[7])
	repls, rok := c04DecRepls(f[17])
	if !rok {
		return "bad-case:repls", nil
	}
	replLines, rok := c04ReplLines("header_upstream", repls)
	if !rok {
		return "bad-case:repls", nil
	}
	cl, err1 := strconv.ParseInt(f[8], 10, 64)
	bodyLen, err2 := strconv.Atoi(f[9])
	bodySeed, err3 := strconv.ParseUint(f[10], 10, 64)
	if err1 != nil || err2 != nil || err3 != nil {
		return "bad-case", nil
	}
	targetStr, without := hx.UnHS(f[12]), hx.UnHS(f[13])
	rules := c04DecEntries(f[14])
	flags := f[15]
	tu, err := url.Parse(targetStr)
	if err != nil || c04URLParts(tu) != f[11] || c04Cred(tu) != f[16] || !c04TokOK(targetStr) || !c04TokOK(without) {
		return "bad-case:target", nil
	}
	backends, lines, ok := c04ReqBlock(targetStr, without, rules, flags, replLines)
	if !ok {
		return "bad-case:rules", nil
	}
	cfg, ok := blkWrite("proxy /", backends, lines, blkFlag(flags, "lay"))
	if !ok {
		return "bad-case:layout", nil
	}

	body := c04Body(bodyLen, bodySeed)
	seen := &c04Seen{}
	tr := &c04Transport{seen: seen, wantBody: body, respond: func(req *http.Request) *http.Response {
		return &http.Response{StatusCode: 200, Proto: "HTTP/1.1", ProtoMajor: 1, ProtoMinor: 1, Header: http.Header{},
			Body: io.NopCloser(strings.NewReader("ok")), ContentLength: 2, Request: req}
	}}
	sib := blkFlag(flags, "sib")
	if sib != "" && strings.HasPrefix(strings.ToLower(path), "/sibling-zz") {
		return "bad-case:the request is for the sibling block", nil
	}
	ups, stop, msg := c04Upstreams(cfg, sib, tr)
	if ups == nil {
		return msg, nil
	}
	defer stop()

	req := &http.Request{Method: method, URL: &url.URL{Path: path, RawPath: rawpath, Opaque: opaque, RawQuery: rawquery},
		Proto: "HTTP/1.1", ProtoMajor: 1, ProtoMinor: 1, Header: c04ToHeader(hdrEntries), Host: host, RemoteAddr: remote,
		ContentLength: cl, RequestURI: path}
	if bodyLen == 0 && cl == 0 {
		req.Body = http.NoBody
	} else {
		req.Body = io.NopCloser(bytes.NewReader(body))
	}
	if cl < 0 {
		req.TransferEncoding = []string{"chunked"}
	}
	req = req.WithContext(context.Background())
	p := proxy.Proxy{Next: httpserver.EmptyNext, Upstreams: ups}
	rec := httptest.NewRecorder()
	status, err := p.ServeHTTP(rec, req)
	if seen.calls != 1 || seen.req == nil {
		return fmt.Sprintf("not-forwarded:%d:%d", status, seen.calls), nil
	}
	o := seen.req
	out := strings.Join([]string{hx.HS(o.Method), hx.HS(o.URL.Scheme), hx.HS(o.URL.Host), hx.HS(o.URL.Path), hx.HS(o.URL.RawPath),
		hx.HS(o.URL.Opaque), hx.HS(o.URL.RawQuery), hx.HS(o.Host), c04ShowHeader(seen.header),
		strconv.FormatInt(o.ContentLength, 10), seen.body}, "\t")

	tags := []string{}
	in := c04ToHeader(hdrEntries)
	if len(in["Connection"]) > 1 {
		tags = append(tags, "connection-multiline")
	}
	if len(in["Connection"]) > 0 {
		tags = append(tags, "connection-header")
	}
	for _, h := range []string{"Keep-Alive", "Proxy-Authorization", "Te", "Upgrade", "Transfer-Encoding", "Proxy-Connection", "Trailer"} {
		if vv := in[h]; len(vv) > 0 {
			tags = append(tags, "hop-header")
			if vv[0] == "" && len(vv) > 1 {
				tags = append(tags, "hop-first-value-empty")
			}
			break
		}
	}
	if _, ok := in["X-Forwarded-For"]; ok {
		tags = append(tags, "xff-prior")
	}
	if len(rules) > 0 {
		tags = append(tags, "upstream-rules")
	}
	if len(repls) > 0 {
		tags = append(tags, "upstream-replacements")
	}
	if tu.User != nil {
		tags = append(tags, "upstream-credentials")
	}
	if without != "" {
		tags = append(tags, "without")
	}
	if tu.Path != "" && tu.Path != "/" {
		tags = append(tags, "base-path")
	}
	if rawpath != "" || tu.RawPath != "" {
		tags = append(tags, "rawpath")
	}
	if bodyLen > 0 {
		tags = append(tags, "body")
	}
	if cl < 0 {
		tags = append(tags, "chunked")
	}
	if strings.Contains(flags, "buffered") {
		tags = append(tags, "buffered-body")
	}
	tags = append(tags, c04LayoutTags(blkFlag(flags, "lay"), len(lines))...)
	if sib != "" {
		tags = append(tags, "second-proxy-directive")
	}
	if len(tags) == 0 {
		tags = append(tags, "trivial-plain")
	}
	return out, tags
}

type c04TrailerBody struct {
	r     io.Reader
	res   *http.Response
	final http.Header
	done  bool
}

func (b *c04TrailerBody) Read(p []byte) (int, error) {
	n, err := b.r.Read(p)
	if err == io.EOF && !b.done {
		b.done = true
		for k, vv := range b.final {
			if b.res.Trailer == nil {
				b.res.Trailer = http.Header{}
			}
			b.res.Trailer[k] = vv
		}
	}
	return n, err
}
func (b *c04TrailerBody) Close() error { return nil }

func c04RespEval(f []string) (string, []string) {
	if len(f) != 10 {
		return "bad-case", nil
	}
	status, err1 := strconv.Atoi(f[0])
	bodyLen, err2 := strconv.Atoi(f[4])
	bodySeed, err3 := strconv.ParseUint(f[5], 10, 64)
	if err1 != nil || err2 != nil || err3 != nil {
		return "bad-case", nil
	}
	hdr := c04DecEntries(f[1])
	var announced []string
	if f[2] != "" {
		for _, a := range strings.Split(f[2], ",") {
			announced = append(announced, hx.UnHS(a))
		}
	}
	final := c04ToHeader(c04DecEntries(f[3]))
	pre := c04DecEntries(f[6])
	rules := c04DecEntries(f[7])
	ruleLines, ok := c04RuleLines("header_downstream", rules, "")
	if !ok {
		return "bad-case:rules", nil
	}
	repls, rok := c04DecRepls(f[9])
	if !rok {
		return "bad-case:repls", nil
	}
	replLines, rok := c04ReplLines("header_downstream", repls)
	if !rok {
		return "bad-case:repls", nil
	}
	cfg, ok := blkWrite("proxy /", []string{"http://backend.test:8080"}, append(ruleLines, replLines...), blkFlag(f[8], "lay"))
	if !ok {
		return "bad-case:layout", nil
	}
	body := c04Body(bodyLen, bodySeed)
	seen := &c04Seen{}
	tr := &c04Transport{seen: seen, respond: func(req *http.Request) *http.Response {
		res := &http.Response{StatusCode: status, Proto: "HTTP/1.1", ProtoMajor: 1, ProtoMinor: 1, Header: c04ToHeader(hdr),
			ContentLength: -1, Request: req}
		if len(announced) > 0 {
			res.Trailer = http.Header{}
			for _, a := range announced {
				res.Trailer[a] = nil
			}
		}
		res.Body = &c04TrailerBody{r: bytes.NewReader(body), res: res, final: final}
		return res
	}}
	ups, stop, msg := c04Upstreams(cfg, blkFlag(f[8], "sib"), tr)
	if ups == nil {
		return msg, nil
	}
	defer stop()
	req := httptest.NewRequest("GET", "http://front.test/x", nil)
	req.RemoteAddr = "192.0.2.7:4711"
	p := proxy.Proxy{Next: httpserver.EmptyNext, Upstreams: ups}
	rec := httptest.NewRecorder()
	for _, e := range pre {
		rec.Header()[e.k] = append([]string(nil), e.vv...)
	}
	st, err := p.ServeHTTP(rec, req)
	if err != nil || st != 0 {
		return fmt.Sprintf("proxy-error:%d", st), nil
	}
	res := rec.Result()
	got, _ := io.ReadAll(res.Body)
	bs := "same"
	if !bytes.Equal(got, body) {
		bs = "differs"
	}
	out := strings.Join([]string{strconv.Itoa(res.StatusCode), c04ShowHeader(res.Header), c04ShowHeader(res.Trailer), bs}, "\t")

	tags := []string{}
	in := c04ToHeader(hdr)
	if len(in["Connection"]) > 1 {
		tags = append(tags, "connection-multiline")
	}
	if len(in["Connection"]) > 0 {
		tags = append(tags, "connection-header")
	}
	for _, h := range []string{"Keep-Alive", "Proxy-Authenticate", "Te", "Upgrade", "Transfer-Encoding", "Alt-Svc", "Trailer"} {
		if len(in[h]) > 0 {
			tags = append(tags, "hop-header")
			break
		}
	}
	if len(rules) > 0 {
		tags = append(tags, "downstream-rules")
	}
	if len(repls) > 0 {
		tags = append(tags, "downstream-replacements")
		if len(rules) == 0 {
			tags = append(tags, "only-downstream-replacements")
		}
	}
	tags = append(tags, c04LayoutTags(blkFlag(f[8], "lay"), len(ruleLines)+len(replLines))...)
	if blkFlag(f[8], "sib") != "" {
		tags = append(tags, "second-proxy-directive")
	}
	if len(pre) > 0 {
		tags = append(tags, "pre-existing-headers")
	}
	if len(announced) > 0 {
		tags = append(tags, "announced-trailers")
	}
	if len(final) > len(announced) {
		tags = append(tags, "unannounced-trailers")
	}
	if bodyLen > 0 {
		tags = append(tags, "body")
	}
	if len(tags) == 0 {
		tags = append(tags, "trivial-plain")
	}
	return out, tags
}

// ---------------- generators ----------------

var c04E2ENames = []string{"Accept", "Accept-Encoding", "Authorization", "Cookie", "Content-Type", "User-Agent", "X-Custom", "X-Real-Ip",
	"X-Forwarded-Proto", "Cache-Control", "X-A", "X-B", "If-None-Match", "Range", "Content-Language"}
var c04HopNames = []string{"Alt-Svc", "Alternate-Protocol", "Connection", "Keep-Alive", "Proxy-Authenticate", "Proxy-Authorization",
	"Proxy-Connection", "Te", "Trailer", "Transfer-Encoding", "Upgrade"}
var c04RespNames = []string{"Content-Type", "Content-Disposition", "Accept-Ranges", "Set-Cookie", "Cache-Control", "Expires", "Server", "Etag",
	"Location", "Vary", "X-A", "X-B", "X-Powered-By", "Content-Language", "Www-Authenticate", "Date"}
var c04Values = []string{"a", "1", "x, y", "text/html; charset=utf-8", "Basic dXNlcjpwYXNz", "keep-alive", "close", "websocket", "timeout=5, max=100",
	"trailers", "gzip", "v\xc3\xa9", "\xff\xfe", " padded ", "k=v; Path=/", "*/*"}

func c04RandValue(r *hx.Rng) string {
	if r.Chance(1, 8) {
		return ""
	}
	if r.Chance(1, 6) {
		b := make([]byte, 1+r.Intn(6))
		for i := range b {
			b[i] = byte(0x20 + r.Intn(0x5f))
		}
		return string(b)
	}
	return hx.Pick(r, c04Values)
}

func c04RandValues(r *hx.Rng) []string {
	n := 1
	if r.Chance(1, 3) {
		n = 2 + r.Intn(2)
	}
	vv := make([]string, n)
	for i := range vv {
		vv[i] = c04RandValue(r)
	}
	return vv
}

func c04CaseMix(r *hx.Rng, s string) string {
	switch r.Intn(4) {
	case 0:
		return strings.ToLower(s)
	case 1:
		return strings.ToUpper(s)
	}
	return s
}

// a Connection header: 0..3 lines, each a comma list of names (some present in the map, some not), odd spacing, empty items
func c04RandConnection(r *hx.Rng, names []string) []string {
	n := 1
	if r.Chance(1, 3) {
		n = 2 + r.Intn(2)
	}
	lines := make([]string, n)
	for i := range lines {
		if r.Chance(1, 6) {
			lines[i] = ""
			continue
		}
		k := r.Intn(4)
		items := make([]string, k)
		for j := range items {
			switch r.Intn(6) {
			case 0:
				items[j] = ""
			case 1:
				items[j] = hx.Pick(r, []string{"close", "keep-alive", "Upgrade", "TE"})
			default:
				items[j] = c04CaseMix(r, hx.Pick(r, names))
			}
			switch r.Intn(5) {
			case 0:
				items[j] = " " + items[j]
			case 1:
				items[j] = items[j] + " \t"
			}
		}
		lines[i] = strings.Join(items, ",")
	}
	return lines
}

func c04RandHeader(r *hx.Rng, e2e []string) []c04Entry {
	m := map[string][]string{}
	n := r.Intn(6)
	for i := 0; i < n; i++ {
		m[hx.Pick(r, e2e)] = c04RandValues(r)
	}
	nh := 0
	if r.Chance(1, 2) {
		nh = 1 + r.Intn(3)
	}
	for i := 0; i < nh; i++ {
		h := hx.Pick(r, c04HopNames)
		if h != "Connection" {
			m[h] = c04RandValues(r)
		}
	}
	if r.Chance(1, 2) {
		var names []string
		for k := range m {
			names = append(names, k)
		}
		sort.Strings(names)
		names = append(names, "X-Absent", "X-Forwarded-For")
		m["Connection"] = c04RandConnection(r, names)
	}
	var ks []string
	for k := range m {
		ks = append(ks, k)
	}
	sort.Strings(ks)
	es := make([]c04Entry, len(ks))
	for i, k := range ks {
		es[i] = c04Entry{k, m[k]}
	}
	return es
}

var c04RuleValues = []string{"v", "1", "two words", "text/plain", "a=b; c", "x,y"}

// non-interfering rule set: targets pairwise distinct (after canonicalisation)
func c04RandRules(r *hx.Rng, names []string) []c04Entry {
	n := r.Intn(4)
	used := map[string]bool{}
	var es []c04Entry
	for i := 0; i < n; i++ {
		t := hx.Pick(r, names)
		c := textproto.CanonicalMIMEHeaderKey(t)
		if used[c] {
			continue
		}
		used[c] = true
		t = c04CaseMix(r, t)
		switch r.Intn(3) {
		case 0:
			k := 1 + r.Intn(2)
			vv := make([]string, k)
			for j := range vv {
				vv[j] = hx.Pick(r, c04RuleValues)
			}
			es = append(es, c04Entry{"+" + t, vv})
		case 1:
			if r.Bool() {
				es = append(es, c04Entry{"-" + t, []string{""}})
			} else {
				es = append(es, c04Entry{"-" + t, []string{"ignored"}})
			}
		default:
			k := 1 + r.Intn(2)
			vv := make([]string, k)
			for j := range vv {
				vv[j] = hx.Pick(r, c04RuleValues)
			}
			es = append(es, c04Entry{t, vv})
		}
	}
	return es
}

// request URL as net/http parses a request target
func c04ParseTarget(raw string) (path, rawpath, query string, ok bool) {
	u, err := url.ParseRequestURI(raw)
	if err != nil || u.Opaque != "" || u.Host != "" {
		return "", "", "", false
	}
	return u.Path, u.RawPath, u.RawQuery, true
}

var c04Bases = []string{"", "/", "/base", "/base/", "/a/b", "/b%2Fx", "/b%2Fx/", "/sp%20ace"}
var c04ReqPaths = []string{"/", "/a", "/api", "/api/", "/api/x", "/apix", "//x", "/a%2Fb", "/api/a%2Fb", "/api%2Fx", "/x y", "/%61pi/z", "/api/%e2%82%ac", "/a/../b", "/api//"}
var c04Withouts = []string{"", "/", "/api", "/api/", "api", "/a%2Fb", "/a/b", "/x y"}
var c04Queries = []string{"", "a=1", "a=1&b=2", "x=%20y&z", "&", "a=b=c"}
var c04TQueries = []string{"", "t=1", "t=1&u=%2F"}
var c04Remotes = []string{"192.0.2.1:4000", "[2001:db8::1]:4000", "10.1.2.3:1", "bad", "", "1.2.3.4", "[::1]", "a:b:c", "[::1]:", ":80", "[x]y:1", "h]:1", "[::1]:2:3"}
var c04Methods = []string{"GET", "POST", "PUT", "DELETE", "PATCH", "HEAD", "OPTIONS", "PROPFIND", "get", "M-SEARCH"}

func c04EmitReq(g *hx.Gen, method, reqTarget, host, remote string, hdr []c04Entry, cl int64, bodyLen int, seed uint64, target, without string, rules []c04Entry, flags string, repls ...c04Repl) {
	p, rp, q, ok := c04ParseTarget(reqTarget)
	if !ok {
		return
	}
	c04EmitReqRaw(g, method, p, rp, "", q, host, remote, hdr, cl, bodyLen, seed, target, without, rules, flags, repls...)
}

func c04EmitReqRaw(g *hx.Gen, method, p, rp, opaque, q, host, remote string, hdr []c04Entry, cl int64, bodyLen int, seed uint64, target, without string, rules []c04Entry, flags string, repls ...c04Repl) {
	tu, err := url.Parse(target)
	if err != nil {
		return
	}
	g.Case(hx.HS(method), hx.HS(p), hx.HS(rp), hx.HS(opaque), hx.HS(q), hx.HS(host), hx.HS(remote), c04EncEntries(hdr),
		strconv.FormatInt(cl, 10), strconv.Itoa(bodyLen), strconv.FormatUint(seed, 10), c04URLParts(tu), hx.HS(target), hx.HS(without),
		c04EncEntries(rules), flags, c04Cred(tu), c04EncRepls(repls))
}

// c04ReqLayouts: the layouts of the case's upstream block for the given namings (every distinct order of a block of
// up to four lines, `sample` orders beyond), leaving out the default spelling
func c04ReqLayouts(r *hx.Rng, target, without string, rules []c04Entry, flags string, repls []c04Repl, namings []string, sample int) []string {
	replLines, ok := c04ReplLines("header_upstream", repls)
	if !ok {
		return nil
	}
	backends, lines, ok := c04ReqBlock(target, without, rules, flags, replLines)
	if !ok {
		return nil
	}
	return blkLayouts(r, backends, lines, namings, sample)
}

func c04RandLayout(r *hx.Rng, nBackends int) string { return blkRandLayout(r, nBackends) }

var c04ReplPairs = [][2]string{{"a", "b"}, {"e", "ee"}, {"x", "x-p"}, {"text", "TEXT"}, {"keep", "k"}, {"1", "one two"}, {"/", "//"}, {"b", "a"}}

// replacement entries on pairwise distinct fields
func c04RandRepls(r *hx.Rng, names []string) []c04Repl {
	n := r.Intn(3)
	used := map[string]bool{}
	var rs []c04Repl
	for i := 0; i < n; i++ {
		t := textproto.CanonicalMIMEHeaderKey(hx.Pick(r, names))
		if used[t] {
			continue
		}
		used[t] = true
		k := 1 + r.Intn(2)
		ps := make([][2]string, k)
		for j := range ps {
			ps[j] = hx.Pick(r, c04ReplPairs)
		}
		rs = append(rs, c04Repl{c04CaseMix(r, t), ps})
	}
	return rs
}

func c04ReqGen(g *hx.Gen) {
	r := g.Rng
	plain := []c04Entry{{"Accept", []string{"*/*"}}}
	// 1. exhaustive: base x request path x without x queries
	for _, base := range c04Bases {
		for _, rp := range c04ReqPaths {
			for _, wo := range c04Withouts {
				for qi, q := range c04Queries {
					tq := c04TQueries[qi%len(c04TQueries)]
					if !g.Thorough() && qi > 1 && (len(base)+len(rp)+len(wo))%3 != 0 {
						continue
					}
					target := "http://backend.test:8080" + base
					if tq != "" {
						target += "?" + tq
					}
					rt := rp
					if q != "" {
						rt += "?" + q
					}
					rt = strings.ReplaceAll(rt, " ", "%20")
					c04EmitReq(g, "GET", rt, "front.test", "192.0.2.1:4000", plain, 0, 0, 0, target, wo, nil, "")
					// the same block written with an `upstream` line, before and after `without`
					if qi <= 1 {
						for _, lay := range c04ReqLayouts(r, target, wo, nil, "", nil, []string{"u"}, 2) {
							c04EmitReq(g, "GET", rt, "front.test", "192.0.2.1:4000", plain, 0, 0, 0, target, wo, nil, "lay="+lay)
						}
					}
					// a second proxy directive in the site, before / after this one
					if qi == 0 {
						c04EmitReq(g, "GET", rt, "front.test", "192.0.2.1:4000", plain, 0, 0, 0, target, wo, nil, "sib="+[]string{"a", "b"}[(len(base)+len(rp)+len(wo))%2])
					}
				}
			}
		}
	}
	// 2. exhaustive: every hop-by-hop name x value shapes x Connection shapes
	shapes := [][]string{{"v"}, {"", "v"}, {"v", ""}, {""}, {"a", "b"}}
	conns := [][]string{nil, {"close"}, {"X-Custom"}, {"x-custom, X-B"}, {"close", "X-Custom"}, {"", "X-Custom"}, {" , ", "X-B ,X-Custom"}, {"Keep-Alive"}, {""}}
	for _, h := range c04HopNames {
		for _, sh := range shapes {
			for _, cn := range conns {
				var es []c04Entry
				if h == "Connection" {
					if cn == nil {
						continue
					}
					es = []c04Entry{{"Connection", cn}}
				} else {
					es = []c04Entry{{h, sh}}
					if cn != nil {
						es = append(es, c04Entry{"Connection", cn})
					}
				}
				es = append(es, c04Entry{"X-B", []string{"b1", "b2"}}, c04Entry{"X-Custom", []string{"c"}}, c04Entry{"Authorization", []string{"Basic dXNlcjpwYXNz"}})
				c04EmitReq(g, "GET", "/x", "front.test", "192.0.2.1:4000", es, 0, 0, 0, "http://backend.test:8080", "", nil, "")
			}
		}
	}
	// 3. X-Forwarded-For x remote address shapes
	xffs := [][]string{nil, {"203.0.113.9"}, {"203.0.113.9", "198.51.100.2"}, {""}, {"a, b", "c"}}
	for _, ra := range c04Remotes {
		for _, x := range xffs {
			for _, cn := range [][]string{nil, {"X-Forwarded-For"}} {
				es := []c04Entry{{"Accept", []string{"*/*"}}}
				if x != nil {
					es = append(es, c04Entry{"X-Forwarded-For", x})
				}
				if cn != nil {
					es = append(es, c04Entry{"Connection", cn})
				}
				c04EmitReq(g, "GET", "/x", "front.test", ra, es, 0, 0, 0, "http://backend.test:8080", "", nil, "")
			}
		}
	}
	// 4. bodies: sizes around the copy buffer, Content-Length and chunked, buffered (retry-capable) and streaming
	sizes := []int{0, 1, 2, 1000, 32*1024 - 1, 32 * 1024, 32*1024 + 1, 64 * 1024, 64*1024 + 1}
	if g.Thorough() {
		sizes = append(sizes, 200*1024, 1<<20)
	}
	for _, n := range sizes {
		for _, chunked := range []bool{false, true} {
			for _, fl := range []string{"", "buffered"} {
				for _, m := range []string{"POST", "PUT", "GET"} {
					cl := int64(n)
					if chunked {
						cl = -1
					}
					c04EmitReq(g, m, "/upload", "front.test", "192.0.2.1:4000", plain, cl, n, uint64(n)+7, "http://backend.test:8080/base", "", nil, fl)
					if m == "POST" && n <= 32*1024 {
						for _, lay := range c04ReqLayouts(r, "http://backend.test:8080/base", "/up", nil, fl, nil, []string{"u", "m1"}, 2) {
							c04EmitReq(g, m, "/upload", "front.test", "192.0.2.1:4000", plain, cl, n, uint64(n)+7, "http://backend.test:8080/base", "/up", nil, blkWithFlag(fl, "lay", lay))
						}
					}
				}
			}
		}
	}
	// 5. transparent and rule sets against fixed headers
	tr := append([]c04Entry{}, c04Transparent...)
	for _, host := range []string{"front.test", "front.test:8443", "[::1]:2015", ""} {
		for _, ra := range []string{"192.0.2.1:4000", "[2001:db8::1]:4000", "weird"} {
			c04EmitReq(g, "GET", "/x", host, ra, plain, 0, 0, 0, "http://backend.test:8080", "", tr, "transparent")
			trTag := append(append([]c04Entry{}, tr...), c04Entry{"+X-Tag", []string{"t"}})
			c04EmitReq(g, "GET", "/x", host, ra, plain, 0, 0, 0, "http://backend.test:8080", "", trTag, "transparent")
			if host == "front.test:8443" {
				for _, lay := range c04ReqLayouts(r, "http://backend.test:8080", "/x", trTag, "transparent", nil, []string{"d", "u"}, 2) {
					c04EmitReq(g, "GET", "/x/y", host, ra, plain, 0, 0, 0, "http://backend.test:8080", "/x", trTag, "transparent,lay="+lay)
				}
			}
		}
	}
	// 5b. upstream credentials x what the client sent as Authorization; replacements x value shapes
	for _, cred := range []string{"", "user:pw@", "u:@", "only@"} {
		for _, auth := range [][]string{nil, {"Bearer x"}, {""}, {"", "Bearer x"}, {"Bearer x", "Bearer y"}} {
			es := []c04Entry{{"Accept", []string{"*/*"}}}
			if auth != nil {
				es = append(es, c04Entry{"Authorization", auth})
			}
			c04EmitReq(g, "GET", "/x", "front.test", "192.0.2.1:4000", es, 0, 0, 0, "http://"+cred+"backend.test:8080", "", nil, "")
			c04EmitReq(g, "GET", "/x", "front.test", "192.0.2.1:4000", es, 0, 0, 0, "http://"+cred+"backend.test:8080", "", []c04Entry{{"-Authorization", []string{""}}}, "")
			for _, lay := range c04ReqLayouts(r, "http://"+cred+"backend.test:8080/b", "/x", []c04Entry{{"-Authorization", []string{""}}}, "", nil, []string{"u"}, 2) {
				c04EmitReq(g, "GET", "/x/y", "front.test", "192.0.2.1:4000", es, 0, 0, 0, "http://"+cred+"backend.test:8080/b", "/x", []c04Entry{{"-Authorization", []string{""}}}, "lay="+lay)
			}
		}
	}
	for _, vals := range [][]string{nil, {"edge"}, {"", "edge"}, {"edge", "second"}, {"eee"}, {"none"}} {
		for _, ps := range [][][2]string{{{"e", "ee"}}, {{"edge", "edge-p"}}, {{"e", "x"}, {"x", "e"}}, {{"d", "dd"}, {"d", "D"}}} {
			for _, rule := range [][]c04Entry{nil, {{"+X-Via", []string{"edge"}}}, {{"X-Via", []string{"dede"}}}} {
				es := []c04Entry{{"Accept", []string{"*/*"}}}
				if vals != nil {
					es = append(es, c04Entry{"X-Via", vals})
				}
				c04EmitReq(g, "GET", "/x", "front.test", "192.0.2.1:4000", es, 0, 0, 0, "http://backend.test:8080", "", rule, "", c04Repl{"x-via", ps})
				if len(vals) == 2 {
					// rule, replacements (which keep their order), without, upstream line: every order up to four lines
					for _, lay := range c04ReqLayouts(r, "http://backend.test:8080", "/x", rule, "", []c04Repl{{"x-via", ps}}, []string{"d", "u"}, 3) {
						c04EmitReq(g, "GET", "/x/y", "front.test", "192.0.2.1:4000", es, 0, 0, 0, "http://backend.test:8080", "/x", rule, "lay="+lay, c04Repl{"x-via", ps})
					}
				}
			}
		}
	}
	// 6. seeded random: everything at once
	N := 2500
	if g.Thorough() {
		N = 40000
	}
	names := append(append([]string{}, c04E2ENames...), "X-Forwarded-For", "Host", "Upgrade", "Connection", "Te")
	for i := 0; i < N; i++ {
		base := hx.Pick(r, c04Bases)
		target := hx.Pick(r, []string{"http", "https"}) + "://backend.test:8080" + base
		if r.Chance(1, 3) {
			target += "?" + hx.Pick(r, c04TQueries[1:])
		}
		rt := hx.Pick(r, c04ReqPaths)
		if r.Chance(1, 3) {
			rt += "/" + strings.Repeat("s", r.Intn(3)) + hx.Pick(r, []string{"", "%2F", "%41", "é", "/"})
		}
		if r.Chance(1, 2) {
			rt += "?" + hx.Pick(r, c04Queries)
		}
		rt = strings.ReplaceAll(rt, " ", "%20")
		hdr := c04RandHeader(r, c04E2ENames)
		if r.Chance(1, 3) {
			hdr = append(hdr, c04Entry{"X-Forwarded-For", c04RandValues(r)})
		}
		n := 0
		cl := int64(0)
		if r.Chance(1, 3) {
			n = r.Intn(70000)
			cl = int64(n)
			if r.Chance(1, 3) {
				cl = -1
			}
		}
		fl := ""
		if r.Chance(1, 4) {
			fl = "buffered"
		}
		if r.Chance(1, 4) {
			target = strings.Replace(target, "://", "://"+hx.Pick(r, []string{"user:pw@", "u:@", "only@", "a%40b:p%3Aw@"}), 1)
		}
		var repls []c04Repl
		if r.Chance(1, 3) {
			repls = c04RandRepls(r, names)
		}
		if r.Chance(1, 2) {
			nb := 1
			if fl == "buffered" {
				nb = 2
			}
			fl = blkWithFlag(fl, "lay", c04RandLayout(r, nb))
		}
		if r.Chance(1, 4) {
			fl = blkWithFlag(fl, "sib", hx.Pick(r, []string{"a", "b"}))
		}
		c04EmitReq(g, hx.Pick(r, c04Methods), rt, hx.Pick(r, []string{"front.test", "front.test:8080", "[::1]:2015"}), hx.Pick(r, c04Remotes[:4]),
			hdr, cl, n, r.U64()%1000, target, hx.Pick(r, c04Withouts), c04RandRules(r, names), fl, repls...)
	}
	// 7. malformed / directly constructed requests: arbitrary path, raw path and opaque bytes, odd keys
	M := 300
	if g.Thorough() {
		M = 3000
	}
	for i := 0; i < M; i++ {
		rb := func(n int) string {
			b := make([]byte, r.Intn(n))
			for j := range b {
				const alpha = "/ab%2F.é \x00\xff"
				b[j] = alpha[r.Intn(len(alpha))]
			}
			return string(b)
		}
		p := "/" + rb(8)
		rp := ""
		if r.Bool() {
			rp = "/" + rb(8)
		}
		op := ""
		if r.Chance(1, 4) {
			op = rb(6)
		}
		hdr := c04RandHeader(r, c04E2ENames)
		fl := ""
		if r.Chance(1, 2) {
			fl = "lay=" + c04RandLayout(r, 1)
		}
		c04EmitReqRaw(g, hx.Pick(r, c04Methods), p, rp, op, rb(5), "front.test", hx.Pick(r, c04Remotes), hdr, 0, 0, 0,
			"http://backend.test:8080"+hx.Pick(r, c04Bases), hx.Pick(r, c04Withouts), nil, fl)
	}
}

func c04RespGen(g *hx.Gen) {
	r := g.Rng
	respFlags := "" // the layout of the block of the cases emitted next
	emit := func(status int, hdr []c04Entry, announced []string, final []c04Entry, bodyLen int, seed uint64, pre, rules []c04Entry, repls ...c04Repl) {
		enc := make([]string, len(announced))
		for i, a := range announced {
			enc[i] = hx.HS(a)
		}
		g.Case(strconv.Itoa(status), c04EncEntries(hdr), strings.Join(enc, ","), c04EncEntries(final), strconv.Itoa(bodyLen),
			strconv.FormatUint(seed, 10), c04EncEntries(pre), c04EncEntries(rules), respFlags, c04EncRepls(repls))
	}
	statuses := []int{200, 201, 204, 206, 301, 302, 304, 400, 401, 403, 404, 418, 429, 500, 502, 503, 599}
	base := []c04Entry{{"Content-Type", []string{"text/plain"}}, {"X-B", []string{"b1", "b2"}}, {"Set-Cookie", []string{"a=1", "b=2"}}}
	// 1. every status
	for _, st := range statuses {
		emit(st, base, nil, nil, 10, 1, nil, nil)
	}
	// 2. every hop-by-hop name x value shapes x Connection shapes
	shapes := [][]string{{"v"}, {"", "v"}, {""}, {"a", "b"}}
	conns := [][]string{nil, {"close"}, {"X-Custom"}, {"x-custom, X-B"}, {"close", "X-Custom"}, {"", "X-Custom"}, {" , ", "X-B ,X-Custom"}}
	for _, h := range c04HopNames {
		for _, sh := range shapes {
			for _, cn := range conns {
				var es []c04Entry
				if h == "Connection" {
					if cn == nil {
						continue
					}
					es = []c04Entry{{"Connection", cn}}
				} else {
					es = []c04Entry{{h, sh}}
					if cn != nil {
						es = append(es, c04Entry{"Connection", cn})
					}
				}
				if h == "Upgrade" {
					es[0].vv = []string{"h2c"}
				}
				es = append(es, c04Entry{"X-B", []string{"b1", "b2"}}, c04Entry{"X-Custom", []string{"c"}}, c04Entry{"Etag", []string{`"x"`}})
				emit(200, es, nil, nil, 3, 2, nil, nil)
			}
		}
	}
	// 3. pre-existing ResponseWriter headers x backend headers (skip list, Server, others)
	for _, k := range append(append([]string{}, c04RespNames...), "X-Only-Pre") {
		for _, backendHas := range []bool{false, true} {
			var es []c04Entry
			if backendHas && k != "X-Only-Pre" {
				es = []c04Entry{{k, []string{"from-backend", "second"}}}
			}
			emit(200, es, nil, nil, 5, 3, []c04Entry{{k, []string{"from-middleware"}}}, nil)
		}
	}
	// 3b. header_downstream replacements: blocks with only replacements, only plain rules, both, none;
	//     x value shapes of the rewritten header x pre-existing ResponseWriter header of that name
	locs := [][]string{nil, {"http://internal.local/login"}, {"", "http://internal.local/x"}, {"http://internal.local/a", "http://internal.local/b"}, {"/relative"}}
	replSets := [][]c04Repl{
		nil,
		{{"Location", [][2]string{{"internal", "example.com:8443"}}}},
		{{"location", [][2]string{{"internal", "public"}, {"http", "https"}}}, {"Set-Cookie", [][2]string{{"a", "b"}}}},
		{{"X-B", [][2]string{{"b", "bb"}}}},
	}
	plainSets := [][]c04Entry{nil, {{"+X-Extra", []string{"v"}}}, {{"Location", []string{"http://internal.local/set"}}}, {{"-Etag", []string{""}}}}
	for _, loc := range locs {
		for _, rs := range replSets {
			for _, ps := range plainSets {
				for _, pre := range [][]c04Entry{nil, {{"Location", []string{"http://internal.local/pre"}}}} {
					es := []c04Entry{{"X-B", []string{"b1", "b2"}}, {"Set-Cookie", []string{"a=1", "b=2"}}, {"Etag", []string{`"x"`}}}
					if loc != nil {
						es = append(es, c04Entry{"Location", loc})
					}
					emit(302, es, nil, nil, 3, 4, pre, ps, rs...)
					// the same block with its lines in every order (up to four lines; sampled beyond), the backend on the
					// directive line or on an `upstream` line
					if pre == nil && len(loc) == 1 {
						ruleLines, ok1 := c04RuleLines("header_downstream", ps, "")
						replLines, ok2 := c04ReplLines("header_downstream", rs)
						if ok1 && ok2 {
							for _, lay := range blkLayouts(r, []string{"http://backend.test:8080"}, append(ruleLines, replLines...), []string{"d", "u"}, 3) {
								respFlags = "lay=" + lay
								emit(302, es, nil, nil, 3, 4, pre, ps, rs...)
							}
							respFlags = ""
						}
					}
				}
			}
		}
	}
	// 4. trailers: announced, unannounced, both, announced but never sent; body sizes around the copy buffer
	sizes := []int{0, 1, 32*1024 - 1, 32 * 1024, 32*1024 + 1, 64*1024 + 1}
	if g.Thorough() {
		sizes = append(sizes, 200*1024, 1<<20)
	}
	for _, n := range sizes {
		emit(200, base, nil, nil, n, uint64(n), nil, nil)
		emit(200, base, []string{"X-Checksum"}, []c04Entry{{"X-Checksum", []string{"abc"}}}, n, uint64(n), nil, nil)
		emit(200, base, []string{"X-Checksum", "Grpc-Status"}, []c04Entry{{"X-Checksum", []string{"abc", "def"}}, {"Grpc-Status", []string{"0"}}}, n, uint64(n), nil, nil)
		emit(200, base, nil, []c04Entry{{"Grpc-Status", []string{"0"}}, {"Grpc-Message", []string{"fine"}}}, n, uint64(n), nil, nil)
		emit(200, base, []string{"X-Checksum"}, []c04Entry{{"X-Checksum", []string{"abc"}}, {"Grpc-Status", []string{"7"}}}, n, uint64(n), nil, nil)
		emit(200, base, []string{"X-Checksum", "X-Never"}, []c04Entry{{"X-Checksum", []string{"abc"}}, {"X-Never", nil}}, n, uint64(n), nil, nil)
	}
	// 5. seeded random
	N := 2500
	if g.Thorough() {
		N = 40000
	}
	tnames := []string{"X-Checksum", "Grpc-Status", "Grpc-Message", "X-T1", "X-T2", "Server-Timing"}
	for i := 0; i < N; i++ {
		hdr := c04RandHeader(r, c04RespNames)
		// a websocket handshake answer is outside the model
		for j := range hdr {
			if hdr[j].k == "Upgrade" {
				hdr[j].vv = []string{"h2c"}
			}
		}
		var pre []c04Entry
		if r.Chance(1, 3) {
			used := map[string]bool{}
			for j := 0; j < 1+r.Intn(3); j++ {
				k := hx.Pick(r, c04RespNames)
				if !used[k] {
					used[k] = true
					pre = append(pre, c04Entry{k, []string{"pre-" + strconv.Itoa(j)}})
				}
			}
		}
		var announced []string
		var final []c04Entry
		if r.Chance(1, 2) {
			perm := append([]string{}, tnames...)
			for j := len(perm) - 1; j > 0; j-- {
				k := r.Intn(j + 1)
				perm[j], perm[k] = perm[k], perm[j]
			}
			na := r.Intn(3)
			nu := r.Intn(3)
			for j := 0; j < na; j++ {
				announced = append(announced, perm[j])
				if r.Chance(1, 6) {
					final = append(final, c04Entry{perm[j], nil})
				} else {
					final = append(final, c04Entry{perm[j], c04RandValues(r)})
				}
			}
			for j := na; j < na+nu; j++ {
				final = append(final, c04Entry{perm[j], c04RandValues(r)})
			}
		}
		n := 0
		if r.Chance(2, 3) {
			n = r.Intn(70000)
		}
		var repls []c04Repl
		if r.Chance(1, 3) {
			repls = c04RandRepls(r, c04RespNames)
		}
		var rules []c04Entry
		if !r.Chance(1, 4) {
			rules = c04RandRules(r, append(append([]string{}, c04RespNames...), "Connection", "Keep-Alive"))
		}
		respFlags = ""
		if r.Chance(1, 3) {
			respFlags = "lay=" + c04RandLayout(r, 1)
		}
		if r.Chance(1, 4) {
			respFlags = blkWithFlag(respFlags, "sib", hx.Pick(r, []string{"a", "b"}))
		}
		emit(hx.Pick(r, statuses), hdr, announced, final, n, r.U64()%1000, pre, rules, repls...)
	}
}

func init() {
	hx.Register(&hx.Stream{ID: "C04", Name: "c04.req", Gen: c04ReqGen, Eval: c04ReqEval})
	hx.Register(&hx.Stream{ID: "C04", Name: "c04.resp", Gen: c04RespGen, Eval: c04RespEval})
	hx.Register(&hx.Stream{ID: "C04", Name: "c04.canon",
		Gen: func(g *hx.Gen) {
			for _, s := range []string{"", "a", "-", "a-b", "A-B", "x-forwarded-for", "X-FORWARDED-FOR", "+x-foo", "-x-foo", "a b", "é", "a:b", "te", "WWW-authenticate", "x_y-z", "1a-2b", "a--b", "-a"} {
				g.Case(hx.HS(s))
			}
			for i := 0; i < 600; i++ {
				b := make([]byte, g.Rng.Intn(12))
				for j := range b {
					const alpha = "abcXYZ-_+ 09:\xc3!~"
					b[j] = alpha[g.Rng.Intn(len(alpha))]
				}
				g.Case(hx.H(b))
			}
		},
		Eval: func(f []string) (string, []string) {
			return hx.HS(textproto.CanonicalMIMEHeaderKey(hx.UnHS(f[0]))), []string{fmt.Sprintf("len=%d", len(f[0])/2)}
		}})
	hx.Register(&hx.Stream{ID: "C04", Name: "c04.shp",
		Gen: func(g *hx.Gen) {
			for _, s := range c04Remotes {
				g.Case(hx.HS(s))
			}
			for i := 0; i < 1500; i++ {
				b := make([]byte, g.Rng.Intn(9))
				for j := range b {
					const alpha = "[]::a1.%"
					b[j] = alpha[g.Rng.Intn(len(alpha))]
				}
				g.Case(hx.H(b))
			}
		},
		Eval: func(f []string) (string, []string) {
			h, p, err := net.SplitHostPort(hx.UnHS(f[0]))
			if err != nil {
				return "-", []string{"error"}
			}
			return hx.HS(h) + "," + hx.HS(p), []string{"ok"}
		}})
}
