//go:build c06

package streams

import (
	"context"
	"crypto/tls"
	"fmt"
	"strconv"
	"strings"
	"sync"

	"github.com/caddyserver/certmagic"
	"github.com/klauspost/cpuid"
	"github.com/tmpim/casket/caskettls"
	"go.uber.org/zap"

	"verifharness/hx"
)

// c06.handshake  aesni  cfgs  snihex  cmin  cmax  localaddr
//   out = fail | ok TAB version TAB sanhex TAB requested(0|1)
//
// The real code path: per site an in-memory self-signed certificate (caskettls.newSelfSignedCertificate)
// in one certmagic cache, caskettls.SetDefaultTLSParams + MakeTLSConfig, then a REAL crypto/tls
// handshake over net.Pipe: tls.Server(listener config) against a tls.Client that offers
// versions cmin..cmax under server name sni and presents a certificate when asked.
// Runtime part of C06: explored, not proved.

var (
	c06CertMu    sync.Mutex
	c06Certs     = map[string]tls.Certificate{}
	c06ClientCrt *tls.Certificate
)

func c06CertFor(name string) (tls.Certificate, error) {
	c06CertMu.Lock()
	defer c06CertMu.Unlock()
	if c, ok := c06Certs[name]; ok {
		return c, nil
	}
	c, err := caskettls.VerifSelfSigned([]string{name})
	if err == nil {
		c06Certs[name] = c
	}
	return c, err
}

func c06HandshakeEval(f []string) (string, []string) {
	if len(f) != 6 {
		return "bad-case", nil
	}
	if (f[0] == "1") != cpuid.CPU.AesNi() {
		return "bad-case:aesni field does not describe this CPU", nil
	}
	cfgs := c06ParseCfgs(f[1])
	sni := hx.UnHS(f[2])
	cmin, _ := strconv.Atoi(f[3])
	cmax, _ := strconv.Atoi(f[4])
	if f[5] != hx.HS("pipe") {
		return "bad-case:local address of net.Pipe is \"pipe\"", nil
	}

	var magic *certmagic.Config
	cache := certmagic.NewCache(certmagic.CacheOptions{
		GetConfigForCert: func(certmagic.Certificate) (*certmagic.Config, error) { return magic, nil },
		Logger:           zap.NewNop(),
	})
	defer cache.Stop()
	magic = certmagic.New(cache, certmagic.Config{Logger: zap.NewNop()})

	configs := make([]*caskettls.Config, len(cfgs))
	for i, c := range cfgs {
		configs[i] = c06Real(c)
		configs[i].Manager = magic
		if c.enabled {
			caskettls.SetDefaultTLSParams(configs[i])
		}
		if c.enabled && c.host != "" { // a host-less site (":443") has no name to certify
			crt, err := c06CertFor(c.host)
			if err != nil {
				return "setup-error:selfsigned:" + err.Error(), nil
			}
			if _, err := magic.CacheUnmanagedTLSCertificate(context.Background(), crt, nil); err != nil {
				return "setup-error:cache:" + err.Error(), nil
			}
		}
	}
	tags := []string{fmt.Sprintf("cfgs=%d", len(cfgs)), fmt.Sprintf("offer=%x-%x", cmin, cmax)}
	tc, err := caskettls.MakeTLSConfig(configs)
	if err != nil || tc == nil {
		return "fail", append(tags, "trivial-no-tls-listener")
	}
	cconn, sconn := c06MemPipe()
	defer cconn.Close()
	defer sconn.Close()
	server := tls.Server(sconn, tc)
	serr := make(chan error, 1)
	go func() {
		err := server.Handshake()
		if err != nil {
			sconn.Close()
		}
		serr <- err
	}()
	requested := false
	client := tls.Client(cconn, &tls.Config{
		ServerName: sni, InsecureSkipVerify: true, MinVersion: uint16(cmin), MaxVersion: uint16(cmax),
		GetClientCertificate: func(*tls.CertificateRequestInfo) (*tls.Certificate, error) {
			requested = true
			return c06ClientCrt, nil
		},
	})
	cerr := client.Handshake()
	if cerr != nil {
		cconn.Close()
	}
	if e := <-serr; e != nil || cerr != nil {
		return "fail", append(tags, "handshake-failed")
	}
	st := client.ConnectionState()
	san := "?"
	if len(st.PeerCertificates) > 0 {
		leaf := st.PeerCertificates[0]
		switch {
		case len(leaf.DNSNames) > 0:
			san = leaf.DNSNames[0]
		case len(leaf.IPAddresses) > 0:
			san = leaf.IPAddresses[0].String()
		}
	}
	tags = append(tags, fmt.Sprintf("negotiated=%x", st.Version))
	if requested {
		tags = append(tags, "client-cert-requested")
	}
	if strings.Contains(san, "*") {
		tags = append(tags, "wildcard-cert")
	}
	return "ok\t" + strconv.Itoa(int(st.Version)) + "\t" + hx.HS(san) + "\t" + b01(requested), tags
}

func c06HandshakeGen(g *hx.Gen) {
	aes := b01(cpuid.CPU.AesNi())
	hosts := []string{"a.com", "*.a.com", "b.a.com", "*.*.com", "c.org"}
	snis := []string{"a.com", "A.COM", "b.a.com", "x.a.com", "x.y.com", "c.org", "zzz.net"}
	type ver struct{ lo, hi int }
	offers := []ver{{0x0301, 0x0304}, {0x0303, 0x0303}, {0x0304, 0x0304}, {0x0301, 0x0302}, {0x0301, 0x0301}, {0x0302, 0x0303}}
	prof := func(n int) c06Cfg {
		c := c06Cfg{enabled: true}
		switch n % 5 {
		case 1:
			c.min, c.max = 0x0303, 0x0303
		case 2:
			c.min, c.max = 0x0301, 0x0302
		case 3:
			c.min, c.max = 0x0304, 0x0304
		case 4:
			c.min = 0x0301
		}
		switch (n / 5) % 3 {
		case 1:
			c.ciphers = []int{0xc02b}
		case 2:
			c.ciphers = []int{0xc02b, 0xc00a}
		}
		c.clientAuth = (n / 15) % 3
		return c
	}
	N := 1200
	if g.Thorough() {
		N = 20000
	}
	for it := 0; it < N; it++ {
		n := 1 + g.Rng.Intn(4)
		cs := make([]c06Cfg, 0, n+1)
		used := map[string]bool{}
		for i := 0; i < n; i++ {
			h := hx.Pick(g.Rng, hosts)
			if used[h] {
				continue
			}
			used[h] = true
			c := prof(g.Rng.Intn(45))
			c.host = h
			cs = append(cs, c)
		}
		// a catch-all keeps the choice deterministic (no random failover)
		ca := prof(g.Rng.Intn(45))
		ca.host = hx.Pick(g.Rng, []string{"", "0.0.0.0", "::"})
		pos := g.Rng.Intn(len(cs) + 1)
		cs = append(cs[:pos], append([]c06Cfg{ca}, cs[pos:]...)...)
		if g.Rng.Chance(1, 30) {
			cs[g.Rng.Intn(len(cs))].enabled = false
		}
		o := hx.Pick(g.Rng, offers)
		if g.Rng.Bool() {
			o = offers[0]
		}
		sni := hx.Pick(g.Rng, snis)
		if g.Rng.Chance(3, 4) {
			// aim at one of the named sites
			h := cs[g.Rng.Intn(len(cs))].host
			if h != "" && h != "0.0.0.0" && h != "::" {
				sni = strings.ReplaceAll(h, "*", hx.Pick(g.Rng, []string{"x", "y"}))
				if g.Rng.Chance(1, 4) {
					sni = strings.ToUpper(sni)
				}
			}
		}
		g.Case(aes, c06EncCfgs(cs), hx.HS(sni), strconv.Itoa(o.lo), strconv.Itoa(o.hi), hx.HS("pipe"))
	}
}

func init() {
	hx.Register(&hx.Stream{ID: "C06", Name: "c06.handshake", Gen: c06HandshakeGen, Eval: c06HandshakeEval,
		Setup: func() error {
			if err := c06Setup(); err != nil {
				return err
			}
			crt, err := caskettls.VerifSelfSigned([]string{"client.invalid"})
			if err != nil {
				return err
			}
			c06ClientCrt = &crt
			return nil
		},
		Teardown: c06Teardown})
}
