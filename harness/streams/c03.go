//go:build c03

package streams

import (
	"encoding/base64"
	"fmt"
	"net/http"
	"net/http/httptest"
	"net/url"
	"strings"
	"sync"

	"verifharness/hx"
)

// c03.chain: a real casket site whose Casketfile combines a protection directive
// (basicauth / internal) with path-rewriting and content-producing directives, over a
// fixture whose files carry unique tokens; requests with no / wrong / right credentials.
// Plumbing (fixture, casket.Start, raw sockets, rendering) is in c02common.go.

var (
	c03Once     sync.Once
	c03Backends = map[int]*httptest.Server{}
)

// two echo backends; each answers every request with its own token
func c03Setup() error {
	if err := fsSetup(); err != nil {
		return err
	}
	c03Once.Do(func() {
		for _, id := range []int{9001, 9002} {
			id := id
			c03Backends[id] = httptest.NewServer(http.HandlerFunc(func(w http.ResponseWriter, r *http.Request) {
				w.Header().Set("Content-Type", "text/plain")
				fmt.Fprintf(w, "%s\n", fsToken(id))
			}))
		}
	})
	return nil
}

func c03Fixture(casketfile string) *fsFixture {
	fx := newFixture()
	for _, d := range []string{"/site", "/site/pub", "/site/secret", "/site/secret/deep", "/site/secret2", "/site/docs", "/site/int", "/site/int/sub", "/site/area", "/site/area/locked", "/site/area/inner"} {
		fx.dir(d)
	}
	for _, f := range []string{"/outside.txt", "/site/top.txt", "/site/top.txt.gz", "/site/private.txt", "/site/index.html",
		"/site/pub/a.txt", "/site/pub/index.html", "/site/pub/page.html",
		"/site/secret/s.txt", "/site/secret/s.txt.gz", "/site/secret/index.html", "/site/secret/deep/d.txt",
		"/site/secret2/x.txt", "/site/docs/index.html", "/site/docs/guide.txt", "/site/int/i.txt", "/site/int/sub/j.txt", "/site/int/index.html",
		"/site/area/free.txt", "/site/area/locked/l.txt", "/site/area/inner/n.txt", "/site/area/inner.txt"} {
		fx.file(f)
	}
	fx.file(casketfile)
	return fx
}

// c03Directives renders the directive mini-language (see Driver/C03.lean) as Casketfile text.
func c03Directives(lines string) (string, error) {
	items, err := c03DirectiveItems(lines, 0)
	return strings.Join(items, ""), err
}

// c03DirectiveItems: one complete piece of Casketfile text per directive line; with stBlockForm
// a basicauth rule is always written as a block.
func c03DirectiveItems(lines string, style int) ([]string, error) {
	var items []string
	if lines == "" {
		return nil, nil
	}
	for _, line := range strings.Split(lines, "\n") {
		w := strings.Fields(line)
		if len(w) == 0 {
			continue
		}
		var b strings.Builder
		switch w[0] {
		case "tryfiles":
			var groups [][]string
			cur := []string{}
			for _, x := range w[1:] {
				if x == "|" {
					groups = append(groups, cur)
					cur = []string{}
				} else {
					cur = append(cur, x)
				}
			}
			groups = append(groups, cur)
			fmt.Fprintf(&b, "\ttryfiles %s", strings.Join(groups[0], " "))
			if len(groups) > 1 {
				b.WriteString(" {\n")
				for _, g := range groups[1:] {
					fmt.Fprintf(&b, "\t\t%s\n", strings.Join(g, " "))
				}
				b.WriteString("\t}")
			}
			b.WriteString("\n")
		case "rewrite":
			if len(w) < 4 {
				return nil, fmt.Errorf("rewrite: %q", line)
			}
			to := strings.Join(w[3:], " ")
			switch w[1] {
			case "exact":
				fmt.Fprintf(&b, "\trewrite ^%s$ %s\n", w[2], to)
			case "substr":
				fmt.Fprintf(&b, "\trewrite %s %s\n", w[2], to)
			case "base":
				fmt.Fprintf(&b, "\trewrite %s {\n\t\tto %s\n\t}\n", w[2], to)
			default:
				return nil, fmt.Errorf("rewrite kind: %q", line)
			}
		case "ext":
			fmt.Fprintf(&b, "\text %s\n", strings.Join(w[1:], " "))
		case "basicauth":
			if len(w) < 4 {
				return nil, fmt.Errorf("basicauth: %q", line)
			}
			res := strings.Split(w[3], ",")
			if len(w) == 4 && len(res) == 1 && style&stBlockForm == 0 {
				fmt.Fprintf(&b, "\tbasicauth %s %s %s\n", res[0], w[1], w[2])
				break
			}
			fmt.Fprintf(&b, "\tbasicauth %s %s {\n", w[1], w[2])
			var inner []string
			for _, r := range res {
				inner = append(inner, fmt.Sprintf("\t\t%s\n", r))
			}
			if len(w) > 4 && w[4] != "-" {
				for _, e := range strings.Split(w[4], ",") {
					excl := fmt.Sprintf("\t\texclude %s\n", e)
					if style&stShuffle != 0 {
						// the lines of the block in another order: exclusions before the resources
						inner = append([]string{excl}, inner...)
					} else {
						inner = append(inner, excl)
					}
				}
			}
			b.WriteString(strings.Join(inner, "") + "\t}\n")
		case "internal":
			fmt.Fprintf(&b, "\tinternal %s\n", w[1])
		case "proxy":
			var id int
			fmt.Sscanf(w[2], "%d", &id)
			be := c03Backends[id]
			if be == nil {
				return nil, fmt.Errorf("proxy backend %q", w[2])
			}
			fmt.Fprintf(&b, "\tproxy %s %s\n", w[1], strings.TrimPrefix(be.URL, "http://"))
		case "gzip":
			b.WriteString("\tgzip\n")
		default:
			return nil, fmt.Errorf("directive %q", w[0])
		}
		items = append(items, b.String())
	}
	return items, nil
}

type c03Site struct {
	prefix string
	browse string
	index  string
	dirs   []string
	users  []string // credentials worth trying: "user:pass"
}

func (s c03Site) fields() []string {
	fx := c03Fixture("/site/Casketfile")
	return []string{hx.HS(fx.text()), hx.HS("/site"), hx.HS("/site/Casketfile"), hx.HS(s.prefix), hx.HS(s.browse), hx.HS(s.index), hx.HS(strings.Join(s.dirs, "\n"))}
}

const c03A = "/|zip,tar,tar.gz"

func c03Sites(g *hx.Gen) []c03Site {
	u := []string{"bob:pw", "bob:wrong", "eve:pw", "alice:pw2"}
	sites := []c03Site{
		{"", "", "", []string{"basicauth bob pw /secret"}, u},
		{"", c03A, "", []string{"basicauth bob pw /secret"}, u},
		{"", "", "", []string{"basicauth bob pw /docs/index.html,/top.txt.gz,/private.txt"}, u},
		{"", c03A, "", []string{"internal /int"}, u},
		{"", c03A, "", []string{"basicauth bob pw /area/locked"}, u},
		{"", c03A, "", []string{"basicauth bob pw /area/locked", "internal /area/inner"}, u},
		{"", "/area|tar", "", []string{"basicauth bob pw /area/locked/", "internal /area/inn"}, u},
		{"", c03A, "", []string{"internal /int/i.txt", "internal /int/index.html", "internal /top.txt.gz"}, u},
		{"", "", "", []string{"internal /top.txt.g", "internal /docs/ind"}, u},
		{"", "", "", []string{"basicauth bob pw /top.txt.g,/docs/ind"}, u},
		// directory scopes in normal form, no archives, no proxy: the class of C03_no_disclosure_dirscoped
		{"", "/|", "", []string{"basicauth bob pw /secret/,/docs/ /secret/deep/", "internal /int/", "tryfiles {path} /pub/a.txt", "ext .txt"}, u},
		{"/pre", "", "", []string{"basicauth bob pw /secret/", "basicauth alice pw2 /secret2/,/secret/deep/", "internal /int/sub/", "rewrite base /r /secret/s.txt /int/sub/j.txt"}, u},
		// … with archives and proxies whose scopes do not lie strictly above a protection scope (ScopeClear)
		{"", "/pub/|tar,zip;/secret/deep/|zip;/area/locked|tar", "", []string{"basicauth bob pw /secret/,/area/locked/", "internal /int/", "proxy /api 9001", "proxy /secret/api 9002"}, u},
		{"", "", "", []string{"tryfiles {path} /pub/a.txt", "basicauth bob pw /secret"}, u},
		{"", "", "", []string{"tryfiles {path} /secret/s.txt", "basicauth bob pw /secret"}, u},
		{"/pre", "", "", []string{"tryfiles {path} /pub/a.txt", "basicauth bob pw /secret"}, u},
		{"/pre", "", "", []string{"tryfiles", "basicauth bob pw /secret,/private.txt", "internal /int"}, u},
		{"", "", "", []string{"tryfiles {path} /pub/a.txt | without /x", "basicauth bob pw /secret", "internal /int"}, u},
		{"", "", "", []string{"rewrite exact /old /secret/s.txt", "rewrite substr /alias /secret/deep/d.txt", "rewrite base /r /int/i.txt /pub/a.txt", "basicauth bob pw /secret", "internal /int"}, u},
		{"", "", "", []string{"rewrite exact /rel secret/s.txt", "rewrite exact /rel2 int/i.txt", "rewrite base /dyn /missing {path}", "basicauth bob pw /secret", "internal /int"}, u},
		{"", "", "", []string{"ext .txt .html", "basicauth bob pw /secret,/private.txt", "internal /int"}, u},
		{"", c03A, "", []string{"basicauth bob pw /secret /secret/deep", "basicauth alice pw2 /secret2,/secret/deep"}, u},
		{"", "", "", []string{"basicauth bob pw /Secret/", "basicauth alice pw2 //secret2", "internal /x/../int"}, u},
		{"", "", "", []string{"basicauth bob pw secret", "internal int"}, u},
		{"", "", "", []string{"proxy /api 9001", "proxy /open 9002", "proxy /api/open 9002", "basicauth bob pw /api", "internal /open/int"}, u},
		{"", c03A, "", []string{"gzip", "basicauth bob pw /secret", "internal /int"}, u},
		{"", "/pub|tar", "s.txt,index.html", []string{"basicauth bob pw /secret/s.txt", "internal /int/i"}, u},
		{"", "", "", []string{"tryfiles", "ext .txt", "rewrite base /pub /secret/s.txt", "basicauth bob pw /secret", "internal /int"}, u},
	}
	if g.Thorough() {
		prot := [][]string{{"basicauth bob pw /secret"}, {"internal /int"}, {"basicauth bob pw /secret /secret/deep", "internal /int/sub"}}
		rw := [][]string{{}, {"tryfiles {path} /pub/a.txt"}, {"tryfiles"}, {"rewrite base /r /secret/s.txt /int/i.txt"}, {"ext .txt"}, {"tryfiles {path} /secret/s.txt", "ext .html .txt", "rewrite substr /alias /int/i.txt"}}
		for _, p := range prot {
			for _, r := range rw {
				for _, pre := range []string{"", "/pre"} {
					for _, br := range []string{"", c03A} {
						for _, extra := range [][]string{{}, {"gzip"}, {"proxy /api 9001"}} {
							// a seeded third of the 216 combinations (the case file of all of them is several GB)
							if !g.Rng.Chance(1, 3) {
								continue
							}
							d := append(append(append([]string{}, r...), p...), extra...)
							sites = append(sites, c03Site{pre, br, "", d, u})
						}
					}
				}
			}
		}
	}
	return sites
}

var c03Names = []string{"secret", "s.txt", "s", "s.txt.gz", "deep", "d.txt", "secret2", "x.txt", "pub", "a.txt", "page", "page.html", "index.html",
	"docs", "guide.txt", "guide", "int", "i.txt", "i", "sub", "j.txt", "top.txt", "top", "top.txt.gz", "private.txt", "private",
	"area", "locked", "l.txt", "free.txt", "inner", "n.txt", "inner.txt", "old", "alias", "r", "rel", "rel2", "dyn", "missing", "api", "open", "x", "pre", "SECRET", "Secret", "INT", ".well-known", "Casketfile"}
var c03Segs = []string{"", ".", "..", "%2e%2e", "%2f", "%5c", "%00", "%ff", "%zz", "%25", "%3f", "%23", "secret%2f", "secre%74", "s%2etxt", "int%2fi.txt", "%c4%b0nt", "K"}
var c03Methods = []string{"GET", "GET", "GET", "GET", "GET", "HEAD", "POST", "OPTIONS", "PROPFIND", "DELETE"}
var c03AE = []string{"", "", "gzip", "br", "zstd, gzip"}
var c03Queries = []string{"", "", "", "?archive=tar", "?archive=zip", "?archive=tar.gz", "?x=1"}

func c03Gen(g *hx.Gen) {
	all := c03Sites(g)
	hand := all // the hand-made sites come first; thorough appends generated combinations
	if len(hand) > 28 {
		hand = hand[:28]
	}
	defer c03AddrsGen(g, hand)
	for _, s := range all {
		sf := s.fields()
		emitC := func(method, target, ae, cred, cond string) {
			g.Case(append(append([]string{}, sf...), method, hx.HS(target), hx.HS(ae), hx.HS(cred), hx.HS(cond))...)
		}
		emit := func(method, target, ae, cred string) { emitC(method, target, ae, cred, "") }
		gzipSite := false
		for _, d := range s.dirs {
			if d == "gzip" {
				gzipSite = true
			}
		}
		creds := append([]string{"", ""}, s.users...)
		alpha := append(append([]string{}, c03Segs...), c03Names...)
		// every fixture entry, every credential, with and without trailing slash
		fx := c03Fixture("/site/Casketfile")
		for _, e := range fx.entries {
			if !strings.HasPrefix(e.path, "/site") {
				continue
			}
			rel := strings.TrimPrefix(e.path, "/site")
			esc := (&url.URL{Path: rel}).EscapedPath()
			for _, tail := range []string{"", "/"} {
				for _, c := range creds[1:] {
					for _, ae := range []string{"", "gzip"} {
						emit("GET", s.prefix+esc+tail, ae, c)
					}
				}
				for _, q := range c03Queries[3:] {
					emit("GET", s.prefix+esc+tail+q, "", "")
					emit("GET", s.prefix+esc+tail+q, "", "bob:pw")
					if gzipSite && e.isDir {
						// the gzip directive compresses the archive itself for a client that accepts gzip
						emit("GET", s.prefix+esc+tail+q, "zstd, gzip", "")
						emit("GET", s.prefix+esc+tail+q, "gzip", "bob:pw")
					}
				}
				for _, m := range []string{"HEAD", "POST", "OPTIONS"} {
					emit(m, s.prefix+esc+tail, "gzip", "")
				}
				// conditional and range requests: a 304 / 206 / 416 names a file through its headers
				if !gzipSite {
					for _, c := range []string{fmt.Sprintf("inm=s%d", e.ino), "inm=*", "range=0-3", "ims=999999"} {
						emitC("GET", s.prefix+esc+tail, "", "", c)
					}
					emitC("HEAD", s.prefix+esc+tail, "", "bob:wrong", "range=2-")
				}
				// the same resource without the slash after the site prefix
				if s.prefix != "" {
					emit("GET", s.prefix+strings.TrimPrefix(esc, "/")+tail, "", "")
				}
				// case variants and double slashes
				emit("GET", s.prefix+strings.ToUpper(esc)+tail, "", "")
				emit("GET", s.prefix+"/"+esc+tail, "", "")
			}
		}
		// detours: every entry reached through every directory and back up (plain and
		// percent-encoded dot segments, also through a directory that does not exist)
		var relDirs []string
		for _, e := range fx.entries {
			if e.isDir && strings.HasPrefix(e.path, "/site/") {
				relDirs = append(relDirs, strings.TrimPrefix(e.path, "/site"))
			}
		}
		relDirs = append(relDirs, "/nonexistent", "/secret/nonexistent")
		for _, e := range fx.entries {
			if !strings.HasPrefix(e.path, "/site/") {
				continue
			}
			rel := strings.TrimPrefix(e.path, "/site")
			for i, d := range relDirs {
				up := strings.Repeat("/..", strings.Count(d, "/"))
				if i%3 == 1 {
					up = strings.Repeat("/%2e%2e", strings.Count(d, "/"))
				}
				emit("GET", s.prefix+d+up+rel, "", "")
				if i%4 == 0 {
					emit("GET", s.prefix+d+up+rel, "gzip", "bob:wrong")
				}
			}
			// too many dot-dots, and a detour through the place outside the root
			emit("GET", s.prefix+"/../.."+rel, "", "")
			emit("GET", s.prefix+"/pub/../../site"+rel, "", "")
		}
		// exhaustive pairs of segments without credentials
		for _, a := range alpha {
			emit("GET", s.prefix+"/"+a, "", "")
			for _, b := range alpha {
				emit("GET", s.prefix+"/"+a+"/"+b, "", "")
			}
		}
		n := 500
		if g.Thorough() {
			n = 3000
		}
		prefixes := []string{s.prefix}
		if s.prefix != "" {
			prefixes = append(prefixes, s.prefix, s.prefix, "", s.prefix+"x")
		}
		for i := 0; i < n; i++ {
			k := 1 + g.Rng.Intn(4)
			segs := make([]string, k)
			for j := range segs {
				if g.Rng.Chance(3, 4) {
					segs[j] = hx.Pick(g.Rng, c03Names)
				} else {
					segs[j] = hx.Pick(g.Rng, c03Segs)
				}
			}
			sep := "/"
			if g.Rng.Chance(1, 8) {
				sep = ""
			}
			target := hx.Pick(g.Rng, prefixes) + sep + strings.Join(segs, "/") + hx.Pick(g.Rng, c03Queries)
			if !strings.HasPrefix(target, "/") {
				target = "/" + target
			}
			emit(hx.Pick(g.Rng, c03Methods), target, hx.Pick(g.Rng, c03AE), hx.Pick(g.Rng, creds))
		}
	}
}

// c03AddrsGen: server blocks with two or three addresses, written in several styles; every request
// goes to EVERY address of the block (each address is a site configuration of its own, set up by
// its own run of every directive's setup function).  The case is a c03.chain case with two more
// fields: "<host,host…>|<style>" and the address asked.
func c03AddrsGen(g *hx.Gen, sites []c03Site) {
	r := g.Rng
	fx := c03Fixture("/site/Casketfile")
	addrSets := [][]string{{"a.test", "b.test"}, {"c.test", "localhost", "d.test"}, {"127.0.0.1", "e.test"}}
	n := 0
	// plus sites whose internal path is a whole directory below a browsable directory WITHOUT an
	// index page (/area): the listing and the archive of the parent are the only way in
	u := []string{"bob:pw", "bob:wrong", "eve:pw", "alice:pw2"}
	sites = append(append([]c03Site{}, sites...),
		c03Site{"", c03A, "", []string{"internal /area/locked"}, u},
		c03Site{"/pre", "/area|tar", "", []string{"internal /area/locked/", "basicauth bob pw /secret/"}, u},
		c03Site{"", "/area/|zip;/|", "", []string{"internal /area/locked", "internal /area/inner/", "internal /int/sub"}, u},
	)
	for si, s := range sites {
		hasProt := false
		for _, d := range s.dirs {
			if strings.HasPrefix(d, "internal") || strings.HasPrefix(d, "basicauth") {
				hasProt = true
			}
			if d == "gzip" {
				hasProt = false // conditional answers of a gzip site are rendered apart; c03.chain proper has them
				break
			}
		}
		if !hasProt {
			continue
		}
		sf := s.fields()
		// two spellings per site: one address set as written by hand, one in a seeded random style
		for k, hosts := range [][]string{addrSets[si%len(addrSets)], addrSets[(si+1)%len(addrSets)]} {
			style := 0
			if k == 1 && si%2 == 1 && si < 28 {
				continue
			}
			if k == 1 {
				style = r.Intn(stAll + 1)
			} else if si%3 == 1 {
				style = 1 << (si % stBits)
			}
			written := hx.HS(fmt.Sprintf("%s|%d", strings.Join(hosts, ","), style))
			probed := hosts
			if k == 1 {
				probed = []string{hosts[0], hosts[len(hosts)-1]} // the random spelling: first and last address
			}
			for _, h := range probed {
				emit := func(method, target, ae, cred, cond string) {
					n++
					g.Case(append(append([]string{}, sf...), method, hx.HS(target), hx.HS(ae), hx.HS(cred), hx.HS(cond), written, h)...)
				}
				for _, e := range fx.entries {
					if !strings.HasPrefix(e.path, "/site") {
						continue
					}
					rel := strings.TrimPrefix(e.path, "/site")
					emit("GET", s.prefix+rel, "", "", "")
					emit("GET", s.prefix+rel, "", "bob:pw", "")
					if e.isDir {
						emit("GET", s.prefix+rel+"/", "", "", "")
						emit("HEAD", s.prefix+rel+"/", "", "", "")
						for _, q := range c03Queries[3:6] {
							emit("GET", s.prefix+rel+"/"+q, "", "", "")
							emit("GET", s.prefix+rel+q, "", "alice:pw2", "")
						}
					} else {
						emit("HEAD", s.prefix+rel, "gzip", "bob:wrong", "")
						emit("GET", s.prefix+rel, "gzip", "", fmt.Sprintf("inm=s%d", e.ino))
						emit("GET", s.prefix+"/x/.."+rel, "", "", "")
					}
				}
			}
		}
	}
}

func c03Eval(f []string) (string, []string) {
	if len(f) != 12 && len(f) != 14 {
		return "bad-case", nil
	}
	key := f[:7]
	host := "fs.test"
	var hosts []string
	style := 0
	if len(f) == 14 {
		// a server block with several addresses, written in the given style; the request goes to f[13]
		key = append(append([]string{}, f[:7]...), f[12])
		hs, st, _ := strings.Cut(hx.UnHS(f[12]), "|")
		hosts = strings.Split(hs, ",")
		fmt.Sscanf(st, "%d", &style)
		host = f[13]
	}
	site, err := fsSiteFor(key, func(T string) (string, error) {
		if hosts != nil {
			items, err := c03DirectiveItems(hx.UnHS(f[6]), style)
			if err != nil {
				return "", err
			}
			return fsBlockText(T, fsBlockSpec{hosts: hosts, root: hx.UnHS(f[1]), prefix: hx.UnHS(f[3]), browse: hx.UnHS(f[4]), index: hx.UnHS(f[5]), extra: items, style: style}), nil
		}
		extra, err := c03Directives(hx.UnHS(f[6]))
		if err != nil {
			return "", err
		}
		return fsCasketfileText(T, hx.UnHS(f[1]), hx.UnHS(f[3]), hx.UnHS(f[4]), hx.UnHS(f[5]), extra), nil
	})
	if err != nil {
		return "setup-error:" + err.Error(), nil
	}
	id := site.ident()
	method, target, ae, cred, cond := f[7], hx.UnHS(f[8]), hx.UnHS(f[9]), hx.UnHS(f[10]), hx.UnHS(f[11])
	hdr := "Accept: application/json\r\n"
	if ae != "" {
		hdr += "Accept-Encoding: " + ae + "\r\n"
	}
	if cred != "" {
		hdr += "Authorization: Basic " + base64.StdEncoding.EncodeToString([]byte(cred)) + "\r\n"
	}
	hdr += c02CondHeaders(cond, id)
	resp, body, rerr, err := site.fetchHost(host, method, target, hdr)
	if err != nil {
		return "io-error", []string{"io-error"}
	}
	// every answer is rendered with the files its headers identify (ETag, Last-Modified,
	// Content-Range): also a HEAD, 304 or error answer discloses a protected file that way
	out, kind := c02CondRender(method, resp, body, rerr, id, false, true)
	if out == "S401" {
		out, kind = "U401", "U401"
	}
	if strings.HasPrefix(out, "F\t-\t9") && len(out) == len("F\t-\t9001") {
		out, kind = "B\t"+out[4:], "backend"
	}
	tags := []string{"kind=" + kind, "method=" + method}
	if cred == "" {
		tags = append(tags, "no-creds")
	} else {
		tags = append(tags, "creds")
	}
	if cond != "" {
		tags = append(tags, "conditional")
	}
	if kind == "S404" || kind == "S400" || kind == "S405" {
		tags = append(tags, "trivial-"+kind)
	}
	for i, h := range hosts {
		if h == host {
			tags = append(tags, fmt.Sprintf("address-%d-of-%d", i, len(hosts)))
		}
	}
	for bit, name := range stNames {
		if style&(1<<bit) != 0 {
			tags = append(tags, "style="+name)
		}
	}
	return out, tags
}

func init() {
	hx.Register(&hx.Stream{ID: "C03", Name: "c03.chain", Gen: c03Gen, Eval: c03Eval, Setup: c03Setup, Teardown: fsTeardown})
}
