//go:build c02

package streams

import (
	"fmt"
	"net/url"
	"path"
	"strings"

	"github.com/tmpim/casket/caskethttp/httpserver"

	"verifharness/hx"
)

// ---------------------------------------------------------------------------
// c02.serve: a real casket site (casket.Start, loopback listener) over a fixture
// tree; request targets are written raw on a TCP socket.  See fileserve_common.go
// for the site/fixture plumbing shared with C03.
// ---------------------------------------------------------------------------

// the standard fixture: regular files, nested directories, index pages,
// precompressed siblings, names that need escaping, a sibling directory of the
// root that shares its byte prefix, a file outside the root.
func c02Fixture(variant int, casketfile string) *fsFixture {
	fx := newFixture()
	fx.dir("/site")
	fx.file("/outside.txt")
	fx.dir("/site2")
	fx.file("/site2/x.txt")
	fx.file("/site/a.txt")
	fx.file("/site/a.txt.gz")
	fx.file("/site/a.txt.br")
	fx.file("/site/a.txt.zst")
	fx.dir("/site/sub")
	fx.file("/site/sub/index.html")
	fx.file("/site/sub/index.html.gz")
	fx.file("/site/sub/b.txt")
	fx.dir("/site/dir")
	fx.file("/site/dir/c.txt")
	fx.dir("/site/dir/deep")
	fx.file("/site/dir/deep/d.txt")
	fx.dir("/site/empty")
	switch variant {
	case 1: // names that need escaping, case variants, a second index page
		fx.dir("/site/DIR")
		fx.file("/site/DIR/e.txt")
		fx.file("/site/sp ace.txt")
		fx.file("/site/q?m.txt")
		fx.file("/site/h#h.txt")
		fx.file("/site/pct%41.txt")
		fx.file("/site/back\\slash.txt")
		fx.dir("/site/co:lon")
		fx.file("/site/co:lon/f.txt")
		fx.file("/site/dir/index.htm")
		fx.file("/site/dir/default.txt")
		fx.dir("/site/.well")
		fx.file("/site/.well/known.txt")
		fx.file("/site/é.txt")
	case 2: // directories where files are expected and the other way round, hard link
		fx.dir("/site/dir/c.txt.gz")
		fx.dir("/site/empty/index.html")
		fx.file("/site/dir/deep/index.txt")
		fx.file("/site/dir/deep/index.txt.br")
		fx.link("/site/dir/link-to-a.txt", "/site/a.txt")
		fx.dir("/site/pre")
		fx.file("/site/pre/p.txt")
		fx.dir("/site/site")
		fx.file("/site/site/s.txt")
	}
	if casketfile != "" && !fx.has(casketfile) {
		fx.file(casketfile)
	}
	if casketfile != "" && strings.HasPrefix(casketfile, "/site/") && variant == 2 {
		// a second name for the Casketfile's inode: hidden through either name
		fx.link("/site/dir/link-to-casketfile", casketfile)
	}
	return fx
}

type c02Site struct {
	variant    int // 0..2 fixed fixtures, >= 10 seeded random fixture
	casketfile string
	prefix     string
	browse     string
	index      string
	fx         *fsFixture // set for random fixtures
}

func (s c02Site) fixture() *fsFixture {
	if s.fx != nil {
		return s.fx
	}
	return c02Fixture(s.variant, s.casketfile)
}

func (s c02Site) fields() []string {
	return []string{hx.HS(s.fixture().text()), hx.HS("/site"), hx.HS(s.casketfile), hx.HS(s.prefix), hx.HS(s.browse), hx.HS(s.index)}
}

// c02RandomSite draws a fixture tree: nested directories, index pages under several names,
// precompressed siblings (also of index pages, also as directories), names that need escaping,
// the Casketfile somewhere inside or outside the root, sometimes hard-linked a second time.
func c02RandomSite(g *hx.Gen, n int) c02Site {
	r := g.Rng
	fx := newFixture()
	fx.dir("/site")
	fx.file("/outside.txt")
	dirNames := []string{"sub", "dir", "a", "b", "DIR", "x y", "d.gz", "index.html", "pre"}
	fileNames := []string{"f.txt", "g.txt", "index.html", "index.htm", "default.txt", "f.txt.gz", "f.txt.br", "f.txt.zst", "index.html.gz", "g.txt.gz", ".hid", "q?.txt", "h#.txt", "100%.txt", "b\\s.txt", "ü.txt", "Casketfile"}
	dirs := []string{"/site"}
	for i := 0; i < 3+r.Intn(5); i++ {
		parent := hx.Pick(r, dirs)
		if strings.Count(parent, "/") > 3 {
			continue
		}
		d := parent + "/" + hx.Pick(r, dirNames)
		if !fx.has(d) {
			fx.dir(d)
			dirs = append(dirs, d)
		}
	}
	var files []string
	for i := 0; i < 6+r.Intn(10); i++ {
		f := hx.Pick(r, dirs) + "/" + hx.Pick(r, fileNames)
		if !fx.has(f) && !strings.HasSuffix(f, "/Casketfile") {
			fx.file(f)
			files = append(files, f)
		}
	}
	cf := "/Casketfile"
	switch r.Intn(5) {
	case 0: // outside the root
	case 1:
		cf = "/site/Casketfile"
	default: // an existing file's place, or a fresh name in some directory
		if len(files) > 0 && r.Bool() {
			cf = hx.Pick(r, files)
		} else {
			cf = hx.Pick(r, dirs) + "/Casketfile"
		}
	}
	if !fx.has(cf) {
		fx.file(cf)
	}
	if r.Chance(1, 3) && strings.HasPrefix(cf, "/site/") {
		fx.link(hx.Pick(r, dirs)+"/second-name", cf)
	}
	prefix := hx.Pick(r, []string{"", "", "/pre", "/a"})
	browse := hx.Pick(r, []string{"", "/|" + c02Arch, "/|tar", "/sub|zip;/dir|", "/a/|tar.gz"})
	index := hx.Pick(r, []string{"", "", "f.txt,index.html", "g.txt"})
	return c02Site{variant: 10 + n, casketfile: cf, prefix: prefix, browse: browse, index: index, fx: fx}
}

const c02Arch = "zip,tar,tar.gz"

func c02Sites(g *hx.Gen) []c02Site {
	sites := []c02Site{
		{0, "/site/Casketfile", "", "/|" + c02Arch, "", nil},
		{0, "/site/Casketfile", "", "", "", nil},
		{0, "/Casketfile", "", "/|" + c02Arch, "", nil},
		{0, "/site/dir/Casketfile", "", "/|" + c02Arch, "", nil},
		{0, "/site/dir/c.txt.gz", "", "/dir|", "", nil},
		{0, "/site/sub/index.html", "", "/|tar", "", nil},
		{0, "/site/Casketfile", "/pre", "/|" + c02Arch, "", nil},
		{0, "/site/Casketfile", "/pre", "", "", nil},
		{1, "/site/Casketfile", "", "/|" + c02Arch, "", nil},
		{1, "/site/Casketfile", "", "/dir|zip;/sub|", "c.txt,index.html", nil},
		{1, "/site/DIR/Casketfile", "", "/DIR|tar.gz", "", nil},
		{1, "/site/Casketfile", "/a%20b", "/|tar", "", nil},
		{2, "/site/Casketfile", "", "/|" + c02Arch, "", nil},
		{2, "/site/Casketfile", "/pre", "/|zip", "", nil},
		{2, "/site/Casketfile", "/site", "/|tar", "", nil},
		{2, "/site/dir/deep/index.txt.br", "", "/dir/|tar", "", nil},
		{2, "/site2/Casketfile", "", "/|" + c02Arch, "", nil},
	}
	nrand := 8
	if g.Thorough() {
		nrand = 60
	}
	for i := 0; i < nrand; i++ {
		sites = append(sites, c02RandomSite(g, i))
	}
	if g.Thorough() {
		for v := 0; v < 3; v++ {
			for _, cf := range []string{"/site/Casketfile", "/site/sub/Casketfile", "/site/a.txt.gz", "/Casketfile"} {
				for _, pre := range []string{"", "/pre", "/p/q"} {
					for _, br := range []string{"", "/|" + c02Arch, "/sub|;/dir|tar"} {
						sites = append(sites, c02Site{variant: v, casketfile: cf, prefix: pre, browse: br})
					}
				}
			}
		}
	}
	return sites
}

// segment alphabet for request targets; fixture names are added per site
var c02Segs = []string{"", ".", "..", "%2e", "%2E%2e", "..%2f", "%2f", "%5c", "\\", "...", "%00", "%ff", "%zz", "%", "a.txt%20", "A.TXT", "SUB", "%c0%ae%c0%ae", ";", "*", "%3f", "%23"}

func c02Names(s c02Site) []string {
	seen := map[string]bool{}
	var names []string
	add := func(n string) {
		if n != "" && !seen[n] {
			seen[n] = true
			names = append(names, n)
		}
	}
	for _, e := range s.fixture().entries {
		for _, seg := range strings.Split(e.path, "/") {
			add(seg)
			esc := (&url.URL{Path: seg}).EscapedPath()
			add(esc)
			add(strings.ReplaceAll(seg, "%", "%25"))
		}
	}
	add("Casketfile")
	if s.prefix != "" {
		for _, seg := range strings.Split(strings.TrimPrefix(s.prefix, "/"), "/") {
			add(seg)
		}
		add("evil.test")
	}
	return names
}

var c02AE = []string{"", "gzip", "br", "zstd", "gzip, br", "zstd,gzip", " gzip ", "gzip;q=1", "identity", "deflate, gzip\t, br", "GZIP", "*"}
var c02Queries = []string{"", "", "", "?archive=zip", "?archive=tar", "?archive=tar.gz", "?archive=tar.xz", "?archive=rar", "?archive=", "?sort=name&order=desc", "?sort=size", "?limit=1000", "?limit=x", "?limit=-1", "?limit=99999999999999999999", "?", "?a=1&archive=tar", "?archive=ta%72", "?archive=tar;x", "?x#frag", "?x#%zz", "?ARCHIVE=tar", "?archive=zip&archive=tar", "?%61rchive=tar"}
var c02Methods = []string{"GET", "GET", "GET", "GET", "GET", "GET", "HEAD", "HEAD", "POST", "OPTIONS", "PROPFIND", "PUT", "DELETE", "get"}

func c02Target(prefix string, segs []string, q string) string {
	return prefix + "/" + strings.Join(segs, "/") + q
}

func c02Gen(g *hx.Gen) {
	for _, s := range c02Sites(g) {
		sf := s.fields()
		nEmit := 0
		emit := func(method, target, ae string) {
			// every seventh case asks for the HTML listing instead of the JSON one
			nEmit++
			fm := "j"
			if nEmit%7 == 0 {
				fm = "h"
			}
			g.Case(append(append([]string{}, sf...), method, hx.HS(target), hx.HS(ae), fm)...)
		}
		names := c02Names(s)
		alpha := append(append([]string{}, c02Segs...), names...)
		prefixes := []string{s.prefix}
		if s.prefix != "" {
			prefixes = append(prefixes, "", s.prefix+"x", strings.ToUpper(s.prefix))
		}
		// exhaustive: every target of one or two segments (GET, no Accept-Encoding, no query)
		for _, a := range alpha {
			emit("GET", c02Target(s.prefix, []string{a}, ""), "")
			for _, b := range alpha {
				emit("GET", c02Target(s.prefix, []string{a, b}, ""), "")
			}
		}
		// every directory and file of the fixture x trailing slash x query x encoding
		fx := s.fixture()
		for _, e := range fx.entries {
			if !strings.HasPrefix(e.path, "/site") {
				continue
			}
			rel := strings.TrimPrefix(e.path, "/site")
			esc := (&url.URL{Path: rel}).EscapedPath()
			for _, tail := range []string{"", "/"} {
				for _, q := range c02Queries {
					emit("GET", s.prefix+esc+tail+q, "")
				}
				for _, ae := range c02AE {
					emit("GET", s.prefix+esc+tail, ae)
				}
				for _, m := range []string{"HEAD", "POST", "OPTIONS", "PROPFIND"} {
					emit(m, s.prefix+esc+tail, "gzip")
				}
				emit("GET", s.prefix+"/"+esc+tail, "")
				emit("GET", s.prefix+"//"+strings.TrimPrefix(esc, "/")+tail, "")
			}
		}
		// detours: every entry reached through every directory and back up, the files outside the
		// root through every directory and further up
		var relDirs []string
		for _, e := range fx.entries {
			if e.isDir && strings.HasPrefix(e.path, "/site/") {
				relDirs = append(relDirs, strings.TrimPrefix(e.path, "/site"))
			}
		}
		relDirs = append(relDirs, "/nonexistent")
		for _, e := range fx.entries {
			var rel string
			outside := !strings.HasPrefix(e.path, "/site/")
			if outside {
				rel = "/.." + e.path // e.g. /../outside.txt, /../site2/x.txt
			} else {
				rel = strings.TrimPrefix(e.path, "/site")
			}
			rel = (&url.URL{Path: rel}).EscapedPath()
			for i, d := range relDirs {
				esc := (&url.URL{Path: d}).EscapedPath()
				up := strings.Repeat("/..", strings.Count(d, "/"))
				if i%3 == 1 {
					up = strings.Repeat("/%2e%2e", strings.Count(d, "/"))
				} else if i%3 == 2 {
					up = strings.Repeat("/.%2E", strings.Count(d, "/"))
				}
				emit("GET", s.prefix+esc+up+rel, "")
				if outside {
					emit("GET", s.prefix+esc+up+"/.."+rel, "gzip")
					emit("GET", s.prefix+esc+up+strings.ReplaceAll(rel, "/", "%2f"), "")
					emit("GET", s.prefix+esc+up+strings.ReplaceAll(rel, "/", "\\"), "")
				}
			}
		}
		// seeded random: longer targets, all dimensions
		n := 1500
		if g.Thorough() {
			n = 6000
		}
		for i := 0; i < n; i++ {
			k := 1 + g.Rng.Intn(5)
			segs := make([]string, k)
			for j := range segs {
				if g.Rng.Chance(3, 5) {
					segs[j] = hx.Pick(g.Rng, names)
				} else {
					segs[j] = hx.Pick(g.Rng, alpha)
				}
			}
			q := hx.Pick(g.Rng, c02Queries)
			ae := ""
			if g.Rng.Chance(1, 2) {
				ae = hx.Pick(g.Rng, c02AE)
			}
			emit(hx.Pick(g.Rng, c02Methods), c02Target(hx.Pick(g.Rng, prefixes), segs, q), ae)
		}
	}
}

func c02Eval(f []string) (string, []string) {
	if len(f) != 10 {
		return "bad-case", nil
	}
	site, err := fsSiteFor(f[:6], func(T string) (string, error) {
		return fsCasketfileText(T, hx.UnHS(f[1]), hx.UnHS(f[3]), hx.UnHS(f[4]), hx.UnHS(f[5]), ""), nil
	})
	if err != nil {
		return "setup-error:" + err.Error(), nil
	}
	method, target, ae := f[6], hx.UnHS(f[7]), hx.UnHS(f[8])
	hdr := "Accept: application/json\r\n"
	if f[9] == "h" {
		hdr = "Accept: text/html\r\n"
	}
	if ae != "" {
		hdr += "Accept-Encoding: " + ae + "\r\n"
	}
	out, kind := site.roundTrip(method, target, hdr)
	tags := []string{"kind=" + kind, "method=" + method, "listfmt=" + f[9]}
	if kind == "S404" || kind == "S400" || kind == "S405" {
		tags = append(tags, "trivial-"+kind)
	}
	for _, probe := range []struct{ sub, tag string }{{"..", "dotdot"}, {"%2e", "pct-dot"}, {"%2E", "pct-dot"}, {"%2f", "pct-slash"}, {"//", "dblslash"}, {"\\", "backslash"}, {"%5c", "backslash"}, {"archive=", "archive-q"}} {
		if strings.Contains(target, probe.sub) {
			tags = append(tags, probe.tag)
		}
	}
	if ae != "" {
		tags = append(tags, "accept-encoding")
	}
	return out, tags
}

// ---------------------------------------------------------------------------
// small streams tying the modelled library functions to the real ones
// ---------------------------------------------------------------------------

func c02PathStrings(g *hx.Gen, maxLen int, n int) []string {
	var out []string
	alpha := []byte{'/', '.', 'a', 'B'}
	var rec func(cur []byte)
	rec = func(cur []byte) {
		out = append(out, string(cur))
		if len(cur) == maxLen {
			return
		}
		for _, c := range alpha {
			rec(append(cur, c))
		}
	}
	rec(nil)
	wide := []string{"/", ".", "..", "a", "B", "\\", "%", " ", "\x00", "\xff", "é", "K", "İ", "?", "#", ":", ";", "+", "~", "%2f", "sub", "secret", "SECRET"}
	for i := 0; i < n; i++ {
		var b strings.Builder
		for k := g.Rng.Intn(12); k > 0; k-- {
			b.WriteString(hx.Pick(g.Rng, wide))
		}
		out = append(out, b.String())
	}
	return out
}

func init() {
	hx.Register(&hx.Stream{ID: "C02", Name: "c02.serve", Gen: c02Gen, Eval: c02Eval, Setup: fsSetup, Teardown: fsTeardown})
	hx.Register(&hx.Stream{ID: "C02", Name: "c02.clean",
		Gen: func(g *hx.Gen) {
			n := 7
			if g.Thorough() {
				n = 9
			}
			for _, s := range c02PathStrings(g, n, 3000) {
				g.Case(hx.HS(s))
			}
		},
		Eval: func(f []string) (string, []string) {
			p := hx.UnHS(f[0])
			tag := "plain"
			if strings.Contains(p, "..") {
				tag = "dotdot"
			}
			return hx.HS(path.Clean(p)) + "\t" + hx.HS(path.Clean("/"+p)), []string{tag}
		}})
	hx.Register(&hx.Stream{ID: "C02", Name: "c02.match",
		Gen: func(g *hx.Gen) {
			ps := c02PathStrings(g, 5, 600)
			bases := []string{"", "/", "/a", "/a/", "a", "/A/b", "/a/../B", "//a", "/a//", ".", "/secret", "/Secret/", "/k", "/i"}
			for _, p := range ps {
				for _, b := range bases {
					g.Case(hx.HS(p), hx.HS(b))
				}
			}
		},
		Eval: func(f []string) (string, []string) {
			if httpserver.Path(hx.UnHS(f[0])).Matches(hx.UnHS(f[1])) {
				return "1", []string{"match"}
			}
			return "0", []string{"nomatch"}
		}})
	hx.Register(&hx.Stream{ID: "C02", Name: "c02.escape",
		Gen: func(g *hx.Gen) {
			for c := 0; c < 256; c++ {
				g.Case(hx.H([]byte{'/', byte(c)}))
			}
			for _, s := range c02PathStrings(g, 3, 1000) {
				g.Case(hx.HS(s))
			}
		},
		Eval: func(f []string) (string, []string) {
			u := url.URL{Path: hx.UnHS(f[0])}
			return hx.HS(u.EscapedPath()), []string{fmt.Sprintf("len=%d", len(f[0])/2)}
		}})
}
