//go:build c07 || c08

package streams

import (
	"fmt"
	"net"
	"os"
	"syscall"
)

// Loopback ports for the streams of C07 and C08, which need FIXED port numbers (a configuration names its port, and a
// reload must find "the same port" again).  Several harness processes may run at the same time (other checks, other
// checkouts): a port is only handed out while this process holds an exclusive lock on /tmp/verif-portlocks/<port>, so that
// two harnesses never use the same port; the locks of a case are released when the next case reserves its ports.

type verifPorts struct {
	cur   int
	locks []*os.File
}

func (v *verifPorts) release() {
	for _, f := range v.locks {
		f.Close() // closing drops the flock
	}
	v.locks = nil
}

// reserve returns a port below the ephemeral range that no other harness holds and that is free right now for TCP (and UDP)
func (v *verifPorts) reserve(udpToo bool) int {
	os.MkdirAll("/tmp/verif-portlocks", 0o777)
	if v.cur == 0 {
		v.cur = 20000 + (os.Getpid()*37)%11000
	}
	for i := 0; i < 40000; i++ {
		v.cur++
		if v.cur >= 32000 {
			v.cur = 20000
		}
		f, err := os.OpenFile(fmt.Sprintf("/tmp/verif-portlocks/%d", v.cur), os.O_CREATE|os.O_RDWR, 0o666)
		if err != nil {
			continue
		}
		if syscall.Flock(int(f.Fd()), syscall.LOCK_EX|syscall.LOCK_NB) != nil {
			f.Close()
			continue
		}
		ln, err := net.Listen("tcp", fmt.Sprintf("127.0.0.1:%d", v.cur))
		if err != nil {
			f.Close()
			continue
		}
		ln.Close()
		if udpToo {
			ua, _ := net.ResolveUDPAddr("udp", fmt.Sprintf("127.0.0.1:%d", v.cur))
			pc, err := net.ListenUDP("udp", ua)
			if err != nil {
				f.Close()
				continue
			}
			pc.Close()
		}
		v.locks = append(v.locks, f)
		return v.cur
	}
	panic("no free port")
}
