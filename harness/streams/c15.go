//go:build c15

package streams

import (
	"context"
	"crypto/ecdsa"
	"crypto/elliptic"
	crand "crypto/rand"
	"crypto/x509"
	"crypto/x509/pkix"
	"encoding/pem"
	"fmt"
	"io"
	"log"
	"math/big"
	"net"
	"net/http"
	"net/http/httptest"
	"net/url"
	"os"
	"path/filepath"
	"strings"
	"sync"
	"sync/atomic"
	"syscall"
	"time"

	"github.com/caddyserver/certmagic"
	"github.com/tmpim/casket"
	_ "github.com/tmpim/casket/caskethttp" // registers the http server type and every directive
	"github.com/tmpim/casket/caskethttp/httpserver"
	"github.com/tmpim/casket/caskettls"

	"verifharness/hx"
)

// ---------------------------------------------------------------------------
// C15 — automatic HTTPS exactly for qualifying sites, with redirects.
//
// Byte strings travel "q-encoded": bytes in [A-Za-z0-9._:*/\-\[\]] literally, every other
// byte as %XX (upper-case hex); readable in replays, unambiguous with the separators used.
//
// The streams c15.qualify, c15.addr, c15.sites, c15.activate and c15.redirect take a leading field `<http>/<https>`: the configured
// HTTP / HTTPS ports (certmagic.HTTPPort / HTTPSPort, i.e. the flags -http-port / -https-port) under which the case is evaluated.
//
//   c15.host      hostq                       -> L=<IsLoopback> I=<IsInternal> Q=<SubjectQualifiesForPublicCert> ip=<net.ParseIP(host).String() or ->
//   c15.qualify   scheme host port listen bits email
//                    bits = manual selfsigned ondemand manager  (0/1 each)
//                                             -> 1|0  (TLS.Managed after markQualifiedForAutoHTTPS on a hand-made config)
//   c15.addr      addrq                       -> scheme|host|port|path|key|vhost   or   error:<class>
//                                                (standardizeAddress, then Normalize, Key, VHost)
//   c15.sites     blocks                      -> site;site;…   or   error:<class>
//                    blocks = block;block;…   block = addr[,addr…]|bind|tls
//                    tls    = dir[&dir…]   several `tls` directives in the block, in Casketfile order (setupTLS loops over them on one config)
//                    dir    = none | off | email | self | manual (tls cert key) | load (tls { load dir }) | block (must_staple)
//                             | proto (protocols) | ciph (ciphers) | snip (`import` of a snippet holding tls { protocols … }),
//                             then optional +nr (no_redirect) +od (on-demand: ask)
//                    site   = d=<scheme>|<host>|<port>|<listen>|<email>|<bits E manual self noredir ondemand>
//                             |m=<Managed after mark>|e=<port>|<Enabled>  (after enableAutoHTTPS)|f=<scheme>|<host>|<port>|<Enabled>   (after MakeServers)
//                             |r=<Location answered by the synthesised redirect handler to GET http://probe.test/p?q=1, or ->
//                 The Casketfile goes through the real front end (parser, InspectServerBlocks, every directive's setup
//                 function; parsing callbacks skipped), then the pure stages of activateHTTPS in its order with
//                 enableAutoHTTPS(…, false), then the real MakeServers.  Nothing contacts a CA.
//   c15.inspect   addr,addr,…                 -> ok <key>|<site string>;…   or   error:<class>
//                 every address as the key of its own (empty) server block, through the real loader and the real
//                 InspectServerBlocks: the duplicate bookkeeping ("duplicate site key", "duplicate site address");
//                 key = Address.Key() of the stored address, site string = Address.String() with the default port filled in.
//   c15.activate  blocks                      -> same answer format as c15.sites
//                 The same Casketfile front end, but then the REAL activateHTTPS, reached through the real parsing-callback
//                 registry (the callbacks registered for "tls"), followed by the real MakeServers.  So that nothing can reach
//                 a CA: every site's certmagic manager (and certmagic.Default) gets a dummy issuer that refuses to issue and a
//                 storage in a temp dir, pre-seeded with a long-lived self-signed certificate for every declared host — with
//                 the certificate "already in storage" ObtainCertAsync is a no-op, enableAutoHTTPS(…, true) loads it from disk,
//                 RenewManagedCertificates finds nothing to renew; the certificates name no OCSP responder.
//   c15.redirect  redirport hostheader target -> <status> <Location>    (redirPlaintextHost's handler on a request read by http.ReadRequest)
// ---------------------------------------------------------------------------

const c15Safe = "ABCDEFGHIJKLMNOPQRSTUVWXYZabcdefghijklmnopqrstuvwxyz0123456789._:*/-[]"

func c15Q(s string) string {
	var b strings.Builder
	for i := 0; i < len(s); i++ {
		if strings.IndexByte(c15Safe, s[i]) >= 0 {
			b.WriteByte(s[i])
		} else {
			fmt.Fprintf(&b, "%%%02X", s[i])
		}
	}
	return b.String()
}

func c15UnQ(s string) string {
	var b strings.Builder
	for i := 0; i < len(s); i++ {
		if s[i] == '%' && i+2 < len(s) {
			hi, lo := strings.IndexByte("0123456789ABCDEF", s[i+1]), strings.IndexByte("0123456789ABCDEF", s[i+2])
			if hi < 0 || lo < 0 {
				panic("bad q-encoded field: " + s)
			}
			b.WriteByte(byte(hi<<4 | lo))
			i += 2
		} else if s[i] == '%' {
			panic("bad q-encoded field: " + s)
		} else {
			b.WriteByte(s[i])
		}
	}
	return b.String()
}

// ---- the configured HTTP / HTTPS ports (certmagic.HTTPPort, certmagic.HTTPSPort: the -http-port / -https-port flags) ----
//
// They are process-global.  Cases that use the same pair may run concurrently; a case with another pair waits until the
// running ones are done, then switches the globals.  The stream's Teardown puts the defaults back.

var c15Ports struct {
	mu         sync.Mutex
	cond       *sync.Cond
	http, tls  int
	active     int
	defHTTP    int
	defHTTPS   int
	haveDefObs bool
}

func c15ParsePorts(s string) (int, int, bool) {
	var h, t int
	if n, err := fmt.Sscanf(s, "%d/%d", &h, &t); n != 2 || err != nil || h <= 0 || t <= 0 || h > 65535 || t > 65535 {
		return 0, 0, false
	}
	return h, t, true
}

func c15AcquirePorts(h, t int) {
	c15Ports.mu.Lock()
	if c15Ports.cond == nil {
		c15Ports.cond = sync.NewCond(&c15Ports.mu)
	}
	if !c15Ports.haveDefObs {
		c15Ports.defHTTP, c15Ports.defHTTPS, c15Ports.haveDefObs = certmagic.HTTPPort, certmagic.HTTPSPort, true
	}
	for c15Ports.active > 0 && (c15Ports.http != h || c15Ports.tls != t) {
		c15Ports.cond.Wait()
	}
	if c15Ports.active == 0 {
		c15Ports.http, c15Ports.tls = h, t
		certmagic.HTTPPort, certmagic.HTTPSPort = h, t
	}
	c15Ports.active++
	c15Ports.mu.Unlock()
}

func c15ReleasePorts() {
	c15Ports.mu.Lock()
	c15Ports.active--
	if c15Ports.active == 0 {
		c15Ports.cond.Broadcast()
	}
	c15Ports.mu.Unlock()
}

func c15RestorePorts() {
	c15Ports.mu.Lock()
	if c15Ports.haveDefObs {
		certmagic.HTTPPort, certmagic.HTTPSPort = c15Ports.defHTTP, c15Ports.defHTTPS
	}
	c15Ports.mu.Unlock()
}

// c15WithPorts runs eval on the fields after the leading ports field, with the globals set.
func c15WithPorts(eval func(f []string) (string, []string)) func(f []string) (string, []string) {
	return func(f []string) (string, []string) {
		if len(f) < 1 {
			return "bad-case", nil
		}
		h, t, ok := c15ParsePorts(f[0])
		if !ok {
			return "bad-case", nil
		}
		c15AcquirePorts(h, t)
		defer c15ReleasePorts()
		out, tags := eval(f[1:])
		if h != 80 || t != 443 {
			tags = append(tags, "moved-ports")
		}
		return out, tags
	}
}

func c15Bit(b bool) string {
	if b {
		return "1"
	}
	return "0"
}

// ---- c15.host ----

func c15HostEval(f []string) (string, []string) {
	if len(f) != 1 {
		return "bad-case", nil
	}
	h := c15UnQ(f[0])
	ip := "-"
	if p := net.ParseIP(h); p != nil {
		ip = c15Q(p.String())
	}
	l, in, q := casket.IsLoopback(h), casket.IsInternal(h), certmagic.SubjectQualifiesForPublicCert(h)
	tags := []string{}
	switch {
	case ip != "-":
		tags = append(tags, "ip")
	case q && !l && !in:
		tags = append(tags, "public-name")
	case q:
		tags = append(tags, "certmagic-ok-casket-local")
	default:
		tags = append(tags, "not-public")
	}
	if l {
		tags = append(tags, "loopback")
	}
	if in {
		tags = append(tags, "internal")
	}
	return fmt.Sprintf("L=%s I=%s Q=%s ip=%s", c15Bit(l), c15Bit(in), c15Bit(q), ip), tags
}

// ---- c15.qualify ----

func c15QualifyEval(f []string) (string, []string) {
	if len(f) != 6 || len(f[4]) != 4 {
		return "bad-case", nil
	}
	tc := &caskettls.Config{
		Manual:     f[4][0] == '1',
		SelfSigned: f[4][1] == '1',
		ACMEEmail:  c15UnQ(f[5]),
	}
	if f[4][3] == '1' {
		tc.Manager = &certmagic.Config{}
		if f[4][2] == '1' {
			tc.Manager.OnDemand = new(certmagic.OnDemandConfig)
		}
	}
	cfg := &httpserver.SiteConfig{
		Addr:       httpserver.Address{Scheme: c15UnQ(f[0]), Host: c15UnQ(f[1]), Port: c15UnQ(f[2])},
		ListenHost: c15UnQ(f[3]),
		TLS:        tc,
	}
	httpserver.VerifC15Mark([]*httpserver.SiteConfig{cfg})
	tags := []string{"managed=" + c15Bit(tc.Managed)}
	if f[4] != "0001" || f[5] != "" {
		tags = append(tags, "tls-variant")
	}
	if f[3] != "" {
		tags = append(tags, "bind")
	}
	return c15Bit(tc.Managed), tags
}

// ---- c15.addr ----

// c15InAddrDomain is the domain guard of the address model: printable ASCII without '#', '?', '%', '@'
// (no query, fragment, escapes or userinfo for net/url.Parse).  Same guard as `inAddrDomain` in Lean.
func c15InAddrDomain(s string) bool {
	for i := 0; i < len(s); i++ {
		c := s[i]
		if c < 0x21 || c > 0x7e || c == '#' || c == '?' || c == '%' || c == '@' {
			return false
		}
	}
	return true
}

func c15ErrClass(err error) string {
	m := err.Error()
	switch {
	case strings.Contains(m, "scheme and port violate convention"):
		return "error:convention"
	case strings.Contains(m, "duplicate site key"):
		return "error:dupkey"
	case strings.Contains(m, "duplicate site address"), strings.Contains(m, "is a duplicate of"):
		return "error:dupaddr"
	case strings.HasPrefix(m, "parse:"):
		return "error:casketfile"
	case strings.HasPrefix(m, "directives:"):
		return "error:directive"
	case strings.Contains(m, "parse "), strings.Contains(m, "invalid"):
		return "error:url"
	}
	return "error:other"
}

func c15AddrEval(f []string) (string, []string) {
	if len(f) != 1 {
		return "bad-case", nil
	}
	in := c15UnQ(f[0])
	if !c15InAddrDomain(in) {
		return "out-of-model", []string{"trivial-out-of-model"}
	}
	a, err := httpserver.VerifC15Standardize(in)
	if err != nil {
		c := c15ErrClass(err)
		return c, []string{c}
	}
	a = a.Normalize()
	tags := []string{"ok"}
	switch a.Scheme {
	case "":
	case "http", "https":
		tags = append(tags, "scheme="+a.Scheme)
	default:
		tags = append(tags, "scheme=other")
	}
	if a.Port != "" {
		tags = append(tags, "port")
	}
	if net.ParseIP(a.Host) != nil {
		tags = append(tags, "ip-host")
	}
	if a.Path != "" {
		tags = append(tags, "path")
	}
	return strings.Join([]string{c15Q(a.Scheme), c15Q(a.Host), c15Q(a.Port), c15Q(a.Path), c15Q(a.Key()), c15Q(a.VHost())}, "|"), tags
}

// ---- c15.sites ----

var c15Dir string // temp dir holding a certificate and key for `tls cert key`

var c15SavedStderr = -1

func c15Setup() error {
	log.SetOutput(io.Discard)
	casket.Quiet = true
	// certmagic's default zap logger writes two lines per certificate cache to fd 2; silence them
	// (VERIF_TRACE keeps them).  Panics of the code under test are caught by the framework, not printed.
	if os.Getenv("VERIF_TRACE") == "" && c15SavedStderr < 0 {
		if null, err := os.OpenFile(os.DevNull, os.O_WRONLY, 0); err == nil {
			if saved, err := syscall.Dup(2); err == nil {
				if syscall.Dup3(int(null.Fd()), 2, 0) == nil {
					c15SavedStderr = saved
				} else {
					syscall.Close(saved)
				}
			}
			null.Close()
		}
	}
	if c15Dir != "" {
		return nil
	}
	d, err := os.MkdirTemp("", "verifc15")
	if err != nil {
		return err
	}
	key, err := ecdsa.GenerateKey(elliptic.P256(), crand.Reader)
	if err != nil {
		return err
	}
	tpl := &x509.Certificate{SerialNumber: big.NewInt(1), Subject: pkix.Name{CommonName: "verif"},
		NotBefore: time.Now().Add(-time.Hour), NotAfter: time.Now().Add(24 * time.Hour),
		DNSNames: []string{"verif.test"}}
	der, err := x509.CreateCertificate(crand.Reader, tpl, tpl, &key.PublicKey, key)
	if err != nil {
		return err
	}
	kb, err := x509.MarshalECPrivateKey(key)
	if err != nil {
		return err
	}
	if err := os.WriteFile(filepath.Join(d, "cert.pem"), pem.EncodeToMemory(&pem.Block{Type: "CERTIFICATE", Bytes: der}), 0o600); err != nil {
		return err
	}
	if err := os.WriteFile(filepath.Join(d, "key.pem"), pem.EncodeToMemory(&pem.Block{Type: "EC PRIVATE KEY", Bytes: kb}), 0o600); err != nil {
		return err
	}
	// `tls { load <dir> }`: a directory with one .pem bundle (certificate and key in one file)
	if err := os.Mkdir(filepath.Join(d, "load"), 0o700); err != nil {
		return err
	}
	bundle := append(pem.EncodeToMemory(&pem.Block{Type: "CERTIFICATE", Bytes: der}), pem.EncodeToMemory(&pem.Block{Type: "EC PRIVATE KEY", Bytes: kb})...)
	if err := os.WriteFile(filepath.Join(d, "load", "bundle.pem"), bundle, 0o600); err != nil {
		return err
	}
	c15Dir = d
	return nil
}

func c15Teardown() {
	if c15SavedStderr >= 0 {
		syscall.Dup3(c15SavedStderr, 2, 0)
		syscall.Close(c15SavedStderr)
		c15SavedStderr = -1
	}
	if c15Dir != "" {
		os.RemoveAll(c15Dir)
		c15Dir = ""
	}
}

// c15TLSLines renders the tls field of a block as Casketfile lines: one token, or several joined with '&' — several
// `tls` directives in the same site block, in that order (setupTLS runs once and loops over all of them).
func c15TLSLines(vs string) (string, bool) {
	var b strings.Builder
	for _, v := range strings.Split(vs, "&") {
		t, ok := c15TLSLine(v)
		if !ok {
			return "", false
		}
		b.WriteString(t)
	}
	return b.String(), true
}

// c15SnippetName is the snippet the variant `snip` imports; c15Casketfile defines it at the top of the file when used.
const c15SnippetName = "tlsopts"

// c15TLSLine renders one tls variant token as one tls directive.
func c15TLSLine(v string) (string, bool) {
	parts := strings.Split(v, "+")
	nr, od := false, false
	for _, p := range parts[1:] {
		switch p {
		case "nr":
			nr = true
		case "od":
			od = true
		default:
			return "", false
		}
	}
	var head string
	var sub []string
	switch parts[0] {
	case "none":
		return "", true
	case "off":
		head = "tls off"
	case "email":
		head = "tls admin@verif.test"
	case "self":
		head = "tls self_signed"
	case "manual":
		head = "tls " + filepath.Join(c15Dir, "cert.pem") + " " + filepath.Join(c15Dir, "key.pem")
	case "load":
		head = "tls"
		sub = append(sub, "load "+filepath.Join(c15Dir, "load"))
	case "block":
		head = "tls"
		sub = append(sub, "must_staple")
	case "proto":
		head = "tls"
		sub = append(sub, "protocols tls1.2 tls1.3")
	case "ciph":
		head = "tls"
		sub = append(sub, "ciphers ECDHE-ECDSA-AES256-GCM-SHA384 ECDHE-RSA-AES256-GCM-SHA384")
	case "snip":
		// options that come from a shared snippet: `import tlsopts` splices `tls { protocols … }` into the block
		if nr || od {
			return "", false
		}
		return "  import " + c15SnippetName + "\n", true
	default:
		return "", false
	}
	if nr {
		sub = append(sub, "no_redirect")
	}
	if od {
		sub = append(sub, "ask http://127.0.0.1:1/ask")
	}
	if len(sub) == 0 {
		return "  " + head + "\n", true
	}
	return "  " + head + " {\n    " + strings.Join(sub, "\n    ") + "\n  }\n", true
}

func c15Casketfile(blocks string) (string, int, bool) {
	var b strings.Builder
	n := 0
	if strings.Contains(blocks, "snip") {
		for _, blk := range strings.Split(blocks, ";") {
			if p := strings.Split(blk, "|"); len(p) == 3 && strings.Contains(p[2], "snip") {
				b.WriteString("(" + c15SnippetName + ") {\n  tls {\n    protocols tls1.2 tls1.3\n  }\n}\n")
				break
			}
		}
	}
	for _, blk := range strings.Split(blocks, ";") {
		p := strings.Split(blk, "|")
		if len(p) != 3 {
			return "", 0, false
		}
		var keys []string
		for _, k := range strings.Split(p[0], ",") {
			keys = append(keys, c15UnQ(k))
			n++
		}
		b.WriteString(strings.Join(keys, ", "))
		b.WriteString(" {\n")
		if p[1] != "" {
			b.WriteString("  bind " + c15UnQ(p[1]) + "\n")
		}
		t, ok := c15TLSLines(p[2])
		if !ok {
			return "", 0, false
		}
		b.WriteString(t)
		b.WriteString("}\n")
	}
	return b.String(), n, true
}

// c15MultiTLSTags: coverage tags for blocks with several tls directives.
func c15MultiTLSTags(blocks string) []string {
	var tags []string
	seen := map[string]bool{}
	add := func(t string) {
		if !seen[t] {
			seen[t] = true
			tags = append(tags, t)
		}
	}
	for _, blk := range strings.Split(blocks, ";") {
		p := strings.Split(blk, "|")
		if len(p) != 3 || !strings.Contains(p[2], "&") {
			continue
		}
		add("several-tls-directives")
		vs := strings.Split(p[2], "&")
		for i, v := range vs {
			base := strings.Split(v, "+")[0]
			if (base == "manual" || base == "load") && i+1 < len(vs) {
				add("own-certificate-then-more-tls")
			}
			if base == "snip" {
				add("tls-from-imported-snippet")
			}
			if base == "off" && i+1 < len(vs) {
				add("tls-off-then-more-tls")
			}
		}
	}
	return tags
}

func c15ProbeLocation(cfg *httpserver.SiteConfig) string {
	mw := httpserver.VerifC15Middleware(cfg)
	if len(mw) != 1 {
		return fmt.Sprintf("middleware-count-%d", len(mw))
	}
	h := mw[0](nil)
	req, err := http.NewRequest("GET", "http://probe.test/p?q=1", nil)
	if err != nil {
		return "probe-error"
	}
	rec := httptest.NewRecorder()
	if _, err := h.ServeHTTP(rec, req); err != nil {
		return "probe-handler-error"
	}
	return c15Q(rec.Header().Get("Location"))
}

func c15SitesEval(f []string) (string, []string) {
	if len(f) != 1 {
		return "bad-case", nil
	}
	text, _, ok := c15Casketfile(f[0])
	if !ok {
		return "bad-case", nil
	}
	for _, blk := range strings.Split(f[0], ";") {
		for _, k := range strings.Split(strings.Split(blk, "|")[0], ",") {
			if !c15InAddrDomain(c15UnQ(k)) {
				return "out-of-model", []string{"trivial-out-of-model"}
			}
		}
	}
	inst, ctx, err := casket.VerifC15Load(casket.CasketfileInput{Filepath: "Testfile", Contents: []byte(text), ServerTypeName: "http"})
	defer inst.ShutdownCallbacks()
	if err != nil {
		c := c15ErrClass(err)
		if os.Getenv("VERIF_TRACE") != "" {
			fmt.Fprintln(os.Stderr, "c15.sites:", err)
		}
		return c, []string{"trivial-" + c}
	}
	cfgs := httpserver.VerifC15Configs(ctx)
	n := len(cfgs)
	decl := make([]string, n)
	for i, c := range cfgs {
		od := c.TLS.Manager != nil && c.TLS.Manager.OnDemand != nil
		decl[i] = "d=" + strings.Join([]string{c15Q(c.Addr.Scheme), c15Q(c.Addr.Host), c15Q(c.Addr.Port), c15Q(c.ListenHost), c15Q(c.TLS.ACMEEmail),
			c15Bit(c.TLS.Enabled) + c15Bit(c.TLS.Manual) + c15Bit(c.TLS.SelfSigned) + c15Bit(c.TLS.NoRedirect) + c15Bit(od)}, "|")
	}
	httpserver.VerifC15Mark(cfgs)
	managed := make([]string, n)
	nManaged := 0
	for i, c := range cfgs {
		managed[i] = "m=" + c15Bit(c.TLS.Managed)
		if c.TLS.Managed {
			nManaged++
		}
	}
	if err := httpserver.VerifC15Enable(cfgs); err != nil {
		return "error:enable", nil
	}
	enabled := make([]string, n)
	for i, c := range cfgs {
		enabled[i] = "e=" + c15Q(c.Addr.Port) + "|" + c15Bit(c.TLS.Enabled)
	}
	all := httpserver.VerifC15Redirects(cfgs)
	httpserver.VerifC15SetConfigs(ctx, all)
	_, mkErr := httpserver.VerifC15MakeServers(ctx)
	var out []string
	nTLS := 0
	for i, c := range all {
		fin := "f=" + strings.Join([]string{c15Q(c.Addr.Scheme), c15Q(c.Addr.Host), c15Q(c.Addr.Port), c15Bit(c.TLS.Enabled)}, "|")
		if c.TLS.Enabled {
			nTLS++
		}
		if i < n {
			out = append(out, decl[i]+"|"+managed[i]+"|"+enabled[i]+"|"+fin+"|r=-")
		} else {
			out = append(out, "d=-|m=-|"+fin+"|r="+c15ProbeLocation(c))
		}
	}
	tags := []string{fmt.Sprintf("sites=%d", n), fmt.Sprintf("redirects=%d", len(all)-n)}
	tags = append(tags, c15MultiTLSTags(f[0])...)
	if nManaged > 0 {
		tags = append(tags, "some-managed")
	}
	if nTLS > 0 && nTLS < len(all) {
		tags = append(tags, "mixed-tls")
	}
	if nTLS == 0 {
		tags = append(tags, "trivial-no-tls")
	}
	if mkErr != nil {
		switch {
		case strings.Contains(mkErr.Error(), "cannot multiplex"):
			tags = append(tags, "makeservers-multiplex-error")
		default:
			tags = append(tags, "makeservers-other-error")
		}
	}
	return strings.Join(out, ";"), tags
}

// ---- c15.inspect ----

func c15InspectEval(f []string) (string, []string) {
	if len(f) != 1 {
		return "bad-case", nil
	}
	var b strings.Builder
	ks := strings.Split(f[0], ",")
	for _, k := range ks {
		a := c15UnQ(k)
		if !c15InAddrDomain(a) || a == "" {
			return "out-of-model", []string{"trivial-out-of-model"}
		}
		b.WriteString(a + " {\n}\n")
	}
	inst, ctx, err := casket.VerifC15Load(casket.CasketfileInput{Filepath: "Testfile", Contents: []byte(b.String()), ServerTypeName: "http"})
	defer inst.ShutdownCallbacks()
	if err != nil {
		c := c15ErrClass(err)
		tags := []string{c, fmt.Sprintf("n=%d", len(ks))}
		if c != "error:dupkey" && c != "error:dupaddr" {
			tags = append(tags, "trivial-not-a-duplicate-error")
		}
		return c, tags
	}
	var out []string
	for _, c := range httpserver.VerifC15Configs(ctx) {
		filled := c.Addr
		if filled.Port == "" {
			filled.Port = httpserver.Port
		}
		out = append(out, c15Q(c.Addr.Key())+"|"+c15Q(filled.String()))
	}
	return "ok " + strings.Join(out, ";"), []string{"accepted", fmt.Sprintf("n=%d", len(ks))}
}

// ---- c15.activate ----

// c15NoIssuer is installed as the only issuer of every certmagic config: it never talks to anybody.
type c15NoIssuer struct{}

var c15IssuerCalls int64

func (c15NoIssuer) Issue(ctx context.Context, csr *x509.CertificateRequest) (*certmagic.IssuedCertificate, error) {
	atomic.AddInt64(&c15IssuerCalls, 1)
	return nil, certmagic.ErrNoRetry{Err: fmt.Errorf("verification harness: no certificate is ever issued")}
}
func (c15NoIssuer) IssuerKey() string { return "verif-no-issuer" }

var (
	c15Storage    *certmagic.FileStorage
	c15SeedMu     sync.Mutex
	c15Seeded     = map[string]bool{}
	c15SeedKey    *ecdsa.PrivateKey
	c15SeedKeyPEM []byte
	c15OldDefault struct {
		issuers []certmagic.Issuer
		storage certmagic.Storage
	}
)

func c15ActivateSetup() error {
	if err := c15Setup(); err != nil {
		return err
	}
	c15Storage = &certmagic.FileStorage{Path: filepath.Join(c15Dir, "storage")}
	key, err := ecdsa.GenerateKey(elliptic.P256(), crand.Reader)
	if err != nil {
		return err
	}
	kb, err := x509.MarshalECPrivateKey(key)
	if err != nil {
		return err
	}
	c15SeedKey, c15SeedKeyPEM = key, pem.EncodeToMemory(&pem.Block{Type: "EC PRIVATE KEY", Bytes: kb})
	c15OldDefault.issuers, c15OldDefault.storage = certmagic.Default.Issuers, certmagic.Default.Storage
	certmagic.Default.Issuers = []certmagic.Issuer{c15NoIssuer{}}
	certmagic.Default.Storage = c15Storage
	return nil
}

func c15ActivateTeardown() {
	certmagic.Default.Issuers, certmagic.Default.Storage = c15OldDefault.issuers, c15OldDefault.storage
	c15Seeded = map[string]bool{}
	c15Teardown()
}

// c15Seed puts a certificate for name into the temp storage (once), the way certmagic stores an obtained one.
func c15Seed(name string) {
	if name == "" || !certmagic.SubjectQualifiesForCert(name) {
		return
	}
	c15SeedMu.Lock()
	defer c15SeedMu.Unlock()
	if c15Seeded[name] {
		return
	}
	c15Seeded[name] = true
	tpl := &x509.Certificate{SerialNumber: big.NewInt(2), Subject: pkix.Name{CommonName: "verif"},
		NotBefore: time.Now().Add(-time.Hour), NotAfter: time.Now().Add(90 * 24 * time.Hour)}
	if ip := net.ParseIP(name); ip != nil {
		tpl.IPAddresses = []net.IP{ip}
	} else {
		tpl.DNSNames = []string{name}
	}
	der, err := x509.CreateCertificate(crand.Reader, tpl, tpl, &c15SeedKey.PublicKey, c15SeedKey)
	if err != nil {
		return
	}
	ik := c15NoIssuer{}.IssuerKey()
	ctx := context.Background()
	c15Storage.Store(ctx, certmagic.StorageKeys.SiteCert(ik, name), pem.EncodeToMemory(&pem.Block{Type: "CERTIFICATE", Bytes: der}))
	c15Storage.Store(ctx, certmagic.StorageKeys.SitePrivateKey(ik, name), c15SeedKeyPEM)
	c15Storage.Store(ctx, certmagic.StorageKeys.SiteMeta(ik, name), []byte(fmt.Sprintf(`{"sans":[%q],"issuer_data":null}`, name)))
}

func c15ActivateEval(f []string) (string, []string) {
	if len(f) != 1 {
		return "bad-case", nil
	}
	text, _, ok := c15Casketfile(f[0])
	if !ok {
		return "bad-case", nil
	}
	for _, blk := range strings.Split(f[0], ";") {
		for _, k := range strings.Split(strings.Split(blk, "|")[0], ",") {
			if !c15InAddrDomain(c15UnQ(k)) {
				return "out-of-model", []string{"trivial-out-of-model"}
			}
		}
	}
	inst, ctx, err := casket.VerifC15Load(casket.CasketfileInput{Filepath: "Testfile", Contents: []byte(text), ServerTypeName: "http"})
	defer inst.ShutdownCallbacks()
	if err != nil {
		c := c15ErrClass(err)
		return c, []string{"trivial-" + c}
	}
	cfgs := httpserver.VerifC15Configs(ctx)
	n := len(cfgs)
	decl := make([]string, n)
	for i, c := range cfgs {
		// nothing may reach a CA: dummy issuer, temp storage, certificate already "obtained"
		if c.TLS.Manager != nil {
			c.TLS.Manager.Issuers = []certmagic.Issuer{c15NoIssuer{}}
			c.TLS.Manager.Storage = c15Storage
		}
		c15Seed(c.TLS.Hostname)
		od := c.TLS.Manager != nil && c.TLS.Manager.OnDemand != nil
		decl[i] = "d=" + strings.Join([]string{c15Q(c.Addr.Scheme), c15Q(c.Addr.Host), c15Q(c.Addr.Port), c15Q(c.ListenHost), c15Q(c.TLS.ACMEEmail),
			c15Bit(c.TLS.Enabled) + c15Bit(c.TLS.Manual) + c15Bit(c.TLS.SelfSigned) + c15Bit(c.TLS.NoRedirect) + c15Bit(od)}, "|")
	}
	// the real thing: the parsing callbacks registered for the tls directive, i.e. activateHTTPS
	if err := casket.VerifC15RunParsingCallbacks(inst, "tls"); err != nil {
		if os.Getenv("VERIF_TRACE") != "" {
			fmt.Fprintln(os.Stderr, "c15.activate:", err)
		}
		return "error:activate", []string{"activate-error"}
	}
	if atomic.LoadInt64(&c15IssuerCalls) > 0 {
		// cannot happen on a tree that obtains certificates for managed sites only (they are all in storage)
		return "ISSUER-CALLED", []string{"issuer-called"}
	}
	all := httpserver.VerifC15Configs(ctx)
	if len(all) < n {
		return "error:configs-lost", nil
	}
	// makePlaintextRedirects does not touch the declared configs: port and Enabled are still as enableAutoHTTPS left them
	enabled := make([]string, n)
	for i := 0; i < n; i++ {
		enabled[i] = "e=" + c15Q(all[i].Addr.Port) + "|" + c15Bit(all[i].TLS.Enabled)
	}
	_, mkErr := httpserver.VerifC15MakeServers(ctx)
	var out []string
	nTLS, nManaged := 0, 0
	for i, c := range all {
		fin := "f=" + strings.Join([]string{c15Q(c.Addr.Scheme), c15Q(c.Addr.Host), c15Q(c.Addr.Port), c15Bit(c.TLS.Enabled)}, "|")
		if c.TLS.Enabled {
			nTLS++
		}
		if i < n {
			if c != cfgs[i] {
				return "error:configs-replaced", nil
			}
			if c.TLS.Managed {
				nManaged++
			}
			out = append(out, decl[i]+"|m="+c15Bit(c.TLS.Managed)+"|"+enabled[i]+"|"+fin+"|r=-")
		} else {
			out = append(out, "d=-|m=-|"+fin+"|r="+c15ProbeLocation(c))
		}
	}
	tags := []string{fmt.Sprintf("sites=%d", n), fmt.Sprintf("redirects=%d", len(all)-n)}
	tags = append(tags, c15MultiTLSTags(f[0])...)
	if nManaged > 0 {
		tags = append(tags, "some-managed")
	}
	if nTLS == 0 {
		tags = append(tags, "trivial-no-tls")
	}
	if mkErr != nil {
		tags = append(tags, "makeservers-error")
	}
	return strings.Join(out, ";"), tags
}

// ---- c15.redirect ----

func c15RedirectEval(f []string) (string, []string) {
	if len(f) != 3 {
		return "bad-case", nil
	}
	port, hostHdr, target := c15UnQ(f[0]), c15UnQ(f[1]), c15UnQ(f[2])
	// the model covers origin-form targets and "*" (what browsers and proxies send to an origin server)
	if target != "*" && !strings.HasPrefix(target, "/") {
		return "out-of-model", []string{"trivial-out-of-model"}
	}
	cfg := httpserver.VerifC15RedirPlaintextHost(&httpserver.SiteConfig{
		Addr: httpserver.Address{Host: "site.test", Port: port},
		TLS:  new(caskettls.Config),
	})
	mw := httpserver.VerifC15Middleware(cfg)
	if len(mw) != 1 {
		return "setup-error:middleware", nil
	}
	// r.URL exactly as net/http's server builds it for a GET request line
	u, err := url.ParseRequestURI(target)
	if err != nil {
		return "unreadable-request", []string{"trivial-unreadable-request"}
	}
	req := &http.Request{Method: "GET", URL: u, Host: hostHdr, RequestURI: target, Proto: "HTTP/1.1", ProtoMajor: 1, ProtoMinor: 1, Header: http.Header{}}
	rec := httptest.NewRecorder()
	st, herr := mw[0](nil).ServeHTTP(rec, req)
	if herr != nil || st != 0 {
		return fmt.Sprintf("handler-returned %d %v", st, herr != nil), []string{"handler-error"}
	}
	tags := []string{"status=" + fmt.Sprint(rec.Code)}
	if port == "" || port == "443" {
		tags = append(tags, "default-port")
	} else {
		tags = append(tags, "explicit-port")
	}
	if strings.Contains(hostHdr, ":") {
		tags = append(tags, "host-with-colon")
	}
	if strings.HasPrefix(hostHdr, "[") {
		tags = append(tags, "host-ipv6-literal")
	}
	if strings.Contains(target, "?") {
		tags = append(tags, "query")
	}
	if strings.Contains(target, "%") {
		tags = append(tags, "escapes")
	}
	if u.RawPath != "" {
		tags = append(tags, "rawpath")
	}
	return fmt.Sprintf("%d %s", rec.Code, c15Q(rec.Header().Get("Location"))), tags
}

func init() {
	hx.Register(&hx.Stream{ID: "C15", Name: "c15.host", Gen: c15HostGen, Eval: c15HostEval})
	hx.Register(&hx.Stream{ID: "C15", Name: "c15.qualify", Gen: c15QualifyGen, Eval: c15WithPorts(c15QualifyEval), Teardown: c15RestorePorts})
	hx.Register(&hx.Stream{ID: "C15", Name: "c15.addr", Gen: c15AddrGen, Eval: c15WithPorts(c15AddrEval), Teardown: c15RestorePorts})
	hx.Register(&hx.Stream{ID: "C15", Name: "c15.sites", Gen: c15SitesGen, Eval: c15WithPorts(c15SitesEval), Setup: c15Setup, Teardown: func() { c15RestorePorts(); c15Teardown() }})
	hx.Register(&hx.Stream{ID: "C15", Name: "c15.inspect", Gen: c15InspectGen, Eval: c15InspectEval, Setup: c15Setup, Teardown: c15Teardown})
	hx.Register(&hx.Stream{ID: "C15", Name: "c15.activate", Gen: c15ActivateGen, Eval: c15WithPorts(c15ActivateEval), Setup: c15ActivateSetup, Teardown: func() { c15RestorePorts(); c15ActivateTeardown() }})
	hx.Register(&hx.Stream{ID: "C15", Name: "c15.redirect", Gen: c15RedirectGen, Eval: c15WithPorts(c15RedirectEval), Setup: c15Setup, Teardown: func() { c15RestorePorts(); c15Teardown() }})
}
