//go:build c08

package streams

import (
	"bytes"
	"crypto/sha1"
	"encoding/base64"
	"fmt"
	"io"
	"log"
	"net"
	"net/http"
	"os"
	"path/filepath"
	"sort"
	"strconv"
	"strings"
	"sync"
	"syscall"
	"time"

	"github.com/tmpim/casket"
	_ "github.com/tmpim/casket/caskethttp"
	"github.com/tmpim/casket/caskethttp/httpserver"

	"verifharness/hx"
)

// c08.seq  op1 op2 ...        one field per operation
//
//   L:<kind>   load the configuration: casket.Start when no instance is running, otherwise a reload
//              through the real SIGUSR1 handler (signal sent to this process; the registered
//              Casketfile loader hands out the configuration)
//   V:<kind>   casket.ValidateAndExecuteDirectives(cfg, nil, true)      (what `casket -validate` runs)
//   R:<kind>   Instance.Restart(cfg) called directly on the running instance (the API-level reload: unlike the SIGUSR1
//              handler nobody purges the hook registry before or restores it after); casket.Start when nothing runs
//   X          casket.Stop()
//
//   kinds (ports p1, p2 are free loopback ports chosen per case; p3 is held by a foreign listener):
//     A1     one site on p1                        B12   sites on p1 and p2
//     C2     one site on p2                        H1    site on p1 with one `on shutdown` hook
//     HH12   sites on p1, p2, one hook each
//     syn    unbalanced brace                      unk   unknown directive
//     argE   H1 + `timeouts bogus`   (setup error in a directive that runs BEFORE `on`)
//     argL   H1 + `proxy /` without an upstream (setup error in a directive that runs AFTER `on`)
//     tlsM   tls with missing certificate files    imp   import of a missing file
//     logE   H1 + `log` into a directory that does not exist (the OnStartup callback fails)
//     mux    a TLS site (self-signed) and a plain-HTTP site on the same port p1: MakeServers refuses to build the server
//     busy3  one site on p3 (port in use)          leak13  sites on p1 and p3     leak123  sites on p1, p2, p3
//     <k>.h<N>  for k in H1 argE argL tlsM logE mux busy3 leak13 leak123: the same configuration with N (0..9) `on` directives,
//            dealt out to its sites in turn (events shutdown / certrenew, which never fire here); the plain spelling
//            stands for N = 1 (busy3, leak123: 0)
//     ty-<w> A1 + a mistyped directive <w> (proxi basicaut rewrit gzi loggg tlss redri zzz): rejected by the parser
//     Pa1 Pb1  site on p1 with `basicauth /secret alice htpasswd=F` and `basicauth /api bob htpasswd=F`; before the attempt the
//              htpasswd file F (one path per case) is written in version a resp. b (different passwords)        Qa1  only the bob rule
//     Pm1 Pm2 Pm3  the same configuration as Pa1 with F MALFORMED (a line without ':', an empty user, an undecodable {SHA} hash —
//              each between bob's line and alice's): the parse fails, the load is rejected        Pn1  F is missing
//     O1     ORDER-SENSITIVE site on p1: rewrite, gzip{ext}, basicauth, redir, status, proxy whose observable behaviour depends
//            on the documented execution order of the directives        OB12   O on p1 and a plain site on p2
//
//   out = step|step|…     step = <res>;ls=<fds of listening sockets on p1>.<on p2>;hk=<event hooks>;dv=<0|1>;s1=<probe p1>;s2=<probe p2>
//     res    ok | err | timeout        dv  0 iff casket.ValidDirectives("http") is what it was when the process started
//     probe  - (refused) | hang | e:<class> | <marker>/<battery>   marker = body of GET /, battery = status of unauthenticated
//            GETs of /secret/file.txt /pub /api/x /secret/moved /teapot, then gz|id = is /pubz (Accept-Encoding: gzip) compressed;
//            a plain site answers 404.404.404.404.404.id, the order-sensitive one 401.401.401.401.418.gz in a fresh process;
//            when any of them asks for credentials a third part follows: <which of alice's passwords (a, b, m = the one in
//            version a, b, malformed of F) open /secret/file.txt>.<which of bob's open /api/x>, - for none

var c08 struct {
	mu        sync.Mutex
	next      casket.Input
	logbuf    *c08Log
	busy      net.Listener
	p3        int
	dir       string
	portCur   int
	anomalies int
	backend   *http.Server
	backendLn net.Listener
	dirs0     []string
	htFile    string // the htpasswd file of the case being evaluated
	caseNo    int
	timeouts  int
}

type c08Log struct {
	mu   sync.Mutex
	buf  bytes.Buffer
	cond *sync.Cond
}

func (l *c08Log) Write(p []byte) (int, error) {
	l.mu.Lock()
	l.buf.Write(p)
	l.cond.Broadcast()
	l.mu.Unlock()
	return len(p), nil
}

// waitFor returns which of the markers appears first in the log written after `from`.
func (l *c08Log) waitFor(from int, d time.Duration, markers ...string) string {
	deadline := time.Now().Add(d)
	t := time.AfterFunc(d, func() { l.mu.Lock(); l.cond.Broadcast(); l.mu.Unlock() })
	defer t.Stop()
	l.mu.Lock()
	defer l.mu.Unlock()
	for {
		s := l.buf.String()[from:]
		best, bi := "", -1
		for _, m := range markers {
			if i := strings.Index(s, m); i >= 0 && (bi < 0 || i < bi) {
				best, bi = m, i
			}
		}
		if bi >= 0 {
			return best
		}
		if time.Now().After(deadline) {
			return ""
		}
		l.cond.Wait()
	}
}

func (l *c08Log) pos() int { l.mu.Lock(); defer l.mu.Unlock(); return l.buf.Len() }
func (l *c08Log) reset()   { l.mu.Lock(); l.buf.Reset(); l.mu.Unlock() }

func c08Setup() error {
	if c08.logbuf == nil { // once per process (`vharness eval` runs Setup before every line)
		c08.logbuf = &c08Log{}
		c08.logbuf.cond = sync.NewCond(&c08.logbuf.mu)
		casket.Quiet = true
		casket.TrapSignals()
		// the SIGUSR1 handler reloads through the loader that loaded the Casketfile
		casket.RegisterCasketfileLoader("verifc08", casket.LoaderFunc(func(string) (casket.Input, error) {
			c08.mu.Lock()
			defer c08.mu.Unlock()
			return c08.next, nil
		}))
		c08.mu.Lock()
		c08.next = casket.CasketfileInput{ServerTypeName: "http", Filepath: "verif", Contents: []byte("127.0.0.1:1\n")}
		c08.mu.Unlock()
		if _, err := casket.LoadCasketfile("http"); err != nil {
			return err
		}
	}
	log.SetOutput(c08.logbuf)
	if c08.dirs0 == nil {
		c08.dirs0 = append([]string(nil), casket.ValidDirectives("http")...)
	}
	if c08.backendLn == nil {
		ln, err := net.Listen("tcp", "127.0.0.1:0")
		if err != nil {
			return err
		}
		c08.backendLn = ln
		c08.backend = &http.Server{Handler: http.HandlerFunc(func(w http.ResponseWriter, r *http.Request) { io.WriteString(w, "BACK") })}
		go c08.backend.Serve(ln)
	}
	dir, err := os.MkdirTemp("", "verif-c08-")
	if err != nil {
		return err
	}
	c08.dir = dir
	for _, m := range []string{"A", "B", "C", "H", "O"} {
		os.MkdirAll(filepath.Join(dir, m), 0o755)
		os.WriteFile(filepath.Join(dir, m, "index.html"), []byte(m), 0o644)
	}
	os.MkdirAll(filepath.Join(dir, "O", "secret"), 0o755)
	os.WriteFile(filepath.Join(dir, "O", "secret", "file.txt"), []byte("classified"), 0o644)
	os.WriteFile(filepath.Join(dir, "O", "plain.txt"), []byte(strings.Repeat("plain text that compresses well. ", 100)), 0o644)
	c08.p3 = c08BusyPort.reserve(false) // held (locked and bound) for the whole run
	ln, err := net.Listen("tcp", fmt.Sprintf("127.0.0.1:%d", c08.p3))
	if err != nil {
		return err
	}
	c08.busy = ln
	return nil
}

func c08Teardown() {
	casket.Stop()
	log.SetOutput(os.Stderr)
	if c08.busy != nil {
		c08.busy.Close()
		c08.busy = nil
	}
	c08BusyPort.release()
	c08Ports.release()
	os.RemoveAll(c08.dir)
}

var c08Ports, c08BusyPort verifPorts

func c08FreePort() int { return c08Ports.reserve(false) }

// kinds whose number of `on` directives can be chosen with the suffix .h<N> (N one decimal digit), and the number
// the plain spelling stands for
var c08HookDefault = map[string]int{"H1": 1, "argE": 1, "argL": 1, "tlsM": 1, "logE": 1, "mux": 1, "busy3": 0, "leak13": 1, "leak123": 0, "udp1": 0}

// c08SplitKind splits <base>.h<N> into base and N; a kind without the suffix registers its default number of hooks
func c08SplitKind(kind string) (string, int, bool) {
	base, n, has := strings.Cut(kind, ".h")
	if !has {
		if kind == "HH12" {
			return kind, 2, true
		}
		return kind, c08HookDefault[kind], true
	}
	if _, hookable := c08HookDefault[base]; !hookable || len(n) != 1 || n[0] < '0' || n[0] > '9' {
		return "", 0, false
	}
	return base, int(n[0] - '0'), true
}

func c08Config(kind string, p [4]int) (string, bool) {
	kind, nh, ok := c08SplitKind(kind)
	if !ok {
		return "", false
	}
	site := func(pi int, marker string, extra ...string) string {
		var b strings.Builder
		fmt.Fprintf(&b, "127.0.0.1:%d {\n root %s\n", p[pi], filepath.Join(c08.dir, marker))
		for _, e := range extra {
			b.WriteString(" " + e + "\n")
		}
		b.WriteString("}\n")
		return b.String()
	}
	// the `on` directives of site i of n: the nh hooks of the configuration are dealt out to its sites in turn, for
	// events that never fire in the harness (every directive registers one hook under a fresh name)
	hooks := func(i, n int, extra ...string) []string {
		var out []string
		for j := i; j < nh; j += n {
			out = append(out, []string{"on shutdown true", "on certrenew true"}[j%2])
		}
		return append(out, extra...)
	}
	if strings.HasPrefix(kind, "ty-") {
		for _, w := range c08Typos {
			if kind == "ty-"+w {
				return site(1, "A", w+" x"), true
			}
		}
		return "", false
	}
	ordered := []string{
		"proxy /api http://" + c08.backendLn.Addr().String(), // written in an order unlike the documented one on purpose
		"status 418 /teapot",
		"redir /secret/moved /elsewhere 301",
		"basicauth /api alice hunter2",
		"basicauth /secret alice hunter2",
		"gzip {\n  ext .txt\n }",
		"rewrite /pubz /plain.txt",
		"rewrite /pub /secret/file.txt",
	}
	ruleA := "basicauth /secret alice htpasswd=" + filepath.Base(c08.htFile) // relative to the site root
	ruleB := "basicauth /api bob htpasswd=" + filepath.Base(c08.htFile)
	switch kind {
	case "Pa1", "Pb1", "Pm1", "Pm2", "Pm3", "Pn1":
		return site(1, "O", ruleA, ruleB), true
	case "Qa1":
		return site(1, "O", ruleB), true
	case "O1":
		return site(1, "O", ordered...), true
	case "OB12":
		return site(1, "O", ordered...) + site(2, "B"), true
	case "A1":
		return site(1, "A"), true
	case "B12":
		return site(1, "B") + site(2, "B"), true
	case "C2":
		return site(2, "C"), true
	case "H1":
		return site(1, "H", hooks(0, 1)...), true
	case "HH12":
		return site(1, "H", hooks(0, 2)...) + site(2, "H", hooks(1, 2)...), true
	case "syn":
		return fmt.Sprintf("127.0.0.1:%d {\n root %s\n", p[1], c08.dir), true
	case "unk":
		return site(1, "A", "nosuchdirective x"), true
	case "argE":
		return site(1, "H", hooks(0, 1, "timeouts bogus")...), true
	case "argL":
		return site(1, "H", hooks(0, 1, "proxy /")...), true
	case "tlsM":
		return site(1, "A", hooks(0, 1, "tls /nonexistent/verif/cert.pem /nonexistent/verif/key.pem")...), true
	case "imp":
		return site(1, "A", "import /nonexistent/verif/snippet"), true
	case "logE":
		return site(1, "H", hooks(0, 1, "log /nonexistent/verif/dir/access.log")...), true
	case "mux":
		// MakeServers fails: a TLS site and a plain-HTTP site cannot share one listener
		var b strings.Builder
		fmt.Fprintf(&b, "a.test:%d {\n root %s\n tls self_signed\n", p[1], filepath.Join(c08.dir, "A"))
		for _, e := range hooks(0, 2) {
			b.WriteString(" " + e + "\n")
		}
		fmt.Fprintf(&b, "}\nhttp://b.test:%d {\n root %s\n", p[1], filepath.Join(c08.dir, "B"))
		for _, e := range hooks(1, 2) {
			b.WriteString(" " + e + "\n")
		}
		b.WriteString("}\n")
		return b.String(), true
	case "busy3":
		return site(3, "A", hooks(0, 1)...), true
	case "udp1":
		// the site of A1; during the attempt QUIC is enabled and the UDP half of the address is held by somebody else:
		// Listen() (or the duplication of the old listener) succeeds, ListenPacket() of the SAME server fails
		return site(1, "A", hooks(0, 1)...), true
	case "leak13":
		return site(1, "A", hooks(0, 2)...) + site(3, "A", hooks(1, 2)...), true
	case "leak123":
		return site(1, "B", hooks(0, 3)...) + site(2, "B", hooks(1, 3)...) + site(3, "B", hooks(2, 3)...), true
	}
	return "", false
}

// number of descriptors of this process that are listening TCP sockets on p1 / p2
// (fd table + SO_ACCEPTCONN + getsockname; a duplicated descriptor counts separately)
func c08ListenFds(p [4]int) [4]int {
	var out [4]int
	ents, _ := os.ReadDir("/proc/self/fd")
	for _, e := range ents {
		fd, err := strconv.Atoi(e.Name())
		if err != nil {
			continue
		}
		if v, err := syscall.GetsockoptInt(fd, syscall.SOL_SOCKET, syscall.SO_ACCEPTCONN); err != nil || v != 1 {
			continue
		}
		sa, err := syscall.Getsockname(fd)
		if err != nil {
			continue
		}
		port := 0
		switch a := sa.(type) {
		case *syscall.SockaddrInet4:
			port = a.Port
		case *syscall.SockaddrInet6:
			port = a.Port
		}
		for i := 1; i <= 2; i++ {
			if port == p[i] {
				out[i]++
			}
		}
	}
	return out
}

// one GET on a fresh connection.  A timeout is reported as `hang` only if it repeats with a long timeout: the machine
// may stall for a while under load, whereas a listening socket that nobody accepts on never answers.  A model-conforming
// implementation never hangs, so patience costs nothing on a healthy tree; once a run has produced eight hangs
// (it is a VIOLATION by then) the remaining cases are probed without patience so that the run still ends soon.
func c08Probe(port int) string {
	if c08.anomalies >= 8 {
		return c08ProbeOnce(port, 60*time.Millisecond)
	}
	r := c08ProbeOnce(port, 700*time.Millisecond)
	for attempt := 0; attempt < 2 && r == "hang"; attempt++ {
		r = c08ProbeOnce(port, 2500*time.Millisecond)
	}
	if r == "hang" {
		c08.anomalies++
	}
	return r
}

// an attempt that has not returned after this long is reported as `timeout` (a healthy attempt takes milliseconds;
// the bound is generous because the machine may stall under load, and shrinks once a run has shown two timeouts)
func c08Watchdog() time.Duration {
	if c08.timeouts >= 2 {
		return 3 * time.Second
	}
	return 30 * time.Second
}

func c08ProbeOnce(port int, patience time.Duration) string {
	tr := &http.Transport{DisableKeepAlives: true, DisableCompression: true}
	defer tr.CloseIdleConnections()
	cl := &http.Client{Transport: tr, Timeout: patience,
		CheckRedirect: func(*http.Request, []*http.Request) error { return http.ErrUseLastResponse }}
	get := func(path string, gz bool) (*http.Response, string) {
		req, _ := http.NewRequest("GET", fmt.Sprintf("http://127.0.0.1:%d%s", port, path), nil)
		if gz {
			req.Header.Set("Accept-Encoding", "gzip")
		}
		resp, err := cl.Do(req)
		if err != nil {
			s := err.Error()
			switch {
			case strings.Contains(s, "refused"):
				return nil, "-"
			case strings.Contains(s, "Timeout") || strings.Contains(s, "deadline"):
				return nil, "hang"
			case strings.Contains(s, "reset") || strings.Contains(s, "EOF"):
				return nil, "e:reset"
			}
			return nil, "e:other"
		}
		return resp, ""
	}
	resp, e := get("/", false)
	if resp == nil {
		return e
	}
	b, _ := io.ReadAll(io.LimitReader(resp.Body, 64))
	resp.Body.Close()
	if resp.StatusCode != 200 {
		return "e:" + strconv.Itoa(resp.StatusCode)
	}
	out := strings.TrimSpace(string(b)) + "/"
	// the battery: unauthenticated requests whose outcome depends on the order in which the middleware is chained
	for i, path := range []string{"/secret/file.txt", "/pub", "/api/x", "/secret/moved", "/teapot"} {
		r, e := get(path, false)
		if r == nil {
			return e
		}
		io.Copy(io.Discard, io.LimitReader(r.Body, 1<<16))
		r.Body.Close()
		if i > 0 {
			out += "."
		}
		out += strconv.Itoa(r.StatusCode)
	}
	r, e := get("/pubz", true)
	if r == nil {
		return e
	}
	io.Copy(io.Discard, io.LimitReader(r.Body, 1<<16))
	r.Body.Close()
	if r.Header.Get("Content-Encoding") == "gzip" {
		out += ".gz"
	} else {
		out += ".id"
	}
	if !strings.Contains(out, "401") {
		return out
	}
	// the site asks for credentials: which passwords does it accept?
	creds := func(user, path string) string {
		acc := ""
		for i, letter := range []string{"a", "b", "m"} {
			req, _ := http.NewRequest("GET", fmt.Sprintf("http://127.0.0.1:%d%s", port, path), nil)
			req.SetBasicAuth(user, c08Pw[user][i])
			resp, err := cl.Do(req)
			if err != nil {
				return "e"
			}
			io.Copy(io.Discard, io.LimitReader(resp.Body, 1<<16))
			resp.Body.Close()
			if resp.StatusCode != 401 {
				acc += letter
			}
		}
		if acc == "" {
			return "-"
		}
		return acc
	}
	return out + "/" + creds("alice", "/secret/file.txt") + "." + creds("bob", "/api/x")
}

func c08Sha(pw string) string {
	h := sha1.Sum([]byte(pw))
	return "{SHA}" + base64.StdEncoding.EncodeToString(h[:])
}

// passwords of alice / bob in the versions a, b and m(alformed) of the htpasswd file
var c08Pw = map[string][3]string{"alice": {"A-one", "A-two", "A-three"}, "bob": {"B-one", "B-two", "B-three"}}

// write the htpasswd file of the case in the version the configuration kind stands for (every version has another size, so
// that the modification stamp casket keeps is sure to differ)
func c08WriteHtpasswd(kind string) {
	ver, bad := -1, ""
	switch kind {
	case "Pa1", "Qa1":
		ver = 0
	case "Pb1":
		ver = 1
	case "Pm1":
		ver, bad = 2, "this line has no colon"
	case "Pm2":
		ver, bad = 2, ":emptyuser"
	case "Pm3":
		ver, bad = 2, "carol:{SHA}!!!not-base64!!!"
	case "Pn1": // the file is missing
		os.Remove(c08.htFile)
		return
	default:
		return
	}
	var b strings.Builder
	b.WriteString("# version " + strings.Repeat("#", 3*len(kind)+ver*7) + kind + "\n")
	b.WriteString("bob:" + c08Sha(c08Pw["bob"][ver]) + "\n")
	if bad != "" {
		b.WriteString(bad + "\n")
	}
	b.WriteString("alice:" + c08Sha(c08Pw["alice"][ver]) + "\n")
	os.WriteFile(c08.htFile, []byte(b.String()), 0o644)
}

// 0 iff the process-wide directive list is what it was when the process started
func c08DirsChanged() int {
	now := casket.ValidDirectives("http")
	if len(now) != len(c08.dirs0) {
		return 1
	}
	for i := range now {
		if now[i] != c08.dirs0[i] {
			return 1
		}
	}
	return 0
}

func c08Hooks() int { return len(casket.ListPlugins()["event_hooks"]) }

func c08Eval(f []string) (string, []string) {
	casket.Stop()
	casket.VerifC08ResetInstances()
	casket.VerifC08PurgeEventHooks()
	// a fresh process has the directive table as compiled in; should an earlier case have altered the shared list
	// (it is returned by reference), put it back so that every case starts from the same state
	if cur := casket.ValidDirectives("http"); len(cur) == len(c08.dirs0) {
		copy(cur, c08.dirs0)
	}
	c08.logbuf.reset()
	c08.caseNo++
	c08.htFile = filepath.Join(c08.dir, "O", fmt.Sprintf("htpasswd-%d", c08.caseNo)) // a path no earlier case has used
	defer os.Remove(c08.htFile)
	var p [4]int
	c08Ports.release()
	p[1], p[2], p[3] = c08FreePort(), c08FreePort(), c08.p3
	tags := map[string]bool{}
	var steps []string
	bad := false
	for _, opS := range f {
		res := "ok"
		var udpHeld net.PacketConn
		switch {
		case strings.HasPrefix(opS, "L:") || strings.HasPrefix(opS, "V:") || strings.HasPrefix(opS, "R:"):
			text, ok := c08Config(opS[2:], p)
			if !ok {
				bad = true
				break
			}
			c08WriteHtpasswd(opS[2:])
			if base, _, _ := c08SplitKind(opS[2:]); base == "udp1" {
				if pc, perr := net.ListenPacket("udp", fmt.Sprintf("127.0.0.1:%d", p[1])); perr == nil {
					udpHeld = pc
				}
				httpserver.QUIC = true
			}
			in := casket.CasketfileInput{ServerTypeName: "http", Filepath: "verif-" + opS[2:], Contents: []byte(text)}
			tags["kind-"+opS[2:]] = true
			switch {
			case opS[0] == 'V':
				done := make(chan error, 1)
				go func() { done <- casket.ValidateAndExecuteDirectives(in, nil, true) }()
				select {
				case err := <-done:
					if err != nil {
						res = "err"
					}
				case <-time.After(c08Watchdog()):
					res = "timeout"
					c08.timeouts++
				}
				tags["validate-"+res] = true
			case len(casket.Instances()) == 0:
				done := make(chan error, 1)
				go func() { _, err := casket.Start(in); done <- err }()
				select {
				case err := <-done:
					if err != nil {
						res = "err"
					}
				case <-time.After(c08Watchdog()):
					res = "timeout"
					c08.timeouts++
				}
				tags["start-"+res] = true
			case opS[0] == 'R':
				// the API-level reload: nobody purges or restores the hook registry around it
				inst := casket.Instances()[0]
				done := make(chan error, 1)
				go func() { _, err := inst.Restart(in); done <- err }()
				select {
				case err := <-done:
					if err != nil {
						res = "err"
					}
				case <-time.After(c08Watchdog()):
					res = "timeout"
					c08.timeouts++
				}
				tags["restart-"+res] = true
			default:
				c08.mu.Lock()
				c08.next = in
				c08.mu.Unlock()
				from := c08.logbuf.pos()
				syscall.Kill(os.Getpid(), syscall.SIGUSR1)
				switch c08.logbuf.waitFor(from, c08Watchdog(), "[INFO] Reloading complete", "[ERROR] SIGUSR1:") {
				case "[INFO] Reloading complete":
				case "[ERROR] SIGUSR1:":
					res = "err"
				default:
					res = "timeout"
					c08.timeouts++
				}
				tags["reload-"+res] = true
			}
		case opS == "X":
			casket.Stop()
			tags["stop"] = true
		default:
			bad = true
		}
		httpserver.QUIC = false // only the udp1 kind switches it on, for the duration of its attempt
		if udpHeld != nil {
			udpHeld.Close()
		}
		if bad {
			break
		}
		ls := c08ListenFds(p)
		steps = append(steps, fmt.Sprintf("%s;ls=%d.%d;hk=%d;dv=%d;s1=%s;s2=%s", res, ls[1], ls[2], c08Hooks(), c08DirsChanged(), c08Probe(p[1]), c08Probe(p[2])))
	}
	casket.Stop()
	casket.VerifC08ResetInstances()
	casket.VerifC08PurgeEventHooks()
	if bad {
		return "bad-case", nil
	}
	tl := []string{fmt.Sprintf("len=%d", len(f))}
	for t := range tags {
		tl = append(tl, t)
	}
	sort.Strings(tl)
	return strings.Join(steps, "|"), tl
}

var c08ValidKind = map[string]bool{"A1": true, "B12": true, "C2": true, "H1": true, "HH12": true, "O1": true, "OB12": true, "Pa1": true, "Pb1": true, "Qa1": true}

var c08Typos = []string{"proxi", "basicaut", "rewrit", "gzi", "loggg", "tlss", "redri", "zzz"}

var c08Kinds = []string{"Pa1", "Pb1", "Qa1", "Pm1", "Pm2", "Pm3", "Pn1", "O1", "OB12", "A1", "B12", "C2", "H1", "HH12", "syn", "unk", "argE", "argL", "tlsM", "imp", "logE", "busy3", "leak13", "leak123"}

func c08Gen(g *hx.Gen) {
	var alpha []string
	for _, k := range c08Kinds {
		alpha = append(alpha, "L:"+k)
	}
	for _, w := range c08Typos {
		alpha = append(alpha, "L:ty-"+w)
	}
	alpha = append(alpha, "V:H1", "V:argL", "V:syn", "V:ty-proxi", "V:ty-basicaut", "V:Pm1", "V:Pm3", "X")
	// failing configurations that register SEVERAL hooks, and the API-level reload: in the quick tier they are crossed
	// with the core of the alphabet (below), in the thorough tier with all of it
	several := []string{"L:argL.h3", "R:A1", "R:logE.h2", "R:argL.h3", "R:mux.h2"}
	if g.Thorough() {
		alpha = append(alpha, several[:3]...)
	}
	maxLen := 2
	if g.Thorough() {
		maxLen = 3
	}
	core := []string{"L:A1", "L:B12", "L:H1", "L:O1", "L:Pa1", "L:Pm1", "L:Pn1", "L:syn", "L:argL", "L:logE", "L:leak13",
		"L:ty-proxi", "V:H1", "V:Pm1", "X", "R:logE.h2"}
	// the property's shape: any attempts, then a valid configuration — a plain one and an ORDER-SENSITIVE one, whose
	// behaviour must be that of a fresh process whatever was attempted before
	finals0 := []string{"L:B12", "L:O1"}
	finalsHt := []string{"L:Pa1", "L:Qa1"} // after attempts that touched the htpasswd file: the file repaired
	var rec func(prefix []string, n int)
	rec = func(prefix []string, n int) {
		if len(prefix) > 0 {
			finals := finals0
			for _, o := range prefix {
				if strings.Contains(o, ":P") || strings.Contains(o, ":Q") {
					finals = finalsHt
				}
			}
			if len(prefix) < maxLen || !g.Thorough() {
				for _, f := range finals {
					g.Case(append(append([]string(nil), prefix...), f)...)
				}
			} else {
				g.Case(append(append([]string(nil), prefix...), finals[len(prefix[0])%2])...)
			}
		}
		if n == 0 {
			return
		}
		next := alpha
		if len(prefix) == 2 {
			next = core // the third attempt of the thorough tier comes from the core of the alphabet
		}
		for _, a := range next {
			rec(append(append([]string(nil), prefix...), a), n-1)
		}
	}
	rec(nil, maxLen)
	if !g.Thorough() {
		for i, n := range several {
			for j, a := range core {
				g.Case(a, n, finals0[(i+j)%2])
				g.Case(n, a, finals0[(i+j+1)%2])
			}
			for j, m := range several {
				g.Case(n, m, finals0[(i+j)%2])
			}
		}
	}
	// the number of hooks a FAILING configuration registers, at every stage a failure can occur at after `on` has run
	// (and at one before it), through every way of loading, in a process whose registry is empty, holds the hooks of a
	// running instance, or holds hooks of an earlier validation; then a valid load
	stages := []string{"argE", "argL", "tlsM", "logE", "mux", "busy3", "leak13", "leak123", "udp1"}
	// the address's TCP half is free, its UDP half is not: the failure comes AFTER this server's own listener was obtained
	for _, c := range [][]string{{"L:udp1", "L:A1"}, {"L:udp1", "L:B12"}, {"L:A1", "L:udp1", "L:B12"}, {"L:A1", "R:udp1", "L:O1"},
		{"L:udp1", "L:udp1", "L:O1"}, {"L:B12", "L:udp1.h2", "X", "L:A1"}, {"R:udp1.h3", "R:A1"}} {
		g.Case(c...)
	}
	counts := []int{0, 2, 3, 5}
	contexts := [][]string{{}, {"L:A1"}, {"L:H1.h2"}, {"V:H1.h3"}, {"L:HH12", "X"}}
	if g.Thorough() {
		counts = []int{0, 2, 3, 4, 5, 6, 7, 8, 9}
		contexts = append(contexts, []string{"L:H1.h3", "V:H1.h2"}, []string{"V:logE.h2"}, []string{"L:argL.h3"})
	}
	for si, st := range stages {
		for ni, n := range counts {
			for ci, ctx := range contexts {
				for hi, how := range []string{"L:", "V:", "R:"} {
					op := fmt.Sprintf("%s%s.h%d", how, st, n)
					final := finals0[(si+ni+ci+hi)%2]
					g.Case(append(append([]string(nil), ctx...), op, final)...)
					if g.Thorough() || (ni+ci+hi)%3 == 0 {
						// twice in a row, then a valid configuration with hooks of its own through the API-level reload
						g.Case(append(append([]string(nil), ctx...), op, op, "R:H1.h2")...)
					}
				}
			}
		}
	}
	N := 550
	if g.Thorough() {
		N = 6000
	}
	valid := []string{"A1", "B12", "C2", "H1", "HH12", "O1", "OB12", "Pa1", "Pb1", "Qa1"}
	hookable := []string{"H1", "argE", "argL", "tlsM", "logE", "mux", "busy3", "leak13", "leak123", "udp1"}
	kind := func() string {
		if g.Rng.Intn(4) == 0 {
			return fmt.Sprintf("%s.h%d", hx.Pick(g.Rng, hookable), g.Rng.Intn(10))
		}
		return hx.Pick(g.Rng, c08Kinds)
	}
	for it := 0; it < N; it++ {
		L := 2 + g.Rng.Intn(6)
		var ops []string
		for i := 0; i < L; i++ {
			r := g.Rng.Intn(20)
			switch {
			case r < 9:
				ops = append(ops, "L:"+kind())
			case r < 11:
				ops = append(ops, "R:"+kind())
			case r < 15:
				ops = append(ops, "L:ty-"+hx.Pick(g.Rng, c08Typos))
			case r < 16:
				ops = append(ops, "V:ty-"+hx.Pick(g.Rng, c08Typos))
			case r < 18:
				ops = append(ops, "V:"+kind())
			default:
				ops = append(ops, "X")
			}
		}
		ops = append(ops, "L:"+hx.Pick(g.Rng, valid))
		g.Case(ops...)
	}
	for _, m := range [][]string{{"L:"}, {"L:nope"}, {"Q"}, {"V:"}, {"L:A1", "Y"}, {"L:ty-"}, {"L:ty-unknownword"},
		{"L:argL.h"}, {"L:argL.h12"}, {"L:argL.hx"}, {"L:A1.h2"}, {"L:syn.h1"}, {"L:argL.h3.h2"}, {"R:"}, {"R:nope"}, {"L:ty-zzz.h1"}, {"L:.h1"}} {
		g.Case(m...)
	}
}

func init() {
	hx.Register(&hx.Stream{ID: "C08", Name: "c08.seq", Gen: c08Gen, Eval: c08Eval, Serial: true, Setup: c08Setup, Teardown: c08Teardown})
}
