//go:build c12

package streams

import (
	"errors"
	"fmt"
	"path/filepath"
	"sort"
	"strconv"
	"strings"

	"verifharness/hx"
)

// How the configuration is WRITTEN is a dimension of the C12 cases.
//
// The stack field of a case is a comma list of tokens.  A bare directive name (`log`, `gzip`,
// `errors:page404` ...) is the one-line default spelling used since the first version of the
// stream.  `name=<line>|<line>...` gives the lines of that directive as they are written into the
// Casketfile, in that order (several lines of one directive reach the directive's setup function
// as ONE token stream; it builds one middleware from all of them):
//
//	log=<scope>~<out>~<fmt>[~x]     scope `-`: the one-argument form `log <out>`; out a|b (two log files);
//	                                fmt - | common | combined | custom; x: with a block (except, ipmask)
//	header=<scope>~<form>           form i: `header <scope> X-C12 on`   d: `header <scope> -X-Inner`
//	                                     b: block {X-C12 on; -X-Inner}   p: block {+X-C12b more; X-C12 on}
//	gzip=<not>~<level>              `-~-`: bare `gzip`; otherwise a block with `not <path>` / `level <n>`
//	errors=<arg>~<pages>            arg - | v (visible) | a | b (log file); pages - | 404 (block `404 <page>`)
//	templates=<path>~<ext>~<form>   path `-`: none given; ext - (default list) | h (.html) | ht (.html .txt);
//	                                form i: arguments on the line   b: block {path ..; ext ..}
//
// Layout tokens (no meaning for the response): `addr2a` / `addr2b` - the server block has two
// addresses, the request goes to the first / second; `decoyF` / `decoyL` - another site with a
// different stack is written before / after the site in the same Casketfile.  Tokens are written
// into the Casketfile in the order given (casket sorts directives itself).
//
// The model (lean/Casket/Model/Middleware.lean, `Site`) reads the same lines and computes their
// MEANING for the request path: which log rule / gzip config / templates rule is the first that
// matches, whether `header` is present, which errors mode the lines add up to.

var c12Layout = map[string]bool{"addr2a": true, "addr2b": true, "decoyF": true, "decoyL": true}

const c12AltHost = "c12b.test"

// c12Legacy: every token is a bare directive name of the original set (the stack is then sorted).
func c12Legacy(stackField string) bool {
	if stackField == "" {
		return true
	}
	for _, t := range strings.Split(stackField, ",") {
		if !c12Known[t] {
			return false
		}
	}
	return true
}

func c12LogLine(spec string) (string, error) {
	p := strings.Split(spec, "~")
	if len(p) != 3 && !(len(p) == 4 && p[3] == "x") {
		return "", errors.New("bad log line " + spec)
	}
	var out string
	switch p[1] {
	case "a":
		out = filepath.Join(c12Dir, "access.log")
	case "b":
		out = filepath.Join(c12Dir, "access-b.log")
	default:
		return "", errors.New("bad log output " + spec)
	}
	line := " log"
	if p[0] == "-" {
		if p[2] != "-" {
			return "", errors.New("log: a format needs a path scope: " + spec)
		}
		line += " " + out
	} else {
		if !strings.HasPrefix(p[0], "/") {
			return "", errors.New("bad log scope " + spec)
		}
		line += " " + p[0] + " " + out
		switch p[2] {
		case "-":
		case "common":
			line += ` "{common}"`
		case "combined":
			line += ` "{combined}"`
		case "custom":
			line += ` "{method} {uri} {status} {size}"`
		default:
			return "", errors.New("bad log format " + spec)
		}
	}
	if len(p) == 4 {
		line += " {\n  except /c12-nolog\n  ipmask 255.255.0.0\n }"
	}
	return line + "\n", nil
}

func c12HeaderLine(spec string) (string, error) {
	p := strings.Split(spec, "~")
	if len(p) != 2 || !strings.HasPrefix(p[0], "/") {
		return "", errors.New("bad header line " + spec)
	}
	switch p[1] {
	case "i":
		return " header " + p[0] + " X-C12 on\n", nil
	case "d":
		return " header " + p[0] + " -X-Inner\n", nil
	case "b":
		return " header " + p[0] + " {\n  X-C12 on\n  -X-Inner\n }\n", nil
	case "p":
		return " header " + p[0] + " {\n  +X-C12b more\n  X-C12 on\n }\n", nil
	}
	return "", errors.New("bad header form " + spec)
}

func c12GzipLine(spec string) (string, error) {
	p := strings.Split(spec, "~")
	if len(p) == 2 {
		p = append(p, "-")
	}
	if len(p) != 3 {
		return "", errors.New("bad gzip line " + spec)
	}
	if p[0] == "-" && p[1] == "-" && p[2] == "-" {
		return " gzip\n", nil
	}
	line := " gzip {\n"
	if p[0] != "-" {
		if !strings.HasPrefix(p[0], "/") || p[0] == "/" {
			return "", errors.New("bad gzip not-path " + spec)
		}
		line += "  not " + p[0] + "\n"
	}
	if p[1] != "-" {
		if len(p[1]) != 1 || p[1][0] < '1' || p[1][0] > '9' {
			return "", errors.New("bad gzip level " + spec)
		}
		line += "  level " + p[1] + "\n"
	}
	if p[2] != "-" {
		if n, err := strconv.Atoi(p[2]); err != nil || n <= 0 || strconv.Itoa(n) != p[2] {
			return "", errors.New("bad gzip min_length " + spec)
		}
		line += "  min_length " + p[2] + "\n"
	}
	return line + " }\n", nil
}

func c12ErrorsLine(spec string) (string, error) {
	p := strings.Split(spec, "~")
	if len(p) != 2 {
		return "", errors.New("bad errors line " + spec)
	}
	line := " errors"
	switch p[0] {
	case "-":
	case "v":
		line += " visible"
	case "a":
		line += " " + filepath.Join(c12Dir, "errors.log")
	case "b":
		line += " " + filepath.Join(c12Dir, "errors-b.log")
	default:
		return "", errors.New("bad errors argument " + spec)
	}
	switch p[1] {
	case "-":
	case "404":
		line += " {\n  404 " + filepath.Join(c12Dir, "404.html") + "\n }"
	default:
		return "", errors.New("bad errors pages " + spec)
	}
	return line + "\n", nil
}

func c12TemplatesLine(spec string) (string, error) {
	p := strings.Split(spec, "~")
	if len(p) != 3 {
		return "", errors.New("bad templates line " + spec)
	}
	ext := ""
	switch p[1] {
	case "-":
	case "h":
		ext = ".html"
	case "ht":
		ext = ".html .txt"
	default:
		return "", errors.New("bad templates ext " + spec)
	}
	if p[0] != "-" && !strings.HasPrefix(p[0], "/") {
		return "", errors.New("bad templates path " + spec)
	}
	switch p[2] {
	case "i":
		if p[0] == "-" {
			if ext != "" {
				return "", errors.New("templates: extensions on the line need a path: " + spec)
			}
			return " templates\n", nil
		}
		if ext != "" {
			return " templates " + p[0] + " " + ext + "\n", nil
		}
		return " templates " + p[0] + "\n", nil
	case "b":
		line := " templates {\n"
		if ext != "" {
			line += "  ext " + ext + "\n" // written before `path`: the order inside the block has no meaning
		}
		if p[0] != "-" {
			line += "  path " + p[0] + "\n"
		}
		return line + " }\n", nil
	}
	return "", errors.New("bad templates form " + spec)
}

var c12LineWriters = map[string]func(string) (string, error){
	"log": c12LogLine, "header": c12HeaderLine, "gzip": c12GzipLine, "errors": c12ErrorsLine, "templates": c12TemplatesLine,
}

// c12SiteText writes the Casketfile for a stack given as written; host is the Host the probe
// requests must carry.
func c12SiteText(stackField string) (text, host string, err error) {
	var body strings.Builder
	host = "127.0.0.1"
	addr2, decoy := false, ""
	seen := map[string]bool{}
	for _, t := range strings.Split(stackField, ",") {
		name, lines, spelled := strings.Cut(t, "=")
		switch {
		case spelled:
			w := c12LineWriters[name]
			if w == nil {
				return "", "", errors.New("no spellings for directive " + name)
			}
			if seen[name] {
				return "", "", errors.New("directive given twice: " + name)
			}
			seen[name] = true
			for _, l := range strings.Split(lines, "|") {
				s, e := w(l)
				if e != nil {
					return "", "", e
				}
				body.WriteString(s)
			}
		case c12Layout[t]:
			switch t {
			case "addr2a":
				addr2 = true
			case "addr2b":
				addr2, host = true, c12AltHost
			default:
				decoy = t
			}
		case c12Known[t]:
			base := strings.SplitN(t, ":", 2)[0]
			if seen[base] {
				return "", "", errors.New("directive given twice: " + base)
			}
			seen[base] = true
			one, e := c12DirectiveText(t)
			if e != nil {
				return "", "", e
			}
			body.WriteString(one)
		default:
			return "", "", errors.New("unknown token " + t)
		}
	}
	var b strings.Builder
	dec := fmt.Sprintf("http://c12decoy.test:0 {\n root %s\n errors visible\n header / X-Decoy 1\n templates /x\n gzip\n log / %s\n}\n",
		c12Dir, filepath.Join(c12Dir, "decoy.log"))
	if decoy == "decoyF" {
		b.WriteString(dec)
	}
	if addr2 {
		fmt.Fprintf(&b, "http://127.0.0.1:0, http://%s:0 {\n", c12AltHost)
	} else {
		b.WriteString("http://127.0.0.1:0 {\n")
	}
	fmt.Fprintf(&b, " root %s\n", c12Dir)
	b.WriteString(body.String())
	b.WriteString(" probe\n}\n")
	if decoy == "decoyL" {
		b.WriteString(dec)
	}
	return b.String(), host, nil
}

// c12SpellTags: coverage tags of a stack given as written.
func c12SpellTags(stackField string) []string {
	tags := []string{"as-written"}
	for _, t := range strings.Split(stackField, ",") {
		name, lines, spelled := strings.Cut(t, "=")
		if spelled {
			tags = append(tags, fmt.Sprintf("%s-lines=%d", name, strings.Count(lines, "|")+1))
		} else if c12Layout[t] {
			tags = append(tags, "layout="+t)
		}
	}
	return tags
}

// ---- the spellings the generator uses ----
//
// per directive: spellings[0] is "absent"; the others are line lists.  The comment gives the
// meaning for the request paths of the stream (/x.html, /x.bin, /f-<kind>.html|.bin, /ok.txt).

var c12LogSpellings = []string{
	"",
	"/~a~-",                       // the default line
	"-~a~-",                       // one argument: scope /
	"/~a~combined|/~b~-",          // one rule, two entries, two outputs
	"/~a~-|/~a~common",            // one rule, two entries, the same output
	"/api~a~combined|/~a~-",       // two rules, the same output; every probe path falls under the second
	"/~a~-|/api~a~-",              // two rules, the first matches everything
	"/api~a~-",                    // no rule matches a probe path: log passes the request on untouched
	"/x~a~-|/f-~b~custom",         // /x.* under the first, /f-* under the second, /ok.txt under none
	"/X~a~-~x|/F-~a~-|/~a~common", // three rules, one output, scopes in upper case, a block
	"/api~a~-|/c12-nolog~b~-|/~b~combined~x",
	"/f-~b~-|/x~b~-|/x~a~custom|/~a~-", // the second rule has two entries
}

var c12HeaderSpellings = []string{
	"",
	"/~b",
	"/~i",
	"/~i|/~d",        // two lines for one path: merged into one rule
	"/api~b",         // no rule matches: the writer is wrapped all the same
	"/x~i|/~b|/F-~p", // three rules
}

var c12GzipSpellings = []string{
	"",
	"-~-",
	"-~1",
	"/api~-",           // `not /api`: applies to every probe path
	"/x~-",             // `not /x`: does not apply to /x.*, applies to /f-*
	"/x~-|-~9",         // the first config is skipped for /x.*, the second applies
	"/x~-|/X.~3",       // both skipped for /x.*
	"-~-|-~-",          // the same line twice
	"-~-~1000",         // min_length no probe body meets: the response filters decline every response
	"-~-~30",           // met by the template bodies and files, not by the short body or a response without Content-Length
	"/x~-~1000|-~-~30", // /x.*: the second config's filters; /f-*: the first's
	"-~2~56",           // exactly the length of the plain body (the boundary: compressed)
}

var c12ErrorsSpellings = []string{
	"",
	"a~-",       // plain
	"a~-|b~-",   // plain, the second log file wins
	"-~-",       // plain, bare `errors` (log to stderr)
	"a~404",     // a page for 404
	"a~-|-~404", // log on one line, the page in the block of another
	"-~404|a~-",
	"v~-", // visible
	"v~-|v~-",
	"a~-|v~-", // a log file and visible: visible
}

var c12TemplatesSpellings = []string{
	"",
	"-~-~i",
	"/~-~i",
	"/~h~i",
	"/~ht~b",
	"-~h~b",
	"/api~-~i|/~-~i", // the first rule never matches
	"/x~h~b",         // applies to /x.* only
	"/api~-~i",       // never applies
	"/F-~-~i|/x~h~i", // /f-* under the first rule, /x.* under the second
}

var c12Spellings = []struct {
	name  string
	list  []string
	plain string // the legacy token
}{
	{"log", c12LogSpellings, "log"},
	{"gzip", c12GzipSpellings, "gzip"},
	{"header", c12HeaderSpellings, "header"},
	{"errors", c12ErrorsSpellings, "errors:plain"},
	{"templates", c12TemplatesSpellings, "templates"},
}

// c12SpelledStacks: for every directive every spelling, (a) alone, (b) with every other wrapper
// present in its default spelling; then seeded random combinations of spellings, token order and
// Casketfile layout.
func c12SpelledStacks(g *hx.Gen, random int) []string {
	var out []string
	seen := map[string]bool{}
	add := func(toks []string) {
		s := strings.Join(toks, ",")
		if s != "" && !seen[s] {
			seen[s] = true
			out = append(out, s)
		}
	}
	for di, d := range c12Spellings {
		for _, sp := range d.list[1:] {
			tok := d.name + "=" + sp
			add([]string{tok})
			var full []string
			for dj, o := range c12Spellings {
				if dj == di {
					full = append(full, tok)
				} else {
					full = append(full, o.plain)
				}
			}
			// written in reverse directive order: casket orders the chain, not the file
			sort.Sort(sort.Reverse(sort.StringSlice(full)))
			add(full)
		}
	}
	layouts := []string{"", "", "addr2a", "addr2b", "decoyF", "decoyL"}
	for it := 0; it < random; it++ {
		var toks []string
		for _, d := range c12Spellings {
			if sp := hx.Pick(g.Rng, d.list); sp != "" {
				toks = append(toks, d.name+"="+sp)
			}
		}
		for _, d := range c12Transparent {
			if g.Rng.Chance(1, 4) {
				toks = append(toks, d)
			}
		}
		if l := hx.Pick(g.Rng, layouts); l != "" {
			toks = append(toks, l)
		}
		if l := hx.Pick(g.Rng, layouts); (l == "decoyF" || l == "decoyL") && !strings.Contains(strings.Join(toks, ","), "decoy") {
			toks = append(toks, l)
		}
		for i := len(toks) - 1; i > 0; i-- { // the order in which the directives are written
			j := g.Rng.Intn(i + 1)
			toks[i], toks[j] = toks[j], toks[i]
		}
		add(toks)
	}
	return out
}

// the behaviours served on the spelled sites: every outcome class, on a path under each scope used
func c12SpelledInners() []string {
	body := hx.HS("PROBE-BODY-1")
	return []string{
		"ret:404:0", "ret:404:1", "ret:500:1", "ret:403:0", "ret:0:0", "ret:200:0", "ret:404:0:1",
		"panic", "panicafter:200:" + body, "panicafter:-:" + body,
		c12Write("200", "plain", 0, 1, "w"), c12Write("-", "plain", 1, 0, "c"), c12Write("404", "tok", 0, 1, "s"),
		c12Write("200", "tok", 0, 0, "wf"), c12Write("200", "tparse", 0, 1, "w"), c12Write("-", "texec", 0, 1, "c"),
		c12Write("201", "tok", 1, 1, "w"), c12Write("204", "plain", 0, 1, "w"), c12Write("200", "plain", 0, 1, "iw"),
		"file:plain:" + hx.HS(c12Bodies["plain"]), "file:tok:" + hx.HS(c12Bodies["tok"]), "file:texec:" + hx.HS(c12Bodies["texec"]),
		// flushed responses, which gzip's response filters may decline (min_length, own Content-Encoding, 204)
		c12Write("404", "plain", 0, 1, "wf"), c12Write("-", "plain", 0, 0, "fw"), "write:200:" + body + ":0:plain:1:wf",
		c12Write("204", "plain", 0, 0, "wf"), c12Write("200", "plain", 0, 1, "ewf"),
	}
}

func c12SpelledGen(g *hx.Gen) {
	n := 150
	if g.Thorough() {
		n = 1500
	}
	inners := c12SpelledInners()
	for _, st := range c12SpelledStacks(g, n) {
		for _, in := range inners {
			for _, p := range []string{"html", "bin", "html-head"} {
				if p == "html-head" && (strings.HasPrefix(in, "panicafter") || !g.Rng.Chance(1, 4)) {
					continue
				}
				for _, ae := range []string{"1", "0"} {
					if ae == "0" && p != "html" {
						continue
					}
					g.Case(st, p, ae, in)
				}
			}
		}
	}
}

func c12SpelledLiveGen(g *hx.Gen) {
	n := 12
	if g.Thorough() {
		n = 150
	}
	body := hx.HS("PROBE-BODY-1")
	inners := []string{"ret:404:0", "ret:500:1", "ret:0:0", "panic", "panicafter:200:" + body,
		c12Write("200", "plain", 0, 1, "w"), c12Write("404", "tok", 0, 1, "c"), c12Write("200", "texec", 0, 1, "w"),
		"file:tok:" + hx.HS(c12Bodies["tok"])}
	for _, st := range c12SpelledStacks(g, n) {
		for _, in := range inners {
			p := "html"
			if g.Rng.Chance(1, 4) {
				p = "bin"
			}
			g.Case(st, p, "1", in)
		}
	}
}
