//go:build c13

package streams

import (
	"fmt"
	"io"
	"strconv"
	"strings"
	"time"

	"github.com/tmpim/casket/caskethttp/fastcgi"

	"verifharness/hx"
)

// c13.woverlap: several FCGIClient.Do calls whose write phases overlap, after requests that failed.
//
//   prelude  `;`-list of  pairs/body/rk/failAt : requests made one after the other before anything else,
//            each over a connection whose failAt-th Write and every later one fail (as in c13.wfail)
//   sched    comma list of client indices: one turn each
//   clients  id, pairs, body, rk  (as in c13.wire)
//
// Every client runs Do on its own goroutine over its own connection, but only the goroutine that holds
// the turn runs: a turn lasts from one barrier to the next, and there is a barrier in front of every
// Write on a connection and every Read of a (plain) body reader.  So the schedule fixes the interleaving
// of the write phases completely; with GOMAXPROCS(1) a sync.Pool behaves as a stack.  After the schedule
// the clients are run to completion in order.  Observed: what each connection received.

type c13Turns struct {
	cur     int
	arrived chan bool // false: at a barrier, true: Do returned
	grant   []chan struct{}
}

func (t *c13Turns) barrier() {
	if t == nil {
		return
	}
	i := t.cur
	t.arrived <- false
	<-t.grant[i]
}

// c13TurnConn records what is written to it; whoever writes waits for its turn first.
type c13TurnConn struct {
	t     *c13Turns
	wrote []byte
}

func (c *c13TurnConn) Read(b []byte) (int, error) { return 0, io.EOF }
func (c *c13TurnConn) Write(b []byte) (int, error) {
	c.t.barrier()
	c.wrote = append(c.wrote, b...)
	return len(b), nil
}
func (c *c13TurnConn) Close() error { return nil }

// c13TurnReader: a plain body reader (no WriteTo) with a barrier in front of every Read.
type c13TurnReader struct {
	t *c13Turns
	r io.Reader
}

func (r *c13TurnReader) Read(p []byte) (int, error) {
	r.t.barrier()
	return r.r.Read(p)
}

type c13WClient struct {
	id      int
	names   []string
	m       map[string]string
	body    []byte
	rk      string
	conn    *c13TurnConn
	started bool
	done    bool
	res     string
}

func c13WOverlapEval(f []string) (string, []string) {
	if len(f) < 10 || (len(f)-2)%4 != 0 {
		return "bad-case", nil
	}
	sched := c13ParseSched(f[1])
	t := &c13Turns{arrived: make(chan bool)}
	var cl []*c13WClient
	for i := 2; i+3 < len(f); i += 4 {
		id, _ := strconv.Atoi(f[i])
		names, m := c13ParsePairs(f[i+1])
		if len(names) > 1 {
			return "bad-case:one pair at most", nil // no map order to reproduce
		}
		k := &c13WClient{id: id, names: names, m: m, body: c13ParseBody(f[i+2]), rk: f[i+3], conn: &c13TurnConn{t: t}}
		cl = append(cl, k)
		t.grant = append(t.grant, make(chan struct{}))
	}
	preludeFailed := 0
	stuck := false
	switches := 0
	c13Lockstep(func() {
		// the requests that failed earlier
		if f[0] != "" {
			for _, it := range strings.Split(f[0], ";") {
				p := strings.Split(it, "/")
				if len(p) != 4 {
					continue
				}
				_, m := c13ParsePairs(p[0])
				failAt, _ := strconv.Atoi(p[3])
				conn := &breakingConn{failAt: failAt}
				c13Guard(func() string {
					c := fastcgi.VerifNewClient(conn, 1)
					c.Do(m, c13BodyReader(c13ParseBody(p[1]), p[2]))
					return ""
				})
				if conn.failed > 0 {
					preludeFailed++
				}
			}
		}
		run := func(k *c13WClient) {
			defer func() {
				if r := recover(); r != nil {
					k.res = "PANIC:" + strings.NewReplacer("\t", " ", "\n", " ").Replace(fmt.Sprint(r))
				}
				t.arrived <- true
			}()
			var body io.Reader
			switch {
			case k.rk == "n":
			case k.rk == "w":
				body = c13BodyReader(k.body, "w")
			default:
				body = &c13TurnReader{t, c13BodyReader(k.body, k.rk)}
			}
			c := fastcgi.VerifNewClient(k.conn, uint16(k.id))
			if _, err := c.Do(k.m, body); err != nil {
				k.res = "err:" + strings.NewReplacer("\t", " ").Replace(err.Error())
			}
		}
		timer := time.NewTimer(time.Hour)
		defer timer.Stop()
		turn := func(i int) {
			k := cl[i]
			if k.done || stuck {
				return
			}
			t.cur = i
			if !k.started {
				k.started = true
				go run(k)
			} else {
				t.grant[i] <- struct{}{}
			}
			if !timer.Stop() {
				select {
				case <-timer.C:
				default:
				}
			}
			timer.Reset(5 * time.Second)
			select {
			case fin := <-t.arrived:
				k.done = fin
			case <-timer.C:
				stuck = true
			}
		}
		last := -1
		for _, s := range sched {
			if s.who < 0 || s.who >= len(cl) || cl[s.who].done {
				continue
			}
			if last >= 0 && last != s.who {
				switches++
			}
			last = s.who
			turn(s.who)
		}
		for i := range cl {
			for n := 0; !cl[i].done && !stuck && n < 1000000; n++ {
				turn(i)
			}
		}
	})
	var vs []string
	for _, k := range cl {
		switch {
		case stuck && !k.done:
			vs = append(vs, "stuck")
		case k.res != "":
			vs = append(vs, k.res)
		default:
			vs = append(vs, hx.H(k.conn.wrote))
		}
	}
	tags := []string{"clients=" + strconv.Itoa(len(cl))}
	switch {
	case switches == 0:
		tags = append(tags, "trivial-not-interleaved")
	case preludeFailed > 0:
		tags = append(tags, "after-failed-requests")
	default:
		tags = append(tags, "no-earlier-failure")
	}
	out := strings.Join(vs, "\t")
	if strings.Contains(out, "PANIC") {
		tags = append(tags, "panic")
	}
	return out, tags
}

func c13WOverlapGen(g *hx.Gen) {
	r := g.Rng
	mw := fastcgi.VerifMaxWrite
	type cli struct {
		id              int
		pairs, body, rk string
	}
	emit := func(prelude []string, sched []int, cs []cli) {
		var ss []string
		for _, s := range sched {
			ss = append(ss, strconv.Itoa(s))
		}
		f := []string{strings.Join(prelude, ";"), strings.Join(ss, ",")}
		for _, c := range cs {
			f = append(f, strconv.Itoa(c.id), c.pairs, c.body, c.rk)
		}
		g.Case(f...)
	}
	// a small request has 5 writes: BeginRequest, the Params record (written by the final flush), the
	// Params terminator, the Stdin record, the Stdin terminator; failAt 6 = it does not fail
	small := func(failAt int) string { return "x41=42/5:2/w/" + strconv.Itoa(failAt) }
	// Params in two records: the first one is written by a flush inside the loop
	big := func(failAt int) string { return strconv.Itoa(mw-100) + ":50:1/5:2/w/" + strconv.Itoa(failAt) }
	two := []cli{{1, "3:40:1", "3000:5", "r1000"}, {1, "3:50:2", "2000:11", "r700"}}
	alt := func(k, n int) []int {
		var s []int
		for i := 0; i < n; i++ {
			s = append(s, i%k)
		}
		return s
	}
	// 1. every position at which an earlier request can fail x a few canonical interleavings of two uploads
	scheds := [][]int{alt(2, 40), {0, 0, 0, 0, 0, 1, 1, 1, 1, 0, 1, 0, 1}, {0, 0, 0, 0, 1, 1, 1, 1, 1, 1, 0, 0, 1}, {1, 0, 0, 0, 0, 0, 0, 1, 1, 0}}
	for k := 1; k <= 6; k++ {
		for _, s := range scheds {
			emit([]string{small(k)}, s, two)
		}
	}
	for k := 1; k <= 7; k++ {
		emit([]string{big(k)}, alt(2, 40), two)
	}
	emit(nil, alt(2, 40), two)
	// 2. several failures in a row, three clients, readers with and without WriteTo, bodies over a record
	three := []cli{{1, "3:40:1", "3000:5", "r1000"}, {2, "x41=42", strconv.Itoa(mw+10) + ":7", "r30000"}, {3, "5:5:3", "100:9", "w"}}
	for _, pre := range [][]string{{small(2), small(3)}, {small(3), big(3), small(2)}, {small(6)}, nil} {
		emit(pre, alt(3, 60), three)
		emit(pre, []int{0, 0, 0, 0, 0, 1, 1, 1, 1, 1, 2, 2, 2, 0, 1, 2, 0, 1}, three)
	}
	// 3. random: preludes, schedules, request shapes
	n := 60
	if g.Thorough() {
		n = 1500
	}
	for i := 0; i < n; i++ {
		var pre []string
		for k := r.Intn(3); k > 0; k-- {
			if r.Chance(1, 4) {
				pre = append(pre, big(1+r.Intn(7)))
			} else {
				pre = append(pre, small(1+r.Intn(6)))
			}
		}
		k := 2 + r.Intn(2)
		var cs []cli
		for j := 0; j < k; j++ {
			rk := hx.Pick(r, []string{"w", "n", "r100", "r1000", "r4096"})
			body := strconv.Itoa(hx.Pick(r, []int{0, 1, 50, 900, 5000})) + ":" + strconv.Itoa(r.Intn(26))
			if rk == "n" {
				body = "0:0"
			}
			cs = append(cs, cli{1 + r.Intn(9), fmt.Sprintf("%d:%d:%d", 1+r.Intn(20), r.Intn(200), r.Intn(26)), body, rk})
		}
		var s []int
		for l := r.Intn(30); l > 0; l-- {
			s = append(s, r.Intn(k))
		}
		emit(pre, s, cs)
	}
}

func c13RegisterWOverlap() {
	hx.Register(&hx.Stream{ID: "C13", Name: "c13.woverlap", Gen: c13WOverlapGen, Eval: c13WOverlapEval, Serial: true})
}
