//go:build c11

package streams

import (
	"crypto/ecdsa"
	"crypto/elliptic"
	"crypto/rand"
	"crypto/x509"
	"crypto/x509/pkix"
	"encoding/pem"
	"fmt"
	"math/big"
	"os"
	"path/filepath"
	"strings"
	"time"

	"verifharness/hx"
)

// c11.reload — SEARCH, like c11.setup, over what c11.setup keeps fixed: the SAME configuration is loaded several times
// in one process while the files it names change in between.  A running server does exactly that on every reload
// (SIGUSR1, Restart) and on a validation followed by a start, and directives keep process-wide state between the loads:
// basicauth's cache of parsed htpasswd files (with the stamp of the file, behind a mutex), the log rollers of
// `log`/`errors` keyed by file name, markdown's template lock, expvar's publish-once.  A setup path that is only taken
// when that state is STALE (the cached file was edited, removed, replaced) is never reached by loading each configuration
// once.
//
//	c11.reload  directive  confighex  ops
//
//	config  placeholders @T@ (the harness directory) and @M:htpasswd@ @M:text@ @M:cert@ @M:key@ : files of this case alone
//	        (created with their contents "A" before the first step, removed after the last); @m:…@ = the same file by its
//	        path relative to the working directory, @M@ = the directory of the files (the htpasswd file is ./htpasswd in it)
//	ops     one letter per step:
//	        V  load in validate mode        S  load in start mode           (each under recover and the watchdog)
//	        e  edit: every file gets its contents "B" (valid, other size)   m  malformed contents
//	        r  remove the files             c  recreate with contents "A"   t  same contents, later modification time
//	        d  a directory takes the place of each file
//	out     total                         every load returned (success or error), and a validation and a start with no
//	                                      file change between them agree on accept/reject
//	        PANIC:step<i>:<mode>:<msg> | TIMEOUT:step<i>:<mode> | DISAGREE:step<i>:…
//
// The model's answer is the constant "total"; the judge is the one of c11.setup (Spec.setupVerdict).
// After the first TIMEOUT of a directive the remaining cases of that directive are skipped (tag trivial-skipped-…).

var c11MutKinds = []string{"htpasswd", "text", "cert", "key"}

// contents A, B and malformed of every kind of file (sizes differ, so a stamp of size and time always sees the change)
var c11MutContent = map[string][3]string{
	"htpasswd": {
		"bob:{SHA}W6ph5Mm5Pz8GgiULbPgzG37mj9g=\n",
		"bob:{SHA}W6ph5Mm5Pz8GgiULbPgzG37mj9g=\n# second user\nalice:{SHA}W6ph5Mm5Pz8GgiULbPgzG37mj9g=\n",
		"no colon here\n",
	},
	"text": {
		"<html>{{.Doc.title}} hello</html>\n",
		"<html>{{.Doc.title}} {{.Doc.body}} hello again</html>\n",
		"{{.Doc.title} {{ {{end}}\n",
	},
}

// c11ReloadFiles writes the two certificate/key pairs (A and B) once per run into the harness directory; the worker
// process reads them from there.
func c11ReloadFiles(dir string) error {
	for _, name := range []string{"A", "B"} {
		key, err := ecdsa.GenerateKey(elliptic.P256(), rand.Reader)
		if err != nil {
			return err
		}
		tmpl := &x509.Certificate{SerialNumber: big.NewInt(int64(len(name)) + 41), Subject: pkix.Name{CommonName: "localhost " + name},
			NotBefore: time.Now().Add(-time.Hour), NotAfter: time.Now().Add(240 * time.Hour), DNSNames: []string{"localhost", "c11-" + name + ".test"},
			KeyUsage: x509.KeyUsageDigitalSignature, ExtKeyUsage: []x509.ExtKeyUsage{x509.ExtKeyUsageServerAuth}, BasicConstraintsValid: true, IsCA: true}
		der, err := x509.CreateCertificate(rand.Reader, tmpl, tmpl, &key.PublicKey, key)
		if err != nil {
			return err
		}
		kb, err := x509.MarshalECPrivateKey(key)
		if err != nil {
			return err
		}
		if err := os.WriteFile(filepath.Join(dir, "cert"+name+".pem"), pem.EncodeToMemory(&pem.Block{Type: "CERTIFICATE", Bytes: der}), 0o644); err != nil {
			return err
		}
		if err := os.WriteFile(filepath.Join(dir, "key"+name+".pem"), pem.EncodeToMemory(&pem.Block{Type: "EC PRIVATE KEY", Bytes: kb}), 0o600); err != nil {
			return err
		}
	}
	return nil
}

func c11MutBytes(kind string, variant int) []byte {
	switch kind {
	case "cert", "key":
		if variant == 2 {
			return []byte("-----BEGIN CERTIFICATE-----\nbm90IGEgY2VydGlmaWNhdGU=\n-----END CERTIFICATE-----\n")
		}
		b, err := os.ReadFile(filepath.Join(c11Tmp, kind+string("AB"[variant])+".pem"))
		if err != nil {
			panic("c11.reload: " + err.Error())
		}
		return b
	}
	return []byte(c11MutContent[kind][variant])
}

var c11MutSeq int

func c11ReloadEval(f []string) (string, []string) {
	if len(f) != 3 {
		return "bad-case", nil
	}
	if !c11IsWorker() {
		return c11Isolated("c11.reload", f, 1, "total")
	}
	return c11InWorker(c11ReloadLocal, f)
}

func c11ReloadLocal(f []string) (string, []string) {
	cfg := strings.ReplaceAll(strings.ReplaceAll(hx.UnHS(f[1]), "@T@", c11Tmp), "@R@", c11Rel)
	c11MutSeq++
	base := filepath.Join(c11Tmp, fmt.Sprintf("mut-%d-%d", os.Getpid(), c11MutSeq))
	if err := os.Mkdir(base, 0o755); err != nil {
		panic("c11.reload: " + err.Error())
	}
	defer os.RemoveAll(base)
	// @M:kind@ = the file's absolute path, @m:kind@ = its path relative to the working directory (basicauth joins the
	// htpasswd name to the site root, "." by default: an absolute name would not be found), @M@ = the files' directory
	var files []string // kinds in use
	rel := func(p string) string {
		if wd, err := os.Getwd(); err == nil {
			if r, err := filepath.Rel(wd, p); err == nil {
				return r
			}
		}
		return p
	}
	for _, k := range c11MutKinds {
		used := false
		for ph, path := range map[string]string{"@M:" + k + "@": filepath.Join(base, k), "@m:" + k + "@": rel(filepath.Join(base, k))} {
			if strings.Contains(cfg, ph) {
				cfg = strings.ReplaceAll(cfg, ph, path)
				used = true
			}
		}
		if used || (k == "htpasswd" && strings.Contains(cfg, "@M@")) {
			files = append(files, k)
		}
	}
	cfg = strings.ReplaceAll(cfg, "@M@", base)
	write := func(variant int, age time.Duration) {
		for _, k := range files {
			p := filepath.Join(base, k)
			os.RemoveAll(p)
			if err := os.WriteFile(p, c11MutBytes(k, variant), 0o644); err != nil {
				panic("c11.reload: " + err.Error())
			}
			if age != 0 {
				t := time.Now().Add(age)
				os.Chtimes(p, t, t)
			}
		}
	}
	write(0, 0)
	body := []byte(cfg)
	clean := func(s string) string {
		return strings.ReplaceAll(strings.ReplaceAll(strings.ReplaceAll(strings.ReplaceAll(s, rel(base), "@m@"), base, "@M@"), c11Rel, "@R@"), c11Tmp, "@T@")
	}
	tags := []string{"dir=" + f[0]}
	var results []string
	var epochV, epochS []string // outcomes of the validations / of the starts since the last file change
	touched := 0
	for i, op := range f[2] {
		switch op {
		case 'V', 'S':
			mode := "validate"
			if op == 'S' {
				mode = "start"
			}
			r, msg := c11RunMode(body, op == 'V')
			switch r {
			case "PANIC":
				return clean(fmt.Sprintf("PANIC:step%d:%s:%s", i, mode, msg)), tags
			case "TIMEOUT":
				return fmt.Sprintf("TIMEOUT:step%d:%s", i, mode), tags
			}
			results = append(results, r)
			// "validation and a real start agree": against every load of the OTHER mode that saw the same files
			other := epochS
			if op == 'S' {
				other = epochV
			}
			for _, o := range other {
				if o != r {
					return clean(fmt.Sprintf("DISAGREE:step%d:%s=%s but the other mode said %s on the same files:%s", i, mode, r, o, strings.SplitN(msg, "\n", 2)[0])), tags
				}
			}
			if op == 'V' {
				epochV = append(epochV, r)
			} else {
				epochS = append(epochS, r)
			}
			continue
		case 'e':
			write(1, 0)
		case 'm':
			write(2, 0)
		case 'c':
			write(0, 0)
		case 't':
			touched++
			write(0, time.Duration(touched)*time.Hour)
		case 'r':
			for _, k := range files {
				os.RemoveAll(filepath.Join(base, k))
			}
		case 'd':
			for _, k := range files {
				os.RemoveAll(filepath.Join(base, k))
				os.Mkdir(filepath.Join(base, k), 0o755)
			}
		default:
			return "bad-case", nil
		}
		epochV, epochS = nil, nil
	}
	switch {
	case len(results) < 2:
		tags = append(tags, "trivial-fewer-than-two-loads")
	default:
		first, same := results[0], true
		for _, r := range results {
			if r != first {
				same = false
			}
		}
		if same {
			tags = append(tags, "loads-all-"+first)
		} else {
			tags = append(tags, "loads-"+first+"-then-changes")
		}
	}
	if len(files) > 0 {
		tags = append(tags, "files="+strings.Join(files, "+"))
	}
	return "total", tags
}

// c11ReloadConfigs: the configurations of the stream, per directive.  `deep` ones get the longer step sequences.
type c11ReloadCfg struct {
	dir, cfg string
	deep     bool
}

func c11ReloadConfigs() []c11ReloadCfg {
	site := func(lines ...string) string { return "localhost:2015 {\n\t" + strings.Join(lines, "\n\t") + "\n}\n" }
	hp := "htpasswd=@m:htpasswd@"
	return []c11ReloadCfg{
		// basicauth: the cache of parsed htpasswd files, its stamps, its mutex
		{"basicauth", site("basicauth / bob " + hp), true},
		{"basicauth", site("basicauth / alice " + hp), true}, // alice is only in contents B
		{"basicauth", site("basicauth bob "+hp+" {", "\trealm x", "\t/a", "}"), false},
		{"basicauth", site("basicauth /a bob "+hp, "basicauth /b alice "+hp), false},
		{"basicauth", site("basicauth /a bob "+hp, "basicauth /b bob htpasswd=@R@/htpasswd"), false},
		{"basicauth", "localhost:2015, localhost:2016 {\n\tbasicauth / bob " + hp + "\n}\n", false},
		{"basicauth", site("root @M@", "basicauth / bob htpasswd=htpasswd"), false},
		{"basicauth", site("basicauth / bob secret"), false},
		// log / errors: process-wide log rollers keyed by file name
		{"log", site("log / @T@/reload-access.log {", "\trotate_size 5", "\trotate_keep 2", "}"), false},
		{"log", site("log / @M:text@ {", "\trotate_age 1", "}"), false},
		{"errors", site("errors @T@/reload-errors.log {", "\trotate_size 1", "\t404 @M:text@", "}"), false},
		{"errors", site("errors {", "\t* @M:text@", "}"), false},
		// templates read at setup
		{"markdown", site("markdown / {", "\ttemplate @M:text@", "}"), false},
		{"markdown", site("markdown / {", "\ttemplate a @M:text@", "\ttemplatedir @T@/dir", "}"), false},
		{"browse", site("browse / @M:text@"), false},
		// certificates and keys read at setup
		{"tls", site("tls @M:cert@ @M:key@"), false},
		{"tls", site("tls @M:cert@ @M:key@ {", "\tclients @M:cert@", "}"), false},
		{"proxy", site("proxy / localhost:1 {", "\tca_certificates @M:cert@", "}"), false},
		{"proxy", site("proxy / https://localhost:1 {", "\ttls_client @M:cert@ @M:key@", "}"), false},
		// registries filled at setup
		{"tls", site("tls self_signed"), false},
		{"expvar", site("expvar /vars"), false},
		{"pprof", site("pprof"), false},
		{"on", site("on startup true"), false},
		{"root", site("root @M:text@"), false},
		{"mime", site("mime .x a/b"), false},
	}
}

func c11ReloadGen(g *hx.Gen) {
	// a step = an optional file change followed by a load
	var steps []string
	for _, m := range []string{"", "e", "r", "c", "m", "t", "d"} {
		for _, l := range []string{"V", "S"} {
			steps = append(steps, m+l)
		}
	}
	seqs := func(n int) []string {
		out := []string{""}
		var all []string
		for i := 0; i < n; i++ {
			var next []string
			for _, p := range out {
				for _, s := range steps {
					next = append(next, p+s)
				}
			}
			out = next
			all = append(all, out...)
		}
		return all // shortest first: the first failing case reported is a short one
	}
	deep, shallow := 3, 2
	if g.Thorough() {
		deep, shallow = 4, 3
	}
	deepSeqs, shallowSeqs := seqs(deep), seqs(shallow)
	for _, c := range c11ReloadConfigs() {
		ss := shallowSeqs
		if c.deep {
			ss = deepSeqs
		}
		hasFiles := strings.Contains(c.cfg, "@M") || strings.Contains(c.cfg, "@m:")
		for _, s := range ss {
			if !hasFiles && strings.ContainsAny(s, "ercmtd") {
				continue // nothing to change: only the plain repetitions
			}
			g.Case(c.dir, hx.HS(c.cfg), s)
		}
		if !hasFiles {
			for _, s := range []string{"VVV", "SSS", "VSVS", "SVSV", "SSVV"} {
				g.Case(c.dir, hx.HS(c.cfg), s)
			}
		}
	}
	// random longer histories
	r := g.Rng
	N := 300
	if g.Thorough() {
		N = 6000
	}
	cfgs := c11ReloadConfigs()
	for i := 0; i < N; i++ {
		c := hx.Pick(r, cfgs)
		if !strings.Contains(c.cfg, "@M") && !strings.Contains(c.cfg, "@m:") {
			continue
		}
		var sb strings.Builder
		for k := 4 + r.Intn(5); k > 0; k-- {
			sb.WriteString(hx.Pick(r, steps))
		}
		g.Case(c.dir, hx.HS(c.cfg), sb.String())
	}
}

func init() {
	hx.Register(&hx.Stream{ID: "C11", Name: "c11.reload", Gen: c11ReloadGen, Eval: c11ReloadEval, Serial: true, Setup: c11Setup, Teardown: c11Teardown})
	hx.Register(&hx.Stream{ID: "C11", Name: "c11.htcache", Gen: c11HtGen, Eval: c11HtEval, Serial: true, Setup: c11Setup, Teardown: c11Teardown})
}
