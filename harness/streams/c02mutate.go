//go:build c02

package streams

// c02.mutate: ONE running site per case, and a script of requests and of changes made to the
// fixture tree between them — the hidden file (the Casketfile) replaced by a new inode the way
// editors and deploy tools do it (write beside + rename over), removed and created again, hard
// linked under a sibling's name; a served file replaced; a precompressed sibling or an index
// page added or removed.  Every answer is compared with the model's answer on, and judged
// against, the file system AS IT IS AT THAT MOMENT (Model/FileServeSeq.lean,
// Spec/FileServeSeq.lean).  casket keeps nothing between requests here; anything a change
// of the code makes it remember (seeded regression C02-ishidden-fileinfo-cached-forever: the
// os.FileInfo of the hidden file, looked up once and kept for ever) shows after the change.
//
// A case starts its own site in its own temp dir (fsFreshSite): a cache keyed by the site root
// cannot be warmed by an earlier case, the script itself has to do that.

import (
	"fmt"
	"net/url"
	"os"
	"path"
	"path/filepath"
	"strconv"
	"strings"
	"time"

	"verifharness/hx"
)

// ---- the changes, applied to the tree below T the way Model/FileServeSeq.applyStep does ----

func c02mIsDir(full string) bool {
	st, err := os.Lstat(full)
	return err == nil && st.IsDir()
}

// bindable: the name can be (re)bound to a regular file
func c02mBindable(T, p string) bool {
	full := filepath.Join(T, filepath.FromSlash(p))
	if path.Clean("/"+p) == "/" || c02mIsDir(full) {
		return false
	}
	return c02mIsDir(filepath.Dir(full))
}

func c02mContent(s *fsSite, p string, ino int) string {
	if p == s.cfPath {
		return "# " + fsToken(ino) + "\n" + s.cfText
	}
	return fsContent(ino)
}

// write: a NEW file (new inode) under the name p: written beside it, renamed over it
func c02mWrite(s *fsSite, p string, ino int) error {
	if !c02mBindable(s.T, p) {
		return nil
	}
	full := filepath.Join(s.T, filepath.FromSlash(p))
	tmp := filepath.Join(filepath.Dir(full), ".verif-new-"+strconv.Itoa(ino))
	if err := os.WriteFile(tmp, []byte(c02mContent(s, p, ino)), 0o644); err != nil {
		return err
	}
	mt := time.Unix(fsBaseTime+100*int64(ino), 0)
	os.Chtimes(tmp, mt, mt)
	return os.Rename(tmp, full)
}

func c02mRemove(s *fsSite, p string) error {
	full := filepath.Join(s.T, filepath.FromSlash(p))
	if st, err := os.Lstat(full); err != nil || !st.Mode().IsRegular() {
		return nil
	}
	return os.Remove(full)
}

// link: ln -f src p
func c02mLink(s *fsSite, p, src string) error {
	fsrc := filepath.Join(s.T, filepath.FromSlash(src))
	if st, err := os.Lstat(fsrc); err != nil || !st.Mode().IsRegular() {
		return nil
	}
	if !c02mBindable(s.T, p) {
		return nil
	}
	full := filepath.Join(s.T, filepath.FromSlash(p))
	if a, err := os.Lstat(full); err == nil {
		if b, _ := os.Lstat(fsrc); os.SameFile(a, b) {
			return nil // already a name of that inode
		}
		if err := os.Remove(full); err != nil {
			return err
		}
	}
	return os.Link(fsrc, full)
}

func c02mEval(f []string) (string, []string) {
	if len(f) < 6 {
		return "bad-case", nil
	}
	site, err := fsFreshSite(f[:6], func(T string) (string, error) {
		return fsCasketfileText(T, hx.UnHS(f[1]), hx.UnHS(f[3]), hx.UnHS(f[4]), hx.UnHS(f[5]), ""), nil
	})
	defer fsStopSite(site)
	if err != nil {
		return "setup-error:" + err.Error(), nil
	}
	var outs []string
	tagset := map[string]bool{}
	changed := false
	nontrivial := false
	for _, st := range f[6:] {
		p := strings.Split(st, ":")
		var err error
		switch {
		case p[0] == "G" && len(p) == 5:
			hdr := "Accept: application/json\r\n"
			if p[4] == "h" {
				hdr = "Accept: text/html\r\n"
			}
			if ae := hx.UnHS(p[3]); ae != "" {
				hdr += "Accept-Encoding: " + ae + "\r\n"
			}
			out, kind := site.roundTrip(p[1], hx.UnHS(p[2]), hdr)
			outs = append(outs, out)
			if changed {
				tagset["after-change:"+kind] = true
				if kind != "S404" && kind != "S400" && kind != "S405" {
					nontrivial = true
				}
			}
		case p[0] == "W" && len(p) == 3:
			ino, _ := strconv.Atoi(p[2])
			pp := hx.UnHS(p[1])
			if pp == site.cfPath {
				tagset["hidden-file-replaced"] = true
			} else {
				tagset["file-written"] = true
			}
			err = c02mWrite(site, pp, ino)
			changed = true
		case p[0] == "D" && len(p) == 2:
			if hx.UnHS(p[1]) == site.cfPath {
				tagset["hidden-file-removed"] = true
			} else {
				tagset["file-removed"] = true
			}
			err = c02mRemove(site, hx.UnHS(p[1]))
			changed = true
		case p[0] == "L" && len(p) == 3:
			if hx.UnHS(p[2]) == site.cfPath {
				tagset["hidden-file-linked"] = true
			} else {
				tagset["file-linked"] = true
			}
			err = c02mLink(site, hx.UnHS(p[1]), hx.UnHS(p[2]))
			changed = true
		default:
			return "bad-case", nil
		}
		if err != nil {
			return "setup-error:" + strings.ReplaceAll(err.Error(), site.T, ""), nil
		}
	}
	var tags []string
	for t := range tagset {
		tags = append(tags, t)
	}
	if !nontrivial {
		tags = append(tags, "trivial-nothing-served-after-a-change")
	}
	return strings.Join(outs, "|"), tags
}

// ---- generator ----

type c02mScript struct {
	steps []string
	next  int // next fresh inode number
}

func (sc *c02mScript) get(method, target, ae, fm string) {
	sc.steps = append(sc.steps, fmt.Sprintf("G:%s:%s:%s:%s", method, hx.HS(target), hx.HS(ae), fm))
}
func (sc *c02mScript) write(p string) {
	sc.steps = append(sc.steps, fmt.Sprintf("W:%s:%d", hx.HS(p), sc.next))
	sc.next++
}
func (sc *c02mScript) remove(p string) { sc.steps = append(sc.steps, "D:"+hx.HS(p)) }
func (sc *c02mScript) link(p, src string) {
	sc.steps = append(sc.steps, "L:"+hx.HS(p)+":"+hx.HS(src))
}

// url of a fixture path of the site (escaped, with the site's path prefix)
func c02mURL(s c02Site, fixturePath string) string {
	rel := strings.TrimPrefix(fixturePath, "/site")
	if rel == "" {
		rel = "/"
	}
	return s.prefix + (&url.URL{Path: rel}).EscapedPath()
}

// url of a fixture directory, with exactly one trailing slash
func c02mDirURL(s c02Site, d string) string {
	u := c02mURL(s, d)
	if !strings.HasSuffix(u, "/") {
		u += "/"
	}
	return u
}

func c02mGen(g *hx.Gen) {
	sites := []c02Site{
		{0, "/site/Casketfile", "", "/|" + c02Arch, "", nil},
		{0, "/site/Casketfile", "", "", "", nil},
		{0, "/site/dir/Casketfile", "", "/|tar", "", nil},
		{0, "/site/dir/c.txt.gz", "", "/dir|", "", nil},
		{0, "/site/sub/index.html", "", "/|tar", "", nil},
		{0, "/site/Casketfile", "/pre", "/|zip", "", nil},
		{1, "/site/DIR/Casketfile", "", "/DIR|tar.gz", "", nil},
		{2, "/site/Casketfile", "", "/|" + c02Arch, "", nil},
		{2, "/site/dir/deep/index.txt.br", "", "/dir/|tar", "", nil},
		{0, "/Casketfile", "", "/|tar", "", nil},
	}
	nrand := 4
	if g.Thorough() {
		nrand = 40
	}
	for i := 0; i < nrand; i++ {
		sites = append(sites, c02RandomSite(g, 100+i))
	}
	for _, s := range sites {
		sf := s.fields()
		fx := s.fixture()
		emit := func(sc *c02mScript) { g.Case(append(append([]string{}, sf...), sc.steps...)...) }
		cf := s.casketfile
		cfDir := path.Dir(cf)
		inRoot := strings.HasPrefix(cf, "/site/")
		var files, dirs []string
		for _, e := range fx.entries {
			if !strings.HasPrefix(e.path, "/site/") {
				continue
			}
			if e.isDir {
				dirs = append(dirs, e.path)
			} else if e.path != cf {
				files = append(files, e.path)
			}
		}
		dirs = append(dirs, "/site")
		plain := "/site/a.txt"
		if !fx.has(plain) && len(files) > 0 {
			plain = files[0]
		}
		// what a client asks about the hidden file: its own URL (GET and HEAD), the listing and the
		// archives of its directory, the URL it would be a sibling / an index page of
		probe := func(sc *c02mScript) {
			if inRoot {
				sc.get("GET", c02mURL(s, cf), "", "j")
				sc.get("HEAD", c02mURL(s, cf), "", "j")
				sc.get("GET", c02mDirURL(s, cfDir), "", "j")
				sc.get("GET", c02mDirURL(s, cfDir), "", "h")
				sc.get("GET", c02mDirURL(s, cfDir)+"?archive=tar", "", "j")
				sc.get("GET", c02mDirURL(s, cfDir)+"?archive=zip", "", "j")
				for _, ext := range []string{".gz", ".br", ".zst"} {
					if strings.HasSuffix(cf, ext) {
						sc.get("GET", c02mURL(s, strings.TrimSuffix(cf, ext)), "gzip, br, zstd", "j")
					}
				}
			}
			sc.get("GET", c02mURL(s, plain), "gzip", "j")
		}
		warm := func(sc *c02mScript, k int) {
			switch k % 4 {
			case 0: // ordinary traffic: a served file makes IsHidden look at the hide list
				sc.get("GET", c02mURL(s, plain), "", "j")
			case 1:
				sc.get("GET", c02mURL(s, cf), "", "j")
			case 2:
				sc.get("GET", c02mDirURL(s, cfDir), "", "j")
			case 3: // no request before the change
			}
		}
		for k := 0; k < 4; k++ {
			// the hidden file is replaced: write beside + rename
			sc := &c02mScript{next: 1000}
			warm(sc, k)
			sc.write(cf)
			probe(sc)
			emit(sc)
			// removed, asked for, created again, asked for
			sc = &c02mScript{next: 1000}
			warm(sc, k)
			sc.remove(cf)
			probe(sc)
			sc.write(cf)
			probe(sc)
			emit(sc)
			// replaced, then the new file gets a second name where a sibling is looked for
			sc = &c02mScript{next: 1000}
			warm(sc, k)
			sc.write(cf)
			sc.link(plain+".gz", cf)
			sc.get("GET", c02mURL(s, plain), "gzip", "j")
			sc.get("GET", c02mURL(s, plain), " br , gzip", "j")
			sc.get("GET", c02mURL(s, plain+".gz"), "", "j")
			sc.get("GET", c02mDirURL(s, path.Dir(plain)), "", "j")
			sc.get("GET", c02mDirURL(s, path.Dir(plain))+"?archive=tar", "", "j")
			emit(sc)
			// replaced twice, a request in between
			sc = &c02mScript{next: 1000}
			warm(sc, k)
			sc.write(cf)
			sc.get("GET", c02mURL(s, cf), "", "j")
			sc.write(cf)
			probe(sc)
			emit(sc)
		}
		// ordinary files change: a served file is replaced, a sibling appears and disappears, an index
		// page appears and disappears, a file gets a second name
		for _, p := range files {
			if len(files) > 6 && g.Rng.Chance(1, 2) {
				continue
			}
			sc := &c02mScript{next: 2000}
			sc.get("GET", c02mURL(s, p), "gzip", "j")
			sc.write(p)
			sc.get("GET", c02mURL(s, p), "", "j")
			sc.write(p + ".gz")
			sc.get("GET", c02mURL(s, p), "gzip", "j")
			sc.get("GET", c02mURL(s, p), "br", "j")
			sc.remove(p + ".gz")
			sc.get("GET", c02mURL(s, p), "gzip", "j")
			sc.link(path.Dir(p)+"/second name", p)
			sc.get("GET", c02mURL(s, path.Dir(p)+"/second name"), "", "j")
			sc.remove(p)
			sc.get("GET", c02mURL(s, p), "", "j")
			sc.get("GET", c02mURL(s, path.Dir(p)+"/second name"), "", "j")
			emit(sc)
		}
		for _, d := range dirs {
			sc := &c02mScript{next: 3000}
			sc.get("GET", c02mDirURL(s, d), "", "j")
			sc.write(d + "/index.html")
			sc.get("GET", c02mDirURL(s, d), "", "j")
			sc.get("GET", c02mDirURL(s, d), "gzip", "h")
			sc.write(d + "/index.html.gz")
			sc.get("GET", c02mDirURL(s, d), "gzip", "j")
			sc.remove(d + "/index.html")
			sc.get("GET", c02mDirURL(s, d), "gzip", "j")
			sc.get("GET", c02mDirURL(s, d)+"?archive=tar", "", "j")
			if inRoot { // the index page IS the hidden file, under a second name
				sc.link(d+"/index.html", cf)
				sc.get("GET", c02mDirURL(s, d), "", "j")
				sc.write(cf)
				sc.get("GET", c02mDirURL(s, d), "", "j")
			}
			emit(sc)
		}
		// seeded random scripts
		n := 30
		if g.Thorough() {
			n = 150
		}
		names := []string{"new.txt", "index.html", "f.txt.gz", "a.txt.gz", "a.txt.br", "second", "Casketfile", "x y.txt"}
		for i := 0; i < n; i++ {
			sc := &c02mScript{next: 5000}
			pickFile := func() string {
				switch g.Rng.Intn(5) {
				case 0, 1:
					return cf
				case 2:
					return hx.Pick(g.Rng, dirs) + "/" + hx.Pick(g.Rng, names)
				}
				if len(files) == 0 {
					return cf
				}
				f := hx.Pick(g.Rng, files)
				if g.Rng.Chance(1, 4) {
					f += hx.Pick(g.Rng, []string{".gz", ".br", ".zst"})
				}
				return f
			}
			for k := 3 + g.Rng.Intn(8); k > 0; k-- {
				switch g.Rng.Intn(9) {
				case 0, 1:
					sc.write(pickFile())
				case 2:
					sc.remove(pickFile())
				case 3:
					sc.link(pickFile(), pickFile())
				default:
					var target string
					switch g.Rng.Intn(4) {
					case 0:
						target = c02mDirURL(s, hx.Pick(g.Rng, dirs)) + hx.Pick(g.Rng, []string{"", "", "?archive=tar", "?archive=zip"})
					case 1:
						target = c02mURL(s, cf)
					default:
						target = c02mURL(s, strings.TrimSuffix(strings.TrimSuffix(strings.TrimSuffix(pickFile(), ".gz"), ".br"), ".zst"))
					}
					fm := "j"
					if g.Rng.Chance(1, 6) {
						fm = "h"
					}
					sc.get(hx.Pick(g.Rng, []string{"GET", "GET", "GET", "HEAD"}), target, hx.Pick(g.Rng, []string{"", "gzip", "br, gzip", "zstd"}), fm)
				}
			}
			sc.get("GET", c02mURL(s, cf), "", "j")
			emit(sc)
		}
	}
}

func init() {
	hx.Register(&hx.Stream{ID: "C02", Name: "c02.mutate", Gen: c02mGen, Eval: c02mEval, Setup: fsSetup, Teardown: fsTeardown})
}
