//go:build c15

package streams

import (
	"fmt"
	"strings"

	"verifharness/hx"
)

// ---------------------------------------------------------------------------
// generators of the C15 streams: exhaustive small scopes first, then seeded structured random,
// then malformed input.  Every random choice is drawn from g.Rng.
// ---------------------------------------------------------------------------

// c15G is a generator for one pair of configured ports: every case gets the leading field "<http>/<https>".
type c15G struct {
	*hx.Gen
	ports string // "<http>/<https>"
	H, S  string // the two ports as text
	div   int    // moved-port pairs get 1/div of the random volume
}

func (w *c15G) Case(f ...string) { w.Gen.Case(append([]string{w.ports}, f...)...) }
func (w *c15G) scaled(n int) int { return n / w.div }
func (w *c15G) moved() bool     { return w.div > 1 }

var c15PortPairs = [][2]string{{"80", "443"}, {"8080", "8443"}, {"80", "8443"}, {"8080", "443"}}

// c15AllPorts runs a per-port-pair generator for the default ports (full volume) and the moved pairs (reduced volume).
func c15AllPorts(g *hx.Gen, gen func(w *c15G)) {
	for i, pp := range c15PortPairs {
		w := &c15G{Gen: g, ports: pp[0] + "/" + pp[1], H: pp[0], S: pp[1], div: 1}
		if i > 0 {
			w.div = 4
		}
		gen(w)
	}
}

var c15Labels = []string{"example", "www", "a", "sub-1", "xn--bcher-kva", "b_c", "localhost", "local", "test", "127", "10", "0"}

// suffixes: the internal-only ones, near misses of them, and public ones
var c15Suffixes = []string{".com", ".net", ".localhost", ".local", ".test", ".example", ".invalid", ".home.arpa",
	".locall", ".xlocal", "local", ".tests", ".example.com", ".invalid.org", ".arpa", ".localhost.com", ".internal", ".lan", ""}

var c15IPv4 = []string{
	"0.0.0.0", "1.2.3.4", "9.255.255.255", "10.0.0.0", "10.1.2.3", "10.255.255.255", "11.0.0.0",
	"126.255.255.255", "127.0.0.0", "127.0.0.1", "127.1.2.3", "127.255.255.255", "128.0.0.0",
	"172.15.255.255", "172.16.0.0", "172.20.1.1", "172.31.255.255", "172.32.0.0",
	"192.167.255.255", "192.168.0.0", "192.168.1.5", "192.168.255.255", "192.169.0.0",
	"203.0.113.7", "255.255.255.255",
	// not addresses for Go
	"010.0.0.1", "10.0.0.01", "10.0.0", "10.0.0.0.1", "10.0.0.256", "10..0.1", ".10.0.0.1", "10.0.0.1.", "127.1", "127.0.0.1x", "1.2.3.4/8",
}

var c15IPv6 = []string{
	"::", "::1", "::2", "1::", "0:0:0:0:0:0:0:1", "0::1", "::0:1", "0:0:0:0:0:0:0:0", "2001:db8::1", "2001:DB8::1", "2001:db8:0:0:1:0:0:1",
	"2001:0db8::0001", "fc00::", "fc00::1", "fd12:3456:789a:1::1", "fdff:ffff:ffff:ffff:ffff:ffff:ffff:ffff", "fbff:ffff:ffff:ffff:ffff:ffff:ffff:ffff",
	"fe00::", "fe80::1", "FC00::1", "::ffff:10.0.0.1", "::ffff:127.0.0.1", "::ffff:1.2.3.4", "::ffff:c0a8:0101", "::127.0.0.1", "64:ff9b::10.0.0.1",
	"1:2:3:4:5:6:7:8", "1:2:3:4:5:6:7::", "::2:3:4:5:6:7:8", "1:2:3:4:5:6:1.2.3.4", "1:0:0:2:0:0:0:3", "1:0:0:0:2:0:0:3", "0:0:1:0:0:1:0:0",
	// not addresses for Go
	"1:2:3:4:5:6:7:8:9", "1:2:3:4:5:6:7", "1::2::3", ":1", "1:", ":::", "12345::", "g::1", "::1%eth0", "fe80::1%25eth0", "1:2:3:4:5:6:7:1.2.3.4", "::1.2.3", "::ffff:1.2.3.4.5", "1:2:3:4:5:6:7:8::", "::1:2:3:4:5:6:7:8",
}

func c15Names() []string {
	var out []string
	for _, l := range c15Labels {
		for _, s := range c15Suffixes {
			out = append(out, l+s)
		}
	}
	out = append(out, "a.b.example.com", "*.example.com", "*.com", "*", "*.*.example.com", "a.*.example.com", "*example.com", "*.a.b.example.com", "**.example.com",
		"*.example.local", "*.localhost", ".example.com", "example.com.", ".", "..", "a..b", "-", "_", "~", "a:1:2", "example.com:80", "localhost:80", "localhost:",
		"foo.local:443", "10.0.0.1:80", "[::1]:80", "[fc00::1]:8888", "[::1]", "[fc00::1]", "[10.0.0.1]", "[localhost]", "[example.com]", "[[::1]]", "[::1", "::1]", "[]", "[", "]",
		"LOCALHOST", "Sub.LocalHost", "EXAMPLE.COM", "Foo.LOCAL", "FOO.Test", "x.HOME.ARPA", "Example.Com")
	return out
}

func c15WhiteSpace() []string {
	return []string{" ", "\t", "\n", "\r", "\v", "\f", " \t ", "\r\r", "\u0085", "\u00a0", "\u1680", "\u2000", "\u2005", "\u200a", "\u200b", "\u2028", "\u2029", "\u202f", "\u205f", "\u3000", "\u3001",
		"\u00a0\u2003", "\r\u0085", "\u00a0x", "x\u00a0", "\xc2", "\xc2\x85\xc2", "\xe2\x80", "\xe2\x80\x8b", "\xe2\x80\xa8\r", "\xe2\x81\x9f", "\xe1\x9a\x80", "\xe1\x9a\x81", "\xe3\x80\x80\xe3\x80\x80",
		"\u212a.com", "b\u00fccher.de", "\xff.com", "exa\x80mple.com", "\u0130.com"}
}

const c15Forbidden = "()[]{}<> \t\n\"\\!@#$%^&|;'+="

func c15HostGen(g *hx.Gen) {
	g.Case("")
	for _, h := range c15Names() {
		g.Case(c15Q(h))
	}
	for _, h := range c15IPv4 {
		g.Case(c15Q(h))
		g.Case(c15Q(h + ":80"))
		g.Case(c15Q("[" + h + "]"))
	}
	for _, h := range c15IPv6 {
		g.Case(c15Q(h))
		g.Case(c15Q("[" + h + "]"))
		g.Case(c15Q("[" + h + "]:443"))
		g.Case(c15Q(strings.ToUpper(h)))
	}
	for _, h := range c15WhiteSpace() {
		g.Case(c15Q(h))
	}
	// every forbidden character, and a few allowed odd ones, at the start, middle and end of a public name
	for _, c := range c15Forbidden + ":,/?*_~`" {
		g.Case(c15Q(string(c) + "example.com"))
		g.Case(c15Q("exam" + string(c) + "ple.com"))
		g.Case(c15Q("example.com" + string(c)))
	}
	N := 15000
	if g.Thorough() {
		N = 400000
	}
	for i := 0; i < N; i++ {
		g.Case(c15Q(c15RandHost(g.Rng)))
	}
}

func c15RandIPv4(r *hx.Rng) string {
	oct := func() int {
		switch r.Intn(6) {
		case 0:
			return hx.Pick(r, []int{0, 9, 10, 11, 126, 127, 128, 171, 172, 173, 191, 192, 193, 255})
		case 1:
			return hx.Pick(r, []int{15, 16, 17, 31, 32, 167, 168, 169})
		}
		return r.Intn(256)
	}
	return fmt.Sprintf("%d.%d.%d.%d", oct(), oct(), oct(), oct())
}

func c15RandIPv6(r *hx.Rng) string {
	// 8 groups, some zero runs, then optionally compressed / upper-cased / zero-padded / with an IPv4 tail
	var gs [8]int
	for i := range gs {
		switch r.Intn(5) {
		case 0, 1:
			gs[i] = 0
		case 2:
			gs[i] = hx.Pick(r, []int{1, 0xfc00, 0xfd00, 0xfe00, 0xfbff, 0xffff, 0x7f00, 0x0a00, 0xc0a8, 0xac10})
		default:
			gs[i] = r.Intn(0x10000)
		}
	}
	if r.Chance(1, 4) { // v4-mapped / compatible prefixes
		gs = [8]int{0, 0, 0, 0, 0, 0xffff, gs[6], gs[7]}
		if r.Chance(1, 3) {
			gs[5] = 0
		}
	}
	if r.Chance(1, 3) {
		gs[0] = hx.Pick(r, []int{0xfc00, 0xfd12, 0xfe80, 0xfbff, 0, 0x2001})
	}
	hex := func(v int) string {
		s := fmt.Sprintf("%x", v)
		if r.Chance(1, 6) {
			s = fmt.Sprintf("%04x", v)
		}
		if r.Chance(1, 6) {
			s = strings.ToUpper(s)
		}
		return s
	}
	parts := make([]string, 8)
	for i, v := range gs {
		parts[i] = hex(v)
	}
	tail := ""
	n := 8
	if r.Chance(1, 4) {
		n = 6
		tail = fmt.Sprintf("%d.%d.%d.%d", gs[6]>>8, gs[6]&255, gs[7]>>8, gs[7]&255)
	}
	// choose a zero run to compress (not necessarily the longest: Go accepts any)
	if r.Chance(2, 3) {
		var runs [][2]int
		for i := 0; i < n; i++ {
			if gs[i] == 0 {
				j := i
				for j < n && gs[j] == 0 {
					j++
				}
				for k := i + 1; k <= j; k++ {
					runs = append(runs, [2]int{i, k})
				}
			}
		}
		if len(runs) > 0 {
			run := hx.Pick(r, runs)
			left := strings.Join(parts[:run[0]], ":")
			right := strings.Join(parts[run[1]:n], ":")
			s := left + "::" + right
			if tail != "" {
				if right != "" {
					s += ":"
				}
				s += tail
			}
			return s
		}
	}
	s := strings.Join(parts[:n], ":")
	if tail != "" {
		s += ":" + tail
	}
	return s
}

func c15RandName(r *hx.Rng) string {
	n := 1 + r.Intn(3)
	var ls []string
	for i := 0; i < n; i++ {
		if r.Chance(1, 2) {
			ls = append(ls, hx.Pick(r, c15Labels))
		} else {
			b := make([]byte, 1+r.Intn(6))
			for j := range b {
				b[j] = "abcdefghijklmnopqrstuvwxyz0123456789-"[r.Intn(37)]
			}
			ls = append(ls, string(b))
		}
	}
	s := strings.Join(ls, ".") + hx.Pick(r, c15Suffixes)
	if r.Chance(1, 8) {
		s = "*." + s
	}
	if r.Chance(1, 10) {
		s = strings.ToUpper(s)
	}
	return s
}

func c15Mutate(r *hx.Rng, s string) string {
	const alpha = ".:[]%*0123456789abcdefABCDEF-_ \t\"@!+=/\\x127localhost\xc2\xa0\xff"
	b := []byte(s)
	for k := 1 + r.Intn(2); k > 0; k-- {
		pos := r.Intn(len(b) + 1)
		switch r.Intn(3) {
		case 0:
			b = append(b[:pos], append([]byte{alpha[r.Intn(len(alpha))]}, b[pos:]...)...)
		case 1:
			if pos < len(b) {
				b = append(b[:pos], b[pos+1:]...)
			}
		default:
			if pos < len(b) {
				b[pos] = alpha[r.Intn(len(alpha))]
			}
		}
	}
	return string(b)
}

func c15RandHost(r *hx.Rng) string {
	var s string
	switch r.Intn(10) {
	case 0, 1:
		s = c15RandIPv4(r)
	case 2, 3, 4:
		s = c15RandIPv6(r)
	case 5, 6, 7:
		s = c15RandName(r)
	case 8:
		s = hx.Pick(r, c15Names())
	default:
		// short strings over the alphabet the parsers branch on
		b := make([]byte, r.Intn(10))
		for i := range b {
			b[i] = ".:[]%*0123456789afFx127"[r.Intn(23)]
		}
		s = string(b)
	}
	switch r.Intn(12) {
	case 0:
		s = "[" + s + "]"
	case 1:
		s = s + ":" + hx.Pick(r, []string{"80", "443", "", "8080", "x"})
	case 2:
		s = "[" + s + "]:" + hx.Pick(r, []string{"80", "443", ""})
	case 3, 4:
		s = c15Mutate(r, s)
	}
	return s
}

// ---- c15.qualify ----

// representatives of every host class (site host and bind host)
var c15HostReps = []string{"", "example.com", "sub.example.com", "*.example.com", "*.com", "203.0.113.7", "2001:db8::1", "127.0.0.1", "::1", "localhost", "a.localhost",
	"10.1.2.3", "172.16.0.1", "192.168.1.5", "fc00::1", "foo.local", "foo.test", "foo.example", "foo.invalid", "x.home.arpa", "127.example.com", "exa mple.com",
	"example.com.", "a:1:2", "EXAMPLE.COM", "LOCALHOST", "Foo.Local"}

var c15BindReps = []string{"", "203.0.113.7", "0.0.0.0", "::", "127.0.0.1", "127.0.0.53", "::1", "[::1]", "0:0:0:0:0:0:0:1", "::ffff:127.0.0.1", "10.0.0.1", "172.31.0.1", "192.168.0.1",
	"fd00::1", "[fd00::1]", "::ffff:10.0.0.1", "localhost", "LOCALHOST", "a.localhost", "printer.local", "Printer.LOCAL", "example.com", "127.example.com", "x.home.arpa", "localhost:80", "10.0.0.1:80"}

func c15QualifyGen(g *hx.Gen) { c15AllPorts(g, c15QualifyGenFor) }

func c15QualifyGenFor(g *c15G) {
	bits := []string{"0001", "1001", "0101", "1101", "0011", "1011", "0111", "1111", "0000", "1000", "0100"}
	emails := []string{"", "off", "admin@example.com", "OFF", "off ", "self_signed"}
	schemes := []string{"", "http", "https", "HTTP", "ftp"}
	ports := []string{"", "80", "443", "8080", "8443", "080", "2015", g.H, g.S}
	// host class x bind class, defaults otherwise
	for _, h := range c15HostReps {
		for _, l := range c15BindReps {
			g.Case("", c15Q(h), "", c15Q(l), "0001", "")
		}
	}
	// host class x every tls flag combination x e-mail
	for _, h := range c15HostReps {
		for _, b := range bits {
			for _, e := range emails {
				g.Case("", c15Q(h), "", "", b, c15Q(e))
			}
		}
	}
	// scheme x port x flags on a qualifying host, an on-demand-only host and a local host
	for _, h := range []string{"example.com", "", "foo.test", "10.1.2.3"} {
		for _, s := range schemes {
			for _, p := range ports {
				for _, b := range bits {
					g.Case(c15Q(s), c15Q(h), c15Q(p), "", b, "")
				}
			}
		}
	}
	N := g.scaled(12000)
	if g.Thorough() {
		N = g.scaled(300000)
	}
	for i := 0; i < N; i++ {
		r := g.Rng
		h := hx.Pick(r, c15HostReps)
		if r.Chance(1, 2) {
			h = c15RandHost(r)
		}
		l := ""
		if r.Chance(1, 3) {
			l = hx.Pick(r, c15BindReps)
			if r.Chance(1, 3) {
				l = c15RandHost(r)
			}
		}
		b := "0001"
		if r.Chance(1, 2) {
			b = hx.Pick(r, bits)
		}
		e := ""
		if r.Chance(1, 3) {
			e = hx.Pick(r, emails)
		}
		s, p := "", ""
		if r.Chance(1, 3) {
			s = hx.Pick(r, schemes)
		}
		if r.Chance(1, 3) {
			p = hx.Pick(r, ports)
		}
		g.Case(c15Q(s), c15Q(h), c15Q(p), c15Q(l), b, c15Q(e))
	}
}

// ---- c15.addr ----

var c15AddrHosts = []string{"example.com", "EXAMPLE.Com", "sub.example.com", "*.example.com", "localhost", "127.0.0.1", "10.0.0.1", "010.0.0.1", "[::1]", "::1", "[2001:DB8::1]", "[0:0::1]",
	"[::ffff:10.0.0.1]", "[fc00::1]", "2001:db8::1", "", "a:1:2", "foo.test", "a_b.example.com", "ex^mple.com", "exa{mple.com", "[::1", "::1]", "[example.com]", "a.b!c", "exa<mple>.com"}

func c15ComposeAddr(scheme, host, port, path string) string {
	s := host
	if scheme != "" {
		s = scheme + "://" + s
	}
	if port != "-" {
		s += ":" + port
	}
	return s + path
}

func c15AddrGen(g *hx.Gen) { c15AllPorts(g, c15AddrGenFor) }

func c15AddrGenFor(g *c15G) {
	schemes := []string{"", "http", "https", "HTTP", "Https", "ftp", "h2c"}
	ports := []string{"-", "", "80", "443", "8080", "8443", "http", "https", "0", "65536", "abc", "https1", "http2", "080", g.H, g.S}
	paths := []string{"", "/", "/Foo", "/a//b", "//x", "/a:b", "/a/b/"}
	for _, s := range schemes {
		for _, h := range c15AddrHosts {
			for _, p := range ports {
				for _, pa := range paths {
					if pa != "" && pa != "/Foo" && (s == "ftp" || s == "h2c" || p == "65536" || p == "080") {
						continue
					}
					g.Case(c15Q(c15ComposeAddr(s, h, p, pa)))
				}
			}
		}
	}
	for _, a := range []string{"", "/", "//", "///", "///x", "/path", ":", "::", ":80", ":http", ":https", ":https:http", "a:http:https", "http://", "https://", "://x", ":80//", "1a:80//x", "a.com//b", "a.com:80//b", "a:b//c",
		"http:", "http:/x", "http:x", "http:80", "*", "//*", "http://*", "x:http//y", "example.com:https/:http", "a:httpx", ":httpsx", "http://:https", "http://example.com:http", "https://example.com:http", "http://example.com:https",
		"a#b", "a?b", "a%41", "user@host", "a b", "\x7f", "é.com"} {
		g.Case(c15Q(a))
	}
	N := g.scaled(12000)
	if g.Thorough() {
		N = g.scaled(300000)
	}
	const alpha = "abcXYZ019.:/[]*-_~!$&'()+,;=<>\"\\^`{|}"
	for i := 0; i < N; i++ {
		r := g.Rng
		var a string
		switch r.Intn(4) {
		case 0, 1:
			h := hx.Pick(r, c15AddrHosts)
			if r.Chance(1, 2) {
				h = c15RandHost(r)
				if strings.Contains(h, ":") && !strings.HasPrefix(h, "[") && r.Chance(2, 3) {
					h = "[" + h + "]"
				}
			}
			a = c15ComposeAddr(hx.Pick(r, schemes), h, hx.Pick(r, ports), hx.Pick(r, paths))
		case 2:
			a = c15ComposeAddr(hx.Pick(r, schemes), hx.Pick(r, c15AddrHosts), hx.Pick(r, ports), hx.Pick(r, paths))
			b := []byte(a)
			for k := 1 + r.Intn(2); k > 0 && len(b) > 0; k-- {
				pos := r.Intn(len(b))
				switch r.Intn(3) {
				case 0:
					b[pos] = alpha[r.Intn(len(alpha))]
				case 1:
					b = append(b[:pos], b[pos+1:]...)
				default:
					b = append(b[:pos], append([]byte{alpha[r.Intn(len(alpha))]}, b[pos:]...)...)
				}
			}
			a = string(b)
		default:
			b := make([]byte, r.Intn(12))
			for j := range b {
				b[j] = "ab1.:/[]*htps"[r.Intn(13)]
			}
			a = string(b)
		}
		g.Case(c15Q(a))
	}
}

// ---- c15.sites ----

type c15SiteAtom struct{ scheme, host, port string }

func (a c15SiteAtom) addr() string {
	s := a.host
	if a.scheme != "" {
		s = a.scheme + "://" + s
	}
	if a.port != "" {
		s += ":" + a.port
	}
	return s
}

// directive shapes for site blocks with SEVERAL tls directives (joined with '&' in the tls field, in Casketfile order):
// own certificate (`manual` = tls cert key, `load` = tls { load dir }), options only (`block` must_staple, `proto` protocols,
// `ciph` ciphers, `snip` = the same options spliced in by `import` of a snippet), and the rest
var c15MultiTLS = []string{"off", "email", "self", "manual", "load", "block", "proto", "ciph", "snip", "block+nr", "block+od", "manual+nr", "email+od"}

func c15RandTLS(r *hx.Rng) string {
	if !r.Chance(1, 4) {
		return hx.Pick(r, c15TLSVariants)
	}
	n := 2 + r.Intn(2)
	vs := make([]string, n)
	for i := range vs {
		if r.Chance(1, 3) {
			vs[i] = hx.Pick(r, c15TLSVariants)
		} else {
			vs[i] = hx.Pick(r, c15MultiTLS)
		}
	}
	return strings.Join(vs, "&")
}

var c15TLSVariants = []string{"none", "off", "email", "self", "manual", "block", "block+nr", "email+nr", "self+nr", "manual+nr", "block+od", "email+od", "manual+od", "self+od", "block+nr+od"}

// hosts by class for the site-set stream (all of them valid Casketfile tokens inside the address domain)
var c15SiteHosts = []string{"example.com", "*.example.com", "203.0.113.7", "[2001:db8::1]", "localhost", "127.0.0.1", "[::1]", "10.0.0.1", "192.168.1.5", "[fd00::1]",
	"a.localhost", "printer.local", "foo.test", "foo.example", "foo.invalid", "x.home.arpa", "127.example.com", "", "EXAMPLE.com",
	"X.Home.Arpa", "Printer.LOCAL", "LocalHost", "A.LOCALHOST", "[FD00::1]", "[0:0::1]", "[::ffff:10.0.0.1]"}

var c15SiteBinds = []string{"", "127.0.0.1", "::1", "10.0.0.1", "203.0.113.7", "0.0.0.0", "localhost", "::ffff:127.0.0.1", "LOCALHOST"}

func c15SitesGen(g *hx.Gen) { c15AllPorts(g, c15SitesGenFor) }

func c15SitesGenFor(g *c15G) {
	schemes := []string{"", "http", "https"}
	ports := []string{"", "80", "443", "8080", "8443"}
	// 1 site: scheme x host class x port x tls variant (x bind for the default tls); one odd scheme too
	for _, s := range []string{"", "http", "https", "ftp"} {
		for _, h := range c15SiteHosts {
			for _, p := range ports {
				if h == "" && p == "" && s == "" {
					continue
				}
				a := c15SiteAtom{s, h, p}.addr()
				for _, v := range c15TLSVariants {
					g.Case(c15Q(a) + "||" + v)
				}
			}
		}
	}
	for _, h := range []string{"example.com", "localhost", "10.0.0.1", ""} {
		for _, b := range c15SiteBinds {
			for _, v := range []string{"none", "self", "email+od"} {
				g.Case(c15Q(c15SiteAtom{"", h, "8443"}.addr()) + "|" + c15Q(b) + "|" + v)
				if h != "" {
					g.Case(c15Q(h) + "|" + c15Q(b) + "|" + v)
				}
			}
		}
	}
	// 2 sites of one host: (scheme x port x tls)^2 ; one host is enough for the pair interactions, a second host checks independence
	pairTLS := []string{"none", "off", "email", "self", "manual", "block+nr", "email+od", "manual&proto", "snip&load"}
	if g.Thorough() {
		pairTLS = append(append([]string{}, c15TLSVariants...), "manual&proto", "snip&load", "load&block+nr", "self&email")
	}
	var atoms []string
	for _, s := range schemes {
		for _, p := range []string{"", g.H, g.S, "5000"} {
			if (s == "http" && p == g.S) || (s == "https" && p == g.H) {
				continue
			}
			for _, v := range pairTLS {
				atoms = append(atoms, c15Q(c15SiteAtom{s, "example.com", p}.addr())+"||"+v)
			}
		}
	}
	for _, a := range atoms {
		for _, b := range atoms {
			if g.moved() && !g.Thorough() && g.Rng.Intn(3) != 0 {
				continue
			}
			g.Case(a + ";" + b)
		}
	}
	// 3 sites: ports x (tls that matter for redirects), same host and one foreign host
	triTLS := []string{"none", "self", "block+nr"}
	triPorts := []string{"", g.H, g.S, "5000", "5001"}
	var tri []string
	for _, p := range triPorts {
		for _, v := range triTLS {
			tri = append(tri, c15Q(c15SiteAtom{"", "example.com", p}.addr())+"||"+v)
		}
	}
	tri = append(tri, c15Q("http://example.com")+"||self", c15Q("other.example.net")+"||none", c15Q("http://example.com:5000")+"||email")
	for _, a := range tri {
		for _, b := range tri {
			for _, c := range tri {
				if !g.Thorough() && g.Rng.Intn(3) != 0 || g.moved() && g.Rng.Intn(3) != 0 {
					continue
				}
				g.Case(a + ";" + b + ";" + c)
			}
		}
	}
	// shared blocks: several addresses under one tls directive
	for _, v := range c15TLSVariants {
		g.Case(c15Q("example.com") + "," + c15Q("http://example.com") + "||" + v)
		g.Case(c15Q("http://example.com") + "," + c15Q("https://example.com") + "||" + v)
		g.Case(c15Q("example.com:"+g.H) + "," + c15Q("example.com:"+g.S) + "," + c15Q("example.com:9443") + "||" + v)
		g.Case(c15Q("http://a.example.com") + "," + c15Q("b.example.com") + "||" + v + ";" + c15Q("a.example.com") + "||none")
	}
	// several tls directives in one site block: every ordered pair of directive shapes on every kind of address (the flags an
	// earlier directive set must survive the later ones; `tls off` ends the reading), triples over the shapes that matter
	multiAddrs := []string{"example.com", "example.com:" + g.S, "example.com:8443", "https://example.com", "http://example.com", "example.com:" + g.H,
		"*.example.com", "localhost", "10.0.0.1", ":8443", "foo.test:8443"}
	for _, a := range multiAddrs {
		for _, v1 := range c15MultiTLS {
			for _, v2 := range c15MultiTLS {
				if g.moved() && !g.Thorough() && g.Rng.Intn(3) != 0 {
					continue
				}
				g.Case(c15Q(a) + "||" + v1 + "&" + v2)
			}
		}
	}
	triMulti := []string{"manual", "load", "proto", "snip", "off", "self", "email", "block+nr"}
	for _, a := range []string{"example.com", "example.com:8443"} {
		for _, v1 := range triMulti {
			for _, v2 := range triMulti {
				for _, v3 := range triMulti {
					if g.moved() && g.Rng.Intn(4) != 0 {
						continue
					}
					g.Case(c15Q(a) + "||" + v1 + "&" + v2 + "&" + v3)
				}
			}
		}
	}
	// …under a bind, in a shared block, and next to a second site of the host
	for _, v := range []string{"manual&proto", "load&snip", "proto&manual", "snip&load", "manual&block+nr", "manual&block+od", "self&proto", "email&off", "off&manual"} {
		for _, b := range []string{"127.0.0.1", "203.0.113.7"} {
			g.Case(c15Q("example.com") + "|" + c15Q(b) + "|" + v)
		}
		g.Case(c15Q("example.com") + "," + c15Q("www.example.com:8443") + "||" + v)
		g.Case(c15Q("http://example.com") + "," + c15Q("https://example.com") + "||" + v)
		g.Case(c15Q("example.com") + "||" + v + ";" + c15Q("www.example.com") + "||snip")
	}
	// seeded random: 1..5 sites over a small host pool, everything random
	N := g.scaled(8000)
	if g.Thorough() {
		N = g.scaled(150000)
	}
	for i := 0; i < N; i++ {
		r := g.Rng
		pool := []string{hx.Pick(r, c15SiteHosts), hx.Pick(r, c15SiteHosts), "example.com"}
		n := 1 + r.Intn(5)
		var blocks []string
		for j := 0; j < n; j++ {
			k := 1
			if r.Chance(1, 5) {
				k = 2 + r.Intn(2)
			}
			var keys []string
			for ; k > 0; k-- {
				a := c15SiteAtom{hx.Pick(r, schemes), hx.Pick(r, pool), hx.Pick(r, []string{"", "", "80", "443", "5000", "5001", "8080", "8443", "http", "https"})}
				if a.scheme == "http" && (a.port == g.S || a.port == "https") || a.scheme == "https" && (a.port == g.H || a.port == "http") {
					a.port = ""
				}
				if a.host == "" && a.port == "" {
					a.port = "2016"
				}
				keys = append(keys, c15Q(a.addr()))
			}
			b := ""
			if r.Chance(1, 6) {
				b = hx.Pick(r, c15SiteBinds)
			}
			blocks = append(blocks, strings.Join(keys, ",")+"|"+c15Q(b)+"|"+c15RandTLS(r))
		}
		g.Case(strings.Join(blocks, ";"))
	}
}

// ---- c15.inspect ----

// spellings of a handful of sites: case, redundant / implied / service-name ports, scheme or not, IP notations, paths
func c15Spellings() []string {
	var out []string
	hosts := []string{"example.com", "EXAMPLE.com", "sub.example.com", "10.0.0.1", "[::1]", "[0:0::1]", "[2001:DB8::1]", "[2001:db8::1]", "localhost", ""}
	for _, h := range hosts {
		for _, s := range []string{"", "http", "https", "HTTP"} {
			for _, p := range []string{"-", "80", "443", "2015", "8080", "http", "https"} {
				if h == "" && p == "-" {
					continue
				}
				ls := strings.ToLower(s)
				if (ls == "http" && (p == "443" || p == "https") || ls == "https" && (p == "80" || p == "http")) && h != "example.com" {
					continue // scheme and port violate convention: one host is enough
				}
				out = append(out, c15ComposeAddr(s, h, p, ""))
			}
		}
	}
	for _, h := range []string{"example.com", "EXAMPLE.com", "[::1]"} {
		for _, pa := range []string{"/a", "/A", "/a/", "/b"} {
			out = append(out, h+pa, "http://"+h+pa, h+":2015"+pa, h+":8080"+pa)
		}
	}
	out = append(out, "ftp://example.com:21", "ftp://example.com:22", "ftp://example.com", "::1", "[::1]:81", "[::1]:82", "[1:0:0:0:0:0:0:2]:0", "[1::2]:0",
		"127.0.0.1", "127.0.0.1:2015", "http://127.0.0.1:2015", "*.example.com", "*.EXAMPLE.com:443")
	return out
}

func c15InspectGen(g *hx.Gen) {
	sp := c15Spellings()
	for _, a := range sp {
		g.Case(c15Q(a))
	}
	// all pairs over the spellings of two hosts; sampled pairs over everything
	var core []string
	for _, a := range sp {
		l := strings.ToLower(a)
		if strings.Contains(l, "example.com") && !strings.Contains(l, "sub.") && !strings.Contains(l, "ftp") || strings.Contains(l, "::1") {
			core = append(core, a)
		}
	}
	for _, pr := range [][2]string{{"[::1]:81", "[::1]:82"}, {"[::1]:81", "[0:0::1]:81"}, {"example.com", "example.com:2015"}, {"example.com:80", "http://example.com"},
		{"http://example.com:80", "http://example.com"}, {"example.com:443", "https://EXAMPLE.com"}, {"example.com:http", "example.com:80"}, {"10.0.0.1", "http://10.0.0.1:2015"},
		{"ftp://example.com:21", "ftp://example.com:22"}, {"[1:0:0:0:0:0:0:2]:0", "[1::2]:0"}, {"example.com/a", "example.com/A"}, {"example.com/a", "example.com/b"}} {
		g.Case(c15Q(pr[0]) + "," + c15Q(pr[1]))
		g.Case(c15Q(pr[1]) + "," + c15Q(pr[0]))
	}
	for _, a := range core {
		for _, b := range core {
			if !g.Thorough() && g.Rng.Intn(4) != 0 {
				continue
			}
			g.Case(c15Q(a) + "," + c15Q(b))
		}
	}
	N := 6000
	if g.Thorough() {
		N = 150000
	}
	for i := 0; i < N; i++ {
		r := g.Rng
		n := 2 + r.Intn(3)
		pool := core
		if r.Chance(1, 3) {
			pool = sp
		}
		ks := make([]string, n)
		for j := range ks {
			ks[j] = c15Q(hx.Pick(r, pool))
		}
		g.Case(strings.Join(ks, ","))
	}
}

// ---- c15.activate ----

// the same site sets as c15.sites (the generator is deterministic in the seed of its own stream)
func c15ActivateGen(g *hx.Gen) { c15AllPorts(g, c15SitesGenFor) }

// ---- c15.redirect ----

var c15HostHeaders = []string{"example.com", "example.com:80", "EXAMPLE.com", "example.com:", "example.com:8080", "a_b.example.com", "[::1]", "[::1]:80", "[2001:db8::1]:8080", "[2001:DB8::1]",
	"::1", "2001:db8::1", "bücher.de", "bücher.de:80", "\xff", "", ":80", "[::1", "::1]", "[::1]x", "[::1]:80:90", "a:b:c", "a:b", "[[::1]]:80", "exa mple.com", "example.com:80 ", "[]", "[]:80", "x]:80"}

var c15Targets = []string{"/", "/a/b", "/a/b/", "/a?x=1", "/a?", "/a??", "/a?x=1?y=2", "/?", "/%41", "/%zz", "/%4", "/%", "/a%2Fb", "/a%2fb?x=%zz", "/a b", "/x\"y", "/é", "/%C3%A9", "*", "//double", "//host/path", "/a#frag",
	"/[x]", "/a;b=c,d", "/\x01", "/a\x7f", "/!$&'()*+,;=:@", "/<>", "/{}|\\^`", "/a%20b", "/~user/-_.", "", "a", "http://other.test/abs?z", "other.test:443", "/?a=b&c=d", "/p?q=%zz", "/p?q=é", "/.", "/..", "/a/../b"}

func c15RedirectGen(g *hx.Gen) { c15AllPorts(g, c15RedirectGenFor) }

func c15RedirectGenFor(g *c15G) {
	ports := []string{"", "443", "80", "8080", "8443", "65535", "0443"}
	for _, p := range ports {
		for _, h := range c15HostHeaders {
			for _, t := range c15Targets {
				if g.moved() && g.Rng.Intn(4) != 0 {
					continue
				}
				g.Case(c15Q(p), c15Q(h), c15Q(t))
			}
		}
	}
	N := g.scaled(12000)
	if g.Thorough() {
		N = g.scaled(300000)
	}
	const alpha = "abcXYZ019/%?#;=&+:@!$'()*,[]<>\"{}|\\^`~-_. \xc3\xa9\x01\x7f"
	for i := 0; i < N; i++ {
		r := g.Rng
		h := hx.Pick(r, c15HostHeaders)
		if r.Chance(1, 3) {
			h = c15RandHost(r)
		}
		var t string
		if r.Chance(1, 4) {
			t = hx.Pick(r, c15Targets)
		} else {
			b := []byte{'/'}
			for k := r.Intn(12); k > 0; k-- {
				switch r.Intn(6) {
				case 0:
					b = append(b, '%', "0123456789abcdefABCDEFg"[r.Intn(23)], "0123456789abcdefABCDEFg"[r.Intn(23)])
				case 1:
					b = append(b, "/?%"[r.Intn(3)])
				default:
					b = append(b, alpha[r.Intn(len(alpha))])
				}
			}
			t = string(b)
			if r.Chance(1, 20) {
				t = t[1:]
			}
		}
		g.Case(c15Q(hx.Pick(r, ports)), c15Q(h), c15Q(t))
	}
}
