//go:build c04 || c05 || c14

package streams

import (
	"strconv"
	"strings"

	"verifharness/hx"
)

// How a proxy block is WRITTEN is a dimension of the cases of c04.req / c04.resp / c04.retry / c05.select /
// c05.retry / c14.sched; what the block MEANS (its backends in pool order, its settings) is what the models
// and the judges are given.  Every spelling of one meaning has to behave the same.
//
// A layout is  <naming>[:<order>]
//   naming  d   every backend on the directive line                      proxy / a b {
//           u   every backend on its own `upstream` line in the block      proxy / {\n upstream a\n upstream b
//           m<j> the first j backends on the directive line, the others on `upstream` lines
//   order   number of a permutation of the lines of the block (0, the default, = `upstream` lines first, then the
//           stream's fixed order): permutation number (order mod n!) in lexicographic order for blocks of up to 20
//           lines, a shuffle seeded with the number beyond.
// The empty layout is d:0, the one spelling the streams used before.
//
// Lines that do not commute carry the same key and keep their relative order under every permutation: the
// `upstream` lines (pool order), the values of one header rule, the successive replacements of one header.

type blkLine struct{ key, text string }

func blkParseLayout(lay string) (direct int, order uint64, ok bool) {
	if lay == "" {
		return -1, 0, true
	}
	naming := lay
	if i := strings.IndexByte(lay, ':'); i >= 0 {
		naming = lay[:i]
		n, err := strconv.ParseUint(lay[i+1:], 10, 64)
		if err != nil {
			return 0, 0, false
		}
		order = n
	}
	switch {
	case naming == "d":
		return -1, order, true
	case naming == "u":
		return 0, order, true
	case strings.HasPrefix(naming, "m"):
		j, err := strconv.Atoi(naming[1:])
		if err != nil || j < 0 {
			return 0, 0, false
		}
		return j, order, true
	}
	return 0, 0, false
}

// the order-th permutation of 0..n-1
func blkPerm(n int, order uint64) []int {
	idx := make([]int, n)
	for i := range idx {
		idx[i] = i
	}
	if n > 20 {
		r := hx.NewRng(order)
		for i := n - 1; i > 0; i-- {
			j := r.Intn(i + 1)
			idx[i], idx[j] = idx[j], idx[i]
		}
		return idx
	}
	f := uint64(1)
	for i := 2; i <= n; i++ {
		f *= uint64(i)
	}
	k := order % f
	out := make([]int, 0, n)
	for i := n; i > 0; i-- {
		f /= uint64(i)
		d := int(k / f)
		k %= f
		out = append(out, idx[d])
		idx = append(idx[:d], idx[d+1:]...)
	}
	return out
}

func blkOrder(lines []blkLine, order uint64) []blkLine {
	n := len(lines)
	res := make([]blkLine, n)
	for i, j := range blkPerm(n, order) {
		res[i] = lines[j]
	}
	byKey := map[string][]int{}
	for j, l := range lines {
		if l.key != "" {
			byKey[l.key] = append(byKey[l.key], j)
		}
	}
	next := map[string]int{}
	for i := range res {
		if k := res[i].key; k != "" {
			res[i] = lines[byKey[k][next[k]]]
			next[k]++
		}
	}
	return res
}

// blkAll = the lines of the block in the default order: the `upstream` lines of the backends that are not on
// the directive line, then the stream's lines
func blkAll(backends []string, lines []blkLine, direct int) (onLine []string, all []blkLine) {
	if direct < 0 || direct > len(backends) {
		direct = len(backends)
	}
	for _, b := range backends[direct:] {
		all = append(all, blkLine{"upstream", " upstream " + b + "\n"})
	}
	return backends[:direct], append(all, lines...)
}

// blkWrite spells the block:  <head> [backends on the directive line] {\n <lines> }\n
func blkWrite(head string, backends []string, lines []blkLine, lay string) (string, bool) {
	direct, order, ok := blkParseLayout(lay)
	if !ok || len(backends) == 0 {
		return "", false
	}
	onLine, all := blkAll(backends, lines, direct)
	var b strings.Builder
	b.WriteString(head)
	for _, t := range onLine {
		b.WriteString(" " + t)
	}
	b.WriteString(" {\n")
	for _, l := range blkOrder(all, order) {
		b.WriteString(l.text)
	}
	b.WriteString("}\n")
	return b.String(), true
}

// blkLayouts lists layouts of the block for the given namings: every distinct spelling when the block has at
// most four lines, otherwise the default order and sample-1 seeded ones.  The spelling d:0 is left out (it is the
// case without a layout).
func blkLayouts(r *hx.Rng, backends []string, lines []blkLine, namings []string, sample int) []string {
	base, _ := blkWrite("proxy /", backends, lines, "")
	seen := map[string]bool{base: true}
	var out []string
	add := func(lay string) {
		if s, ok := blkWrite("proxy /", backends, lines, lay); ok && !seen[s] {
			seen[s] = true
			out = append(out, lay)
		}
	}
	for _, naming := range namings {
		direct, _, ok := blkParseLayout(naming)
		if !ok {
			continue
		}
		_, all := blkAll(backends, lines, direct)
		n := len(all)
		if n <= 4 {
			f := 1
			for i := 2; i <= n; i++ {
				f *= i
			}
			for k := 0; k < f; k++ {
				add(naming + ":" + strconv.Itoa(k))
			}
			continue
		}
		add(naming + ":0")
		for k := 1; k < sample; k++ {
			add(naming + ":" + strconv.FormatUint(r.U64()>>1, 10))
		}
	}
	return out
}

// one random layout: backends on the directive line / on `upstream` lines / mixed, lines in a random order
func blkRandLayout(r *hx.Rng, nBackends int) string {
	naming := hx.Pick(r, []string{"d", "u", "u"})
	if nBackends > 1 && r.Chance(1, 3) {
		naming = "m" + strconv.Itoa(1+r.Intn(nBackends-1))
	}
	return naming + ":" + strconv.FormatUint(r.U64()>>1, 10)
}

// coverage tags of a layout
func blkLayoutTags(lay string) []string {
	if lay == "" {
		return nil
	}
	direct, order, _ := blkParseLayout(lay)
	tags := []string{"block-written-another-way"}
	switch {
	case direct == 0:
		tags = append(tags, "backends-on-upstream-lines")
	case direct > 0:
		tags = append(tags, "backends-mixed")
	}
	if order != 0 {
		tags = append(tags, "block-lines-reordered")
	}
	return tags
}

// blkFlag returns the value of the token name=value in a comma separated flags field
func blkFlag(flags, name string) string {
	for _, t := range strings.Split(flags, ",") {
		if strings.HasPrefix(t, name+"=") {
			return t[len(name)+1:]
		}
	}
	return ""
}

func blkWithFlag(flags, name, value string) string {
	if value == "" {
		return flags
	}
	if flags == "" {
		return name + "=" + value
	}
	return flags + "," + name + "=" + value
}
