//go:build c14

package streams

import (
	"errors"
	"fmt"
	"net/http"
	"net/http/httptest"
	"strconv"
	"strings"
	"sync/atomic"
	"time"

	"github.com/tmpim/casket/casketfile"
	"github.com/tmpim/casket/caskethttp/httpserver"
	"github.com/tmpim/casket/caskethttp/proxy"

	"verifharness/hx"
)

// c14.expiry  scenario failTimeoutMs lateMs
//   single: one request, one attempt on backend 0 whose transport blocks for lateMs and then fails: the failure is
//           recorded when the request has already been running for lateMs.
//   retry:  try_duration on: backend 0 fails at once, the retry on backend 1 blocks for lateMs and then fails.
//   The backend of the late failure is probed (Fails, Down()) 100 ms after the failure was recorded, 150 ms before
//   fail_timeout is over (counted from the recording) and 250 ms after it:  out = "fails/d|u" x 3.
//   Real clock: a run in which a probe happens more than 60 ms off its moment is repeated (up to five times).

type c14LateTransport struct {
	block time.Duration
	rec   *int64 // unix nanos of the moment the failure is handed back to the proxy
}

func (t *c14LateTransport) RoundTrip(req *http.Request) (*http.Response, error) {
	if t.block > 0 {
		time.Sleep(t.block)
	}
	if t.rec != nil {
		atomic.StoreInt64(t.rec, time.Now().UnixNano())
	}
	return nil, errors.New("scripted late backend failure")
}

func c14ExpiryOnce(scenario string, ft, late int) (string, bool) {
	cfg := fmt.Sprintf("proxy / h0.test:80 h1.test:80 {\n policy first\n max_fails 1\n fail_timeout %dms\n", ft)
	if scenario == "retry" {
		cfg += fmt.Sprintf(" try_duration %dms\n try_interval 1ms\n", late+40)
	}
	cfg += "}\n"
	ups, err := proxy.NewStaticUpstreams(casketfile.NewDispenser("Testfile", strings.NewReader(cfg)), "")
	if err != nil || len(ups) != 1 {
		return fmt.Sprintf("setup-error:%v", err), true
	}
	up := ups[0]
	defer up.Stop()
	pool := proxy.VerifHosts(up)
	var rec int64
	probed := 0
	if scenario == "retry" {
		probed = 1
		pool[0].ReverseProxy.Transport = &c14LateTransport{}
		pool[1].ReverseProxy.Transport = &c14LateTransport{block: time.Duration(late) * time.Millisecond, rec: &rec}
	} else {
		pool[0].ReverseProxy.Transport = &c14LateTransport{block: time.Duration(late) * time.Millisecond, rec: &rec}
		pool[1].ReverseProxy.Transport = &c14LateTransport{}
	}
	p := proxy.Proxy{Next: httpserver.EmptyNext, Upstreams: []proxy.Upstream{up}}
	done := make(chan struct{})
	go func() {
		defer close(done)
		req := httptest.NewRequest("GET", "http://front.test/", nil)
		req.RemoteAddr = "192.0.2.1:4000"
		p.ServeHTTP(httptest.NewRecorder(), req)
	}()
	deadline := time.Now().Add(10 * time.Second)
	for atomic.LoadInt64(&rec) == 0 {
		if time.Now().After(deadline) {
			return "never-failed", true
		}
		time.Sleep(200 * time.Microsecond)
	}
	t0 := time.Unix(0, atomic.LoadInt64(&rec))
	offsets := []time.Duration{100 * time.Millisecond, time.Duration(ft-150) * time.Millisecond, time.Duration(ft+250) * time.Millisecond}
	probes := make([]string, len(offsets))
	reliable := true
	for i, off := range offsets {
		time.Sleep(time.Until(t0.Add(off)))
		dev := time.Since(t0.Add(off))
		if dev > 60*time.Millisecond || dev < -60*time.Millisecond {
			reliable = false
		}
		d := "u"
		if pool[probed].Down() {
			d = "d"
		}
		probes[i] = strconv.Itoa(int(atomic.LoadInt32(&pool[probed].Fails))) + d
	}
	<-done
	return strings.Join(probes, ","), reliable
}

func c14ExpiryEval(f []string) (string, []string) {
	if len(f) != 3 {
		return "bad-case", nil
	}
	ft, e1 := strconv.Atoi(f[1])
	late, e2 := strconv.Atoi(f[2])
	if e1 != nil || e2 != nil || ft < 500 || (f[0] != "single" && f[0] != "retry") {
		return "bad-case", nil
	}
	out := ""
	for try := 0; try < 5; try++ {
		o, reliable := c14ExpiryOnce(f[0], ft, late)
		out = o
		if reliable {
			tags := []string{"scenario=" + f[0]}
			if late > 0 {
				tags = append(tags, "failure-recorded-late-in-the-request")
			}
			return out, tags
		}
	}
	return "timing-unreliable:" + out, []string{"timing-unreliable"}
}

func c14ExpiryGen(g *hx.Gen) {
	cases := [][2]int{{700, 400}, {800, 300}, {700, 0}}
	if g.Thorough() {
		cases = append(cases, [2]int{600, 500}, [2]int{800, 700}, [2]int{900, 150})
	}
	for _, sc := range []string{"single", "retry"} {
		for _, c := range cases {
			g.Case(sc, strconv.Itoa(c[0]), strconv.Itoa(c[1]))
		}
	}
}

func init() {
	hx.Register(&hx.Stream{ID: "C14", Name: "c14.expiry", Gen: c14ExpiryGen, Eval: c14ExpiryEval})
}
