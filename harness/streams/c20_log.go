//go:build c20

package streams

import (
	"bufio"
	"bytes"
	"fmt"
	"io"
	"net/http"
	"net/http/httptest"
	"os"
	"path/filepath"
	"sort"
	"strconv"
	"strings"
	"sync"
	"time"

	"github.com/tmpim/casket"
	"github.com/tmpim/casket/casketfile"
	_ "github.com/tmpim/casket/caskethttp/basicauth"
	casketerrors "github.com/tmpim/casket/caskethttp/errors"
	_ "github.com/tmpim/casket/caskethttp/gzip"
	"github.com/tmpim/casket/caskethttp/httpserver"
	casketlog "github.com/tmpim/casket/caskethttp/log"
	_ "github.com/tmpim/casket/caskethttp/rewrite"

	"verifharness/hx"
)

// c20.log — a server block with `log` directives, set up by the real directive action from
// Casketfile text, writing to real files through Logger.Start(); a scripted handler innermost;
// every request goes through the real httpserver.Server.ServeHTTP (context setup, panic
// recovery, fallback error response) and an httptest recorder plays the client.
//
//   0 directives  D<hex scope>[:<hex except>]*,...   1 conc 0|1
//   2 requests    <hex path>:<ops>:<ret>:<panics>,...  ops joined by '.':
//                   h<code> WriteHeader   w<n> Write of n bytes   f Flush
//                   c<n> io.Copy from a plain reader (neither WriterTo nor anything else)
//                   n<n> io.CopyN          s<n> http.ServeContent of an n-byte file
//                   p<hex path> r.URL.Path = path (in place, as rewrite/ext/internal do)
//                   u<hex path> r.URL = &url.URL{Path: path} (a new URL object)
//   3 errlens     <status>=<len of default error body>,...
//   4 wrap        - | errors | rewrite | gzip  (the real errors / rewrite / gzip directive between log and the
//                   handler; with gzip every request offers gzip, and because the compressed length is not
//                   something the model computes, the answer carries size DIFFERENCES: a line's size field is
//                   |logged size - bytes the client received| and the client's size field is 0;
//                   rewrite: ^/b$ -> /a/b, ^/a/b$ -> /b, ^/c$ -> /zzz, ^/a/$ -> /c)
//   5 writer      what is under the log recorder:
//                   plain  httptest.ResponseRecorder (no io.ReaderFrom — like HTTP/2 or another wrapper)
//                   rf     the same with an io.ReaderFrom
//                   h1     a real net/http HTTP/1.1 connection over loopback (io.ReaderFrom, Flusher, …)
//   out: per directive its lines "id.status.size" joined by '|', directives joined by ';',
//        then '#', then per request "status.bodylen" of what the client received

const c20LogFormat = "{>X-Id} {status} {size}"

var c20StartMu sync.Mutex // Logger.Start() fills an unsynchronised package-level map (roller.go)

type c20Script struct {
	ops    []string
	ret    int
	panics bool
}

type c20Probe struct{ scripts map[string]c20Script }

// c20Zeros is an endless source that is only an io.Reader.
type c20Zeros struct{}

func (c20Zeros) Read(p []byte) (int, error) {
	for i := range p {
		p[i] = 0
	}
	return len(p), nil
}

func (p c20Probe) ServeHTTP(w http.ResponseWriter, r *http.Request) (int, error) {
	s := p.scripts[r.Header.Get("X-Id")]
	for _, op := range s.ops {
		n, _ := strconv.Atoi(op[1:])
		switch op[0] {
		case 'p':
			r.URL.Path = hx.UnHS(op[1:])
		case 'u':
			u := *r.URL
			u.Path = hx.UnHS(op[1:])
			r.URL = &u
		case 'h':
			w.WriteHeader(n)
		case 'l':
			w.Header().Set("Content-Length", strconv.Itoa(n))
		case 'w':
			w.Write(make([]byte, n))
		case 'f':
			w.(http.Flusher).Flush()
		case 'c':
			io.Copy(w, io.LimitReader(c20Zeros{}, int64(n)))
		case 'n':
			io.CopyN(w, c20Zeros{}, int64(n))
		case 's':
			http.ServeContent(w, r, "file.bin", time.Time{}, bytes.NewReader(make([]byte, n)))
		}
	}
	if s.panics {
		panic("c20 probe panic")
	}
	return s.ret, nil
}

// c20RFClient is an in-process client side whose writer implements io.ReaderFrom.
type c20RFClient struct{ *httptest.ResponseRecorder }

func (c c20RFClient) ReadFrom(src io.Reader) (int64, error) {
	return io.Copy(struct{ io.Writer }{c.ResponseRecorder}, src)
}

// c20CLWriter enforces a declared Content-Length the way net/http's response does (server.go,
// response.WriteHeader / response.write): the length in the header map when the header goes out is
// the one in effect; every Write first sends the header (200 unless WriteHeader came first), then a
// Write of n > 0 bytes that takes the bytes asked for so far beyond the length is refused with
// http.ErrContentLength and sends nothing.  Under it sits the httptest recorder playing the client.
type c20CLWriter struct {
	rec       *httptest.ResponseRecorder
	committed bool
	limit     int64
	asked     int64
}

func (c *c20CLWriter) Header() http.Header { return c.rec.Header() }

func (c *c20CLWriter) commit(status int) {
	if c.committed {
		return
	}
	c.committed = true
	c.limit = -1
	if v, err := strconv.ParseInt(c.rec.Header().Get("Content-Length"), 10, 64); err == nil && v >= 0 {
		c.limit = v
	}
	c.rec.WriteHeader(status)
}

func (c *c20CLWriter) WriteHeader(status int) {
	if status >= 100 && status <= 199 && status != http.StatusSwitchingProtocols {
		return
	}
	c.commit(status)
}

func (c *c20CLWriter) Write(p []byte) (int, error) {
	c.commit(http.StatusOK)
	if len(p) == 0 {
		return 0, nil
	}
	c.asked += int64(len(p))
	if c.limit != -1 && c.asked > c.limit {
		return 0, http.ErrContentLength
	}
	return c.rec.Write(p)
}

func (c *c20CLWriter) Flush() { c.commit(http.StatusOK) }

// c20CLWriterRF is the same with an io.ReaderFrom (every chunk goes through the enforcing Write).
type c20CLWriterRF struct{ *c20CLWriter }

func (c c20CLWriterRF) ReadFrom(src io.Reader) (int64, error) {
	return io.Copy(struct{ io.Writer }{c.c20CLWriter}, src)
}

// c20Declares: does the script declare a Content-Length?  c20Refusals: which of its own Write
// calls net/http refuses (static, from the script alone; used for tags and to validate the case).
func c20Declares(ops []string) bool {
	for _, op := range ops {
		if op[0] == 'l' {
			return true
		}
	}
	return false
}

func c20Refusals(ops []string) (first, later bool) {
	declared, limit := int64(-1), int64(-1)
	committed, asked, writes := false, int64(0), 0
	for _, op := range ops {
		n, _ := strconv.ParseInt(op[1:], 10, 64)
		switch op[0] {
		case 'l':
			declared = n
		case 'h', 'f':
			if !committed && !(op[0] == 'h' && n >= 100 && n <= 199 && n != 101) {
				committed, limit = true, declared
			}
		case 'w':
			if !committed {
				committed, limit = true, declared
			}
			writes++
			asked += n
			if n > 0 && limit != -1 && asked > limit {
				if writes == 1 {
					first = true
				} else {
					later = true
				}
			}
		}
	}
	return
}

func c20ErrLen(status int) int {
	return len(fmt.Sprintf("%d %s\n", status, http.StatusText(status)))
}

func c20LogEval(f []string) (string, []string) {
	if len(f) != 6 {
		return "bad-case", nil
	}
	dir, err := os.MkdirTemp("", "verif-c20-")
	if err != nil {
		return "setup-error:" + err.Error(), nil
	}
	defer os.RemoveAll(dir)

	// the Casketfile text of the server block
	var dirs []string
	if f[0] != "" {
		dirs = strings.Split(f[0], ",")
	}
	var cf strings.Builder
	for i, d := range dirs {
		parts := strings.Split(strings.TrimPrefix(d, "D"), ":")
		scope := hx.UnHS(parts[0])
		out := filepath.Join(dir, fmt.Sprintf("L%d.log", i))
		fmt.Fprintf(&cf, "log %q %q %q", scope, out, c20LogFormat)
		if len(parts) > 1 {
			cf.WriteString(" {\n")
			// one `except` line with all paths, or one line per path (both are accepted by logParse)
			if i%2 == 0 {
				cf.WriteString("  except")
				for _, e := range parts[1:] {
					fmt.Fprintf(&cf, " %q", hx.UnHS(e))
				}
				cf.WriteString("\n")
			} else {
				for _, e := range parts[1:] {
					fmt.Fprintf(&cf, "  except %q\n", hx.UnHS(e))
				}
			}
			cf.WriteString("}")
		}
		cf.WriteString("\n")
	}
	ctrl := casket.NewTestController("http", cf.String())
	cfg := httpserver.GetConfig(ctrl)
	if len(dirs) > 0 {
		setup, err := casket.DirectiveAction("http", "log")
		if err != nil {
			return "setup-error:" + err.Error(), nil
		}
		if err := setup(ctrl); err != nil {
			return "setup-error:" + err.Error(), nil
		}
		// what OnStartup would do: open every log
		mids := cfg.Middleware()
		if len(mids) != 1 {
			return "setup-error:middleware count", nil
		}
		lg, ok := mids[0](httpserver.EmptyNext).(casketlog.Logger)
		if !ok {
			return "setup-error:not a log.Logger", nil
		}
		for _, rule := range lg.Rules {
			for _, e := range rule.Entries {
				c20StartMu.Lock()
				err := e.Log.Start()
				c20StartMu.Unlock()
				if err != nil {
					return "setup-error:" + err.Error(), nil
				}
				defer e.Log.Close()
			}
		}
	}

	// requests and scripts
	var reqs []string
	if f[2] != "" {
		reqs = strings.Split(f[2], ",")
	}
	probe := c20Probe{scripts: map[string]c20Script{}}
	paths := make([]string, len(reqs))
	anyPanic, anyErr, anyOut := false, false, false
	for i, rq := range reqs {
		p := strings.Split(rq, ":")
		if len(p) != 4 {
			return "bad-case", nil
		}
		paths[i] = hx.UnHS(p[0])
		s := c20Script{panics: p[3] == "1"}
		if p[1] != "" {
			s.ops = strings.Split(p[1], ".")
		}
		s.ret, _ = strconv.Atoi(p[2])
		probe.scripts[strconv.Itoa(i)] = s
		for _, op := range s.ops {
			if op == "" {
				return "bad-case", nil
			}
		}
		if c20Declares(s.ops) {
			if f[4] == "gzip" {
				return "bad-case", nil
			}
			for _, op := range s.ops {
				if op[0] == 'c' || op[0] == 'n' || op[0] == 's' {
					return "bad-case", nil
				}
			}
		}
		anyPanic = anyPanic || s.panics
		anyErr = anyErr || s.ret >= 400
		if s.ret >= 400 && len(s.ops) > 0 {
			anyOut = true
		}
		nh := 0
		for j, op := range s.ops {
			if op[0] == 'h' {
				nh++
				if j > 0 && s.ops[j-1][0] != 'p' && s.ops[j-1][0] != 'u' {
					anyOut = true
				}
			}
		}
	}
	for _, e := range strings.Split(f[3], ",") {
		if e == "" {
			continue
		}
		kv := strings.Split(e, "=")
		st, _ := strconv.Atoi(kv[0])
		if strconv.Itoa(c20ErrLen(st)) != kv[1] {
			return "bad-case:errlens", nil
		}
	}
	if f[4] == "errors" {
		// the real `errors` directive between log and the handler (same controller, its own tokens)
		ctrl.Dispenser = casketfile.NewDispenser("Testfile", strings.NewReader(fmt.Sprintf("errors %q\n", filepath.Join(dir, "errors.log"))))
		setup, err := casket.DirectiveAction("http", "errors")
		if err != nil {
			return "setup-error:" + err.Error(), nil
		}
		if err := setup(ctrl); err != nil {
			return "setup-error:" + err.Error(), nil
		}
		mids := cfg.Middleware()
		eh, ok := mids[len(mids)-1](httpserver.EmptyNext).(*casketerrors.ErrorHandler)
		if !ok {
			return "setup-error:not an ErrorHandler", nil
		}
		c20StartMu.Lock()
		err = eh.Log.Start()
		c20StartMu.Unlock()
		if err != nil {
			return "setup-error:" + err.Error(), nil
		}
		defer eh.Log.Close()
	}
	if f[4] == "gzip" {
		ctrl.Dispenser = casketfile.NewDispenser("Testfile", strings.NewReader("gzip\n"))
		setup, err := casket.DirectiveAction("http", "gzip")
		if err != nil {
			return "setup-error:" + err.Error(), nil
		}
		if err := setup(ctrl); err != nil {
			return "setup-error:" + err.Error(), nil
		}
	}
	if f[4] == "rewrite" {
		ctrl.Dispenser = casketfile.NewDispenser("Testfile", strings.NewReader(
			"rewrite ^/b$ /a/b\nrewrite ^/a/b$ /b\nrewrite ^/c$ /zzz\nrewrite ^/a/$ /c\n"))
		setup, err := casket.DirectiveAction("http", "rewrite")
		if err != nil {
			return "setup-error:" + err.Error(), nil
		}
		if err := setup(ctrl); err != nil {
			return "setup-error:" + err.Error(), nil
		}
	}
	cfg.AddMiddleware(func(next httpserver.Handler) httpserver.Handler { return probe })
	srv, err := httpserver.NewServer("127.0.0.1:0", []*httpserver.SiteConfig{cfg})
	if err != nil {
		return "setup-error:" + err.Error(), nil
	}

	clients := make([]string, len(reqs))
	clientSize := make([]int, len(reqs))
	compressed := make([]bool, len(reqs))
	gz := f[4] == "gzip"
	var ts *httptest.Server
	var hc *http.Client
	if f[5] == "h1" {
		ts = httptest.NewServer(http.HandlerFunc(srv.ServeHTTP))
		defer ts.Close()
		tr := &http.Transport{DisableCompression: true}
		defer tr.CloseIdleConnections()
		hc = &http.Client{Transport: tr, CheckRedirect: func(*http.Request, []*http.Request) error { return http.ErrUseLastResponse }}
	}
	do := func(i int) {
		if ts != nil {
			req, _ := http.NewRequest("GET", ts.URL+paths[i], nil)
			req.Header.Set("X-Id", strconv.Itoa(i))
			if gz {
				req.Header.Set("Accept-Encoding", "gzip")
			}
			resp, err := hc.Do(req)
			if err != nil {
				clients[i] = "client-error"
				return
			}
			b, err := io.ReadAll(resp.Body)
			resp.Body.Close()
			if err == io.ErrUnexpectedEOF && c20Declares(probe.scripts[strconv.Itoa(i)].ops) {
				// fewer bytes than the declared Content-Length were sent and the server closed the
				// connection: the status and the bytes that did arrive are what the client received
				err = nil
			}
			if err != nil {
				clients[i] = "client-error"
				return
			}
			clients[i] = fmt.Sprintf("%d.%d", resp.StatusCode, len(b))
			clientSize[i], compressed[i] = len(b), resp.Header.Get("Content-Encoding") == "gzip"
			if gz {
				clients[i] = fmt.Sprintf("%d.0", resp.StatusCode)
			}
			return
		}
		req := httptest.NewRequest("GET", "http://example.test"+paths[i], nil)
		req.Header.Set("X-Id", strconv.Itoa(i))
		if gz {
			req.Header.Set("Accept-Encoding", "gzip")
		}
		rec := httptest.NewRecorder()
		switch declares := c20Declares(probe.scripts[strconv.Itoa(i)].ops); {
		case declares && f[5] == "rf":
			srv.ServeHTTP(c20CLWriterRF{&c20CLWriter{rec: rec}}, req)
		case declares:
			srv.ServeHTTP(&c20CLWriter{rec: rec}, req)
		case f[5] == "rf":
			srv.ServeHTTP(c20RFClient{rec}, req)
		default:
			srv.ServeHTTP(rec, req)
		}
		clients[i] = fmt.Sprintf("%d.%d", rec.Code, rec.Body.Len())
		clientSize[i], compressed[i] = rec.Body.Len(), rec.Header().Get("Content-Encoding") == "gzip"
		if gz {
			clients[i] = fmt.Sprintf("%d.0", rec.Code)
		}
	}
	if f[1] == "1" {
		var wg sync.WaitGroup
		for i := range reqs {
			wg.Add(1)
			go func(i int) { defer wg.Done(); do(i) }(i)
		}
		wg.Wait()
	} else {
		for i := range reqs {
			do(i)
		}
	}
	if ts != nil {
		// Over a real connection the client has the whole response (Content-Length reached) while the
		// server-side handler chain may still be running: Logger.ServeHTTP writes its lines only after
		// the inner handler has returned.  Close() blocks until every outstanding request on the test
		// server has completed, i.e. until every handler has returned; only then are the logs read.
		ts.Close()
	}

	// read the logs back
	per := make([]string, len(dirs))
	nLines := 0
	for i := range dirs {
		b, err := os.ReadFile(filepath.Join(dir, fmt.Sprintf("L%d.log", i)))
		if err != nil {
			return "setup-error:" + err.Error(), nil
		}
		var lines []string
		for _, l := range strings.Split(string(b), "\n") {
			if l == "" {
				continue
			}
			w := strings.Split(l, " ")
			if len(w) != 3 {
				return "garbled-line:" + l, nil
			}
			if gz {
				// size as a difference to what this request's client received
				id, err1 := strconv.Atoi(w[0])
				sz, err2 := strconv.Atoi(w[2])
				if err1 != nil || err2 != nil || id < 0 || id >= len(reqs) {
					return "garbled-line:" + l, nil
				}
				d := sz - clientSize[id]
				if d < 0 {
					d = -d
				}
				w[2] = strconv.Itoa(d)
			}
			lines = append(lines, strings.Join(w, "."))
		}
		sort.SliceStable(lines, func(a, b int) bool {
			x, _ := strconv.Atoi(strings.SplitN(lines[a], ".", 2)[0])
			y, _ := strconv.Atoi(strings.SplitN(lines[b], ".", 2)[0])
			return x < y
		})
		nLines += len(lines)
		per[i] = strings.Join(lines, "|")
	}
	tags := []string{fmt.Sprintf("directives=%d", len(dirs))}
	if len(dirs) == 0 || len(reqs) == 0 {
		tags = append(tags, "trivial-empty")
	}
	if nLines > 0 {
		tags = append(tags, "lines-written")
	}
	if f[1] == "1" {
		tags = append(tags, "concurrent")
	}
	if anyPanic {
		tags = append(tags, "handler-panics")
	}
	if anyErr {
		tags = append(tags, "handler-returns-error-status")
	}
	if anyOut {
		tags = append(tags, "handler-breaks-writer-contract")
	}
	if strings.Contains(f[0], ":") {
		tags = append(tags, "except")
	}
	if f[4] == "errors" {
		tags = append(tags, "errors-directive-inside")
	}
	if f[4] == "rewrite" {
		tags = append(tags, "rewrite-directive-inside")
	}
	if gz {
		tags = append(tags, "gzip-directive-inside")
		for i := range compressed {
			if compressed[i] && clientSize[i] > 0 {
				tags = append(tags, "compressed-body-logged:"+f[5])
				break
			}
		}
	}
	tags = append(tags, "writer="+f[5])
	for _, sc := range probe.scripts {
		if c20Declares(sc.ops) {
			tags = append(tags, "content-length-declared:"+f[5])
			first, later := c20Refusals(sc.ops)
			if first {
				tags = append(tags, "first-write-refused:"+f[5])
				if sc.ret >= 400 && !sc.panics {
					tags = append(tags, "first-write-refused-then-error-status:"+f[5])
				}
			}
			if later {
				tags = append(tags, "later-write-refused")
			}
			if !first && !later && sc.ret >= 400 {
				tags = append(tags, "error-body-refused-or-fits")
			}
		}
		for _, op := range sc.ops {
			switch op[0] {
			case 'c', 'n', 's':
				tags = append(tags, "body-sent-by-io.Copy:"+f[5])
			case 'f':
				tags = append(tags, "flush")
			case 'p':
				tags = append(tags, "handler-rewrites-path-in-place")
			case 'u':
				tags = append(tags, "handler-replaces-url")
			}
		}
	}
	seenTag := map[string]bool{}
	var uniq []string
	for _, t := range tags {
		if !seenTag[t] {
			seenTag[t] = true
			uniq = append(uniq, t)
		}
	}
	return strings.Join(per, ";") + "#" + strings.Join(clients, ","), uniq
}

var c20Scopes = []string{"/", "/a", "/a/", "/a/b", "/b", "/ab", "", "/A"}
var c20Paths = []string{"/", "/a", "/a/", "/a/b", "/a/b/c.txt", "/ab", "/b", "/B/x", "/c"}
var c20Outcomes = []string{
	":200:0", "w5:200:0", "h200.w5:200:0", "h404.w9:0:0", "h301:0:0", "h204:0:0", "w3.w4:0:0",
	":404:0", ":500:0", ":403:0", ":0:0", ":399:0", ":400:0",
	"::1x", "w5::1x", "h500.w2::1x", // panics (the x is replaced)
	"w5:500:0", "h200.w5.h404:0:0", "h404.h200.w1:0:0", "w1.h500.w1:502:0",
	// bodies sent the way the static file server / proxy send them
	"c5:0:0", "c70000:200:0", "n9:0:0", "s5:0:0", "s80000:0:0", "h200.s12:0:0", "h404.c7:0:0", "c3.w4.n2:0:0",
	"s0:0:0", "c0:0:0", "c0.h302:404:0", "n0.h404.w3:0:0", "w0.h404:0:0", "c5:500:0", "c5::1x", "w2.f.c40000:0:0",
	// Flush sends the header
	"f.w3:0:0", "f:0:0", "f.h404.w2:0:0", "h201.f.n6:0:0", "f:404:0",
}

// c20FaultOutcomes: the handler declares a Content-Length and the writer under the recorder refuses
// what exceeds it.  First Write refused (with and without a returned error status, a later
// WriteHeader by the handler, a panic), refusal only after a successful Write, explicit WriteHeader
// or Flush first, the length declared too late, nothing written at all, the exact fit.
var c20FaultOutcomes = []string{
	"l0.w5:500:0", "l5.w10:500:0", "l0.w5:502:0", "l0.w5:404:0", "l0.w5:0:0", "l0.w5:200:0", "l3.w70000:503:0",
	"l0.w5.h404:0:0", "l0.w5.h500.w3:0:0", "l2.w5.w1:0:0", "l2.w5.w1:500:0", "l0.w5::1x",
	"l5.w5.w1:500:0", "l5.w5:0:0", "l4.w2.w2.w1:502:0", "l9.w4:0:0", "l9.w4:500:0",
	"l3.h200.w5:500:0", "l3.h404.w5:0:0", "l0.f.w5:404:0", "l0.f:500:0", "h404.l0.w3:0:0", "w2.l0.w3:500:0",
	"l0:500:0", "l0:0:0", "l7:404:0", "l0.w0:500:0", "l0.w0.w4:500:0", "l0.l6.w5:500:0", "l6.l0.w5:500:0",
	"l0.p2f61.w3:500:0", "l0.w3.u2f63:404:0",
}

// c20PathOutcomes: handlers that change the request path before answering; targets on both sides
// of the except lists and scopes the generator uses.
func c20PathOutcomes() []string {
	var out []string
	for _, t := range []string{"/a/b", "/a", "/c", "/zzz", "/b", "/"} {
		h := hx.HS(t)
		out = append(out, "p"+h+".w3:0:0", "u"+h+".w3:0:0", "p"+h+":404:0", "u"+h+":500:0", "p"+h+".h404.w2:0:0", "w1.p"+h+":0:0", "p"+h+"::1x")
	}
	return out
}

func c20Outcome(s string) string {
	if strings.HasSuffix(s, "::1x") {
		return strings.TrimSuffix(s, "::1x") + ":0:1"
	}
	return s
}

var c20Kinds = []string{"plain", "rf", "plain", "h1"}
var c20Kind int

func c20LogCase(g *hx.Gen, dirs []string, conc bool, reqs []string, wrap ...string) {
	seen := map[int]bool{}
	var el []string
	add := func(st int) {
		if st >= 400 && !seen[st] {
			seen[st] = true
			el = append(el, fmt.Sprintf("%d=%d", st, c20ErrLen(st)))
		}
	}
	add(500)
	for _, r := range reqs {
		p := strings.Split(r, ":")
		st, _ := strconv.Atoi(p[2])
		add(st)
	}
	c := "0"
	if conc {
		c = "1"
	}
	w := "-"
	if len(wrap) > 0 {
		w = wrap[0]
	}
	// what is under the log recorder rotates with the case; a second argument pins it
	c20Kind++
	kind := c20Kinds[c20Kind%len(c20Kinds)]
	if len(wrap) > 1 {
		kind = wrap[1]
	}
	g.Case(strings.Join(dirs, ","), c, strings.Join(reqs, ","), strings.Join(el, ","), w, kind)
}

func c20Dir(scope string, excepts ...string) string {
	parts := []string{"D" + hx.HS(scope)}
	for _, e := range excepts {
		parts = append(parts, hx.HS(e))
	}
	return strings.Join(parts, ":")
}

func c20LogGen(g *hx.Gen) {
	outcomes := append(append([]string(nil), c20Outcomes...), c20PathOutcomes()...)
	pathOutcomes := c20PathOutcomes()
	round := 0
	allReqs := func() []string {
		var rs []string
		for i, p := range c20Paths {
			rs = append(rs, hx.HS(p)+":"+c20Outcome(c20Outcomes[i%len(c20Outcomes)]))
		}
		// and every path once more with a handler that rewrites the path (targets rotate)
		for i, p := range c20Paths {
			rs = append(rs, hx.HS(p)+":"+c20Outcome(pathOutcomes[(i*5+round)%len(pathOutcomes)]))
		}
		round++
		return rs
	}
	// 1. exhaustive: every single directive (scope x except) and every ordered pair of scopes,
	//    against every path; outcomes rotate
	excs := [][]string{nil, {"/a/b"}, {"/a", "/c"}}
	for _, s := range c20Scopes {
		for _, e := range excs {
			c20LogCase(g, []string{c20Dir(s, e...)}, false, allReqs())
			c20LogCase(g, []string{c20Dir(s, e...)}, false, allReqs(), "rewrite")
			c20LogCase(g, []string{c20Dir(s, e...)}, false, allReqs(), "gzip")
		}
	}
	for _, s1 := range c20Scopes {
		for _, s2 := range c20Scopes {
			for ei, e := range excs {
				if !g.Thorough() && (len(s1)+len(s2)+ei)%2 == 1 {
					continue
				}
				c20LogCase(g, []string{c20Dir(s1, e...), c20Dir(s2)}, false, allReqs())
				c20LogCase(g, []string{c20Dir(s1), c20Dir(s2, e...)}, false, allReqs())
			}
		}
	}
	// 2. every outcome on a fixed two-log block, in and out of scope
	for _, o := range outcomes {
		for _, p := range []string{"/a/x", "/zzz"} {
			for _, kind := range []string{"plain", "rf", "h1"} {
				c20LogCase(g, []string{c20Dir("/a"), c20Dir("/a")}, false, []string{hx.HS(p) + ":" + c20Outcome(o)}, "gzip", kind)
				c20LogCase(g, []string{c20Dir("/a"), c20Dir("/a")}, false, []string{hx.HS(p) + ":" + c20Outcome(o)}, "-", kind)
				c20LogCase(g, []string{c20Dir("/a"), c20Dir("/a")}, false, []string{hx.HS(p) + ":" + c20Outcome(o)}, "errors", kind)
			}
		}
	}
	// 2b. the writer under the recorder refuses writes (declared Content-Length): every fault
	//     outcome, in and out of scope, over the three writers, bare / with errors / with rewrite,
	//     and on a block whose first log excepts the path
	for _, o := range c20FaultOutcomes {
		for _, p := range []string{"/a/x", "/zzz"} {
			for _, kind := range []string{"plain", "rf", "h1"} {
				for _, wrap := range []string{"-", "errors", "rewrite"} {
					c20LogCase(g, []string{c20Dir("/a"), c20Dir("/a")}, false, []string{hx.HS(p) + ":" + c20Outcome(o)}, wrap, kind)
				}
				c20LogCase(g, []string{c20Dir("/", "/a/x"), c20Dir("/")}, false, []string{hx.HS(p) + ":" + c20Outcome(o)}, "-", kind)
			}
		}
	}
	c20LogCase(g, nil, false, allReqs())
	c20LogCase(g, []string{c20Dir("/")}, false, nil)
	// 3. seeded random blocks, random requests, some issued concurrently
	N := 1200
	if g.Thorough() {
		N = 25000
	}
	for it := 0; it < N; it++ {
		var dirs []string
		for i, n := 0, 1+g.Rng.Intn(4); i < n; i++ {
			var ex []string
			for j, m := 0, g.Rng.Intn(3); j < m && g.Rng.Bool(); j++ {
				ex = append(ex, hx.Pick(g.Rng, c20Paths))
			}
			dirs = append(dirs, c20Dir(hx.Pick(g.Rng, c20Scopes), ex...))
		}
		wrap := hx.Pick(g.Rng, []string{"-", "-", "errors", "rewrite", "gzip"})
		var reqs []string
		for i, n := 0, 1+g.Rng.Intn(12); i < n; i++ {
			o := hx.Pick(g.Rng, outcomes)
			if wrap != "gzip" && g.Rng.Chance(1, 5) {
				// a writer fault: a listed one, or a random script of small writes under a small
				// declared length
				o = hx.Pick(g.Rng, c20FaultOutcomes)
				if g.Rng.Bool() {
					ops := []string{fmt.Sprintf("l%d", g.Rng.Intn(12))}
					for j, m := 0, g.Rng.Intn(4); j < m; j++ {
						switch g.Rng.Intn(6) {
						case 0:
							ops = append(ops, fmt.Sprintf("h%d", hx.Pick(g.Rng, []int{200, 201, 302, 404, 500, 503})))
						case 1:
							ops = append(ops, "f")
						default:
							ops = append(ops, fmt.Sprintf("w%d", g.Rng.Intn(9)))
						}
					}
					if g.Rng.Chance(1, 4) {
						ops[0], ops[len(ops)-1] = ops[len(ops)-1], ops[0] // the length declared last
					}
					o = strings.Join(ops, ".") + ":" + strconv.Itoa(hx.Pick(g.Rng, []int{0, 0, 200, 404, 500, 502})) + ":0"
					if g.Rng.Chance(1, 10) {
						o = strings.Join(ops, ".") + ":0:1"
					}
				}
			} else if g.Rng.Chance(1, 3) {
				// random script
				var ops []string
				for j, m := 0, g.Rng.Intn(4); j < m; j++ {
					switch g.Rng.Intn(7) {
					case 6:
						ops = append(ops, hx.Pick(g.Rng, []string{"p", "u"})+hx.HS(hx.Pick(g.Rng, c20Paths)))
					case 0, 1:
						ops = append(ops, fmt.Sprintf("h%d", hx.Pick(g.Rng, []int{200, 201, 302, 404, 500, 503})))
					case 2:
						ops = append(ops, fmt.Sprintf("%s%d", hx.Pick(g.Rng, []string{"c", "n"}), g.Rng.Intn(70000)))
					case 3:
						if g.Rng.Bool() {
							ops = append(ops, "f")
						} else {
							ops = append(ops, fmt.Sprintf("c%d", g.Rng.Intn(40)))
						}
					default:
						ops = append(ops, fmt.Sprintf("w%d", g.Rng.Intn(70000)))
					}
				}
				o = strings.Join(ops, ".") + ":" + strconv.Itoa(hx.Pick(g.Rng, []int{0, 0, 200, 404, 500, 502})) + ":0"
				if g.Rng.Chance(1, 10) {
					o = strings.Join(ops, ".") + ":0:1"
				}
			}
			reqs = append(reqs, hx.HS(hx.Pick(g.Rng, c20Paths))+":"+c20Outcome(o))
		}
		c20LogCase(g, dirs, g.Rng.Chance(1, 2), reqs, wrap, hx.Pick(g.Rng, []string{"plain", "plain", "rf", "h1"}))
	}
}

func init() {
	hx.Register(&hx.Stream{ID: "C20", Name: "c20.log", Gen: c20LogGen, Eval: c20LogEval})
}

// ---------------------------------------------------------------------------------------------
// c20.inject — can one request make one log record span several physical lines?
//   0 format (hex, no CR/LF in it)   1 request target (hex, as sent on the wire)
//   2 user name sent with HTTP basic auth and a wrong password against a real `basicauth /` (hex), or -
//   out: lf=<number of LF bytes in the log file> cr=<number of CR bytes>     (one request is made)
// The real log directive (and basicauth) set up from Casketfile text, the real Server.ServeHTTP.
// ---------------------------------------------------------------------------------------------

func c20InjectEval(f []string) (string, []string) {
	if len(f) != 3 {
		return "bad-case", nil
	}
	dir, err := os.MkdirTemp("", "verif-c20i-")
	if err != nil {
		return "setup-error:" + err.Error(), nil
	}
	defer os.RemoveAll(dir)
	out := filepath.Join(dir, "access.log")
	ctrl := casket.NewTestController("http", fmt.Sprintf("log / %q %q\n", out, hx.UnHS(f[0])))
	cfg := httpserver.GetConfig(ctrl)
	setup, err := casket.DirectiveAction("http", "log")
	if err != nil {
		return "setup-error:" + err.Error(), nil
	}
	if err := setup(ctrl); err != nil {
		return "setup-error:" + err.Error(), nil
	}
	lg, ok := cfg.Middleware()[0](httpserver.EmptyNext).(casketlog.Logger)
	if !ok {
		return "setup-error:not a log.Logger", nil
	}
	for _, rule := range lg.Rules {
		for _, e := range rule.Entries {
			c20StartMu.Lock()
			err := e.Log.Start()
			c20StartMu.Unlock()
			if err != nil {
				return "setup-error:" + err.Error(), nil
			}
			defer e.Log.Close()
		}
	}
	if f[2] != "-" {
		ctrl.Dispenser = casketfile.NewDispenser("Testfile", strings.NewReader("basicauth / user pass\n"))
		setup, err := casket.DirectiveAction("http", "basicauth")
		if err != nil {
			return "setup-error:" + err.Error(), nil
		}
		if err := setup(ctrl); err != nil {
			return "setup-error:" + err.Error(), nil
		}
	}
	cfg.AddMiddleware(func(next httpserver.Handler) httpserver.Handler {
		return httpserver.HandlerFunc(func(w http.ResponseWriter, r *http.Request) (int, error) {
			w.Write([]byte("ok"))
			return 0, nil
		})
	})
	srv, err := httpserver.NewServer("127.0.0.1:0", []*httpserver.SiteConfig{cfg})
	if err != nil {
		return "setup-error:" + err.Error(), nil
	}
	// the request exactly as net/http's server would parse it from the wire
	raw := "GET " + hx.UnHS(f[1]) + " HTTP/1.1\r\nHost: example.test\r\nReferer: http://ref.example/\r\n"
	if f[2] != "-" {
		tmp, _ := http.NewRequest("GET", "/", nil)
		tmp.SetBasicAuth(hx.UnHS(f[2]), "wrong")
		raw += "Authorization: " + tmp.Header.Get("Authorization") + "\r\n"
	}
	req, err := http.ReadRequest(bufio.NewReader(strings.NewReader(raw + "\r\n")))
	if err != nil {
		return "bad-case:" + err.Error(), nil
	}
	req.RemoteAddr = "192.0.2.7:5555"
	srv.ServeHTTP(httptest.NewRecorder(), req)
	b, err := os.ReadFile(out)
	if err != nil {
		return "setup-error:" + err.Error(), nil
	}
	tags := []string{"record-written"}
	if strings.Contains(strings.ToLower(hx.UnHS(f[1])), "%0a") || strings.Contains(strings.ToLower(hx.UnHS(f[1])), "%0d") {
		tags = append(tags, "encoded-line-break-in-url")
	}
	if f[2] != "-" && strings.ContainsAny(hx.UnHS(f[2]), "\r\n") {
		tags = append(tags, "line-break-in-basic-auth-user")
	}
	return fmt.Sprintf("lf=%d cr=%d", bytes.Count(b, []byte("\n")), bytes.Count(b, []byte("\r"))), tags
}

func c20InjectGen(g *hx.Gen) {
	formats := []string{
		"{path}", "{rewrite_path}", "{file}", "{dir}", "{fragment}", "{?x}", "{?y}", "{user}", "{uri}", "{query}", "{path_escaped}",
		"{>Referer}", "{request}", "{remote} - {user} [fixed] \"{method} {uri} {proto}\" {status} {size}",
		"{remote} - {user} \"{method} {path} {proto}\" {status} {size} \"{?x}\"",
	}
	targets := []string{
		"/", "/a%0Ab", "/a%0D%0Ab", "/dir%0A/file%0A.txt", "/p?x=%0A", "/p?x=1%0D%0A10.0.0.1%20-%20admin%20%22GET%20/admin%22%20200%205&y=%0a",
		"/plain?x=y", "/%0A", "/a%0ab?x=%0d",
	}
	users := []string{"-", "alice", "eve\n10.0.0.1 - admin \"GET /admin HTTP/1.1\" 200 5", "a\r\nb", "user"}
	for _, f := range formats {
		for _, t := range targets {
			for _, u := range users {
				g.Case(hx.HS(f), hx.HS(t), map[bool]string{true: "-", false: hx.HS(u)}[u == "-"])
			}
		}
	}
}

func init() {
	hx.Register(&hx.Stream{ID: "C20", Name: "c20.inject", Gen: c20InjectGen, Eval: c20InjectEval})
}
