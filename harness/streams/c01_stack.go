//go:build c01

package streams

import (
	"fmt"
	"io"
	"log"
	"net/http"
	"net/http/httptest"
	"net/url"
	"os"
	"strconv"
	"strings"
	"syscall"

	"github.com/tmpim/casket"
	"github.com/tmpim/casket/caskethttp/httpserver"

	"verifharness/hx"
)

// c01.stack  addrs  port  hosthex  pathhex  protoMajor
//   addrs = comma list of hex site addresses; each becomes its own (empty) server block of a Casketfile, in order
//   out   = load:<class> | nolistener | site TAB <position in the Casketfile> TAB <path_prefix hex> | notfound TAB <status>
//
// The real code path: Casketfile text -> casket's loader front end (loadServerBlocks, the http server
// type's InspectServerBlocks with standardizeAddress / Normalize / Key / duplicate rejection, directive
// setup) -> one marker middleware per SiteConfig -> httpContext.MakeServers (grouping per listener,
// NewServer per group) -> Server.ServeHTTP of the listener on `port`.  Nothing listens on a socket.
// (Loader entry points: the C15 overlay files, shared.)

var c01SavedStderr = -1

func c01StackSetup() error {
	log.SetOutput(io.Discard)
	casket.Quiet = true
	// certmagic's default zap logger writes to fd 2 for every certificate cache; silence it (VERIF_TRACE keeps it)
	if os.Getenv("VERIF_TRACE") == "" && c01SavedStderr < 0 {
		if null, err := os.OpenFile(os.DevNull, os.O_WRONLY, 0); err == nil {
			if saved, err := syscall.Dup(2); err == nil {
				if syscall.Dup3(int(null.Fd()), 2, 0) == nil {
					c01SavedStderr = saved
				} else {
					syscall.Close(saved)
				}
			}
			null.Close()
		}
	}
	return nil
}

func c01StackTeardown() {
	if c01SavedStderr >= 0 {
		syscall.Dup3(c01SavedStderr, 2, 0)
		syscall.Close(c01SavedStderr)
		c01SavedStderr = -1
	}
}

func c01InAddrDomain(s string) bool {
	for i := 0; i < len(s); i++ {
		c := s[i]
		if c < 0x21 || c > 0x7e || c == '#' || c == '?' || c == '%' || c == '@' {
			return false
		}
	}
	return true
}

func c01StackEval(f []string) (string, []string) {
	if len(f) != 5 {
		return "bad-case", nil
	}
	var addrs []string
	if f[0] != "" {
		for _, a := range strings.Split(f[0], ",") {
			addrs = append(addrs, hx.UnHS(a))
		}
	}
	port := f[1]
	host, path := hx.UnHS(f[2]), hx.UnHS(f[3])
	pm, _ := strconv.Atoi(f[4])
	tags := []string{fmt.Sprintf("addrs=%d", len(addrs))}
	var text strings.Builder
	for _, a := range addrs {
		if !c01InAddrDomain(a) || strings.ContainsAny(a, "{}\",\\") || a == "" {
			return "load:outofmodel", append(tags, "trivial-out-of-model")
		}
		text.WriteString(a + " {\n}\n")
	}
	inst, ctx, err := casket.VerifC15Load(casket.CasketfileInput{Filepath: "Testfile", Contents: []byte(text.String()), ServerTypeName: "http"})
	defer inst.ShutdownCallbacks()
	if err != nil {
		m := err.Error()
		cls := "other:" + strings.SplitN(m, "\n", 2)[0]
		switch {
		case strings.Contains(m, "scheme and port violate convention"):
			cls = "convention"
		case strings.Contains(m, "duplicate site key"):
			cls = "dupkey"
		case strings.Contains(m, "duplicate site address"), strings.Contains(m, "is a duplicate of"):
			cls = "dupaddr"
		case strings.HasPrefix(m, "parse:"):
			cls = "casketfile"
		case strings.HasPrefix(m, "directives:"):
			cls = "directive"
		case strings.Contains(m, "parse "), strings.Contains(m, "invalid"):
			cls = "url"
		}
		return "load:" + cls, append(tags, "rejected-"+cls)
	}
	cfgs := httpserver.VerifC15Configs(ctx)
	if len(cfgs) != len(addrs) {
		return fmt.Sprintf("config-count:%d", len(cfgs)), tags
	}
	type hit struct {
		idx    int
		prefix string
	}
	var ran []hit
	for i, sc := range cfgs {
		if sc.Addr.Original != addrs[i] {
			return "config-order-differs", tags
		}
		idx := i
		sc.AddMiddleware(func(next httpserver.Handler) httpserver.Handler {
			return httpserver.HandlerFunc(func(w http.ResponseWriter, r *http.Request) (int, error) {
				pfx, _ := r.Context().Value(casket.CtxKey("path_prefix")).(string)
				ran = append(ran, hit{idx, pfx})
				w.WriteHeader(200)
				return 0, nil
			})
		})
	}
	servers, err := httpserver.VerifC15MakeServers(ctx)
	if err != nil {
		return "makeservers-error:" + err.Error(), tags
	}
	tags = append(tags, fmt.Sprintf("listeners=%d", len(servers)))
	var srv *httpserver.Server
	for _, s := range servers {
		hs, ok := s.(*httpserver.Server)
		if ok && hs.Server.Addr == ":"+port {
			srv = hs
		}
	}
	if srv == nil {
		return "nolistener", append(tags, "trivial-no-listener")
	}
	req := &http.Request{Method: "GET", Host: host, URL: &url.URL{Path: path}, Proto: "HTTP/1.1", ProtoMajor: pm, ProtoMinor: 1,
		Header: http.Header{}, RemoteAddr: "192.0.2.1:4000", RequestURI: path}
	rec := httptest.NewRecorder()
	srv.ServeHTTP(rec, req)
	if len(addrs) < 2 {
		tags = append(tags, "trivial-one-site")
	}
	switch {
	case len(ran) == 1 && rec.Code == 200:
		if ran[0].prefix != "/" {
			tags = append(tags, "prefix-nonroot")
		}
		return "site\t" + strconv.Itoa(ran[0].idx) + "\t" + hx.HS(ran[0].prefix), append(tags, "served")
	case len(ran) == 0:
		return "notfound\t" + strconv.Itoa(rec.Code), append(tags, "notfound")
	}
	return fmt.Sprintf("unexpected:ran=%d,status=%d", len(ran), rec.Code), tags
}

func c01StackGen(g *hx.Gen) {
	emit := func(addrs []string, port, host, path string, pm int) {
		hs := make([]string, len(addrs))
		for i, a := range addrs {
			hs[i] = hx.HS(a)
		}
		g.Case(strings.Join(hs, ","), port, hx.HS(host), hx.HS(path), strconv.Itoa(pm))
	}
	schemes := []string{"", "http://", "https://"}
	hosts := []string{"a.com", "A.com", "*.a.com", "b.a.com", "", "0.0.0.0", "[::]", "[::1]", "localhost", "*", "127.0.0.1"}
	ports := []string{"", ":2015", ":80", ":8080", ":443"}
	paths := []string{"", "/", "/foo", "/Foo", "/foo/"}
	compose := func(s, h, p, pa string) string {
		a := s + h + p + pa
		if a == "" || a == "/" || (h == "" && p == "" && s == "") {
			return ":2015" + pa
		}
		return a
	}
	reqHosts := []string{"a.com", "A.COM:8080", "b.a.com", "x.a.com", "zzz", "[::1]:2015", "[::1]", "localhost", "127.0.0.1:80"}
	reqPaths := []string{"/", "/foo", "/foo/bar", "/Foo", "/fo"}
	lports := []string{"2015", "80", "8080", "443"}
	// pairs of addresses: everything the duplicate rules and the grouping distinguish
	var atoms []string
	for _, s := range schemes {
		for _, h := range hosts {
			for _, p := range ports {
				for _, pa := range paths {
					if (s == "http://" && p == ":443") || (s == "https://" && p == ":80") {
						continue
					}
					atoms = append(atoms, compose(s, h, p, pa))
				}
			}
		}
	}
	n := 0
	stride := 61
	if g.Thorough() {
		stride = 3
	}
	for i, a1 := range atoms {
		for j, a2 := range atoms {
			n++
			if (i*7+j*13+n)%stride != 0 {
				continue
			}
			emit([]string{a1, a2}, lports[n%4], reqHosts[n%len(reqHosts)], reqPaths[(n/3)%len(reqPaths)], 1+n%2)
		}
	}
	// hand-picked sets: duplicates in disguise, precedence through the loader, several listeners
	sets := [][]string{
		{"a.com", "a.com/"},
		{"a.com:2015", "a.com"},
		{"http://a.com", "a.com:80"},
		{"a.com/foo", "A.COM/FOO"},
		{"a.com/foo", "a.com/Foo"},
		{"[::1]", "[0:0::1]"},
		{"[::1]:2015", "[::1]"},
		{"a.com", "*.a.com", ":2015", "a.com:80", "*.a.com:80/foo"},
		{"a.com/foo", "a.com/foo/bar", "a.com", "b.a.com/foo"},
		{"https://a.com", "http://a.com", "a.com:8080"},
		{"0.0.0.0:8080", "[::]:8080/foo", ":8080/foo/bar", "a.com:8080/foo"},
		{"localhost", "127.0.0.1", "[::1]"},
		{"http://a.com:8080/foo", "https://a.com:8080/foo"},
		{"*.a.com/foo", "https://*.a.com:2015/foo", "a.com"},
	}
	for _, set := range sets {
		for _, perm := range c01Perms(len(set)) {
			if len(set) > 3 && !g.Thorough() && (perm[0]+2*perm[1])%5 != 0 {
				continue
			}
			as := make([]string, len(set))
			for i, j := range perm {
				as[i] = set[j]
			}
			for _, lp := range lports {
				for _, h := range reqHosts {
					for _, p := range reqPaths {
						emit(as, lp, h, p, 1)
					}
				}
			}
		}
	}
	// seeded random Casketfiles of 1..6 addresses
	N := 1500
	if g.Thorough() {
		N = 60000
	}
	for it := 0; it < N; it++ {
		k := 1 + g.Rng.Intn(6)
		as := make([]string, k)
		for i := range as {
			as[i] = hx.Pick(g.Rng, atoms)
		}
		h := hx.Pick(g.Rng, reqHosts)
		if g.Rng.Bool() {
			// aim at one of the declared hosts
			a := as[g.Rng.Intn(k)]
			if i := strings.Index(a, "://"); i >= 0 {
				a = a[i+3:]
			}
			a = strings.SplitN(a, "/", 2)[0]
			if a != "" {
				h = strings.ReplaceAll(a, "*", "x")
			}
		}
		emit(as, hx.Pick(g.Rng, lports), h, hx.Pick(g.Rng, reqPaths), 1+g.Rng.Intn(2))
	}
}

func init() {
	hx.Register(&hx.Stream{ID: "C01", Name: "c01.stack", Gen: c01StackGen, Eval: c01StackEval, Setup: c01StackSetup, Teardown: c01StackTeardown})
}
