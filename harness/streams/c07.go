//go:build c07

package streams

import (
	"bufio"
	"fmt"
	"io"
	"log"
	"net"
	"net/http"
	"os"
	"path/filepath"
	"runtime"
	"sort"
	"strconv"
	"strings"
	"sync"
	"syscall"
	"time"

	"github.com/tmpim/casket"
	_ "github.com/tmpim/casket/caskethttp"
	"github.com/tmpim/casket/caskethttp/httpserver"

	"verifharness/hx"
)

// c07.handover  S:<kind>  op op …
//
//   S:<kind>   casket.Start on the addresses of <kind> (generation 1)
//   R:<kind>   Instances()[0].Restart(configuration of <kind>); the k-th op is generation k+1
//   T:<kind>   the same with a request in flight: a client has connected to address 1 and sent half of its
//              request when Restart is called; once the old listener of address 1 is closed a fresh connection
//              probes address 1 (`mid`); then the first client completes its request (`str`); then Restart returns
//
//   L:<kind>   the same with a request that OUTLIVES the graceful period (`-grace`, set to 300 ms for this stream): the drain
//              of the server of address 1 times out, Restart returns, only then does the client complete its request
//
//   kind = the addresses served: digits 1, 2 (free loopback ports chosen per case) and 3 (a port another listener
//          holds), suffix x = the configuration fails during setup (a directive refuses its arguments), suffix y = it
//          fails while it is PARSED (unknown directive, imported file missing, unbalanced brace in an imported file)
//          optional /<spelling> = HOW THE CONFIGURATION IS WRITTEN (same meaning, so the same answers are due):
//            (none) one server block per address, `root` inside
//            i      `addr { import imp/s<a>.inc }`: the directives of every site stand in a file of their own, which is
//                   REWRITTEN for every reload (same length, different marker)
//            I      the same, and the rewritten file keeps a fixed modification time (cp -p, rsync -t, tar)
//            g      the Casketfile is `import sites/*.conf` (what `-conf 'sites/*'` becomes); every file one server block
//            s      the directives stand in a snippet `(site) {…}` that every server block imports
//            m      ONE server block with all the addresses (`a1,` newline `a2 a3 {`)
//            o      another layout: comments, blank lines, tabs, quoted arguments, two `header` directives around `root`;
//                   a single site without braces
//          the configuration a reload must install is what the Casketfile text and the files it names say AT THE TIME
//          Restart IS CALLED
//   every site answers with its generation number, so a response says which configuration produced it
//
//   out = step|step|…   step = <res>;fd=<f1>.<f2>;sk=<s1>.<s2>;p=<m1>.<m2>;ni=<n>[;mid=<m>][;str=<m>]     ni = len(casket.Instances())
//     fd  listening descriptors on address 1 / 2          sk  identity of the listening socket (inode), renamed in
//     p   answer to a fresh connection: generation, - (refused), hang            order of first appearance, 0 = none

var c07 struct {
	inited  bool
	busy    net.Listener
	p3      int
	dir     string
	caseDir string // Casketfile and imported files of the case being evaluated (fresh per case: a case never depends on another)
	portCur int
	hangs   int
}

const c07Patience = 30 * time.Second

func c07Setup() error {
	if !c07.inited {
		c07.inited = true
		casket.Quiet = true
		// the graceful period of every server this stream creates: short, so that a request can outlive it (L: operations)
		httpserver.GracefulTimeout = 300 * time.Millisecond
	}
	log.SetOutput(io.Discard)
	dir, err := os.MkdirTemp("", "verif-c07-")
	if err != nil {
		return err
	}
	c07.dir = dir
	c07.p3 = c07BusyPort.reserve(false) // held (locked and bound) for the whole run
	ln, err := net.Listen("tcp", fmt.Sprintf("127.0.0.1:%d", c07.p3))
	if err != nil {
		return err
	}
	c07.busy = ln
	return nil
}

func c07Teardown() {
	casket.Stop()
	log.SetOutput(os.Stderr)
	if c07.busy != nil {
		c07.busy.Close()
		c07.busy = nil
	}
	c07BusyPort.release()
	c07Ports.release()
	os.RemoveAll(c07.dir)
	c07.caseDir = ""
}

var c07Ports, c07BusyPort verifPorts

func c07FreePort() int { return c07Ports.reserve(false) }

type c07Kind struct {
	addrs     []int
	fail      bool
	parseFail bool // the failure happens while the configuration is parsed
	sp        byte // spelling, 0 = inline
}

const c07Spellings = "iIgsmo"

func c07ParseKind(s string) (c07Kind, bool) {
	var k c07Kind
	if i := strings.IndexByte(s, '/'); i >= 0 {
		sp := s[i+1:]
		if len(sp) != 1 || !strings.Contains(c07Spellings, sp) {
			return k, false
		}
		k.sp = sp[0]
		s = s[:i]
	}
	if strings.HasSuffix(s, "x") {
		k.fail = true
		s = s[:len(s)-1]
	} else if strings.HasSuffix(s, "y") {
		k.fail, k.parseFail = true, true
		s = s[:len(s)-1]
	}
	if s == "" {
		return k, false
	}
	for _, ch := range s {
		if ch < '1' || ch > '3' {
			return k, false
		}
		k.addrs = append(k.addrs, int(ch-'0'))
	}
	return k, true
}

func (k c07Kind) has(a int) bool {
	for _, x := range k.addrs {
		if x == a {
			return true
		}
	}
	return false
}

func c07NewCaseDir() {
	if c07.caseDir != "" {
		os.RemoveAll(c07.caseDir)
	}
	d, err := os.MkdirTemp(c07.dir, "c")
	if err != nil {
		panic(err)
	}
	c07.caseDir = d
}

var c07FixedTime = time.Unix(1500000000, 0)

// c07Input WRITES the configuration of kind k for generation gen in the spelling of k (files included) and returns the
// input to hand to Start / Restart.  Every site answers with the generation; the marker has a fixed width, so rewriting a
// file for another generation never changes its length.
func c07Input(k c07Kind, gen int, p [4]int) casket.Input {
	root := filepath.Join(c07.dir, fmt.Sprintf("g%03d", gen))
	os.MkdirAll(root, 0o755)
	os.WriteFile(filepath.Join(root, "index.html"), []byte(strconv.Itoa(gen)), 0o644)
	if c07.caseDir == "" {
		c07NewCaseDir()
	}
	var addrs []int
	seen := map[int]bool{}
	for _, a := range k.addrs {
		if !seen[a] {
			seen[a] = true
			addrs = append(addrs, a)
		}
	}
	bad := ""
	if k.parseFail {
		bad = " verifnosuchdirective 1\n"
	} else if k.fail {
		bad = " timeouts bogus\n"
	}
	write := func(name, text string, keepTime bool) {
		path := filepath.Join(c07.caseDir, name)
		os.MkdirAll(filepath.Dir(path), 0o755)
		if err := os.WriteFile(path, []byte(text), 0o644); err != nil {
			panic(err)
		}
		if keepTime {
			os.Chtimes(path, c07FixedTime, c07FixedTime)
		}
	}
	var b strings.Builder
	switch k.sp {
	case 'i', 'I':
		for i, a := range addrs {
			fmt.Fprintf(&b, "127.0.0.1:%d {\n import imp/s%d.inc\n}\n", p[a], a)
			name := fmt.Sprintf("imp/s%d.inc", a)
			if k.parseFail && i == len(addrs)-1 {
				os.Remove(filepath.Join(c07.caseDir, name)) // the imported file is missing
				continue
			}
			body := " root " + root + "\n"
			if k.fail && !k.parseFail {
				body += bad
			}
			write(name, body, k.sp == 'I')
		}
	case 'g':
		os.RemoveAll(filepath.Join(c07.caseDir, "sites"))
		for i, a := range addrs {
			body := fmt.Sprintf("127.0.0.1:%d {\n root %s\n", p[a], root)
			if k.fail && !k.parseFail {
				body += bad
			}
			write(fmt.Sprintf("sites/s%d.conf", i), body+"}\n", false)
		}
		if k.parseFail {
			write("sites/s9.conf", "127.0.0.1:1 {\n root "+root+"\n", false) // the brace is never closed
		}
		b.WriteString("import sites/*.conf\n")
	case 's':
		fmt.Fprintf(&b, "(site) {\n root %s\n%s}\n", root, bad)
		for _, a := range addrs {
			fmt.Fprintf(&b, "127.0.0.1:%d {\n import site\n}\n", p[a])
		}
	case 'm':
		for i, a := range addrs {
			switch {
			case i == 0:
			case i == 1:
				b.WriteString(",\n ")
			default:
				b.WriteString(" ")
			}
			fmt.Fprintf(&b, "127.0.0.1:%d", p[a])
		}
		fmt.Fprintf(&b, " {\n root %s\n%s}\n", root, bad)
	case 'o':
		tbad := strings.Replace(bad, " ", "\t", 1)
		if len(addrs) == 1 {
			fmt.Fprintf(&b, "# generation %d\n\n127.0.0.1:%d\n\nheader / X-Verif-A \"g %d\"\nroot \"%s\"\n%sheader / X-Verif-B b\n",
				gen, p[addrs[0]], gen, root, strings.TrimPrefix(bad, " "))
			break
		}
		for _, a := range addrs {
			fmt.Fprintf(&b, "# site %d of generation %d\n127.0.0.1:%d {\n\theader / X-Verif-A \"g %d\"\n\n\troot \"%s\"   # the marker\n%s\theader / X-Verif-B b\n}\n\n",
				a, gen, p[a], gen, root, tbad)
		}
	default:
		for _, a := range addrs {
			fmt.Fprintf(&b, "127.0.0.1:%d {\n root %s\n%s}\n", p[a], root, bad)
		}
	}
	return casket.CasketfileInput{ServerTypeName: "http", Filepath: filepath.Join(c07.caseDir, "Casketfile"), Contents: []byte(b.String())}
}

type c07Sock struct {
	fd  int
	ino string
}

// listening sockets of this process on the port, and accepted (server side) connections on it
func c07Socks(port int) (listening []c07Sock, accepted int) {
	ents, _ := os.ReadDir("/proc/self/fd")
	for _, e := range ents {
		fd, err := strconv.Atoi(e.Name())
		if err != nil {
			continue
		}
		v, err := syscall.GetsockoptInt(fd, syscall.SOL_SOCKET, syscall.SO_ACCEPTCONN)
		if err != nil {
			continue
		}
		sa, err := syscall.Getsockname(fd)
		if err != nil {
			continue
		}
		lp := 0
		switch a := sa.(type) {
		case *syscall.SockaddrInet4:
			lp = a.Port
		case *syscall.SockaddrInet6:
			lp = a.Port
		}
		if lp != port {
			continue
		}
		if v == 1 {
			ino, _ := os.Readlink("/proc/self/fd/" + e.Name())
			listening = append(listening, c07Sock{fd, ino})
		} else {
			accepted++
		}
	}
	return
}

// has this process accepted (accept(2) returned) the connection that the client made from local port `peer` to `port`?
func c07Accepted(port, peer int) bool {
	ents, _ := os.ReadDir("/proc/self/fd")
	for _, e := range ents {
		fd, err := strconv.Atoi(e.Name())
		if err != nil {
			continue
		}
		if v, err := syscall.GetsockoptInt(fd, syscall.SOL_SOCKET, syscall.SO_ACCEPTCONN); err != nil || v != 0 {
			continue
		}
		sa, err := syscall.Getsockname(fd)
		if err != nil {
			continue
		}
		pa, err := syscall.Getpeername(fd)
		if err != nil {
			continue
		}
		lp, pp := 0, 0
		if a, ok := sa.(*syscall.SockaddrInet4); ok {
			lp = a.Port
		} else if a, ok := sa.(*syscall.SockaddrInet6); ok {
			lp = a.Port
		}
		if a, ok := pa.(*syscall.SockaddrInet4); ok {
			pp = a.Port
		} else if a, ok := pa.(*syscall.SockaddrInet6); ok {
			pp = a.Port
		}
		if lp == port && pp == peer {
			return true
		}
	}
	return false
}

func c07ProbeOnce(port int, patience time.Duration) string {
	tr := &http.Transport{DisableKeepAlives: true}
	defer tr.CloseIdleConnections()
	cl := &http.Client{Transport: tr, Timeout: patience}
	resp, err := cl.Get(fmt.Sprintf("http://127.0.0.1:%d/", port))
	if err != nil {
		s := err.Error()
		switch {
		case strings.Contains(s, "refused"):
			return "-"
		case strings.Contains(s, "Timeout") || strings.Contains(s, "deadline"):
			return "hang"
		case strings.Contains(s, "reset") || strings.Contains(s, "EOF"):
			return "e:reset"
		}
		return "e:other"
	}
	defer resp.Body.Close()
	b, _ := io.ReadAll(io.LimitReader(resp.Body, 64))
	if resp.StatusCode != 200 {
		return "e:" + strconv.Itoa(resp.StatusCode)
	}
	return strings.TrimSpace(string(b))
}

// see c08Probe: patient unless the run is already full of hangs
func c07Probe(port int) string {
	if c07.hangs >= 8 {
		return c07ProbeOnce(port, 60*time.Millisecond)
	}
	r := c07ProbeOnce(port, 700*time.Millisecond)
	for attempt := 0; attempt < 2 && r == "hang"; attempt++ {
		r = c07ProbeOnce(port, 2500*time.Millisecond)
	}
	if r == "hang" {
		c07.hangs++
	}
	return r
}

type c07Obs struct {
	seen []string // socket inodes in order of first appearance
}

func (o *c07Obs) name(ino string) int {
	for i, s := range o.seen {
		if s == ino {
			return i + 1
		}
	}
	o.seen = append(o.seen, ino)
	return len(o.seen)
}

func (o *c07Obs) observe(p [4]int) string {
	var fd, sk [3]int
	for a := 1; a <= 2; a++ {
		ls, _ := c07Socks(p[a])
		fd[a] = len(ls)
		if len(ls) > 0 {
			sk[a] = o.name(ls[0].ino)
			for _, l := range ls[1:] {
				if l.ino != ls[0].ino {
					sk[a] = 99 // two different sockets listening on one port
				}
			}
		}
	}
	return fmt.Sprintf("fd=%d.%d;sk=%d.%d;p=%s.%s;ni=%d", fd[1], fd[2], sk[1], sk[2], c07Probe(p[1]), c07Probe(p[2]), len(casket.Instances()))
}

func c07Eval(f []string) (string, []string) {
	casket.Stop()
	casket.VerifC08ResetInstances()
	if len(f) == 0 || !strings.HasPrefix(f[0], "S:") {
		return "bad-case", nil
	}
	k0, ok := c07ParseKind(f[0][2:])
	if !ok || k0.fail || k0.has(3) {
		return "bad-case", nil
	}
	type op struct {
		straddle bool
		long     bool
		k        c07Kind
	}
	var ops []op
	for _, s := range f[1:] {
		if !strings.HasPrefix(s, "R:") && !strings.HasPrefix(s, "T:") && !strings.HasPrefix(s, "L:") {
			return "bad-case", nil
		}
		k, ok := c07ParseKind(s[2:])
		if !ok {
			return "bad-case", nil
		}
		ops = append(ops, op{s[0] == 'T', s[0] == 'L', k})
	}
	var p [4]int
	c07Ports.release()
	p[1], p[2], p[3] = c07FreePort(), c07FreePort(), c07.p3
	c07NewCaseDir()
	tags := map[string]bool{}
	if k0.sp != 0 {
		tags["written-"+string(k0.sp)] = true
	}
	for _, o := range ops {
		if o.k.sp != 0 {
			tags["written-"+string(o.k.sp)] = true
		}
		if o.k.parseFail {
			tags["parse-failure"] = true
		}
	}
	obs := &c07Obs{}
	if _, err := casket.Start(c07Input(k0, 1, p)); err != nil {
		return "setup-error:" + err.Error(), nil
	}
	steps := []string{"ok;" + obs.observe(p)}
	cur := k0
	for i, o := range ops {
		gen := i + 2
		insts := casket.Instances()
		if len(insts) == 0 {
			return "setup-error:no instance", nil
		}
		in := c07Input(o.k, gen, p)
		res := "ok"
		extra := ""
		if o.long {
			// a request that outlives the graceful period
			str := "-"
			conn, err := net.DialTimeout("tcp", fmt.Sprintf("127.0.0.1:%d", p[1]), 2*time.Second)
			if err == nil {
				conn.Write([]byte("GET / HTTP/1.1\r\nHost: 127.0.0.1\r\nConnection: close\r\n"))
				peer := conn.LocalAddr().(*net.TCPAddr).Port
				deadline := time.Now().Add(c07Patience)
				for time.Now().Before(deadline) && !c07Accepted(p[1], peer) {
					time.Sleep(200 * time.Microsecond)
				}
			}
			if _, err := insts[0].Restart(in); err != nil { // returns after the drain of the busy server timed out
				res = "err"
			}
			if conn != nil {
				conn.SetDeadline(time.Now().Add(c07Patience))
				conn.Write([]byte("\r\n"))
				resp, err := http.ReadResponse(bufio.NewReader(conn), nil)
				if err != nil {
					str = "e:reset"
				} else {
					b, _ := io.ReadAll(io.LimitReader(resp.Body, 64))
					resp.Body.Close()
					str = strings.TrimSpace(string(b))
					if resp.StatusCode != 200 {
						str = "e:" + strconv.Itoa(resp.StatusCode)
					}
				}
				conn.Close()
			}
			extra = ";str=" + str
			tags["longflight-"+res] = true
		} else if !o.straddle {
			if _, err := insts[0].Restart(in); err != nil {
				res = "err"
			}
			tags["reload-"+res] = true
		} else {
			before, _ := c07Socks(p[1])
			trace := os.Getenv("VERIF_TRACE") != ""
			var tlog []string
			t0 := time.Now()
			note := func(f string, a ...interface{}) {
				if trace {
					tlog = append(tlog, fmt.Sprintf("%6dus ", time.Since(t0).Microseconds())+fmt.Sprintf(f, a...))
				}
			}
			str := "-"
			conn, err := net.DialTimeout("tcp", fmt.Sprintf("127.0.0.1:%d", p[1]), 2*time.Second)
			if err == nil {
				conn.Write([]byte("GET / HTTP/1.1\r\nHost: 127.0.0.1\r\nConnection: close\r\n"))
				// the old instance must have accepted it before the reload starts: its server-side socket (local port p1,
				// peer = our local port) shows up in the fd table.  (A request whose header is not complete 5 s after the
				// connection was made is treated as idle by net/http's Shutdown: do not dawdle.)
				peer := conn.LocalAddr().(*net.TCPAddr).Port
				deadline := time.Now().Add(c07Patience)
				for time.Now().Before(deadline) {
					if c07Accepted(p[1], peer) {
						note("accepted")
						break
					}
					time.Sleep(200 * time.Microsecond)
				}
			}
			done := make(chan error, 1)
			note("restart starts")
			go func() { _, err := insts[0].Restart(in); note("restart returned %v", err); done <- err }()
			finished := false
			var rerr error
			deadline := time.Now().Add(c07Patience)
		wait:
			for time.Now().Before(deadline) {
				select {
				case rerr = <-done:
					finished = true
					break wait
				default:
				}
				now, _ := c07Socks(p[1])
				handed := true
				for _, n := range now {
					for _, b := range before {
						if n.fd == b.fd {
							handed = false
						}
					}
				}
				if handed && conn != nil {
					note("handed over: now=%v", now)
					break
				}
				time.Sleep(200 * time.Microsecond)
			}
			mid := c07Probe(p[1])
			note("mid=%s finished=%v", mid, finished)
			if conn != nil {
				conn.SetDeadline(time.Now().Add(c07Patience))
				conn.Write([]byte("\r\n"))
				resp, err := http.ReadResponse(bufio.NewReader(conn), nil)
				if err != nil {
					str = "e:reset"
					if os.Getenv("VERIF_TRACE") != "" {
						now, acc := c07Socks(p[1])
						fmt.Fprintln(os.Stderr, "straddler:", err, "restart finished before completion:", finished, "listening now:", len(now), "accepted now:", acc, "before fds:", before)
						for _, l := range tlog {
							fmt.Fprintln(os.Stderr, "   ", l)
						}
					}
				} else {
					b, _ := io.ReadAll(io.LimitReader(resp.Body, 64))
					resp.Body.Close()
					str = strings.TrimSpace(string(b))
					if resp.StatusCode != 200 {
						str = "e:" + strconv.Itoa(resp.StatusCode)
					}
				}
				conn.Close()
			}
			if !finished {
				select {
				case rerr = <-done:
				case <-time.After(c07Patience):
					res = "timeout"
				}
			}
			if rerr != nil {
				res = "err"
			}
			extra = ";mid=" + mid + ";str=" + str
			tags["straddle-"+res] = true
		}
		if res == "ok" {
			cur = o.k
		}
		steps = append(steps, res+";"+obs.observe(p)+extra)
	}
	_ = cur
	casket.Stop()
	casket.VerifC08ResetInstances()
	tl := []string{fmt.Sprintf("len=%d", len(f))}
	for t := range tags {
		tl = append(tl, t)
	}
	sort.Strings(tl)
	return strings.Join(steps, "|"), tl
}

// ---- c07.storm: reload storms under concurrent clients (exploration of real schedules) ----
//
//   c07.storm  kinds  reloads  requests
//
// The GENERATOR runs the storm against the real code and records it as the case: one instance serving address 1 (and
// sometimes 2), `clients` goroutines making GET requests to address 1, each on a fresh connection, while a sequence of
// reloads runs (valid configurations and ones failing at setup or at listen time; every one of them keeps address 1).
// Time is a shared logical clock (one tick per recorded event).
//   reloads  = call:ret:gen:ok, …          requests = start:stop:answer, …   (answer = generation read from the body, - = failed)
// Eval only summarises the recorded trace (`reloads=<ok>/<all>;requests=<answered>/<all>`); the property is evaluated by the
// Lean judge on the trace.  A storm is one schedule the scheduler and the kernel happened to produce: exploration, not proof.

type c07Tick struct {
	mu sync.Mutex
	n  int
}

func (t *c07Tick) next() int { t.mu.Lock(); t.n++; n := t.n; t.mu.Unlock(); return n }

func c07Request(port int) (answer string) {
	conn, err := net.DialTimeout("tcp", fmt.Sprintf("127.0.0.1:%d", port), c07Patience)
	if err != nil {
		return "-"
	}
	defer conn.Close()
	conn.SetDeadline(time.Now().Add(c07Patience))
	if _, err := conn.Write([]byte("GET / HTTP/1.1\r\nHost: 127.0.0.1\r\nConnection: close\r\n\r\n")); err != nil {
		return "-"
	}
	resp, err := http.ReadResponse(bufio.NewReader(conn), nil)
	if err != nil {
		return "-"
	}
	defer resp.Body.Close()
	b, err := io.ReadAll(io.LimitReader(resp.Body, 64))
	if err != nil || resp.StatusCode != 200 {
		return "-"
	}
	if _, err := strconv.Atoi(strings.TrimSpace(string(b))); err != nil {
		return "-"
	}
	return strings.TrimSpace(string(b))
}

func c07Storm(rng *hx.Rng, nReloads, clients int) (kinds, reloads, requests string) {
	casket.Stop()
	casket.VerifC08ResetInstances()
	var p [4]int
	c07Ports.release()
	p[1], p[2], p[3] = c07FreePort(), c07FreePort(), c07.p3
	c07NewCaseDir()
	k0, _ := c07ParseKind("1" + hx.Pick(rng, c07StormSpellings))
	if _, err := casket.Start(c07Input(k0, 1, p)); err != nil {
		return "start-failed", "", ""
	}
	clock := &c07Tick{}
	var mu sync.Mutex
	var reqs []string
	stop := make(chan struct{})
	var wg sync.WaitGroup
	for c := 0; c < clients; c++ {
		wg.Add(1)
		go func() {
			defer wg.Done()
			for {
				select {
				case <-stop:
					return
				default:
				}
				t0 := clock.next()
				a := c07Request(p[1])
				t1 := clock.next()
				mu.Lock()
				reqs = append(reqs, fmt.Sprintf("%d:%d:%s", t0, t1, a))
				mu.Unlock()
			}
		}()
	}
	pool := []string{"1", "12", "1", "12", "1x", "13", "12x", "123", "1y"}
	var ks, rs []string
	for i := 0; i < nReloads; i++ {
		kind := hx.Pick(rng, pool) + hx.Pick(rng, c07StormSpellings)
		k, _ := c07ParseKind(kind)
		gen := i + 2
		in := c07Input(k, gen, p)
		insts := casket.Instances()
		if len(insts) == 0 {
			break
		}
		t0 := clock.next()
		_, err := insts[0].Restart(in)
		t1 := clock.next()
		okS := "1"
		if err != nil {
			okS = "0"
		}
		ks = append(ks, kind)
		rs = append(rs, fmt.Sprintf("%d:%d:%d:%s", t0, t1, gen, okS))
		if d := rng.Intn(4); d > 0 {
			time.Sleep(time.Duration(d) * 300 * time.Microsecond)
		}
	}
	// a few more requests after the last reload returned
	time.Sleep(2 * time.Millisecond)
	close(stop)
	wg.Wait()
	casket.Stop()
	casket.VerifC08ResetInstances()
	return strings.Join(ks, ","), strings.Join(rs, ","), strings.Join(reqs, ",")
}

// how the configurations of a storm are written: half of them inline, the others in one of the spellings of c07.handover
var c07StormSpellings = []string{"", "", "", "", "", "", "/i", "/I", "/g", "/s", "/m", "/o"}

func c07StormGen(g *hx.Gen) {
	storms, nReloads := 10, 30
	if g.Thorough() {
		storms, nReloads = 40, 50
	}
	for s := 0; s < storms; s++ {
		clients := 2 + g.Rng.Intn(7)
		if g.Thorough() {
			procs := []int{1, 4, 16}[s%3]
			old := runtime.GOMAXPROCS(procs)
			ks, rs, qs := c07Storm(g.Rng, nReloads, clients)
			runtime.GOMAXPROCS(old)
			g.Case(ks, rs, qs)
			continue
		}
		ks, rs, qs := c07Storm(g.Rng, nReloads, clients)
		g.Case(ks, rs, qs)
	}
	g.Case("", "", "")
}

func c07StormEval(f []string) (string, []string) {
	if len(f) != 3 {
		return "bad-case", nil
	}
	okR, allR, okQ, allQ := 0, 0, 0, 0
	if f[1] != "" {
		for _, r := range strings.Split(f[1], ",") {
			p := strings.Split(r, ":")
			if len(p) != 4 {
				return "bad-case", nil
			}
			allR++
			if p[3] == "1" {
				okR++
			}
		}
	}
	if f[2] != "" {
		for _, q := range strings.Split(f[2], ",") {
			p := strings.Split(q, ":")
			if len(p) != 3 {
				return "bad-case", nil
			}
			allQ++
			if p[2] != "-" {
				okQ++
			}
		}
	}
	tags := []string{fmt.Sprintf("reloads=%d", allR)}
	if allQ == 0 {
		tags = append(tags, "trivial-no-requests")
	} else if allQ > 100 {
		tags = append(tags, "requests>100")
	} else {
		tags = append(tags, "requests<=100")
	}
	if okR < allR {
		tags = append(tags, "with-failed-reloads")
	}
	return fmt.Sprintf("reloads=%d/%d;requests=%d/%d", okR, allR, okQ, allQ), tags
}

var c07Kinds = []string{"1", "12", "2", "21", "1x", "12x", "13", "123", "3", "1y"}

func c07Gen(g *hx.Gen) {
	starts := []string{"1", "12", "2"}
	var alpha []string
	for _, k := range c07Kinds {
		alpha = append(alpha, "R:"+k, "T:"+k)
	}
	maxLen := 2
	if g.Thorough() {
		maxLen = 3
	}
	var rec func(prefix []string, n int)
	rec = func(prefix []string, n int) {
		if len(prefix) > 1 {
			g.Case(prefix...)
		}
		if n == 0 {
			return
		}
		for _, a := range alpha {
			rec(append(append([]string(nil), prefix...), a), n-1)
		}
	}
	for _, s := range starts {
		rec([]string{"S:" + s}, maxLen)
	}
	// requests that outlive the graceful period (each costs the 300 ms of the drain that times out): two or more listeners,
	// the long request on the first one, followed by further reloads
	long := [][]string{
		{"S:12", "L:12"}, {"S:12", "L:21"}, {"S:12", "L:12", "R:12"}, {"S:12", "L:1"}, {"S:12", "L:2"}, {"S:12", "L:12x"},
		{"S:12", "L:13"}, {"S:1", "L:12"}, {"S:1", "L:1", "T:12"}, {"S:2", "L:12"}, {"S:12", "R:21", "L:12", "L:21"},
		{"S:12", "L:123"}, {"S:12", "T:12", "L:12", "R:1"},
	}
	for _, c := range long {
		g.Case(c...)
	}
	// HOW THE CONFIGURATION IS WRITTEN.  (a) one spelling throughout — sites in imported files that are rewritten for every
	// reload, a glob import, a snippet, one block for all addresses, another layout —: every reload, and every reload with a
	// request in flight, from every start; every pair of reloads over the kinds below (thorough: all kinds, R and T)
	pairKinds := []string{"1", "12", "21", "1x", "13", "1y"}
	if g.Thorough() {
		pairKinds = c07Kinds
	}
	for _, sp := range c07Spellings {
		w := "/" + string(sp)
		for _, s := range starts {
			for _, k1 := range c07Kinds {
				g.Case("S:"+s+w, "R:"+k1+w)
				g.Case("S:"+s+w, "T:"+k1+w)
			}
			for _, k1 := range pairKinds {
				for _, k2 := range pairKinds {
					g.Case("S:"+s+w, "R:"+k1+w, "R:"+k2+w)
					if g.Thorough() {
						g.Case("S:"+s+w, "T:"+k1+w, "R:"+k2+w)
						g.Case("S:"+s+w, "R:"+k1+w, "T:"+k2+w)
					}
				}
			}
		}
	}
	// (b) the spelling changes from one reload to the next (the file a site was imported from is left behind, an inline
	// site moves into a file and back): seeded random sequences, every operation in a spelling of its own
	spells := []string{"", "", "/i", "/I", "/g", "/s", "/m", "/o"}
	M := 250
	if g.Thorough() {
		M = 3000
	}
	for it := 0; it < M; it++ {
		ops := []string{"S:" + hx.Pick(g.Rng, starts) + hx.Pick(g.Rng, spells)}
		L := 2 + g.Rng.Intn(5)
		for i := 0; i < L; i++ {
			ops = append(ops, hx.Pick(g.Rng, alpha)+hx.Pick(g.Rng, spells))
		}
		g.Case(ops...)
	}
	// (c) a request that outlives the graceful period, configurations written with imports / in one block
	for _, c := range [][]string{{"S:12/i", "L:12/i"}, {"S:12/g", "L:21/g", "R:12/g"}, {"S:12/m", "L:12/m"}, {"S:12/I", "L:12/I", "T:12/I"}} {
		g.Case(c...)
	}
	if g.Thorough() {
		for it := 0; it < 60; it++ {
			ops := []string{"S:" + hx.Pick(g.Rng, starts)}
			L := 2 + g.Rng.Intn(4)
			for i := 0; i < L; i++ {
				if g.Rng.Chance(1, 3) {
					ops = append(ops, "L:"+hx.Pick(g.Rng, c07Kinds))
				} else {
					ops = append(ops, hx.Pick(g.Rng, alpha))
				}
			}
			g.Case(ops...)
		}
	}
	N := 200
	if g.Thorough() {
		N = 3000
	}
	for it := 0; it < N; it++ {
		ops := []string{"S:" + hx.Pick(g.Rng, starts)}
		L := 3 + g.Rng.Intn(6)
		for i := 0; i < L; i++ {
			ops = append(ops, hx.Pick(g.Rng, alpha))
		}
		g.Case(ops...)
	}
	for _, m := range [][]string{{"R:1"}, {"S:"}, {"S:1", "Q"}, {"S:4"}, {"S:1x"}, {"S:3"}, {"S:1", "R:"},
		{"S:1/z"}, {"S:1/"}, {"S:1/ii"}, {"S:1", "R:1/i/i"}, {"S:/i"}, {"S:1y"}, {"S:1", "R:1xy"}, {"S:1/i", "R:1/"}} {
		g.Case(m...)
	}
}

func init() {
	hx.Register(&hx.Stream{ID: "C07", Name: "c07.handover", Gen: c07Gen, Eval: c07Eval, Serial: true, Setup: c07Setup, Teardown: c07Teardown})
	hx.Register(&hx.Stream{ID: "C07", Name: "c07.storm", Gen: c07StormGen, Eval: c07StormEval, Serial: true, Setup: c07Setup, Teardown: c07Teardown})
}
