//go:build c07

package streams

import (
	"bufio"
	"fmt"
	"io"
	"log"
	"net"
	"net/http"
	"os"
	"path/filepath"
	"runtime"
	"sort"
	"strconv"
	"strings"
	"sync"
	"syscall"
	"time"

	"github.com/tmpim/casket"
	_ "github.com/tmpim/casket/caskethttp"
	"github.com/tmpim/casket/caskethttp/httpserver"

	"verifharness/hx"
)

// c07.handover  S:<kind>  op op …
//
//   S:<kind>   casket.Start on the addresses of <kind> (generation 1)
//   R:<kind>   Instances()[0].Restart(configuration of <kind>); the k-th op is generation k+1
//   T:<kind>   the same with a request in flight: a client has connected to address 1 and sent half of its
//              request when Restart is called; once the old listener of address 1 is closed a fresh connection
//              probes address 1 (`mid`); then the first client completes its request (`str`); then Restart returns
//
//   L:<kind>   the same with a request that OUTLIVES the graceful period (`-grace`, set to 300 ms for this stream): the drain
//              of the server of address 1 times out, Restart returns, only then does the client complete its request
//
//   kind = the addresses served: digits 1, 2 (free loopback ports chosen per case) and 3 (a port another listener
//          holds), suffix x = the configuration fails during setup
//   every site answers with its generation number, so a response says which configuration produced it
//
//   out = step|step|…   step = <res>;fd=<f1>.<f2>;sk=<s1>.<s2>;p=<m1>.<m2>;ni=<n>[;mid=<m>][;str=<m>]     ni = len(casket.Instances())
//     fd  listening descriptors on address 1 / 2          sk  identity of the listening socket (inode), renamed in
//     p   answer to a fresh connection: generation, - (refused), hang            order of first appearance, 0 = none

var c07 struct {
	inited  bool
	busy    net.Listener
	p3      int
	dir     string
	portCur int
	hangs   int
}

const c07Patience = 30 * time.Second

func c07Setup() error {
	if !c07.inited {
		c07.inited = true
		casket.Quiet = true
		// the graceful period of every server this stream creates: short, so that a request can outlive it (L: operations)
		httpserver.GracefulTimeout = 300 * time.Millisecond
	}
	log.SetOutput(io.Discard)
	dir, err := os.MkdirTemp("", "verif-c07-")
	if err != nil {
		return err
	}
	c07.dir = dir
	c07.p3 = c07BusyPort.reserve(false) // held (locked and bound) for the whole run
	ln, err := net.Listen("tcp", fmt.Sprintf("127.0.0.1:%d", c07.p3))
	if err != nil {
		return err
	}
	c07.busy = ln
	return nil
}

func c07Teardown() {
	casket.Stop()
	log.SetOutput(os.Stderr)
	if c07.busy != nil {
		c07.busy.Close()
		c07.busy = nil
	}
	c07BusyPort.release()
	c07Ports.release()
	os.RemoveAll(c07.dir)
}

var c07Ports, c07BusyPort verifPorts

func c07FreePort() int { return c07Ports.reserve(false) }

type c07Kind struct {
	addrs []int
	fail  bool
}

func c07ParseKind(s string) (c07Kind, bool) {
	var k c07Kind
	if strings.HasSuffix(s, "x") {
		k.fail = true
		s = s[:len(s)-1]
	}
	if s == "" {
		return k, false
	}
	for _, ch := range s {
		if ch < '1' || ch > '3' {
			return k, false
		}
		k.addrs = append(k.addrs, int(ch-'0'))
	}
	return k, true
}

func (k c07Kind) has(a int) bool {
	for _, x := range k.addrs {
		if x == a {
			return true
		}
	}
	return false
}

func c07Input(k c07Kind, gen int, p [4]int) casket.Input {
	root := filepath.Join(c07.dir, fmt.Sprintf("g%d", gen))
	os.MkdirAll(root, 0o755)
	os.WriteFile(filepath.Join(root, "index.html"), []byte(strconv.Itoa(gen)), 0o644)
	var b strings.Builder
	seen := map[int]bool{}
	for _, a := range k.addrs {
		if seen[a] {
			continue
		}
		seen[a] = true
		fmt.Fprintf(&b, "127.0.0.1:%d {\n root %s\n", p[a], root)
		if k.fail {
			b.WriteString(" timeouts bogus\n")
		}
		b.WriteString("}\n")
	}
	return casket.CasketfileInput{ServerTypeName: "http", Filepath: "verif", Contents: []byte(b.String())}
}

type c07Sock struct {
	fd  int
	ino string
}

// listening sockets of this process on the port, and accepted (server side) connections on it
func c07Socks(port int) (listening []c07Sock, accepted int) {
	ents, _ := os.ReadDir("/proc/self/fd")
	for _, e := range ents {
		fd, err := strconv.Atoi(e.Name())
		if err != nil {
			continue
		}
		v, err := syscall.GetsockoptInt(fd, syscall.SOL_SOCKET, syscall.SO_ACCEPTCONN)
		if err != nil {
			continue
		}
		sa, err := syscall.Getsockname(fd)
		if err != nil {
			continue
		}
		lp := 0
		switch a := sa.(type) {
		case *syscall.SockaddrInet4:
			lp = a.Port
		case *syscall.SockaddrInet6:
			lp = a.Port
		}
		if lp != port {
			continue
		}
		if v == 1 {
			ino, _ := os.Readlink("/proc/self/fd/" + e.Name())
			listening = append(listening, c07Sock{fd, ino})
		} else {
			accepted++
		}
	}
	return
}

// has this process accepted (accept(2) returned) the connection that the client made from local port `peer` to `port`?
func c07Accepted(port, peer int) bool {
	ents, _ := os.ReadDir("/proc/self/fd")
	for _, e := range ents {
		fd, err := strconv.Atoi(e.Name())
		if err != nil {
			continue
		}
		if v, err := syscall.GetsockoptInt(fd, syscall.SOL_SOCKET, syscall.SO_ACCEPTCONN); err != nil || v != 0 {
			continue
		}
		sa, err := syscall.Getsockname(fd)
		if err != nil {
			continue
		}
		pa, err := syscall.Getpeername(fd)
		if err != nil {
			continue
		}
		lp, pp := 0, 0
		if a, ok := sa.(*syscall.SockaddrInet4); ok {
			lp = a.Port
		} else if a, ok := sa.(*syscall.SockaddrInet6); ok {
			lp = a.Port
		}
		if a, ok := pa.(*syscall.SockaddrInet4); ok {
			pp = a.Port
		} else if a, ok := pa.(*syscall.SockaddrInet6); ok {
			pp = a.Port
		}
		if lp == port && pp == peer {
			return true
		}
	}
	return false
}

func c07ProbeOnce(port int, patience time.Duration) string {
	tr := &http.Transport{DisableKeepAlives: true}
	defer tr.CloseIdleConnections()
	cl := &http.Client{Transport: tr, Timeout: patience}
	resp, err := cl.Get(fmt.Sprintf("http://127.0.0.1:%d/", port))
	if err != nil {
		s := err.Error()
		switch {
		case strings.Contains(s, "refused"):
			return "-"
		case strings.Contains(s, "Timeout") || strings.Contains(s, "deadline"):
			return "hang"
		case strings.Contains(s, "reset") || strings.Contains(s, "EOF"):
			return "e:reset"
		}
		return "e:other"
	}
	defer resp.Body.Close()
	b, _ := io.ReadAll(io.LimitReader(resp.Body, 64))
	if resp.StatusCode != 200 {
		return "e:" + strconv.Itoa(resp.StatusCode)
	}
	return strings.TrimSpace(string(b))
}

// see c08Probe: patient unless the run is already full of hangs
func c07Probe(port int) string {
	if c07.hangs >= 8 {
		return c07ProbeOnce(port, 60*time.Millisecond)
	}
	r := c07ProbeOnce(port, 700*time.Millisecond)
	for attempt := 0; attempt < 2 && r == "hang"; attempt++ {
		r = c07ProbeOnce(port, 2500*time.Millisecond)
	}
	if r == "hang" {
		c07.hangs++
	}
	return r
}

type c07Obs struct {
	seen []string // socket inodes in order of first appearance
}

func (o *c07Obs) name(ino string) int {
	for i, s := range o.seen {
		if s == ino {
			return i + 1
		}
	}
	o.seen = append(o.seen, ino)
	return len(o.seen)
}

func (o *c07Obs) observe(p [4]int) string {
	var fd, sk [3]int
	for a := 1; a <= 2; a++ {
		ls, _ := c07Socks(p[a])
		fd[a] = len(ls)
		if len(ls) > 0 {
			sk[a] = o.name(ls[0].ino)
			for _, l := range ls[1:] {
				if l.ino != ls[0].ino {
					sk[a] = 99 // two different sockets listening on one port
				}
			}
		}
	}
	return fmt.Sprintf("fd=%d.%d;sk=%d.%d;p=%s.%s;ni=%d", fd[1], fd[2], sk[1], sk[2], c07Probe(p[1]), c07Probe(p[2]), len(casket.Instances()))
}

func c07Eval(f []string) (string, []string) {
	casket.Stop()
	casket.VerifC08ResetInstances()
	if len(f) == 0 || !strings.HasPrefix(f[0], "S:") {
		return "bad-case", nil
	}
	k0, ok := c07ParseKind(f[0][2:])
	if !ok || k0.fail || k0.has(3) {
		return "bad-case", nil
	}
	type op struct {
		straddle bool
		long     bool
		k        c07Kind
	}
	var ops []op
	for _, s := range f[1:] {
		if !strings.HasPrefix(s, "R:") && !strings.HasPrefix(s, "T:") && !strings.HasPrefix(s, "L:") {
			return "bad-case", nil
		}
		k, ok := c07ParseKind(s[2:])
		if !ok {
			return "bad-case", nil
		}
		ops = append(ops, op{s[0] == 'T', s[0] == 'L', k})
	}
	var p [4]int
	c07Ports.release()
	p[1], p[2], p[3] = c07FreePort(), c07FreePort(), c07.p3
	tags := map[string]bool{}
	obs := &c07Obs{}
	if _, err := casket.Start(c07Input(k0, 1, p)); err != nil {
		return "setup-error:" + err.Error(), nil
	}
	steps := []string{"ok;" + obs.observe(p)}
	cur := k0
	for i, o := range ops {
		gen := i + 2
		insts := casket.Instances()
		if len(insts) == 0 {
			return "setup-error:no instance", nil
		}
		in := c07Input(o.k, gen, p)
		res := "ok"
		extra := ""
		if o.long {
			// a request that outlives the graceful period
			str := "-"
			conn, err := net.DialTimeout("tcp", fmt.Sprintf("127.0.0.1:%d", p[1]), 2*time.Second)
			if err == nil {
				conn.Write([]byte("GET / HTTP/1.1\r\nHost: 127.0.0.1\r\nConnection: close\r\n"))
				peer := conn.LocalAddr().(*net.TCPAddr).Port
				deadline := time.Now().Add(c07Patience)
				for time.Now().Before(deadline) && !c07Accepted(p[1], peer) {
					time.Sleep(200 * time.Microsecond)
				}
			}
			if _, err := insts[0].Restart(in); err != nil { // returns after the drain of the busy server timed out
				res = "err"
			}
			if conn != nil {
				conn.SetDeadline(time.Now().Add(c07Patience))
				conn.Write([]byte("\r\n"))
				resp, err := http.ReadResponse(bufio.NewReader(conn), nil)
				if err != nil {
					str = "e:reset"
				} else {
					b, _ := io.ReadAll(io.LimitReader(resp.Body, 64))
					resp.Body.Close()
					str = strings.TrimSpace(string(b))
					if resp.StatusCode != 200 {
						str = "e:" + strconv.Itoa(resp.StatusCode)
					}
				}
				conn.Close()
			}
			extra = ";str=" + str
			tags["longflight-"+res] = true
		} else if !o.straddle {
			if _, err := insts[0].Restart(in); err != nil {
				res = "err"
			}
			tags["reload-"+res] = true
		} else {
			before, _ := c07Socks(p[1])
			trace := os.Getenv("VERIF_TRACE") != ""
			var tlog []string
			t0 := time.Now()
			note := func(f string, a ...interface{}) {
				if trace {
					tlog = append(tlog, fmt.Sprintf("%6dus ", time.Since(t0).Microseconds())+fmt.Sprintf(f, a...))
				}
			}
			str := "-"
			conn, err := net.DialTimeout("tcp", fmt.Sprintf("127.0.0.1:%d", p[1]), 2*time.Second)
			if err == nil {
				conn.Write([]byte("GET / HTTP/1.1\r\nHost: 127.0.0.1\r\nConnection: close\r\n"))
				// the old instance must have accepted it before the reload starts: its server-side socket (local port p1,
				// peer = our local port) shows up in the fd table.  (A request whose header is not complete 5 s after the
				// connection was made is treated as idle by net/http's Shutdown: do not dawdle.)
				peer := conn.LocalAddr().(*net.TCPAddr).Port
				deadline := time.Now().Add(c07Patience)
				for time.Now().Before(deadline) {
					if c07Accepted(p[1], peer) {
						note("accepted")
						break
					}
					time.Sleep(200 * time.Microsecond)
				}
			}
			done := make(chan error, 1)
			note("restart starts")
			go func() { _, err := insts[0].Restart(in); note("restart returned %v", err); done <- err }()
			finished := false
			var rerr error
			deadline := time.Now().Add(c07Patience)
		wait:
			for time.Now().Before(deadline) {
				select {
				case rerr = <-done:
					finished = true
					break wait
				default:
				}
				now, _ := c07Socks(p[1])
				handed := true
				for _, n := range now {
					for _, b := range before {
						if n.fd == b.fd {
							handed = false
						}
					}
				}
				if handed && conn != nil {
					note("handed over: now=%v", now)
					break
				}
				time.Sleep(200 * time.Microsecond)
			}
			mid := c07Probe(p[1])
			note("mid=%s finished=%v", mid, finished)
			if conn != nil {
				conn.SetDeadline(time.Now().Add(c07Patience))
				conn.Write([]byte("\r\n"))
				resp, err := http.ReadResponse(bufio.NewReader(conn), nil)
				if err != nil {
					str = "e:reset"
					if os.Getenv("VERIF_TRACE") != "" {
						now, acc := c07Socks(p[1])
						fmt.Fprintln(os.Stderr, "straddler:", err, "restart finished before completion:", finished, "listening now:", len(now), "accepted now:", acc, "before fds:", before)
						for _, l := range tlog {
							fmt.Fprintln(os.Stderr, "   ", l)
						}
					}
				} else {
					b, _ := io.ReadAll(io.LimitReader(resp.Body, 64))
					resp.Body.Close()
					str = strings.TrimSpace(string(b))
					if resp.StatusCode != 200 {
						str = "e:" + strconv.Itoa(resp.StatusCode)
					}
				}
				conn.Close()
			}
			if !finished {
				select {
				case rerr = <-done:
				case <-time.After(c07Patience):
					res = "timeout"
				}
			}
			if rerr != nil {
				res = "err"
			}
			extra = ";mid=" + mid + ";str=" + str
			tags["straddle-"+res] = true
		}
		if res == "ok" {
			cur = o.k
		}
		steps = append(steps, res+";"+obs.observe(p)+extra)
	}
	_ = cur
	casket.Stop()
	casket.VerifC08ResetInstances()
	tl := []string{fmt.Sprintf("len=%d", len(f))}
	for t := range tags {
		tl = append(tl, t)
	}
	sort.Strings(tl)
	return strings.Join(steps, "|"), tl
}

// ---- c07.storm: reload storms under concurrent clients (exploration of real schedules) ----
//
//   c07.storm  kinds  reloads  requests
//
// The GENERATOR runs the storm against the real code and records it as the case: one instance serving address 1 (and
// sometimes 2), `clients` goroutines making GET requests to address 1, each on a fresh connection, while a sequence of
// reloads runs (valid configurations and ones failing at setup or at listen time; every one of them keeps address 1).
// Time is a shared logical clock (one tick per recorded event).
//   reloads  = call:ret:gen:ok, …          requests = start:stop:answer, …   (answer = generation read from the body, - = failed)
// Eval only summarises the recorded trace (`reloads=<ok>/<all>;requests=<answered>/<all>`); the property is evaluated by the
// Lean judge on the trace.  A storm is one schedule the scheduler and the kernel happened to produce: exploration, not proof.

type c07Tick struct {
	mu sync.Mutex
	n  int
}

func (t *c07Tick) next() int { t.mu.Lock(); t.n++; n := t.n; t.mu.Unlock(); return n }

func c07Request(port int) (answer string) {
	conn, err := net.DialTimeout("tcp", fmt.Sprintf("127.0.0.1:%d", port), c07Patience)
	if err != nil {
		return "-"
	}
	defer conn.Close()
	conn.SetDeadline(time.Now().Add(c07Patience))
	if _, err := conn.Write([]byte("GET / HTTP/1.1\r\nHost: 127.0.0.1\r\nConnection: close\r\n\r\n")); err != nil {
		return "-"
	}
	resp, err := http.ReadResponse(bufio.NewReader(conn), nil)
	if err != nil {
		return "-"
	}
	defer resp.Body.Close()
	b, err := io.ReadAll(io.LimitReader(resp.Body, 64))
	if err != nil || resp.StatusCode != 200 {
		return "-"
	}
	if _, err := strconv.Atoi(strings.TrimSpace(string(b))); err != nil {
		return "-"
	}
	return strings.TrimSpace(string(b))
}

func c07Storm(rng *hx.Rng, nReloads, clients int) (kinds, reloads, requests string) {
	casket.Stop()
	casket.VerifC08ResetInstances()
	var p [4]int
	c07Ports.release()
	p[1], p[2], p[3] = c07FreePort(), c07FreePort(), c07.p3
	k0, _ := c07ParseKind("1")
	if _, err := casket.Start(c07Input(k0, 1, p)); err != nil {
		return "start-failed", "", ""
	}
	clock := &c07Tick{}
	var mu sync.Mutex
	var reqs []string
	stop := make(chan struct{})
	var wg sync.WaitGroup
	for c := 0; c < clients; c++ {
		wg.Add(1)
		go func() {
			defer wg.Done()
			for {
				select {
				case <-stop:
					return
				default:
				}
				t0 := clock.next()
				a := c07Request(p[1])
				t1 := clock.next()
				mu.Lock()
				reqs = append(reqs, fmt.Sprintf("%d:%d:%s", t0, t1, a))
				mu.Unlock()
			}
		}()
	}
	pool := []string{"1", "12", "1", "12", "1x", "13", "12x", "123"}
	var ks, rs []string
	for i := 0; i < nReloads; i++ {
		kind := hx.Pick(rng, pool)
		k, _ := c07ParseKind(kind)
		gen := i + 2
		in := c07Input(k, gen, p)
		insts := casket.Instances()
		if len(insts) == 0 {
			break
		}
		t0 := clock.next()
		_, err := insts[0].Restart(in)
		t1 := clock.next()
		okS := "1"
		if err != nil {
			okS = "0"
		}
		ks = append(ks, kind)
		rs = append(rs, fmt.Sprintf("%d:%d:%d:%s", t0, t1, gen, okS))
		if d := rng.Intn(4); d > 0 {
			time.Sleep(time.Duration(d) * 300 * time.Microsecond)
		}
	}
	// a few more requests after the last reload returned
	time.Sleep(2 * time.Millisecond)
	close(stop)
	wg.Wait()
	casket.Stop()
	casket.VerifC08ResetInstances()
	return strings.Join(ks, ","), strings.Join(rs, ","), strings.Join(reqs, ",")
}

func c07StormGen(g *hx.Gen) {
	storms, nReloads := 10, 30
	if g.Thorough() {
		storms, nReloads = 40, 50
	}
	for s := 0; s < storms; s++ {
		clients := 2 + g.Rng.Intn(7)
		if g.Thorough() {
			procs := []int{1, 4, 16}[s%3]
			old := runtime.GOMAXPROCS(procs)
			ks, rs, qs := c07Storm(g.Rng, nReloads, clients)
			runtime.GOMAXPROCS(old)
			g.Case(ks, rs, qs)
			continue
		}
		ks, rs, qs := c07Storm(g.Rng, nReloads, clients)
		g.Case(ks, rs, qs)
	}
	g.Case("", "", "")
}

func c07StormEval(f []string) (string, []string) {
	if len(f) != 3 {
		return "bad-case", nil
	}
	okR, allR, okQ, allQ := 0, 0, 0, 0
	if f[1] != "" {
		for _, r := range strings.Split(f[1], ",") {
			p := strings.Split(r, ":")
			if len(p) != 4 {
				return "bad-case", nil
			}
			allR++
			if p[3] == "1" {
				okR++
			}
		}
	}
	if f[2] != "" {
		for _, q := range strings.Split(f[2], ",") {
			p := strings.Split(q, ":")
			if len(p) != 3 {
				return "bad-case", nil
			}
			allQ++
			if p[2] != "-" {
				okQ++
			}
		}
	}
	tags := []string{fmt.Sprintf("reloads=%d", allR)}
	if allQ == 0 {
		tags = append(tags, "trivial-no-requests")
	} else if allQ > 100 {
		tags = append(tags, "requests>100")
	} else {
		tags = append(tags, "requests<=100")
	}
	if okR < allR {
		tags = append(tags, "with-failed-reloads")
	}
	return fmt.Sprintf("reloads=%d/%d;requests=%d/%d", okR, allR, okQ, allQ), tags
}

var c07Kinds = []string{"1", "12", "2", "21", "1x", "12x", "13", "123", "3"}

func c07Gen(g *hx.Gen) {
	starts := []string{"1", "12", "2"}
	var alpha []string
	for _, k := range c07Kinds {
		alpha = append(alpha, "R:"+k, "T:"+k)
	}
	maxLen := 2
	if g.Thorough() {
		maxLen = 3
	}
	var rec func(prefix []string, n int)
	rec = func(prefix []string, n int) {
		if len(prefix) > 1 {
			g.Case(prefix...)
		}
		if n == 0 {
			return
		}
		for _, a := range alpha {
			rec(append(append([]string(nil), prefix...), a), n-1)
		}
	}
	for _, s := range starts {
		rec([]string{"S:" + s}, maxLen)
	}
	// requests that outlive the graceful period (each costs the 300 ms of the drain that times out): two or more listeners,
	// the long request on the first one, followed by further reloads
	long := [][]string{
		{"S:12", "L:12"}, {"S:12", "L:21"}, {"S:12", "L:12", "R:12"}, {"S:12", "L:1"}, {"S:12", "L:2"}, {"S:12", "L:12x"},
		{"S:12", "L:13"}, {"S:1", "L:12"}, {"S:1", "L:1", "T:12"}, {"S:2", "L:12"}, {"S:12", "R:21", "L:12", "L:21"},
		{"S:12", "L:123"}, {"S:12", "T:12", "L:12", "R:1"},
	}
	for _, c := range long {
		g.Case(c...)
	}
	if g.Thorough() {
		for it := 0; it < 60; it++ {
			ops := []string{"S:" + hx.Pick(g.Rng, starts)}
			L := 2 + g.Rng.Intn(4)
			for i := 0; i < L; i++ {
				if g.Rng.Chance(1, 3) {
					ops = append(ops, "L:"+hx.Pick(g.Rng, c07Kinds))
				} else {
					ops = append(ops, hx.Pick(g.Rng, alpha))
				}
			}
			g.Case(ops...)
		}
	}
	N := 200
	if g.Thorough() {
		N = 3000
	}
	for it := 0; it < N; it++ {
		ops := []string{"S:" + hx.Pick(g.Rng, starts)}
		L := 3 + g.Rng.Intn(6)
		for i := 0; i < L; i++ {
			ops = append(ops, hx.Pick(g.Rng, alpha))
		}
		g.Case(ops...)
	}
	for _, m := range [][]string{{"R:1"}, {"S:"}, {"S:1", "Q"}, {"S:4"}, {"S:1x"}, {"S:3"}, {"S:1", "R:"}} {
		g.Case(m...)
	}
}

func init() {
	hx.Register(&hx.Stream{ID: "C07", Name: "c07.handover", Gen: c07Gen, Eval: c07Eval, Serial: true, Setup: c07Setup, Teardown: c07Teardown})
	hx.Register(&hx.Stream{ID: "C07", Name: "c07.storm", Gen: c07StormGen, Eval: c07StormEval, Serial: true, Setup: c07Setup, Teardown: c07Teardown})
}
