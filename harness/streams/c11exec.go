//go:build c11

package streams

import (
	"fmt"
	"strings"

	"github.com/tmpim/casket"
	"github.com/tmpim/casket/casketfile"

	"verifharness/hx"
)

// c11.exec  confighex  cbfail
//
// The tie for Model/Exec.lean: a probe server type "c11probe" with directives d1 d2 d3 (in that order) whose
// setup functions record (directive, block index, key index, key, every token the controller dispenses) and fail
// when one of the tokens is FAIL; parsing callbacks after d1 and d3 record themselves and fail when the case says
// so.  The real casket.ValidateAndExecuteDirectives runs the configuration in validate mode and in start mode.
//
//	out = V=<trace>/<ok|err>|S=<trace>/<ok|err>     trace = entries joined by ","
//	      entry = s:<dir>:<block>:<keyidx>:<keyhex>:<tokhex.tokhex…>   or   c:<dir>

var (
	c11Trace  []string
	c11CbFail string
)

type c11Ctx struct{}

func (c *c11Ctx) InspectServerBlocks(path string, sbs []casketfile.ServerBlock) ([]casketfile.ServerBlock, error) {
	return sbs, nil
}
func (c *c11Ctx) MakeServers() ([]casket.Server, error) { return nil, nil }

func c11Probe(dir string) casket.SetupFunc {
	return func(c *casket.Controller) error {
		var toks []string
		fail := false
		for c.Next() {
			toks = append(toks, hx.HS(c.Val()))
			if c.Val() == "FAIL" {
				fail = true
			}
		}
		c11Trace = append(c11Trace, fmt.Sprintf("s:%s:%d:%d:%s:%s", dir, c.ServerBlockIndex, c.ServerBlockKeyIndex, hx.HS(c.Key), strings.Join(toks, ".")))
		if fail {
			return fmt.Errorf("probe %s asked to fail", dir)
		}
		return nil
	}
}

func c11Callback(dir string) casket.ParsingCallback {
	return func(casket.Context) error {
		c11Trace = append(c11Trace, "c:"+dir)
		if c11CbFail == dir {
			return fmt.Errorf("callback %s asked to fail", dir)
		}
		return nil
	}
}

func init() {
	dirs := []string{"d1", "d2", "d3"}
	casket.RegisterServerType("c11probe", casket.ServerType{
		Directives:   func() []string { return dirs },
		DefaultInput: func() casket.Input { return casket.CasketfileInput{ServerTypeName: "c11probe"} },
		NewContext:   func(*casket.Instance) casket.Context { return &c11Ctx{} },
	})
	for _, d := range dirs {
		casket.RegisterPlugin(d, casket.Plugin{ServerType: "c11probe", Action: c11Probe(d)})
	}
	casket.RegisterParsingCallback("c11probe", "d1", c11Callback("d1"))
	casket.RegisterParsingCallback("c11probe", "d3", c11Callback("d3"))
	hx.Register(&hx.Stream{ID: "C11", Name: "c11.exec", Gen: c11ExecGen, Eval: c11ExecEval, Serial: true})
}

func c11ExecRun(body []byte, validate bool) string {
	c11Trace = nil
	in := casket.CasketfileInput{Filepath: "Casketfile", Contents: body, ServerTypeName: "c11probe"}
	var inst *casket.Instance
	if !validate {
		inst = casket.VerifNewInstance("c11probe")
	}
	err := casket.ValidateAndExecuteDirectives(in, inst, validate)
	res := "ok"
	if err != nil {
		res = "err"
	}
	return strings.Join(c11Trace, ",") + "/" + res
}

func c11ExecEval(f []string) (string, []string) {
	if len(f) != 2 {
		return "bad-case", nil
	}
	body := hx.UnH(f[0])
	c11CbFail = f[1]
	v := c11ExecRun(body, true)
	s := c11ExecRun(body, false)
	tags := []string{"setups=" + c11Bucket(strings.Count(v, "s:"))}
	if strings.Count(v, "s:") == 0 {
		tags = append(tags, "trivial-no-setup-call")
	}
	if strings.HasSuffix(v, "/err") {
		tags = append(tags, "setup-fails")
	}
	if f[1] != "-" {
		tags = append(tags, "callback-fails")
	}
	return "V=" + v + "|S=" + s, tags
}

func c11ExecGen(g *hx.Gen) {
	r := g.Rng
	N := 1500
	if g.Thorough() {
		N = 30000
	}
	emitCfg := func(nb int, exhaustive int) string {
		var sb strings.Builder
		for b := 0; b < nb; b++ {
			nk := 1 + r.Intn(2)
			for k := 0; k < nk; k++ {
				if k > 0 {
					sb.WriteString(", ")
				}
				fmt.Fprintf(&sb, "k%d%d", b, k)
			}
			sb.WriteString(" {\n")
			for l := r.Intn(5); l > 0; l-- {
				d := hx.Pick(r, []string{"d1", "d2", "d3", "d3", "d2"})
				sb.WriteString("\t" + d)
				for a := r.Intn(3); a > 0; a-- {
					if r.Chance(1, 12) {
						sb.WriteString(" FAIL")
					} else {
						sb.WriteString(" " + hx.Pick(r, []string{"a", "b", "\"x y\""}))
					}
				}
				if r.Chance(1, 5) {
					sb.WriteString(" {\n\t\tsub " + hx.Pick(r, []string{"a", "FAIL", "b"}) + "\n\t}")
				}
				sb.WriteString("\n")
			}
			sb.WriteString("}\n")
		}
		return sb.String()
	}
	// small exhaustive core: which of d1 d2 d3 appear in each of two blocks, who fails, which callback fails
	for mask := 0; mask < 64; mask++ {
		for fail := 0; fail < 7; fail++ {
			for _, cb := range []string{"-", "d1", "d3"} {
				var sb strings.Builder
				for b := 0; b < 2; b++ {
					fmt.Fprintf(&sb, "k%d, j%d {\n", b, b)
					for d := 0; d < 3; d++ {
						if mask>>(b*3+d)&1 == 1 {
							arg := "a"
							if fail == b*3+d+1 {
								arg = "FAIL"
							}
							fmt.Fprintf(&sb, "\td%d %s\n", 3-d, arg) // written in reverse order on purpose
						}
					}
					sb.WriteString("}\n")
				}
				g.Case(hx.HS(sb.String()), cb)
			}
		}
	}
	for i := 0; i < N; i++ {
		g.Case(hx.HS(emitCfg(1+r.Intn(3), 0)), hx.Pick(r, []string{"-", "-", "-", "d1", "d3"}))
	}
}
