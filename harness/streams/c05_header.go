//go:build c05

package streams

import (
	"bufio"
	"fmt"
	"net/http"
	"strconv"
	"strings"

	"github.com/tmpim/casket/casketfile"
	"github.com/tmpim/casket/caskethttp/proxy"

	"verifharness/hx"
)

// c05.hdr  names  pool  robin  reqs
//   names  the header names AS WRITTEN after `policy header` in the Casketfile, space separated (x-session-id, X-SESSION-ID,
//          X-Session-Id, ...): plain tokens
//   pool   comma list of d/c/m as in c05.select; the states are set once and stay unchanged for all requests of the case
//   robin  the shared round-robin counter (fallback of the header policy) before the first request
//   reqs   ';' list of requests, a request = '|' list of header lines  <name as sent>:<value hex>  (a header may come on
//          several lines; the empty request carries none of them)
//   out    comma list of the backends chosen for the requests TAB counter after the last one ;
//          config-rejected when names is empty (`policy header` without a name) and the block is refused
//
// The real code path: proxy.NewStaticUpstreams (Casketfile tokens -> Header{Names}) ; http.ReadRequest on the bytes of the
// request (net/http canonicalises the header map) ; staticUpstream.Select for every request in turn.

func c05HdrRequest(lines string) (*http.Request, bool) {
	var b strings.Builder
	b.WriteString("GET / HTTP/1.1\r\nHost: example.test\r\n")
	if lines != "" {
		for _, l := range strings.Split(lines, "|") {
			nv := strings.SplitN(l, ":", 2)
			if len(nv) != 2 || nv[0] == "" {
				return nil, false
			}
			v := hx.UnHS(nv[1])
			if strings.ContainsAny(v, "\r\n \t") {
				return nil, false
			}
			b.WriteString(nv[0] + ": " + v + "\r\n")
		}
	}
	b.WriteString("\r\n")
	req, err := http.ReadRequest(bufio.NewReader(strings.NewReader(b.String())))
	if err != nil {
		return nil, false
	}
	req.RemoteAddr = "192.0.2.1:4000"
	return req, true
}

func c05HdrEval(f []string) (string, []string) {
	if len(f) != 4 || f[1] == "" {
		return "bad-case", nil
	}
	names, poolS, robinS := f[0], f[1], f[2]
	hosts := strings.Split(poolS, ",")
	n := len(hosts)
	backends := make([]string, n)
	for i := range backends {
		backends[i] = fmt.Sprintf("h%d.test:80", i)
	}
	cfg := "proxy / " + strings.Join(backends, " ") + " {\n\tpolicy header " + names + "\n}\n"
	ups, err := proxy.NewStaticUpstreams(casketfile.NewDispenser("Testfile", strings.NewReader(cfg)), "")
	if err != nil && names == "" {
		// `policy header` without a name: the configuration is refused
		return "config-rejected", []string{"policy-header-without-a-name"}
	}
	if err != nil || len(ups) != 1 {
		return fmt.Sprintf("setup-error:%v", err), nil
	}
	up := ups[0]
	defer up.Stop()
	pool := proxy.VerifHosts(up)
	if len(pool) != n {
		return "setup-error:pool", nil
	}
	orig := make(proxy.HostPool, n)
	copy(orig, pool)
	var reqs []*http.Request
	for _, r := range strings.Split(f[3], ";") {
		req, ok := c05HdrRequest(r)
		if !ok {
			return "bad-case:request", nil
		}
		reqs = append(reqs, req)
	}
	robin, _ := strconv.ParseUint(robinS, 10, 32)
	c05mu.Lock()
	defer c05mu.Unlock()
	rr := proxy.VerifGlobalRobin()
	proxy.VerifSetRobin(rr, uint32(robin))
	nAvail := 0
	var outs []string
	for ri, req := range reqs {
		// availability unchanged: the same states before every Select
		nAvail = 0
		for i, hs := range hosts {
			p := strings.Split(hs, "/")
			if len(p) != 3 {
				return "bad-case", nil
			}
			c, _ := strconv.ParseInt(p[1], 10, 64)
			m, _ := strconv.ParseInt(p[2], 10, 64)
			orig[i].Conns, orig[i].MaxConns = c, m
			orig[i].Unhealthy, orig[i].Fails = 0, 0
			switch p[0] {
			case "1":
				orig[i].Unhealthy = 1
			case "2":
				orig[i].Fails = 1
			}
			if orig[i].Available() {
				nAvail++
			}
		}
		_ = ri
		h := up.Select(req)
		choice := "-"
		if h != nil {
			choice = "foreign-host"
			for i := range orig {
				if orig[i] == h {
					choice = strconv.Itoa(i)
				}
			}
		}
		outs = append(outs, choice)
	}
	tags := []string{fmt.Sprintf("n=%d", n), fmt.Sprintf("reqs=%d", len(reqs))}
	canon := true
	for _, nm := range strings.Fields(names) {
		if http.CanonicalHeaderKey(nm) != nm {
			canon = false
		}
	}
	if canon {
		tags = append(tags, "name-written-canonically")
	} else {
		tags = append(tags, "name-not-written-canonically")
	}
	if strings.Contains(f[3], "|") {
		tags = append(tags, "several-header-lines")
	}
	if nAvail < 2 {
		tags = append(tags, "trivial-fewer-than-two-available")
	} else {
		tags = append(tags, "two-or-more-available")
	}
	return strings.Join(outs, ",") + "\t" + strconv.FormatUint(uint64(proxy.VerifRobin(rr)), 10), tags
}

// spellings of one header name
func c05Spellings(canon string) []string {
	flip := []byte(canon)
	for i := range flip {
		if i%2 == 1 && flip[i] >= 'a' && flip[i] <= 'z' {
			flip[i] -= 32
		}
	}
	return []string{canon, strings.ToLower(canon), strings.ToUpper(canon), string(flip)}
}

func c05HdrGen(g *hx.Gen) {
	values := []string{"alice", "bob", "carol", "dave", "k", "some-longer-key-value"}
	line := func(name, v string) string { return name + ":" + hx.HS(v) }
	// exhaustive small scope: every availability mask of pools of 1..4 x every spelling of the configured name x
	// the spelling the client used; the same values come back with other keys in between
	maxN := 4
	if g.Thorough() {
		maxN = 6
	}
	for n := 1; n <= maxN; n++ {
		for mask := 0; mask < 1<<n; mask++ {
			hosts := make([]string, n)
			for i := range hosts {
				switch {
				case mask>>i&1 == 1:
					hosts[i] = fmt.Sprintf("0/%d/%d", i%2, (i%2)*5)
				case (i+mask)%3 == 0:
					hosts[i] = "1/0/0"
				case (i+mask)%3 == 1:
					hosts[i] = "2/0/0"
				default:
					hosts[i] = "0/3/3"
				}
			}
			for si, written := range c05Spellings("X-Session-Id") {
				for ci, sent := range c05Spellings("X-Session-Id")[:3] {
					var reqs []string
					for round := 0; round < 3; round++ {
						for vi := 0; vi < 3; vi++ {
							reqs = append(reqs, line(sent, values[(vi+mask+si)%len(values)]))
						}
					}
					if ci == 1 {
						reqs = append(reqs, "", line("X-Other", "alice"), "")
					}
					g.Case(written, strings.Join(hosts, ","), strconv.Itoa((mask+si+ci)%(n+2)), strings.Join(reqs, ";"))
				}
			}
		}
	}
	// `policy header` without a name
	for _, pool := range []string{"0/0/0", "0/0/0,0/0/0", "1/0/0,0/0/0,0/2/0", "1/0/0,2/0/0"} {
		g.Case("", pool, "0", ";"+line("X-Key", "alice")+";"+line("X-Key", "alice"))
	}
	// seeded: one or two configured names in a random spelling, pools of 2..7, requests with the header on one or several
	// lines, absent, empty, under another name; requests repeat
	N := 1200
	if g.Thorough() {
		N = 20000
	}
	pickName := func(canon string) string { return hx.Pick(g.Rng, c05Spellings(canon)) }
	for it := 0; it < N; it++ {
		canon := []string{hx.Pick(g.Rng, []string{"X-Session-Id", "Affinity", "X-Key"})}
		if g.Rng.Chance(1, 3) {
			canon = append(canon, hx.Pick(g.Rng, []string{"X-Key2", "Tenant"}))
		}
		written := make([]string, len(canon))
		for i, c := range canon {
			written[i] = pickName(c)
		}
		n := 2 + g.Rng.Intn(6)
		pool := c05RandomPool(g, n, 2+g.Rng.Intn(3))
		var distinct []string
		for d := 0; d < 2+g.Rng.Intn(3); d++ {
			var ls []string
			for _, c := range canon {
				k := g.Rng.Intn(4) // lines of this header
				if k == 3 {
					k = 1
				}
				for j := 0; j < k; j++ {
					v := fmt.Sprintf("u%d", g.Rng.Intn(50))
					if g.Rng.Chance(1, 12) {
						v = ""
					}
					ls = append(ls, line(pickName(c), v))
				}
			}
			if g.Rng.Chance(1, 4) {
				ls = append(ls, line("X-Other", "zzz"))
			}
			for a := len(ls) - 1; a > 0; a-- {
				b := g.Rng.Intn(a + 1)
				ls[a], ls[b] = ls[b], ls[a]
			}
			distinct = append(distinct, strings.Join(ls, "|"))
		}
		var reqs []string
		for r := 0; r < 4+g.Rng.Intn(6); r++ {
			reqs = append(reqs, hx.Pick(g.Rng, distinct))
		}
		robin := uint64(g.Rng.Intn(20))
		if g.Rng.Chance(1, 6) {
			robin = 4294967295 - uint64(g.Rng.Intn(10))
		}
		g.Case(strings.Join(written, " "), pool, strconv.FormatUint(robin, 10), strings.Join(reqs, ";"))
	}
}

func init() {
	hx.Register(&hx.Stream{ID: "C05", Name: "c05.hdr", Gen: c05HdrGen, Eval: c05HdrEval})
}
